# Sourced by bin/setup, bin/check, bin/mutants: offline Go environment for building against /repo.
VERIF_ROOT="$(cd "$(dirname "${BASH_SOURCE[0]}")/.." && pwd)"
export VERIF_ROOT
GO125=/root/go/pkg/mod/golang.org/toolchain@v0.0.1-go1.25.0.linux-amd64/bin/go
if [ -x "$GO125" ]; then
  export GO="$GO125" GOTOOLCHAIN=local
  export PATH="$(dirname "$GO125"):$PATH"
else
  export GO=go
fi
export GOFLAGS=-mod=mod GOPROXY=off
unset GOSUMDB
export GONOSUMDB='*' GONOSUMCHECK=1 GOFLAGS=-mod=mod
export GOCACHE="${GOCACHE:-/root/.cache/go-build}"
