// Tests for pattern matching infrastructure used to support .dockerignore
// files. Based on (but modified from)
// https://github.com/moby/patternmatcher/blob/c5e4b22c8cb290f9439a339c08bba6cb13aa296d/patternmatcher_test.go
//
// The original code license:
//
//                               Apache License
//                         Version 2.0, January 2004
//                      https://www.apache.org/licenses/
//
// TERMS AND CONDITIONS FOR USE, REPRODUCTION, AND DISTRIBUTION
//
// 1. Definitions.
//
//    "License" shall mean the terms and conditions for use, reproduction,
//    and distribution as defined by Sections 1 through 9 of this document.
//
//    "Licensor" shall mean the copyright owner or entity authorized by
//    the copyright owner that is granting the License.
//
//    "Legal Entity" shall mean the union of the acting entity and all
//    other entities that control, are controlled by, or are under common
//    control with that entity. For the purposes of this definition,
//    "control" means (i) the power, direct or indirect, to cause the
//    direction or management of such entity, whether by contract or
//    otherwise, or (ii) ownership of fifty percent (50%) or more of the
//    outstanding shares, or (iii) beneficial ownership of such entity.
//
//    "You" (or "Your") shall mean an individual or Legal Entity
//    exercising permissions granted by this License.
//
//    "Source" form shall mean the preferred form for making modifications,
//    including but not limited to software source code, documentation
//    source, and configuration files.
//
//    "Object" form shall mean any form resulting from mechanical
//    transformation or translation of a Source form, including but
//    not limited to compiled object code, generated documentation,
//    and conversions to other media types.
//
//    "Work" shall mean the work of authorship, whether in Source or
//    Object form, made available under the License, as indicated by a
//    copyright notice that is included in or attached to the work
//    (an example is provided in the Appendix below).
//
//    "Derivative Works" shall mean any work, whether in Source or Object
//    form, that is based on (or derived from) the Work and for which the
//    editorial revisions, annotations, elaborations, or other modifications
//    represent, as a whole, an original work of authorship. For the purposes
//    of this License, Derivative Works shall not include works that remain
//    separable from, or merely link (or bind by name) to the interfaces of,
//    the Work and Derivative Works thereof.
//
//    "Contribution" shall mean any work of authorship, including
//    the original version of the Work and any modifications or additions
//    to that Work or Derivative Works thereof, that is intentionally
//    submitted to Licensor for inclusion in the Work by the copyright owner
//    or by an individual or Legal Entity authorized to submit on behalf of
//    the copyright owner. For the purposes of this definition, "submitted"
//    means any form of electronic, verbal, or written communication sent
//    to the Licensor or its representatives, including but not limited to
//    communication on electronic mailing lists, source code control systems,
//    and issue tracking systems that are managed by, or on behalf of, the
//    Licensor for the purpose of discussing and improving the Work, but
//    excluding communication that is conspicuously marked or otherwise
//    designated in writing by the copyright owner as "Not a Contribution."
//
//    "Contributor" shall mean Licensor and any individual or Legal Entity
//    on behalf of whom a Contribution has been received by Licensor and
//    subsequently incorporated within the Work.
//
// 2. Grant of Copyright License. Subject to the terms and conditions of
//    this License, each Contributor hereby grants to You a perpetual,
//    worldwide, non-exclusive, no-charge, royalty-free, irrevocable
//    copyright license to reproduce, prepare Derivative Works of,
//    publicly display, publicly perform, sublicense, and distribute the
//    Work and such Derivative Works in Source or Object form.
//
// 3. Grant of Patent License. Subject to the terms and conditions of
//    this License, each Contributor hereby grants to You a perpetual,
//    worldwide, non-exclusive, no-charge, royalty-free, irrevocable
//    (except as stated in this section) patent license to make, have made,
//    use, offer to sell, sell, import, and otherwise transfer the Work,
//    where such license applies only to those patent claims licensable
//    by such Contributor that are necessarily infringed by their
//    Contribution(s) alone or by combination of their Contribution(s)
//    with the Work to which such Contribution(s) was submitted. If You
//    institute patent litigation against any entity (including a
//    cross-claim or counterclaim in a lawsuit) alleging that the Work
//    or a Contribution incorporated within the Work constitutes direct
//    or contributory patent infringement, then any patent licenses
//    granted to You under this License for that Work shall terminate
//    as of the date such litigation is filed.
//
// 4. Redistribution. You may reproduce and distribute copies of the
//    Work or Derivative Works thereof in any medium, with or without
//    modifications, and in Source or Object form, provided that You
//    meet the following conditions:
//
//    (a) You must give any other recipients of the Work or
//        Derivative Works a copy of this License; and
//
//    (b) You must cause any modified files to carry prominent notices
//        stating that You changed the files; and
//
//    (c) You must retain, in the Source form of any Derivative Works
//        that You distribute, all copyright, patent, trademark, and
//        attribution notices from the Source form of the Work,
//        excluding those notices that do not pertain to any part of
//        the Derivative Works; and
//
//    (d) If the Work includes a "NOTICE" text file as part of its
//        distribution, then any Derivative Works that You distribute must
//        include a readable copy of the attribution notices contained
//        within such NOTICE file, excluding those notices that do not
//        pertain to any part of the Derivative Works, in at least one
//        of the following places: within a NOTICE text file distributed
//        as part of the Derivative Works; within the Source form or
//        documentation, if provided along with the Derivative Works; or,
//        within a display generated by the Derivative Works, if and
//        wherever such third-party notices normally appear. The contents
//        of the NOTICE file are for informational purposes only and
//        do not modify the License. You may add Your own attribution
//        notices within Derivative Works that You distribute, alongside
//        or as an addendum to the NOTICE text from the Work, provided
//        that such additional attribution notices cannot be construed
//        as modifying the License.
//
//    You may add Your own copyright statement to Your modifications and
//    may provide additional or different license terms and conditions
//    for use, reproduction, or distribution of Your modifications, or
//    for any such Derivative Works as a whole, provided Your use,
//    reproduction, and distribution of the Work otherwise complies with
//    the conditions stated in this License.
//
// 5. Submission of Contributions. Unless You explicitly state otherwise,
//    any Contribution intentionally submitted for inclusion in the Work
//    by You to the Licensor shall be under the terms and conditions of
//    this License, without any additional terms or conditions.
//    Notwithstanding the above, nothing herein shall supersede or modify
//    the terms of any separate license agreement you may have executed
//    with Licensor regarding such Contributions.
//
// 6. Trademarks. This License does not grant permission to use the trade
//    names, trademarks, service marks, or product names of the Licensor,
//    except as required for reasonable and customary use in describing the
//    origin of the Work and reproducing the content of the NOTICE file.
//
// 7. Disclaimer of Warranty. Unless required by applicable law or
//    agreed to in writing, Licensor provides the Work (and each
//    Contributor provides its Contributions) on an "AS IS" BASIS,
//    WITHOUT WARRANTIES OR CONDITIONS OF ANY KIND, either express or
//    implied, including, without limitation, any warranties or conditions
//    of TITLE, NON-INFRINGEMENT, MERCHANTABILITY, or FITNESS FOR A
//    PARTICULAR PURPOSE. You are solely responsible for determining the
//    appropriateness of using or redistributing the Work and assume any
//    risks associated with Your exercise of permissions under this License.
//
// 8. Limitation of Liability. In no event and under no legal theory,
//    whether in tort (including negligence), contract, or otherwise,
//    unless required by applicable law (such as deliberate and grossly
//    negligent acts) or agreed to in writing, shall any Contributor be
//    liable to You for damages, including any direct, indirect, special,
//    incidental, or consequential damages of any character arising as a
//    result of this License or out of the use or inability to use the
//    Work (including but not limited to damages for loss of goodwill,
//    work stoppage, computer failure or malfunction, or any and all
//    other commercial damages or losses), even if such Contributor
//    has been advised of the possibility of such damages.
//
// 9. Accepting Warranty or Additional Liability. While redistributing
//    the Work or Derivative Works thereof, You may choose to offer,
//    and charge a fee for, acceptance of support, warranty, indemnity,
//    or other liability obligations and/or rights consistent with this
//    License. However, in accepting such obligations, You may act only
//    on Your own behalf and on Your sole responsibility, not on behalf
//    of any other Contributor, and only if You agree to indemnify,
//    defend, and hold each Contributor harmless for any liability
//    incurred by, or claims asserted against, such Contributor by reason
//    of your accepting any such warranty or additional liability.
//
// END OF TERMS AND CONDITIONS
//
// Copyright 2013-2018 Docker, Inc.
//
// Licensed under the Apache License, Version 2.0 (the "License");
// you may not use this file except in compliance with the License.
// You may obtain a copy of the License at
//
//     https://www.apache.org/licenses/LICENSE-2.0
//
// Unless required by applicable law or agreed to in writing, software
// distributed under the License is distributed on an "AS IS" BASIS,
// WITHOUT WARRANTIES OR CONDITIONS OF ANY KIND, either express or implied.
// See the License for the specific language governing permissions and
// limitations under the License.

package patternmatcher

import (
	"fmt"
	"os"
	"path"
	"path/filepath"
	"runtime"
	"strings"
	"testing"
)

func TestWildcardMatches(t *testing.T) {
	match, _ := Matches("fileutils.go", []string{"*"})
	if !match {
		t.Errorf("failed to get a wildcard match, got %v", match)
	}
}

// A simple pattern match should return true.
func TestPatternMatches(t *testing.T) {
	match, _ := Matches("fileutils.go", []string{"*.go"})
	if !match {
		t.Errorf("failed to get a match, got %v", match)
	}
}

// An exclusion followed by an inclusion should return true.
func TestExclusionPatternMatchesPatternBefore(t *testing.T) {
	match, _ := Matches("fileutils.go", []string{"!fileutils.go", "*.go"})
	if !match {
		t.Errorf("failed to get true match on exclusion pattern, got %v", match)
	}
}

// A folder pattern followed by an exception should return false.
func TestPatternMatchesFolderExclusions(t *testing.T) {
	match, _ := Matches("docs/README.md", []string{"docs", "!docs/README.md"})
	if match {
		t.Errorf("failed to get a false match on exclusion pattern, got %v", match)
	}
}

// A folder pattern followed by an exception should return false.
func TestPatternMatchesFolderWithSlashExclusions(t *testing.T) {
	match, _ := Matches("docs/README.md", []string{"docs/", "!docs/README.md"})
	if match {
		t.Errorf("failed to get a false match on exclusion pattern, got %v", match)
	}
}

// A folder pattern followed by an exception should return false.
func TestPatternMatchesFolderWildcardExclusions(t *testing.T) {
	match, _ := Matches("docs/README.md", []string{"docs/*", "!docs/README.md"})
	if match {
		t.Errorf("failed to get a false match on exclusion pattern, got %v", match)
	}
}

// A pattern followed by an exclusion should return false.
func TestExclusionPatternMatchesPatternAfter(t *testing.T) {
	match, _ := Matches("fileutils.go", []string{"*.go", "!fileutils.go"})
	if match {
		t.Errorf("failed to get false match on exclusion pattern, got %v", match)
	}
}

// A filename evaluating to . should return false.
func TestExclusionPatternMatchesWholeDirectory(t *testing.T) {
	match, _ := Matches(".", []string{"*.go"})
	if match {
		t.Errorf("failed to get false match on ., got %v", match)
	}
}

// A single ! pattern should return an error.
func TestSingleExclamationError(t *testing.T) {
	_, err := Matches("fileutils.go", []string{"!"})
	if err == nil {
		t.Errorf("failed to get an error for a single exclamation point, got %v", err)
	}
}

// Matches with no patterns
func TestMatchesWithNoPatterns(t *testing.T) {
	matches, err := Matches("/any/path/there", []string{})
	if err != nil {
		t.Fatal(err)
	}
	if matches {
		t.Fatalf("Should not have match anything")
	}
}

// Matches with malformed patterns
func TestMatchesWithMalformedPatterns(t *testing.T) {
	matches, err := Matches("/any/path/there", []string{"["})
	if err == nil {
		t.Fatal("Should have failed because of a malformed syntax in the pattern")
	}
	if matches {
		t.Fatalf("Should not have match anything")
	}
}

type matchesTestCase struct {
	pattern string
	text    string
	pass    bool
}

type multiPatternTestCase struct {
	patterns []string
	text     string
	pass     bool
}

func TestMatches(t *testing.T) {
	tests := []matchesTestCase{
		{"**", "file", true},
		{"**", "file/", true},
		{"**/", "file", true}, // weird one
		{"**/", "file/", true},
		{"**", "/", true},
		{"**/", "/", true},
		{"**", "dir/file", true},
		{"**/", "dir/file", true},
		{"**", "dir/file/", true},
		{"**/", "dir/file/", true},
		{"**/**", "dir/file", true},
		{"**/**", "dir/file/", true},
		{"dir/**", "dir/file", true},
		{"dir/**", "dir/file/", true},
		{"dir/**", "dir/dir2/file", true},
		{"dir/**", "dir/dir2/file/", true},
		{"**/dir", "dir", true},
		{"**/dir", "dir/file", true},
		{"**/dir2/*", "dir/dir2/file", true},
		{"**/dir2/*", "dir/dir2/file/", true},
		{"**/dir2/**", "dir/dir2/dir3/file", true},
		{"**/dir2/**", "dir/dir2/dir3/file/", true},
		{"**file", "file", true},
		{"**file", "dir/file", true},
		{"**/file", "dir/file", true},
		{"**file", "dir/dir/file", true},
		{"**/file", "dir/dir/file", true},
		{"**/file*", "dir/dir/file", true},
		{"**/file*", "dir/dir/file.txt", true},
		{"**/file*txt", "dir/dir/file.txt", true},
		{"**/file*.txt", "dir/dir/file.txt", true},
		{"**/file*.txt*", "dir/dir/file.txt", true},
		{"**/**/*.txt", "dir/dir/file.txt", true},
		{"**/**/*.txt2", "dir/dir/file.txt", false},
		{"**/*.txt", "file.txt", true},
		{"**/**/*.txt", "file.txt", true},
		{"a**/*.txt", "a/file.txt", true},
		{"a**/*.txt", "a/dir/file.txt", true},
		{"a**/*.txt", "a/dir/dir/file.txt", true},
		{"a/*.txt", "a/dir/file.txt", false},
		{"a/*.txt", "a/file.txt", true},
		{"a/*.txt**", "a/file.txt", true},
		{"a[b-d]e", "ae", false},
		{"a[b-d]e", "ace", true},
		{"a[b-d]e", "aae", false},
		{"a[^b-d]e", "aze", true},
		{".*", ".foo", true},
		{".*", "foo", false},
		{"abc.def", "abcdef", false},
		{"abc.def", "abc.def", true},
		{"abc.def", "abcZdef", false},
		{"abc?def", "abcZdef", true},
		{"abc?def", "abcdef", false},
		{"a\\\\", "a\\", true},
		{"**/foo/bar", "foo/bar", true},
		{"**/foo/bar", "dir/foo/bar", true},
		{"**/foo/bar", "dir/dir2/foo/bar", true},
		{"abc/**", "abc", false},
		{"abc/**", "abc/def", true},
		{"abc/**", "abc/def/ghi", true},
		{"**/.foo", ".foo", true},
		{"**/.foo", "bar.foo", false},
		{"a(b)c/def", "a(b)c/def", true},
		{"a(b)c/def", "a(b)c/xyz", false},
		{"a.|)$(}+{bc", "a.|)$(}+{bc", true},
		{"dist/proxy.py-2.4.0rc3.dev36+g08acad9-py3-none-any.whl", "dist/proxy.py-2.4.0rc3.dev36+g08acad9-py3-none-any.whl", true},
		{"dist/*.whl", "dist/proxy.py-2.4.0rc3.dev36+g08acad9-py3-none-any.whl", true},
	}
	multiPatternTests := []multiPatternTestCase{
		{[]string{"**", "!util/docker/web"}, "util/docker/web/foo", false},
		{[]string{"**", "!util/docker/web", "util/docker/web/foo"}, "util/docker/web/foo", true},
		{[]string{"**", "!dist/proxy.py-2.4.0rc3.dev36+g08acad9-py3-none-any.whl"}, "dist/proxy.py-2.4.0rc3.dev36+g08acad9-py3-none-any.whl", false},
		{[]string{"**", "!dist/*.whl"}, "dist/proxy.py-2.4.0rc3.dev36+g08acad9-py3-none-any.whl", false},
	}

	if runtime.GOOS != "windows" {
		tests = append(tests, []matchesTestCase{
			{"a\\*b", "a*b", true},
		}...)
	}

	t.Run("MatchesOrParentMatches", func(t *testing.T) {
		for _, test := range tests {
			pm, err := New([]string{test.pattern})
			if err != nil {
				t.Fatalf("%v (pattern=%q, text=%q)", err, test.pattern, test.text)
			}
			res, _ := pm.MatchesOrParentMatches(test.text)
			if test.pass != res {
				t.Fatalf("%v (pattern=%q, text=%q)", err, test.pattern, test.text)
			}
		}

		for _, test := range multiPatternTests {
			pm, err := New(test.patterns)
			if err != nil {
				t.Fatalf("%v (patterns=%q, text=%q)", err, test.patterns, test.text)
			}
			res, _ := pm.MatchesOrParentMatches(test.text)
			if test.pass != res {
				t.Errorf("expected: %v, got: %v (patterns=%q, text=%q)", test.pass, res, test.patterns, test.text)
			}
		}
	})

	t.Run("MatchesUsingParentResult", func(t *testing.T) {
		for _, test := range tests {
			pm, err := New([]string{test.pattern})
			if err != nil {
				t.Fatalf("%v (pattern=%q, text=%q)", err, test.pattern, test.text)
			}

			parentPath := filepath.Dir(filepath.FromSlash(test.text))
			parentPathDirs := strings.Split(parentPath, string(os.PathSeparator))

			parentMatched := false
			if parentPath != "." {
				for i := range parentPathDirs {
					parentMatched, _ = pm.MatchesUsingParentResult(strings.Join(parentPathDirs[:i+1], "/"), parentMatched)
				}
			}

			res, _ := pm.MatchesUsingParentResult(test.text, parentMatched)
			if test.pass != res {
				t.Errorf("expected: %v, got: %v (pattern=%q, text=%q)", test.pass, res, test.pattern, test.text)
			}
		}
	})

	t.Run("MatchesUsingParentResults", func(t *testing.T) {
		check := func(pm *PatternMatcher, text string, pass bool, desc string) {
			parentPath := filepath.Dir(filepath.FromSlash(text))
			parentPathDirs := strings.Split(parentPath, string(os.PathSeparator))

			parentMatchInfo := MatchInfo{}
			if parentPath != "." {
				for i := range parentPathDirs {
					_, parentMatchInfo, _ = pm.MatchesUsingParentResults(strings.Join(parentPathDirs[:i+1], "/"), parentMatchInfo)
				}
			}

			res, _, _ := pm.MatchesUsingParentResults(text, parentMatchInfo)
			if pass != res {
				t.Errorf("expected: %v, got: %v %s", pass, res, desc)
			}
		}

		for _, test := range tests {
			desc := fmt.Sprintf("(pattern=%q text=%q)", test.pattern, test.text)
			pm, err := New([]string{test.pattern})
			if err != nil {
				t.Fatal(err, desc)
			}

			check(pm, test.text, test.pass, desc)
		}

		for _, test := range multiPatternTests {
			desc := fmt.Sprintf("pattern=%q text=%q", test.patterns, test.text)
			pm, err := New(test.patterns)
			if err != nil {
				t.Fatal(err, desc)
			}

			check(pm, test.text, test.pass, desc)
		}
	})

	t.Run("MatchesUsingParentResultsNoContext", func(t *testing.T) {
		check := func(pm *PatternMatcher, text string, pass bool, desc string) {
			res, _, _ := pm.MatchesUsingParentResults(text, MatchInfo{})
			if pass != res {
				t.Errorf("expected: %v, got: %v %s", pass, res, desc)
			}
		}

		for _, test := range tests {
			desc := fmt.Sprintf("(pattern=%q text=%q)", test.pattern, test.text)
			pm, err := New([]string{test.pattern})
			if err != nil {
				t.Fatal(err, desc)
			}

			check(pm, test.text, test.pass, desc)
		}

		for _, test := range multiPatternTests {
			desc := fmt.Sprintf("(pattern=%q text=%q)", test.patterns, test.text)
			pm, err := New(test.patterns)
			if err != nil {
				t.Fatal(err, desc)
			}

			check(pm, test.text, test.pass, desc)
		}
	})
}

func TestCleanPatterns(t *testing.T) {
	patterns := []string{"docs", "config"}
	pm, err := New(patterns)
	if err != nil {
		t.Fatalf("invalid pattern %v", patterns)
	}
	cleaned := pm.Patterns()
	if len(cleaned) != 2 {
		t.Errorf("expected 2 element slice, got %v", len(cleaned))
	}
}

func TestCleanPatternsStripEmptyPatterns(t *testing.T) {
	patterns := []string{"docs", "config", ""}
	pm, err := New(patterns)
	if err != nil {
		t.Fatalf("invalid pattern %v", patterns)
	}
	cleaned := pm.Patterns()
	if len(cleaned) != 2 {
		t.Errorf("expected 2 element slice, got %v", len(cleaned))
	}
}

func TestCleanPatternsExceptionFlag(t *testing.T) {
	patterns := []string{"docs", "!docs/README.md"}
	pm, err := New(patterns)
	if err != nil {
		t.Fatalf("invalid pattern %v", patterns)
	}
	if !pm.Exclusions() {
		t.Errorf("expected exceptions to be true, got %v", pm.Exclusions())
	}
}

func TestCleanPatternsLeadingSpaceTrimmed(t *testing.T) {
	patterns := []string{"docs", "  !docs/README.md"}
	pm, err := New(patterns)
	if err != nil {
		t.Fatalf("invalid pattern %v", patterns)
	}
	if !pm.Exclusions() {
		t.Errorf("expected exceptions to be true, got %v", pm.Exclusions())
	}
}

func TestCleanPatternsTrailingSpaceTrimmed(t *testing.T) {
	patterns := []string{"docs", "!docs/README.md  "}
	pm, err := New(patterns)
	if err != nil {
		t.Fatalf("invalid pattern %v", patterns)
	}
	if !pm.Exclusions() {
		t.Errorf("expected exceptions to be true, got %v", pm.Exclusions())
	}
}

func TestCleanPatternsErrorSingleException(t *testing.T) {
	patterns := []string{"!"}
	_, err := New(patterns)
	if err == nil {
		t.Errorf("expected error on single exclamation point, got %v", err)
	}
}

// These matchTests are stolen from go's filepath Match tests.
type matchTest struct {
	pattern, s string
	match      bool
	err        error
}

var matchTests = []matchTest{
	{"abc", "abc", true, nil},
	{"*", "abc", true, nil},
	{"*c", "abc", true, nil},
	{"a*", "a", true, nil},
	{"a*", "abc", true, nil},
	{"a*", "ab/c", true, nil},
	{"a*/b", "abc/b", true, nil},
	{"a*/b", "a/c/b", false, nil},
	{"a*b*c*d*e*/f", "axbxcxdxe/f", true, nil},
	{"a*b*c*d*e*/f", "axbxcxdxexxx/f", true, nil},
	{"a*b*c*d*e*/f", "axbxcxdxe/xxx/f", false, nil},
	{"a*b*c*d*e*/f", "axbxcxdxexxx/fff", false, nil},
	{"a*b?c*x", "abxbbxdbxebxczzx", true, nil},
	{"a*b?c*x", "abxbbxdbxebxczzy", false, nil},
	{"ab[c]", "abc", true, nil},
	{"ab[b-d]", "abc", true, nil},
	{"ab[e-g]", "abc", false, nil},
	{"ab[^c]", "abc", false, nil},
	{"ab[^b-d]", "abc", false, nil},
	{"ab[^e-g]", "abc", true, nil},
	{"a\\*b", "a*b", true, nil},
	{"a\\*b", "ab", false, nil},
	{"a?b", "a☺b", true, nil},
	{"a[^a]b", "a☺b", true, nil},
	{"a???b", "a☺b", false, nil},
	{"a[^a][^a][^a]b", "a☺b", false, nil},
	{"[a-ζ]*", "α", true, nil},
	{"*[a-ζ]", "A", false, nil},
	{"a?b", "a/b", false, nil},
	{"a*b", "a/b", false, nil},
	{"[\\]a]", "]", true, nil},
	{"[\\-]", "-", true, nil},
	{"[x\\-]", "x", true, nil},
	{"[x\\-]", "-", true, nil},
	{"[x\\-]", "z", false, nil},
	{"[\\-x]", "x", true, nil},
	{"[\\-x]", "-", true, nil},
	{"[\\-x]", "a", false, nil},
	{"[]a]", "]", false, filepath.ErrBadPattern},
	{"[-]", "-", false, filepath.ErrBadPattern},
	{"[x-]", "x", false, filepath.ErrBadPattern},
	{"[x-]", "-", false, filepath.ErrBadPattern},
	{"[x-]", "z", false, filepath.ErrBadPattern},
	{"[-x]", "x", false, filepath.ErrBadPattern},
	{"[-x]", "-", false, filepath.ErrBadPattern},
	{"[-x]", "a", false, filepath.ErrBadPattern},
	{"\\", "a", false, filepath.ErrBadPattern},
	{"[a-b-c]", "a", false, filepath.ErrBadPattern},
	{"[", "a", false, filepath.ErrBadPattern},
	{"[^", "a", false, filepath.ErrBadPattern},
	{"[^bc", "a", false, filepath.ErrBadPattern},
	{"a[", "a", false, filepath.ErrBadPattern}, // was nil but IMO its wrong
	{"a[", "ab", false, filepath.ErrBadPattern},
	{"*x", "xxx", true, nil},
}

func errp(e error) string {
	if e == nil {
		return "<nil>"
	}
	return e.Error()
}

// TestMatch tests our version of filepath.Match, called Matches.
func TestMatch(t *testing.T) {
	for _, tt := range matchTests {
		pattern := tt.pattern
		s := tt.s
		if runtime.GOOS == "windows" {
			if strings.Contains(pattern, "\\") {
				// no escape allowed on windows.
				continue
			}
			pattern = filepath.Clean(pattern)
			s = filepath.Clean(s)
		}
		ok, err := Matches(s, []string{pattern})
		if ok != tt.match || err != tt.err {
			t.Fatalf("Match(%#q, %#q) = %v, %q want %v, %q", pattern, s, ok, errp(err), tt.match, errp(tt.err))
		}
	}
}

type compileTestCase struct {
	pattern               string
	matchType             matchType
	compiledRegexp        string
	windowsCompiledRegexp string
}

var compileTests = []compileTestCase{
	{"*", regexpMatch, `^[^/]*$`, `^[^\\]*$`},
	{"file*", regexpMatch, `^file[^/]*$`, `^file[^\\]*$`},
	{"*file", regexpMatch, `^[^/]*file$`, `^[^\\]*file$`},
	{"a*/b", regexpMatch, `^a[^/]*/b$`, `^a[^\\]*\\b$`},
	{"**", suffixMatch, "", ""},
	{"**/**", regexpMatch, `^(.*/)?.*$`, `^(.*\\)?.*$`},
	{"dir/**", prefixMatch, "", ""},
	{"**/dir", suffixMatch, "", ""},
	{"**/dir2/*", regexpMatch, `^(.*/)?dir2/[^/]*$`, `^(.*\\)?dir2\\[^\\]*$`},
	{"**/dir2/**", regexpMatch, `^(.*/)?dir2/.*$`, `^(.*\\)?dir2\\.*$`},
	{"**file", suffixMatch, "", ""},
	{"**/file*txt", regexpMatch, `^(.*/)?file[^/]*txt$`, `^(.*\\)?file[^\\]*txt$`},
	{"**/**/*.txt", regexpMatch, `^(.*/)?(.*/)?[^/]*\.txt$`, `^(.*\\)?(.*\\)?[^\\]*\.txt$`},
	{"a[b-d]e", regexpMatch, `^a[b-d]e$`, `^a[b-d]e$`},
	{".*", regexpMatch, `^\.[^/]*$`, `^\.[^\\]*$`},
	{"abc.def", exactMatch, "", ""},
	{"abc?def", regexpMatch, `^abc[^/]def$`, `^abc[^\\]def$`},
	{"**/foo/bar", suffixMatch, "", ""},
	{"a(b)c/def", exactMatch, "", ""},
	{"a.|)$(}+{bc", exactMatch, "", ""},
	{"dist/proxy.py-2.4.0rc3.dev36+g08acad9-py3-none-any.whl", exactMatch, "", ""},
}

// TestCompile confirms that "compile" assigns the correct match type to a
// variety of test case patterns. If the match type is regexp, it also confirms
// that the compiled regexp matches the expected regexp.
func TestCompile(t *testing.T) {
	t.Run("slash", testCompile("/"))
	t.Run("backslash", testCompile(`\`))
}

func testCompile(sl string) func(*testing.T) {
	return func(t *testing.T) {
		for _, tt := range compileTests {
			// Avoid NewPatternMatcher, which has platform-specific behavior
			pm := &PatternMatcher{
				patterns: make([]*Pattern, 1),
			}
			pattern := path.Clean(tt.pattern)
			if sl != "/" {
				pattern = strings.ReplaceAll(pattern, "/", sl)
			}
			newp := &Pattern{}
			newp.cleanedPattern = pattern
			newp.dirs = strings.Split(pattern, sl)
			pm.patterns[0] = newp

			if err := pm.patterns[0].compile(sl); err != nil {
				t.Fatalf("Failed to compile pattern %q: %v", pattern, err)
			}
			if pm.patterns[0].matchType != tt.matchType {
				t.Errorf("pattern %q: matchType = %v, want %v", pattern, pm.patterns[0].matchType, tt.matchType)
				continue
			}
			if tt.matchType == regexpMatch {
				if sl == `\` {
					if pm.patterns[0].regexp.String() != tt.windowsCompiledRegexp {
						t.Errorf("pattern %q: regexp = %s, want %s", pattern, pm.patterns[0].regexp, tt.windowsCompiledRegexp)
					}
				} else if pm.patterns[0].regexp.String() != tt.compiledRegexp {
					t.Errorf("pattern %q: regexp = %s, want %s", pattern, pm.patterns[0].regexp, tt.compiledRegexp)
				}
			}
		}
	}
}
