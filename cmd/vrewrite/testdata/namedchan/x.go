package sample

type C chan int

func f() C { return make(C) }
