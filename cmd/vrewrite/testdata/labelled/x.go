package sample

func f(c chan int) {
L:
	select {
	case <-c:
		break L
	}
}
