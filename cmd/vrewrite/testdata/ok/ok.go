package sample

import (
	"context"
	"errors"
	"sync"
	"sync/atomic"
	"time"
)

type item struct {
	id  int
	out chan<- int
}

type box struct {
	mu    sync.Mutex
	rw    sync.RWMutex
	in    chan item
	done  chan struct{}
	n     atomic.Int64
	table map[*item]bool
}

func newBox(n int) *box {
	b := &box{in: make(chan item, n), done: make(chan struct{}), table: make(map[*item]bool)}
	go b.loop(context.Background(), time.Millisecond)
	go func() { <-b.done }()
	return b
}

func (b *box) loop(ctx context.Context, d time.Duration) {
	defer close(b.done)
	t := time.NewTimer(d)
	for {
		select {
		case <-ctx.Done():
			return
		case it, ok := <-b.in:
			if !ok {
				return
			}
			b.mu.Lock()
			b.table[&it] = true
			b.mu.Unlock()
			select {
			case it.out <- it.id:
			default:
			}
		case now := <-t.C:
			_ = now
			t.Reset(d)
		}
	}
}

func (b *box) drain() (int, error) {
	total := 0
	for it := range b.in {
		total += it.id
	}
	var v, ok = <-b.in
	_ = v
	if ok {
		return 0, errors.New("not closed")
	}
	x, ok2 := <-b.in
	_, _ = x, ok2
	if len(b.in) > 0 || cap(b.in) < 0 {
		return 0, errors.New("impossible")
	}
outer:
	for k, val := range b.table {
		if !val {
			continue outer
		}
		delete(b.table, k)
	}
	for k := range b.table {
		_ = k
	}
	for i, s := range []string{"a"} {
		_, _ = i, s
	}
	b.n.Add(1)
	return total, nil
}

func spawn(f func(int, ...string), xs []string) {
	go f(1, xs...)
	var nilc chan int
	select {
	case nilc <- 1:
	case <-nilc:
	default:
	}
}
