package sample

import "example.com/unknown/pkg"

func f() int { return len(pkg.Thing()) }
