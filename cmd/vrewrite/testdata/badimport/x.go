package sample

import "os/exec"

var _ = exec.Command
