// Command vrewrite emits a copy of one Go package in which every concurrency
// construct is routed through the cooperative scheduler verif/internal/vsched:
//
//	chan T, <-chan T, chan<- T      *vsched.Chan[T]
//	make(chan T[, n])               vsched.NewChan[T](n)
//	c <- v        <-c               c.Send(v)        c.Recv()
//	v, ok := <-c                    v, ok := c.Recv2()
//	close(c)  len(c)  cap(c)        c.Close()  c.Len()  c.Cap()
//	for v := range c {..}           for { v, ok := c.Recv2(); if !ok { break }; .. }
//	for k, v := range aMap {..}     scheduler-owned iteration order (vsched.RangeKeys)
//	select {..}                     switch on vsched.NewSelect/RecvCase/SendCase/Run
//	go f(x)                         vsched.Go(func() { f(x) }) with f and x evaluated first
//	import "sync" "sync/atomic" "time" "context"   the vsync/vatomic/vtime/vcontext shims
//
// The tool FAILS CLOSED: any construct it cannot translate faithfully (labelled
// select, named channel types, cgo, go:linkname, an import that is neither
// known to be free of concurrency nor explicitly allowed, an expression whose
// type it cannot determine where the translation depends on the type, ...) makes
// it exit with status 2 and no usable output. A rewritten package that does not
// compile is likewise an infrastructure failure of the build, never an alarm.
//
// Usage: vrewrite -src DIR -out DIR [-tags a,b] [-allow importpath]... [-pkgpath path]
package main

import (
	"bytes"
	"flag"
	"fmt"
	"go/ast"
	"go/build"
	"go/importer"
	"go/parser"
	"go/printer"
	"go/token"
	"go/types"
	"os"
	"path/filepath"
	"reflect"
	"sort"
	"strconv"
	"strings"
)

const (
	schedPath = "verif/internal/vsched"
	schedName = "_vsched"
)

// shimmed maps standard-library imports to their scheduler-aware replacements.
var shimmed = map[string]string{
	"sync":        schedPath + "/vsync",
	"sync/atomic": schedPath + "/vatomic",
	"time":        schedPath + "/vtime",
	"context":     schedPath + "/vcontext",
}

// pureStd lists standard-library packages that neither block nor start
// goroutines nor expose channels, so code may keep using them unchanged.
var pureStd = map[string]bool{
	"errors": true, "fmt": true, "strings": true, "bytes": true, "strconv": true, "sort": true,
	"slices": true, "maps": true, "cmp": true, "math": true, "math/bits": true, "unicode": true,
	"unicode/utf8": true, "unicode/utf16": true, "path": true, "regexp": true,
	"encoding/binary": true, "encoding/hex": true, "encoding/base64": true, "encoding/json": true,
	"hash/fnv": true, "crypto/sha1": true, "crypto/sha256": true, "unsafe": false,
}

type stringList []string

func (s *stringList) String() string     { return strings.Join(*s, ",") }
func (s *stringList) Set(v string) error { *s = append(*s, v); return nil }

func fatalf(format string, a ...interface{}) {
	fmt.Fprintf(os.Stderr, "vrewrite: "+format+"\n", a...)
	os.Exit(2)
}

type rewriter struct {
	fset  *token.FileSet
	info  *types.Info
	tmp   int
	used  bool // the current file references the scheduler package
	errs  []string
	allow map[string]bool
}

func (rw *rewriter) failf(pos token.Pos, format string, a ...interface{}) {
	rw.errs = append(rw.errs, fmt.Sprintf("%s: %s", rw.fset.Position(pos), fmt.Sprintf(format, a...)))
}

func (rw *rewriter) fresh(base string) *ast.Ident {
	rw.tmp++
	return ast.NewIdent(fmt.Sprintf("_vs_%s%d", base, rw.tmp))
}

func (rw *rewriter) sched(name string) ast.Expr {
	rw.used = true
	return &ast.SelectorExpr{X: ast.NewIdent(schedName), Sel: ast.NewIdent(name)}
}

func call(fun ast.Expr, args ...ast.Expr) *ast.CallExpr { return &ast.CallExpr{Fun: fun, Args: args} }

func method(recv ast.Expr, name string, args ...ast.Expr) *ast.CallExpr {
	return call(&ast.SelectorExpr{X: primary(recv), Sel: ast.NewIdent(name)}, args...)
}

// primary parenthesises e unless it can be the operand of a selector as is.
func primary(e ast.Expr) ast.Expr {
	switch e.(type) {
	case *ast.Ident, *ast.SelectorExpr, *ast.CallExpr, *ast.IndexExpr, *ast.IndexListExpr, *ast.ParenExpr, *ast.TypeAssertExpr, *ast.SliceExpr:
		return e
	}
	return &ast.ParenExpr{X: e}
}

func unparen(e ast.Expr) ast.Expr {
	for {
		p, ok := e.(*ast.ParenExpr)
		if !ok {
			return e
		}
		e = p.X
	}
}

// isRecv reports whether e is a channel receive expression and returns the channel operand.
func isRecv(e ast.Expr) (ast.Expr, bool) {
	if u, ok := unparen(e).(*ast.UnaryExpr); ok && u.Op == token.ARROW {
		return u.X, true
	}
	return nil, false
}

func (rw *rewriter) builtin(fun ast.Expr, name string) bool {
	id, ok := unparen(fun).(*ast.Ident)
	if !ok || id.Name != name {
		return false
	}
	obj := rw.info.Uses[id]
	_, isBuiltin := obj.(*types.Builtin)
	return isBuiltin
}

// kindOf classifies the type of e as "chan", "map", "other" or "" (unknown).
func (rw *rewriter) kindOf(e ast.Expr) string {
	tv, ok := rw.info.Types[e]
	if !ok || tv.Type == nil {
		return ""
	}
	if b, ok := tv.Type.(*types.Basic); ok && b.Kind() == types.Invalid {
		return ""
	}
	switch u := tv.Type.Underlying().(type) {
	case *types.Chan:
		return "chan"
	case *types.Map:
		return "map"
	case *types.Pointer:
		_ = u
		return "other"
	case *types.TypeParam:
		return ""
	}
	if tp, ok := tv.Type.(*types.TypeParam); ok {
		_ = tp
		return ""
	}
	return "other"
}

// ---- expressions -------------------------------------------------------------

func (rw *rewriter) expr(e ast.Expr) ast.Expr {
	switch x := e.(type) {
	case nil:
		return nil
	case *ast.ChanType:
		return &ast.StarExpr{X: &ast.IndexExpr{X: rw.sched("Chan"), Index: rw.expr(x.Value)}}
	case *ast.UnaryExpr:
		if x.Op == token.ARROW {
			return method(rw.expr(x.X), "Recv")
		}
	case *ast.CallExpr:
		return rw.callExpr(x)
	}
	rw.children(e)
	return e
}

func (rw *rewriter) callExpr(x *ast.CallExpr) *ast.CallExpr {
	switch {
	case rw.builtin(x.Fun, "close") && len(x.Args) == 1:
		return method(rw.expr(x.Args[0]), "Close")
	case (rw.builtin(x.Fun, "len") || rw.builtin(x.Fun, "cap")) && len(x.Args) == 1:
		switch rw.kindOf(x.Args[0]) {
		case "chan":
			name := "Len"
			if rw.builtin(x.Fun, "cap") {
				name = "Cap"
			}
			return method(rw.expr(x.Args[0]), name)
		case "":
			rw.failf(x.Pos(), "cannot determine whether the operand of len/cap is a channel")
		}
	case rw.builtin(x.Fun, "make") && len(x.Args) >= 1:
		if ct, ok := unparen(x.Args[0]).(*ast.ChanType); ok {
			var n ast.Expr = &ast.BasicLit{Kind: token.INT, Value: "0"}
			if len(x.Args) > 1 {
				n = rw.expr(x.Args[1])
			}
			return call(&ast.IndexExpr{X: rw.sched("NewChan"), Index: rw.expr(ct.Value)}, n)
		}
		switch rw.kindOf(x.Args[0]) {
		case "chan":
			rw.failf(x.Pos(), "make of a named channel type is not supported")
		case "":
			rw.failf(x.Pos(), "cannot determine the type made by make")
		}
	case rw.builtin(x.Fun, "new") && len(x.Args) == 1:
		// new(chan T) is fine: the type expression is rewritten below.
	}
	rw.children(x)
	return x
}

// ---- statements --------------------------------------------------------------

func (rw *rewriter) stmt(s ast.Stmt) ast.Stmt {
	switch x := s.(type) {
	case nil:
		return nil
	case *ast.SendStmt:
		return &ast.ExprStmt{X: method(rw.expr(x.Chan), "Send", rw.expr(x.Value))}
	case *ast.AssignStmt:
		if len(x.Rhs) == 1 && len(x.Lhs) == 2 {
			if ch, ok := isRecv(x.Rhs[0]); ok {
				for i := range x.Lhs {
					x.Lhs[i] = rw.expr(x.Lhs[i])
				}
				x.Rhs[0] = method(rw.expr(ch), "Recv2")
				return x
			}
		}
	case *ast.GoStmt:
		return rw.goStmt(x)
	case *ast.SelectStmt:
		return rw.selectStmt(x)
	case *ast.RangeStmt:
		pre, loop := rw.rangeStmt(x)
		if pre == nil {
			return loop
		}
		return &ast.BlockStmt{List: append(pre, loop)}
	case *ast.LabeledStmt:
		switch in := x.Stmt.(type) {
		case *ast.SelectStmt:
			rw.failf(x.Pos(), "labelled select statement is not supported")
		case *ast.GoStmt:
			rw.failf(x.Pos(), "labelled go statement is not supported")
		case *ast.RangeStmt:
			pre, loop := rw.rangeStmt(in)
			x.Stmt = loop
			if pre == nil {
				return x
			}
			return &ast.BlockStmt{List: append(pre, x)}
		}
	}
	rw.children(s)
	return s
}

func (rw *rewriter) goStmt(g *ast.GoStmt) ast.Stmt {
	c := g.Call
	if fl, ok := c.Fun.(*ast.FuncLit); ok && len(c.Args) == 0 && (fl.Type.Results == nil || len(fl.Type.Results.List) == 0) {
		rw.children(fl)
		return &ast.ExprStmt{X: call(rw.sched("Go"), fl)}
	}
	if id, ok := unparen(c.Fun).(*ast.Ident); ok {
		if _, isB := rw.info.Uses[id].(*types.Builtin); isB {
			rw.failf(g.Pos(), "go statement on a builtin is not supported")
		}
	}
	if tv, ok := rw.info.Types[c.Fun]; ok && tv.IsType() {
		rw.failf(g.Pos(), "go statement on a conversion is not supported")
	}
	// The function value and the arguments are evaluated by the spawning
	// goroutine, as the language specifies.
	var pre []ast.Stmt
	f := rw.fresh("f")
	pre = append(pre, &ast.AssignStmt{Lhs: []ast.Expr{f}, Tok: token.DEFINE, Rhs: []ast.Expr{rw.expr(c.Fun)}})
	var args []ast.Expr
	for _, a := range c.Args {
		if tv, ok := rw.info.Types[a]; ok {
			if tup, isTuple := tv.Type.(*types.Tuple); isTuple && tup.Len() != 1 {
				rw.failf(g.Pos(), "go statement with a multi-valued argument is not supported")
			}
		}
		v := rw.fresh("a")
		pre = append(pre, &ast.AssignStmt{Lhs: []ast.Expr{v}, Tok: token.DEFINE, Rhs: []ast.Expr{rw.expr(a)}})
		args = append(args, v)
	}
	inner := &ast.CallExpr{Fun: f, Args: args}
	if c.Ellipsis.IsValid() {
		inner.Ellipsis = 1
	}
	lit := &ast.FuncLit{Type: &ast.FuncType{Params: &ast.FieldList{}}, Body: &ast.BlockStmt{List: []ast.Stmt{&ast.ExprStmt{X: inner}}}}
	pre = append(pre, &ast.ExprStmt{X: call(rw.sched("Go"), lit)})
	return &ast.BlockStmt{List: pre}
}

func (rw *rewriter) selectStmt(s *ast.SelectStmt) ast.Stmt {
	hasDefault := false
	for _, c := range s.Body.List {
		if c.(*ast.CommClause).Comm == nil {
			hasDefault = true
		}
	}
	sel := rw.fresh("sel")
	var pre []ast.Stmt
	pre = append(pre, &ast.AssignStmt{Lhs: []ast.Expr{sel}, Tok: token.DEFINE,
		Rhs: []ast.Expr{call(rw.sched("NewSelect"), ast.NewIdent(strconv.FormatBool(hasDefault)))}})
	sw := &ast.SwitchStmt{Tag: method(sel, "Run"), Body: &ast.BlockStmt{}}
	idx := 0
	for _, c := range s.Body.List {
		cc := c.(*ast.CommClause)
		clause := &ast.CaseClause{}
		var head []ast.Stmt
		switch comm := cc.Comm.(type) {
		case nil:
			clause.List = nil // default
		case *ast.SendStmt:
			pre = append(pre, &ast.ExprStmt{X: call(rw.sched("SendCase"), sel, rw.expr(comm.Chan), rw.expr(comm.Value))})
			clause.List = []ast.Expr{&ast.BasicLit{Kind: token.INT, Value: strconv.Itoa(idx)}}
			idx++
		case *ast.ExprStmt:
			ch, ok := isRecv(comm.X)
			if !ok {
				rw.failf(comm.Pos(), "unsupported communication clause")
				continue
			}
			pre = append(pre, &ast.ExprStmt{X: call(rw.sched("RecvCase"), sel, rw.expr(ch))})
			clause.List = []ast.Expr{&ast.BasicLit{Kind: token.INT, Value: strconv.Itoa(idx)}}
			idx++
		case *ast.AssignStmt:
			if len(comm.Rhs) != 1 {
				rw.failf(comm.Pos(), "unsupported communication clause")
				continue
			}
			ch, ok := isRecv(comm.Rhs[0])
			if !ok {
				rw.failf(comm.Pos(), "unsupported communication clause")
				continue
			}
			h := rw.fresh("c")
			pre = append(pre, &ast.AssignStmt{Lhs: []ast.Expr{h}, Tok: token.DEFINE,
				Rhs: []ast.Expr{call(rw.sched("RecvCase"), sel, rw.expr(ch))}})
			name := "Value"
			if len(comm.Lhs) == 2 {
				name = "Value2"
			}
			lhs := make([]ast.Expr, len(comm.Lhs))
			for i := range comm.Lhs {
				lhs[i] = rw.expr(comm.Lhs[i])
			}
			head = append(head, &ast.AssignStmt{Lhs: lhs, Tok: comm.Tok, Rhs: []ast.Expr{method(h, name)}})
			clause.List = []ast.Expr{&ast.BasicLit{Kind: token.INT, Value: strconv.Itoa(idx)}}
			idx++
		default:
			rw.failf(cc.Pos(), "unsupported communication clause")
			continue
		}
		body := make([]ast.Stmt, 0, len(cc.Body)+1)
		body = append(body, head...)
		for _, b := range cc.Body {
			body = append(body, rw.stmt(b))
		}
		clause.Body = body
		sw.Body.List = append(sw.Body.List, clause)
	}
	if !hasDefault {
		// Keeps the statement terminating exactly when the select was (a
		// switch needs a default clause for that); never reached.
		sw.Body.List = append(sw.Body.List, &ast.CaseClause{Body: []ast.Stmt{&ast.ExprStmt{X: call(ast.NewIdent("panic"),
			&ast.BasicLit{Kind: token.STRING, Value: strconv.Quote("vsched: unreachable select result")})}}})
	}
	return &ast.BlockStmt{List: append(pre, sw)}
}

// rangeStmt rewrites a range loop over a channel or a map; other loops are
// rewritten in place. pre holds statements that must precede the loop.
func (rw *rewriter) rangeStmt(r *ast.RangeStmt) (pre []ast.Stmt, loop ast.Stmt) {
	kind := rw.kindOf(r.X)
	switch kind {
	case "":
		rw.failf(r.Pos(), "cannot determine the type ranged over")
		return nil, r
	case "other":
		rw.children(r)
		return nil, r
	}
	isBlank := func(e ast.Expr) bool {
		if e == nil {
			return true
		}
		id, ok := e.(*ast.Ident)
		return ok && id.Name == "_"
	}
	x := rw.fresh("x")
	pre = []ast.Stmt{&ast.AssignStmt{Lhs: []ast.Expr{x}, Tok: token.DEFINE, Rhs: []ast.Expr{rw.expr(r.X)}}}
	var body []ast.Stmt
	for _, b := range r.Body.List {
		body = append(body, rw.stmt(b))
	}
	if kind == "chan" {
		if r.Value != nil {
			rw.failf(r.Pos(), "range over a channel permits only one iteration variable")
		}
		ok := rw.fresh("ok")
		var v ast.Expr = ast.NewIdent("_")
		tok := token.DEFINE
		if !isBlank(r.Key) {
			v = rw.expr(r.Key)
			if r.Tok == token.ASSIGN {
				// existing variable: declare ok separately
				head := []ast.Stmt{
					&ast.DeclStmt{Decl: &ast.GenDecl{Tok: token.VAR, Specs: []ast.Spec{&ast.ValueSpec{Names: []*ast.Ident{ok}, Type: ast.NewIdent("bool")}}}},
					&ast.AssignStmt{Lhs: []ast.Expr{v, ok}, Tok: token.ASSIGN, Rhs: []ast.Expr{method(x, "Recv2")}},
					&ast.IfStmt{Cond: &ast.UnaryExpr{Op: token.NOT, X: ok}, Body: &ast.BlockStmt{List: []ast.Stmt{&ast.BranchStmt{Tok: token.BREAK}}}},
				}
				return pre, &ast.ForStmt{Body: &ast.BlockStmt{List: append(head, body...)}}
			}
		}
		head := []ast.Stmt{
			&ast.AssignStmt{Lhs: []ast.Expr{v, ok}, Tok: tok, Rhs: []ast.Expr{method(x, "Recv2")}},
			&ast.IfStmt{Cond: &ast.UnaryExpr{Op: token.NOT, X: ok}, Body: &ast.BlockStmt{List: []ast.Stmt{&ast.BranchStmt{Tok: token.BREAK}}}},
		}
		return pre, &ast.ForStmt{Body: &ast.BlockStmt{List: append(head, body...)}}
	}
	// Map: iterate over a scheduler-ordered snapshot of the keys, skipping
	// entries deleted in the meantime.
	k := rw.fresh("k")
	ok := rw.fresh("ok")
	var head []ast.Stmt
	index := func() ast.Expr { return &ast.IndexExpr{X: x, Index: k} }
	if r.Tok == token.DEFINE {
		var v ast.Expr = ast.NewIdent("_")
		if !isBlank(r.Value) {
			v = r.Value
		}
		head = append(head,
			&ast.AssignStmt{Lhs: []ast.Expr{v, ok}, Tok: token.DEFINE, Rhs: []ast.Expr{index()}},
			&ast.IfStmt{Cond: &ast.UnaryExpr{Op: token.NOT, X: ok}, Body: &ast.BlockStmt{List: []ast.Stmt{&ast.BranchStmt{Tok: token.CONTINUE}}}})
		if !isBlank(r.Key) {
			head = append(head, &ast.AssignStmt{Lhs: []ast.Expr{r.Key}, Tok: token.DEFINE, Rhs: []ast.Expr{k}})
		}
	} else {
		head = append(head,
			&ast.IfStmt{Init: &ast.AssignStmt{Lhs: []ast.Expr{ast.NewIdent("_"), ok}, Tok: token.DEFINE, Rhs: []ast.Expr{index()}},
				Cond: &ast.UnaryExpr{Op: token.NOT, X: ok}, Body: &ast.BlockStmt{List: []ast.Stmt{&ast.BranchStmt{Tok: token.CONTINUE}}}})
		if !isBlank(r.Key) {
			head = append(head, &ast.AssignStmt{Lhs: []ast.Expr{rw.expr(r.Key)}, Tok: token.ASSIGN, Rhs: []ast.Expr{k}})
		}
		if !isBlank(r.Value) {
			head = append(head, &ast.AssignStmt{Lhs: []ast.Expr{rw.expr(r.Value)}, Tok: token.ASSIGN, Rhs: []ast.Expr{index()}})
		}
	}
	return pre, &ast.RangeStmt{Key: ast.NewIdent("_"), Value: k, Tok: token.DEFINE,
		X: call(rw.sched("RangeKeys"), x), Body: &ast.BlockStmt{List: append(head, body...)}}
}

// ---- generic traversal ----------------------------------------------------------

var (
	exprType = reflect.TypeOf((*ast.Expr)(nil)).Elem()
	stmtType = reflect.TypeOf((*ast.Stmt)(nil)).Elem()
	nodeType = reflect.TypeOf((*ast.Node)(nil)).Elem()
)

// children rewrites every child expression/statement of n in place.
func (rw *rewriter) children(n ast.Node) {
	v := reflect.ValueOf(n)
	if v.Kind() != reflect.Pointer || v.IsNil() {
		return
	}
	if ts, ok := n.(*ast.TypeSpec); ok {
		if _, isChan := unparen(ts.Type).(*ast.ChanType); isChan {
			rw.failf(ts.Pos(), "named channel type %s is not supported", ts.Name.Name)
		}
	}
	v = v.Elem()
	if v.Kind() != reflect.Struct {
		return
	}
	for i := 0; i < v.NumField(); i++ {
		f := v.Field(i)
		name := v.Type().Field(i).Name
		if name == "Doc" || name == "Comment" {
			// Comments are dropped: their positions would be meaningless.
			if f.Kind() == reflect.Pointer && f.CanSet() {
				f.Set(reflect.Zero(f.Type()))
			}
			continue
		}
		if name == "Obj" || name == "Scope" || name == "Comments" || name == "Unresolved" || name == "Imports" {
			continue
		}
		rw.value(f)
	}
}

func (rw *rewriter) value(f reflect.Value) {
	switch f.Kind() {
	case reflect.Interface:
		if f.IsNil() {
			return
		}
		switch {
		case f.Type() == exprType:
			f.Set(reflect.ValueOf(rw.expr(f.Interface().(ast.Expr))))
		case f.Type() == stmtType:
			f.Set(reflect.ValueOf(rw.stmt(f.Interface().(ast.Stmt))))
		case f.Type().Implements(nodeType):
			// ast.Decl, ast.Spec, ast.Node
			if vs, isVS := f.Interface().(*ast.ValueSpec); isVS {
				rw.valueSpec(vs)
				return
			}
			rw.children(f.Interface().(ast.Node))
		}
	case reflect.Pointer:
		if f.IsNil() {
			return
		}
		if c, ok := f.Interface().(*ast.CallExpr); ok {
			f.Set(reflect.ValueOf(rw.callExpr(c)))
			return
		}
		if n, ok := f.Interface().(ast.Node); ok {
			if vs, isVS := n.(*ast.ValueSpec); isVS {
				rw.valueSpec(vs)
				return
			}
			rw.children(n)
		}
	case reflect.Slice:
		for i := 0; i < f.Len(); i++ {
			rw.value(f.Index(i))
		}
	}
}

// valueSpec handles `var v, ok = <-c`.
func (rw *rewriter) valueSpec(vs *ast.ValueSpec) {
	if len(vs.Names) == 2 && len(vs.Values) == 1 {
		if ch, ok := isRecv(vs.Values[0]); ok {
			vs.Type = rw.expr(vs.Type)
			vs.Values[0] = method(rw.expr(ch), "Recv2")
			return
		}
	}
	rw.children(vs)
}

// ---- driver ------------------------------------------------------------------------

type fakeImporter struct {
	std   types.Importer
	cache map[string]*types.Package
}

func (f *fakeImporter) Import(path string) (*types.Package, error) {
	if p, ok := f.cache[path]; ok {
		return p, nil
	}
	first := strings.Split(path, "/")[0]
	if !strings.Contains(first, ".") {
		p, err := f.std.Import(path)
		if err == nil {
			f.cache[path] = p
			return p, nil
		}
	}
	// Third-party or unresolved import: an empty package. Uses of it get an
	// invalid type, and every translation that depends on such a type fails
	// closed.
	name := path[strings.LastIndex(path, "/")+1:]
	p := types.NewPackage(path, name)
	p.MarkComplete()
	f.cache[path] = p
	return p, nil
}

func main() {
	var src, out, tags, pkgpath string
	var allow stringList
	flag.StringVar(&src, "src", "", "package directory to rewrite")
	flag.StringVar(&out, "out", "", "directory for the rewritten files")
	flag.StringVar(&tags, "tags", "verif", "comma-separated build tags")
	flag.StringVar(&pkgpath, "pkgpath", "", "import path of the package (for messages only)")
	flag.Var(&allow, "allow", "import path that is declared free of concurrency (repeatable)")
	flag.Parse()
	if src == "" || out == "" {
		fatalf("usage: vrewrite -src DIR -out DIR [-tags a,b] [-allow importpath]...")
	}
	ctx := build.Default
	ctx.BuildTags = strings.Split(tags, ",")
	ctx.CgoEnabled = false
	bp, err := ctx.ImportDir(src, 0)
	if err != nil {
		fatalf("%s: %v", src, err)
	}
	if len(bp.CgoFiles) > 0 {
		fatalf("%s: cgo files are not supported", src)
	}
	names := append([]string{}, bp.GoFiles...)
	sort.Strings(names)
	fset := token.NewFileSet()
	var files []*ast.File
	for _, n := range names {
		f, err := parser.ParseFile(fset, filepath.Join(src, n), nil, parser.ParseComments|parser.SkipObjectResolution)
		if err != nil {
			fatalf("%v", err)
		}
		for _, cg := range f.Comments {
			for _, c := range cg.List {
				for _, bad := range []string{"//go:linkname", "//go:embed", "//go:nosplit", "//go:norace", "//go:generate vsched"} {
					if strings.HasPrefix(c.Text, bad) {
						fatalf("%s: directive %s is not supported", fset.Position(c.Pos()), bad)
					}
				}
			}
		}
		files = append(files, f)
	}
	info := &types.Info{Types: map[ast.Expr]types.TypeAndValue{}, Uses: map[*ast.Ident]types.Object{}, Defs: map[*ast.Ident]types.Object{}}
	conf := types.Config{
		Importer: &fakeImporter{std: importer.ForCompiler(fset, "source", nil), cache: map[string]*types.Package{}},
		Error:    func(error) {}, // unresolved third-party names are expected; see fakeImporter
	}
	if pkgpath == "" {
		pkgpath = "p"
	}
	conf.Check(pkgpath, fset, files, info)

	allowed := map[string]bool{}
	for _, a := range allow {
		allowed[a] = true
	}
	rw := &rewriter{fset: fset, info: info, allow: allowed}
	if err := os.MkdirAll(out, 0o755); err != nil {
		fatalf("%v", err)
	}
	type output struct {
		name string
		data []byte
	}
	var outs []output
	for i, f := range files {
		rw.used = false
		// Imports.
		for _, im := range f.Imports {
			p, _ := strconv.Unquote(im.Path.Value)
			if p == "C" {
				rw.failf(im.Pos(), "cgo is not supported")
			}
			if to, ok := shimmed[p]; ok {
				if im.Name == nil {
					im.Name = ast.NewIdent(p[strings.LastIndex(p, "/")+1:])
				}
				if im.Name.Name == "." || im.Name.Name == "_" {
					rw.failf(im.Pos(), "dot/blank import of %s is not supported", p)
				}
				im.Path = &ast.BasicLit{Kind: token.STRING, Value: strconv.Quote(to)}
				continue
			}
			if pureStd[p] || allowed[p] {
				continue
			}
			rw.failf(im.Pos(), "import %q is neither a shimmed package, nor known to be free of concurrency, nor allowed with -allow", p)
		}
		for _, d := range f.Decls {
			rw.children(d)
		}
		f.Comments = nil
		f.Doc = nil
		// Always import the scheduler package (referenced or not).
		imp := &ast.GenDecl{Tok: token.IMPORT, Specs: []ast.Spec{&ast.ImportSpec{Name: ast.NewIdent(schedName), Path: &ast.BasicLit{Kind: token.STRING, Value: strconv.Quote(schedPath)}}}}
		keep := &ast.GenDecl{Tok: token.VAR, Specs: []ast.Spec{&ast.ValueSpec{Names: []*ast.Ident{ast.NewIdent("_")}, Values: []ast.Expr{&ast.SelectorExpr{X: ast.NewIdent(schedName), Sel: ast.NewIdent("Go")}}}}}
		var decls []ast.Decl
		placed := false
		for _, d := range f.Decls {
			if g, ok := d.(*ast.GenDecl); ok && g.Tok == token.IMPORT {
				decls = append(decls, d)
				continue
			}
			if !placed {
				decls = append(decls, imp, keep)
				placed = true
			}
			decls = append(decls, d)
		}
		if !placed {
			decls = append(decls, imp, keep)
		}
		f.Decls = decls
		var buf bytes.Buffer
		fmt.Fprintf(&buf, "// Code generated by verif/cmd/vrewrite from %s; DO NOT EDIT.\n\n", filepath.Join(src, names[i]))
		// Print declaration by declaration: positions of untouched nodes refer
		// to the original file and would otherwise confuse line breaking.
		fmt.Fprintf(&buf, "package %s\n\n", f.Name.Name)
		cfg := printer.Config{Mode: printer.UseSpaces | printer.TabIndent, Tabwidth: 8}
		for _, d := range f.Decls {
			if err := cfg.Fprint(&buf, token.NewFileSet(), d); err != nil {
				fatalf("printing %s: %v", names[i], err)
			}
			buf.WriteString("\n\n")
		}
		// The output must at least parse.
		if _, err := parser.ParseFile(token.NewFileSet(), names[i], buf.Bytes(), 0); err != nil {
			fatalf("internal error: rewritten %s does not parse: %v\n%s", names[i], err, buf.String())
		}
		outs = append(outs, output{names[i], buf.Bytes()})
	}
	if len(rw.errs) > 0 {
		for _, e := range rw.errs {
			fmt.Fprintln(os.Stderr, "vrewrite: "+e)
		}
		fatalf("%d construct(s) cannot be translated; no output written", len(rw.errs))
	}
	for _, o := range outs {
		if err := os.WriteFile(filepath.Join(out, o.name), o.data, 0o644); err != nil {
			fatalf("%v", err)
		}
		fmt.Println(filepath.Join(out, o.name))
	}
}
