package main

import (
	"encoding/json"
	"os"
	"os/exec"
	"path/filepath"
	"strings"
	"testing"
)

func gobin() string {
	if g := os.Getenv("GO"); g != "" {
		return g
	}
	return "go"
}

func buildTool(t *testing.T) string {
	bin := filepath.Join(t.TempDir(), "vrewrite")
	out, err := exec.Command(gobin(), "build", "-o", bin, ".").CombinedOutput()
	if err != nil {
		t.Fatalf("build: %v\n%s", err, out)
	}
	return bin
}

// Constructs the rewriter cannot translate faithfully must make it exit 2 and
// leave no output behind.
func TestFailsClosed(t *testing.T) {
	bin := buildTool(t)
	for _, c := range []struct{ dir, want string }{
		{"labelled", "labelled select"},
		{"namedchan", "named channel type"},
		{"badimport", "neither a shimmed package"},
		{"unknownlen", "cannot determine whether the operand of len/cap is a channel"},
	} {
		out := t.TempDir()
		args := []string{"-src", "testdata/" + c.dir, "-out", out}
		if c.dir == "unknownlen" {
			args = append(args, "-allow", "example.com/unknown/pkg")
		}
		cmd := exec.Command(bin, args...)
		msg, err := cmd.CombinedOutput()
		ee, ok := err.(*exec.ExitError)
		if !ok || ee.ExitCode() != 2 {
			t.Errorf("%s: want exit 2, got %v\n%s", c.dir, err, msg)
		}
		if !strings.Contains(string(msg), c.want) {
			t.Errorf("%s: message %q lacks %q", c.dir, msg, c.want)
		}
		if files, _ := os.ReadDir(out); len(files) != 0 {
			t.Errorf("%s: output written despite failure", c.dir)
		}
	}
}

// A package using every supported construct is rewritten and the result
// compiles against the scheduler shims.
func TestRewrittenSampleCompiles(t *testing.T) {
	bin := buildTool(t)
	out := t.TempDir()
	if msg, err := exec.Command(bin, "-src", "testdata/ok", "-out", out).CombinedOutput(); err != nil {
		t.Fatalf("rewrite: %v\n%s", err, msg)
	}
	src, _ := os.ReadFile(filepath.Join(out, "ok.go"))
	for _, frag := range []string{"chan ", "<-", "select {", "go ", `"sync"`, `"time"`, `"context"`} {
		for _, line := range strings.Split(string(src), "\n") {
			if strings.HasPrefix(strings.TrimSpace(line), "//") {
				continue
			}
			if strings.Contains(line, frag) && !strings.Contains(line, "_vsched.Go") {
				t.Errorf("rewritten source still contains %q: %s", frag, line)
			}
		}
	}
	root, _ := filepath.Abs("../..")
	ov := map[string]map[string]string{"Replace": {filepath.Join(root, "internal/vsgen/zzsample/ok.go"): filepath.Join(out, "ok.go")}}
	data, _ := json.Marshal(ov)
	ovf := filepath.Join(out, "overlay.json")
	os.WriteFile(ovf, data, 0o644)
	cmd := exec.Command(gobin(), "build", "-overlay", ovf, "verif/internal/vsgen/zzsample")
	cmd.Dir = root
	if msg, err := cmd.CombinedOutput(); err != nil {
		t.Fatalf("rewritten sample does not compile: %v\n%s\n%s", err, msg, src)
	}
}
