module verif

go 1.25.0

replace github.com/mutagen-io/mutagen => /repo

require (
	github.com/mutagen-io/mutagen v0.0.0-00010101000000-000000000000
	google.golang.org/protobuf v1.36.11
)

require (
	github.com/hectane/go-acl v0.0.0-20230122075934-ca0b05cb1adb // indirect
	golang.org/x/sys v0.43.0 // indirect
)
