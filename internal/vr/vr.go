// Package vr is the reporting half of the verification framework: every check
// (a `go test` function built with -tags verif against /repo's working tree)
// creates one Report, counts the cases it enumerates, records violations with a
// replayable artefact, and writes /verif/evidence/<id>.json when it finishes.
package vr

import (
	"crypto/sha1"
	"encoding/hex"
	"encoding/json"
	"fmt"
	"os"
	"path/filepath"
	"runtime"
	"sort"
	"strconv"
	"strings"
	"sync"
	"testing"
	"time"
)

// Root is the /verif directory (VERIF_ROOT, set by bin/check).
func Root() string {
	if r := os.Getenv("VERIF_ROOT"); r != "" {
		return r
	}
	return "/verif"
}

// Tier is "quick" or "thorough".
func Tier() string {
	if os.Getenv("VERIF_TIER") == "thorough" {
		return "thorough"
	}
	return "quick"
}

// Thorough reports whether the thorough tier was requested.
func Thorough() bool { return Tier() == "thorough" }

// Seed returns VERIF_SEED (recorded only; nothing decisive is random).
func Seed() int {
	n, _ := strconv.Atoi(os.Getenv("VERIF_SEED"))
	return n
}

// Workers is the number of worker goroutines for sharded enumeration.
func Workers() int {
	if s := os.Getenv("VERIF_WORKERS"); s != "" {
		if n, err := strconv.Atoi(s); err == nil && n > 0 {
			return n
		}
	}
	n := runtime.NumCPU()
	if n > 16 {
		n = 16
	}
	return n
}

// Deadline returns a time budget for the current tier; checks that hit it stop
// with exhaustive=false, never with a failure.
func Deadline(quick, thorough time.Duration) time.Time {
	d := quick
	if Thorough() {
		d = thorough
	}
	if s := os.Getenv("VERIF_BUDGET_S"); s != "" {
		if n, err := strconv.Atoi(s); err == nil && n > 0 {
			d = time.Duration(n) * time.Second
		}
	}
	return time.Now().Add(d)
}

// Finding is one entry of known_findings.json.
type Finding struct {
	Property string `json:"property"`
	Key      string `json:"key"`
	What     string `json:"what"`
}

type knownFile struct {
	Findings []Finding `json:"findings"`
	Fixed    []string  `json:"fixed"`
}

// Violation is one recorded property violation.
type Violation struct {
	Key    string      `json:"key"`
	What   string      `json:"what"`
	Case   interface{} `json:"case"`
	Stable string      `json:"stable,omitempty"`
	Known  bool        `json:"known"`

	unreproducible bool
}

// Report accumulates coverage for one property check.
type Report struct {
	t        *testing.T
	Property string
	Level    string
	start    time.Time

	mu          sync.Mutex
	evaluations int64
	distinct    map[[20]byte]struct{}
	distinctCap int
	distinctN   int64
	samples     []interface{}
	violations  map[string]*Violation
	vorder      []string
	unstable    int
	unlistedN   int
	extra       map[string]interface{}
	assumptions []string
	rule        string
	exhaustive  bool
	known       []Finding
	outcomes    map[string]int64
}

// New creates the report for property id at the given evidence level
// (exploration, fault_enumeration, model_checking).
func New(t *testing.T, id, level string) *Report {
	r := &Report{
		t: t, Property: id, Level: level, start: time.Now(),
		distinct:   map[[20]byte]struct{}{},
		violations: map[string]*Violation{},
		extra:      map[string]interface{}{},
		exhaustive: true,
		outcomes:   map[string]int64{},
	}
	r.distinctCap = 4_000_000
	data, err := os.ReadFile(filepath.Join(Root(), "known_findings.json"))
	if err == nil {
		var k knownFile
		if err := json.Unmarshal(data, &k); err != nil {
			t.Fatalf("INFRA: known_findings.json does not parse: %v", err)
		}
		for _, f := range k.Findings {
			if f.Property == id {
				r.known = append(r.known, f)
			}
		}
	}
	return r
}

// Rule states how cases are enumerated and what makes one non-trivial.
func (r *Report) Rule(s string) { r.rule = s }

// Assume records an assumption / trusted-base element.
func (r *Report) Assume(s ...string) { r.assumptions = append(r.assumptions, s...) }

// Set stores an extra coverage key.
func (r *Report) Set(k string, v interface{}) {
	r.mu.Lock()
	r.extra[k] = v
	r.mu.Unlock()
}

// Add adds n to an integer extra coverage key.
func (r *Report) Add(k string, n int64) {
	r.mu.Lock()
	cur, _ := r.extra[k].(int64)
	r.extra[k] = cur + n
	r.mu.Unlock()
}

// NotExhaustive marks the run as capped, with the reason recorded.
func (r *Report) NotExhaustive(why string) {
	r.mu.Lock()
	r.exhaustive = false
	r.extra["cap_reason"] = why
	r.mu.Unlock()
}

// Case counts one evaluated case. key identifies it for distinctness; a case
// is counted in distinct_nontrivial only when nontrivial is true.
func (r *Report) Case(key string, nontrivial bool) {
	r.mu.Lock()
	r.evaluations++
	if nontrivial {
		r.addDistinctLocked(key)
	}
	r.mu.Unlock()
}

func (r *Report) addDistinctLocked(key string) {
	if len(r.distinct) >= r.distinctCap {
		// Beyond the cap the hash set is frozen; count conservatively (not at all).
		return
	}
	h := sha1.Sum([]byte(key))
	if _, ok := r.distinct[h]; !ok {
		r.distinct[h] = struct{}{}
		r.distinctN++
	}
}

// Outcome counts a distinct observed outcome class (vacuity guard).
func (r *Report) Outcome(class string) {
	r.mu.Lock()
	r.outcomes[class]++
	r.mu.Unlock()
}

// Local is a per-worker accumulator that avoids lock contention in hot loops.
type Local struct {
	r        *Report
	evals    int64
	once     int64
	keys     []string
	outcomes map[string]int64
}

// Local returns a worker-local accumulator; call Flush when done.
func (r *Report) Local() *Local { return &Local{r: r, outcomes: map[string]int64{}} }

// Case is the worker-local version of Report.Case.
func (l *Local) Case(key string, nontrivial bool) {
	l.evals++
	if nontrivial {
		l.keys = append(l.keys, key)
		if len(l.keys) >= 4096 {
			l.Flush()
		}
	}
}

// CaseOnce counts a case that the enumeration visits exactly once by
// construction (so distinctness needs no hashing): it is counted in
// distinct_nontrivial directly when nontrivial is true.
func (l *Local) CaseOnce(nontrivial bool) {
	l.evals++
	if nontrivial {
		l.once++
	}
}

// Outcome is the worker-local version of Report.Outcome.
func (l *Local) Outcome(class string) { l.outcomes[class]++ }

// Flush merges the accumulator into the report.
func (l *Local) Flush() {
	l.r.mu.Lock()
	l.r.evaluations += l.evals
	l.r.distinctN += l.once
	l.once = 0
	for _, k := range l.keys {
		l.r.addDistinctLocked(k)
	}
	for k, v := range l.outcomes {
		l.r.outcomes[k] += v
	}
	l.r.mu.Unlock()
	l.evals = 0
	l.keys = l.keys[:0]
	l.outcomes = map[string]int64{}
}

// Sample records an example case (first 6 are kept).
func (r *Report) Sample(x interface{}) {
	r.mu.Lock()
	if len(r.samples) < 6 {
		r.samples = append(r.samples, x)
	}
	r.mu.Unlock()
}

// Violate records a violation. key is the canonical identity of the failing
// case (input / call site / history) and is what known_findings.json lists.
// rerun, when non-nil, re-executes the case and reports whether it violates
// again; it is called 5 times and a violation that does not reproduce 5/5 is
// reported as UNSTABLE (infrastructure error, exit 2), never as a violation.
func (r *Report) Violate(key, what string, c interface{}, rerun func() bool) {
	r.mu.Lock()
	if _, ok := r.violations[key]; ok {
		r.mu.Unlock()
		return
	}
	if r.isKnown(key) == nil && r.unlistedN >= 200 {
		r.extra["violations_truncated"] = true
		r.mu.Unlock()
		return
	}
	if r.isKnown(key) == nil {
		r.unlistedN++
	}
	v := &Violation{Key: key, What: what, Case: c}
	r.violations[key] = v
	r.vorder = append(r.vorder, key)
	r.mu.Unlock()
	if rerun != nil {
		ok := 0
		for i := 0; i < 5; i++ {
			if rerun() {
				ok++
			}
		}
		r.mu.Lock()
		v.Stable = fmt.Sprintf("%d/5", ok)
		if ok == 0 {
			// Seen once and never again in 5 re-executions: not believed.
			v.unreproducible = true
			r.unstable++
		}
		r.mu.Unlock()
	}
}

// Violations returns the number of recorded violations so far.
func (r *Report) Violations() int {
	r.mu.Lock()
	defer r.mu.Unlock()
	return len(r.violations)
}

// ReplayCase returns the case stored in the replay file named by VERIF_REPLAY
// (nil when not replaying).
func ReplayCase() json.RawMessage {
	p := os.Getenv("VERIF_REPLAY")
	if p == "" {
		return nil
	}
	data, err := os.ReadFile(p)
	if err != nil {
		panic("INFRA: cannot read replay file: " + err.Error())
	}
	var f struct {
		Case json.RawMessage `json:"case"`
	}
	if err := json.Unmarshal(data, &f); err != nil {
		panic("INFRA: replay file does not parse: " + err.Error())
	}
	return f.Case
}

func (r *Report) isKnown(key string) *Finding {
	for i := range r.known {
		if r.known[i].Key == key {
			return &r.known[i]
		}
	}
	return nil
}

// Finish writes evidence and replay files, prints VIOLATION / KNOWN-FINDING
// lines and fails the test if an unlisted violation was found.
func (r *Report) Finish() {
	r.mu.Lock()
	defer r.mu.Unlock()
	replaying := os.Getenv("VERIF_REPLAY") != ""
	cov := map[string]interface{}{}
	for k, v := range r.extra {
		cov[k] = v
	}
	cov["evaluations"] = r.evaluations
	cov["distinct_nontrivial"] = r.distinctN
	if len(r.distinct) >= r.distinctCap {
		cov["distinct_nontrivial_note"] = "hash set capped; count is a lower bound"
	}
	cov["rule"] = r.rule
	if len(r.samples) == 0 {
		r.samples = append(r.samples, "no sample recorded")
	}
	cov["samples"] = r.samples
	cov["exhaustive"] = r.exhaustive
	if len(r.outcomes) > 0 {
		cov["distinct_outcomes"] = len(r.outcomes)
		if len(r.outcomes) <= 40 {
			cov["outcomes"] = r.outcomes
		}
	}
	unlisted := 0
	var lines []string
	seenKnown := map[string]bool{}
	outRoot := Root()
	if d := os.Getenv("VERIF_EVIDENCE_DIR"); d != "" {
		outRoot = d
	}
	os.MkdirAll(filepath.Join(outRoot, "replays"), 0o755)
	sort.Strings(r.vorder)
	var vsum []map[string]interface{}
	for _, key := range r.vorder {
		v := r.violations[key]
		if v.unreproducible {
			lines = append(lines, fmt.Sprintf("UNSTABLE property=%s key=%s did not reproduce in 5 re-executions (%s)", r.Property, key, v.What))
			continue
		}
		if f := r.isKnown(key); f != nil {
			v.Known = true
			seenKnown[key] = true
			lines = append(lines, fmt.Sprintf("KNOWN-FINDING: property=%s %s [%s]", r.Property, f.What, key))
		} else {
			unlisted++
			h := sha1.Sum([]byte(key))
			name := fmt.Sprintf("%s-%s.json", r.Property, hex.EncodeToString(h[:6]))
			path := filepath.Join(outRoot, "replays", name)
			data, _ := json.MarshalIndent(map[string]interface{}{
				"property": r.Property, "key": key, "what": v.What, "case": v.Case, "stable": v.Stable, "test": r.t.Name(),
			}, "", " ")
			if !replaying {
				os.WriteFile(path, data, 0o644)
			}
			if unlisted <= 20 {
				lines = append(lines, fmt.Sprintf("VIOLATION property=%s replay=%s", r.Property, path))
				lines = append(lines, fmt.Sprintf("  detail: key=%s what=%s", key, v.What))
			}
		}
		if len(vsum) < 20 {
			vsum = append(vsum, map[string]interface{}{"key": key, "what": v.What, "known": v.Known, "stable": v.Stable})
		}
	}
	if len(vsum) > 0 {
		cov["violation_list"] = vsum
	}
	ev := map[string]interface{}{
		"property_id": r.Property,
		"tier":        Tier(),
		"seed":        Seed(),
		"level":       r.Level,
		"coverage":    cov,
		"assumptions": r.assumptions,
		"wall_s":      time.Since(r.start).Seconds(),
		"violations":  unlisted,
	}
	if r.assumptions == nil {
		ev["assumptions"] = []string{}
	}
	if !replaying {
		dir := filepath.Join(outRoot, "evidence")
		os.MkdirAll(dir, 0o755)
		cov["leg"] = r.t.Name()
		if os.Getenv("VERIF_EVIDENCE_MERGE") == "1" {
			mergeEvidence(filepath.Join(dir, r.Property+".json"), ev, cov)
		}
		data, err := json.MarshalIndent(ev, "", " ")
		if err != nil {
			r.t.Fatalf("INFRA: evidence does not marshal: %v", err)
		}
		if err := os.WriteFile(filepath.Join(dir, r.Property+".json"), append(data, '\n'), 0o644); err != nil {
			r.t.Fatalf("INFRA: cannot write evidence: %v", err)
		}
	}
	for _, l := range lines {
		fmt.Println(l)
	}
	fmt.Printf("SUMMARY property=%s tier=%s evaluations=%d distinct_nontrivial=%d outcomes=%d violations=%d known=%d exhaustive=%v wall=%.1fs\n",
		r.Property, Tier(), r.evaluations, r.distinctN, len(r.outcomes), unlisted, len(seenKnown), r.exhaustive, time.Since(r.start).Seconds())
	if unlisted > 0 {
		r.t.Errorf("property %s violated (%d unlisted case(s))", r.Property, unlisted)
	} else if r.unstable > 0 {
		r.t.Fatalf("INFRA: %d violation(s) did not reproduce in 5 re-executions and no reproducible violation was found", r.unstable)
	}
}

// mergeEvidence folds the evidence already written by an earlier leg of the same
// property (bin/check runs every INDEX line of a property in order) into ev/cov:
// the legs enumerate different spaces, so counts add up, exhaustive is the
// conjunction, samples are concatenated and each earlier leg's coverage is kept
// under "legs".
func mergeEvidence(path string, ev, cov map[string]interface{}) {
	data, err := os.ReadFile(path)
	if err != nil {
		return
	}
	var old map[string]interface{}
	if json.Unmarshal(data, &old) != nil || old["tier"] != ev["tier"] {
		return
	}
	oc, _ := old["coverage"].(map[string]interface{})
	if oc == nil {
		return
	}
	num := func(m map[string]interface{}, k string) (float64, bool) {
		switch v := m[k].(type) {
		case float64:
			return v, true
		case int64:
			return float64(v), true
		case int:
			return float64(v), true
		}
		return 0, false
	}
	for _, k := range []string{"evaluations", "distinct_nontrivial", "states", "transitions", "traces_validated_against_impl"} {
		a, okA := num(oc, k)
		b, okB := num(cov, k)
		if okA || okB {
			cov[k] = int64(a + b)
		}
	}
	oe, _ := oc["exhaustive"].(bool)
	ne, _ := cov["exhaustive"].(bool)
	cov["exhaustive"] = oe && ne
	if os, ok := oc["samples"].([]interface{}); ok {
		ns, _ := cov["samples"].([]interface{})
		all := append(os, ns...)
		if len(all) > 10 {
			all = all[:10]
		}
		cov["samples"] = all
	}
	cov["rule"] = fmt.Sprintf("%v || leg %v: %v", oc["rule"], cov["leg"], cov["rule"])
	legs, _ := oc["legs"].([]interface{})
	prev := map[string]interface{}{}
	for k, v := range oc {
		if k != "samples" && k != "legs" {
			prev[k] = v
		}
	}
	cov["legs"] = append(legs, prev)
	if oa, ok := old["assumptions"].([]interface{}); ok {
		na, _ := ev["assumptions"].([]string)
		seen := map[string]bool{}
		var merged []string
		for _, a := range oa {
			if s, ok := a.(string); ok && !seen[s] {
				seen[s] = true
				merged = append(merged, s)
			}
		}
		for _, s := range na {
			if !seen[s] {
				seen[s] = true
				merged = append(merged, s)
			}
		}
		ev["assumptions"] = merged
	}
	if w, ok := num(old, "wall_s"); ok {
		nw, _ := ev["wall_s"].(float64)
		ev["wall_s"] = w + nw
	}
	if v, ok := num(old, "violations"); ok {
		nv, _ := ev["violations"].(int)
		ev["violations"] = int(v) + nv
	}
}

// J renders a value as compact JSON (for keys and samples).
func J(x interface{}) string {
	b, err := json.Marshal(x)
	if err != nil {
		return fmt.Sprintf("%#v", x)
	}
	return string(b)
}

// Parallel runs fn(shard) for shard in [0,n) on Workers() goroutines.
func Parallel(n int, fn func(i int)) {
	w := Workers()
	if w > n {
		w = n
	}
	var wg sync.WaitGroup
	var mu sync.Mutex
	next := 0
	for g := 0; g < w; g++ {
		wg.Add(1)
		go func() {
			defer wg.Done()
			for {
				mu.Lock()
				i := next
				next++
				mu.Unlock()
				if i >= n {
					return
				}
				fn(i)
			}
		}()
	}
	wg.Wait()
}

// Short truncates long strings for messages.
func Short(s string, n int) string {
	if len(s) <= n {
		return s
	}
	return s[:n] + "…"
}

// Has reports whether substr is within s (tiny helper for oracles).
func Has(s, substr string) bool { return strings.Contains(s, substr) }
