//go:build !amd64

package vsched

import "runtime"

// goid returns the current goroutine's id, parsed from the stack header (slow,
// portable fallback).
func goid() uint64 {
	var buf [64]byte
	n := runtime.Stack(buf[:], false)
	var id uint64
	for i := len("goroutine "); i < n; i++ {
		c := buf[i]
		if c < '0' || c > '9' {
			break
		}
		id = id*10 + uint64(c-'0')
	}
	return id
}
