package vsched

import (
	"fmt"
	"sort"
	"sync"
	"time"
)

// Judgement is what the harness concludes from one execution.
type Judgement struct {
	// Obs is everything the harness observed, rendered canonically; the strict
	// replay of the same choice vector must reproduce it exactly.
	Obs string
	// Violation is "" or the property clause that was broken.
	Violation string
	// Key optionally names the violation class canonically (known-findings key).
	Key string
	// Outcome is a coarse class for the vacuity statistics.
	Outcome string
	// Nontrivial marks executions that count for distinct_nontrivial.
	Nontrivial bool
}

// Instance is one fresh copy of the harness: Body runs as thread 0; Judge is
// called on the explorer's goroutine after the execution has been torn down.
type Instance struct {
	Body  func()
	Judge func(res *Result) Judgement
}

// Config configures an exploration.
type Config struct {
	Options
	MaxCost  int       // preemption/deviation bound (inclusive)
	// SkipBelow > 0 makes the exploration an increment: schedules with fewer
	// than SkipBelow preemptions are re-executed only to find their successors
	// (not replayed, not visited, not counted); they were reported by an
	// earlier exploration with MaxCost = SkipBelow-1.
	SkipBelow int
	Workers  int       // parallel executions (1 when the code under test has package-level state)
	Deadline time.Time // stop (not exhaustive) when passed
	New      func() Instance
	// Visit is called (serialised) for every explored schedule.
	Visit func(choices []uint8, res *Result, j Judgement)
}

// Stats is what an exploration measured.
type Stats struct {
	Schedules      int64         // distinct choice vectors executed
	ByCost         map[int]int64 // schedules per number of preemptions/deviations
	CompletedBound int           // highest bound b such that every schedule with cost <= b was explored (-1: none)
	Divergent      int64         // strict replays that observed something else
	ReplayErrors   int64
	Infra          []string // infrastructure failures (never reported as violations)
	MaxThreads     int
	MaxSteps       int
	MaxPoints      int
	Ends           map[string]int64
	Capped         bool
}

type workItem struct {
	prefix []uint8
	cost   int
}

// Explore runs the stateless search: level by level in the number of
// preemptions (iterative context bounding), each schedule once, each followed
// by a strict replay of its full choice vector.
func Explore(cfg Config) Stats {
	st := Stats{ByCost: map[int]int64{}, Ends: map[string]int64{}, CompletedBound: -1}
	if cfg.Workers < 1 {
		cfg.Workers = 1
	}
	var mu sync.Mutex // guards st and Visit
	// later[c] collects the prefixes whose schedule costs c deviations.
	later := map[int][]workItem{0: {{nil, 0}}}
	for cost := 0; cost <= cfg.MaxCost; cost++ {
		level := later[cost]
		delete(later, cost)
		// Shared LIFO stack of the current level; items of the same cost that
		// are discovered while processing are pushed on it.
		stack := level
		inflight := 0
		cond := sync.NewCond(&mu)
		capped := false
		// expand pushes the successors of an executed prefix: one choice point
		// beyond the prefix flipped to a non-default option. Called under mu.
		expand := func(it workItem, res *Result, choices []uint8) {
			for k := len(it.prefix); k < len(res.Points); k++ {
				p := res.Points[k]
				for a := 1; a < int(p.N); a++ {
					c := it.cost + p.Cost(a)
					if c > cfg.MaxCost {
						continue
					}
					child := make([]uint8, k+1)
					copy(child, choices[:k])
					child[k] = uint8(a)
					if c == cost {
						stack = append(stack, workItem{child, c})
					} else {
						later[c] = append(later[c], workItem{child, c})
					}
				}
			}
		}
		var wg sync.WaitGroup
		for w := 0; w < cfg.Workers; w++ {
			wg.Add(1)
			go func() {
				defer wg.Done()
				for {
					mu.Lock()
					for len(stack) == 0 && inflight > 0 && !capped {
						cond.Wait()
					}
					if capped || len(stack) == 0 {
						mu.Unlock()
						cond.Broadcast()
						return
					}
					if !cfg.Deadline.IsZero() && time.Now().After(cfg.Deadline) {
						capped = true
						mu.Unlock()
						cond.Broadcast()
						return
					}
					it := stack[len(stack)-1]
					stack = stack[:len(stack)-1]
					inflight++
					mu.Unlock()

					inst := cfg.New()
					res := Run(cfg.Options, it.prefix, false, inst.Body)
					choices := res.Choices()
					if it.cost < cfg.SkipBelow && res.End != "replay-error" && res.End != "infra" && res.Cost == it.cost {
						mu.Lock()
						expand(it, res, choices)
						inflight--
						mu.Unlock()
						cond.Broadcast()
						continue
					}
					j := inst.Judge(res)
					// Strict replay: the same vector must give the same run.
					inst2 := cfg.New()
					res2 := Run(cfg.Options, choices, true, inst2.Body)
					j2 := inst2.Judge(res2)

					mu.Lock()
					st.Schedules++
					st.ByCost[res.Cost]++
					st.Ends[res.End]++
					if res.Threads > st.MaxThreads {
						st.MaxThreads = res.Threads
					}
					if res.Steps > st.MaxSteps {
						st.MaxSteps = res.Steps
					}
					if len(res.Points) > st.MaxPoints {
						st.MaxPoints = len(res.Points)
					}
					if res.End == "replay-error" || res2.End == "replay-error" {
						st.ReplayErrors++
						st.Infra = appendCapped(st.Infra, fmt.Sprintf("replay error on %v: %s %s", it.prefix, res.Detail, res2.Detail))
					} else if res2.TraceHash != res.TraceHash || j2.Obs != j.Obs || res2.End != res.End {
						st.Divergent++
						st.Infra = appendCapped(st.Infra, fmt.Sprintf("divergent replay of %v: end %s/%s obs %q vs %q", choices, res.End, res2.End, j.Obs, j2.Obs))
					}
					if res.End == "infra" {
						st.Infra = appendCapped(st.Infra, res.Detail)
					}
					if res.Cost != it.cost {
						st.Infra = appendCapped(st.Infra, fmt.Sprintf("internal: prefix %v expected cost %d, got %d", it.prefix, it.cost, res.Cost))
					}
					if cfg.Visit != nil {
						cfg.Visit(choices, res, j)
					}
					if res.End != "replay-error" {
						expand(it, res, choices)
					}
					inflight--
					mu.Unlock()
					cond.Broadcast()
				}
			}()
		}
		wg.Wait()
		if capped {
			st.Capped = true
			break
		}
		st.CompletedBound = cost
	}
	return st
}

func appendCapped(l []string, s string) []string {
	if len(l) < 10 {
		l = append(l, s)
	}
	return l
}

// Replay runs exactly one recorded choice vector (strict) with a trace.
func Replay(opt Options, choices []uint8, inst Instance) (*Result, Judgement) {
	opt.Trace = true
	res := Run(opt, choices, true, inst.Body)
	return res, inst.Judge(res)
}

// CostHistogram renders ByCost deterministically.
func (s Stats) CostHistogram() string {
	var ks []int
	for k := range s.ByCost {
		ks = append(ks, k)
	}
	sort.Ints(ks)
	out := ""
	for _, k := range ks {
		out += fmt.Sprintf("%d:%d ", k, s.ByCost[k])
	}
	return out
}
