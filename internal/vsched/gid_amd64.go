//go:build amd64

package vsched

// gptr is implemented in gid_amd64.s.
func gptr() uintptr

// goid identifies the running goroutine for the thread registry.
func goid() uint64 { return uint64(gptr()) }
