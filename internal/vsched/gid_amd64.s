//go:build amd64

#include "textflag.h"

// func gptr() uintptr
// Returns the address of the running goroutine's g structure, which is unique
// among live goroutines and is used purely as a map key.
TEXT ·gptr(SB),NOSPLIT,$0-8
	MOVQ (TLS), AX
	MOVQ AX, ret+0(FP)
	RET
