// Package vsched is a controlled cooperative scheduler for exhaustive,
// preemption-bounded exploration of goroutine interleavings (in the style of
// CHESS, Musuvathi & Qadeer).
//
// Code under test is built against API-compatible replacements of sync, time
// and context (sub-packages vsync, vtime, vcontext) and of channels / select /
// go statements (Chan[T], Select, Go; see cmd/vrewrite). Every logical thread
// is a real goroutine that runs only while it holds the baton: before each
// visible operation (mutex, rwmutex, cond, channel, select, timer, context
// cancellation, spawn) the running thread announces the operation together
// with a readiness predicate and calls the scheduler, which picks the next
// thread to run among those whose announced operation is enabled. The picks
// are the choice vector of the execution. An execution is fully determined by
// its choice vector, so the explorer is stateless: it re-runs the harness body
// with a recorded prefix and default choices thereafter.
//
// Virtual time: timers and sleeps are alarms on a virtual clock which only
// advances when no thread is enabled ("time passes only at quiescence");
// additionally "the earliest alarm fires now although threads are enabled" is
// offered as one deviation that counts against the preemption bound.
package vsched

import (
	"fmt"
	"hash/fnv"
	"runtime"
	"runtime/debug"
	"sort"
	"strings"
	"sync"
	"sync/atomic"
)

// abortSentinel is the panic value used to unwind parked threads when an
// execution is torn down.
type abortSentinel struct{}

// op is the visible operation a parked thread is about to perform.
type op struct {
	kind  string
	obj   int
	ready func() bool // nil = always enabled
	sel   *selectOp   // channel operation(s), nil otherwise
}

// Thread is one logical thread of an execution.
type Thread struct {
	ID     int
	Name   string
	s      *Sched
	wake   chan struct{}
	exited chan struct{}
	pend   *op
	opbuf  op
	done   bool
	goid   uint64
}

// ChoicePoint records one scheduling decision that had more than one option.
type ChoicePoint struct {
	N          uint8 // number of options
	Chosen     uint8
	CostlyFrom uint8 // options with index >= CostlyFrom count as one preemption/deviation
	// Linear (delay bounding): option i >= CostlyFrom costs i-CostlyFrom+1.
	Linear bool
	// TimerAt is the index of the "alarm fires early" option (cost 1), or 255.
	TimerAt uint8
}

// Cost returns what taking option a adds to the deviation count.
func (p ChoicePoint) Cost(a int) int {
	if a < int(p.CostlyFrom) {
		return 0
	}
	if p.Linear && a != int(p.TimerAt) {
		return a - int(p.CostlyFrom) + 1
	}
	return 1
}

// Sched is the state of one execution.
type Sched struct {
	opt      Options
	threads  []*Thread
	cur      *Thread
	clock    int64
	alarms   []*alarm
	alarmSeq int
	nextObj  int

	prefix []uint8
	strict bool
	points []ChoicePoint
	cost   int

	steps    int
	hash     uint64
	trace    []string
	live     int
	finished chan struct{}
	ended    atomic.Bool
	abort    atomic.Bool
	end      string // "done", "deadlock", "panic", "steplimit", "replay-error"
	detail   string
	blocked  []string
	maxLive  int
	scratch  []*Thread
	spawned  int
}

// Options configures one execution.
type Options struct {
	MaxSteps int  // scheduling steps before the execution is cut ("steplimit")
	Trace    bool // keep a human-readable trace
	// DelayBounding switches from preemption bounding to delay bounding (Emmi,
	// Qadeer, Rakamaric, POPL 2011) for programs with many threads: the default
	// scheduler is deterministic (the running thread continues; when it blocks
	// or ends, the next enabled thread in round-robin order runs) and EVERY
	// departure from it is counted: running the i-th other thread instead
	// costs i, a non-default select case / rendezvous partner / map order /
	// alarm order costs 1, an alarm fired early costs 1.
	DelayBounding bool
	// LegacyTimerChan selects the pre-Go-1.23 timer channel semantics (buffered
	// channel, Stop/Reset do not drain a value that was already sent).
	LegacyTimerChan bool
}

// Result is what one execution produced.
type Result struct {
	End       string // done | deadlock | panic | steplimit | replay-error
	Detail    string // panic value / error text
	Blocked   []string
	Points    []ChoicePoint
	Cost      int // preemptions + timer deviations taken
	Steps     int
	TraceHash uint64
	Trace     []string
	Threads   int
	Clock     int64
}

// Choices returns the chosen option of every choice point.
func (r *Result) Choices() []uint8 {
	c := make([]uint8, len(r.Points))
	for i, p := range r.Points {
		c[i] = p.Chosen
	}
	return c
}

var threadsByGoid sync.Map // uint64 -> *Thread

// current returns the logical thread the caller runs on; it panics when the
// caller is not a scheduled thread (a shim operation outside an execution is
// a harness bug, never a property violation).
func current() *Thread {
	if t, ok := threadsByGoid.Load(goid()); ok {
		return t.(*Thread)
	}
	panic("vsched: synchronisation operation outside of a scheduled thread")
}

// Current returns the calling logical thread (nil outside an execution).
func Current() *Thread {
	if t, ok := threadsByGoid.Load(goid()); ok {
		return t.(*Thread)
	}
	return nil
}

// Run executes body as thread 0 of a fresh execution under the given choice
// prefix. When strict is set the execution must consume exactly the given
// choices (full replay); a missing, superfluous or out-of-range choice ends
// the execution with End == "replay-error".
func Run(opt Options, prefix []uint8, strict bool, body func()) *Result {
	if opt.MaxSteps == 0 {
		opt.MaxSteps = 5000
	}
	s := &Sched{opt: opt, prefix: prefix, strict: strict, finished: make(chan struct{})}
	h := fnv.New64a()
	s.hash = h.Sum64()
	t0 := s.newThread("main", body)
	s.cur = t0
	t0.wake <- struct{}{}
	<-s.finished
	// Tear down: unwind every thread that is still parked, one at a time.
	s.abort.Store(true)
	for _, t := range s.threads {
		select {
		case <-t.exited:
			continue
		default:
		}
		select {
		case t.wake <- struct{}{}:
		default:
		}
		<-t.exited
	}
	if s.strict && s.end != "replay-error" && len(s.points) != len(s.prefix) {
		s.end, s.detail = "replay-error", fmt.Sprintf("replay consumed %d of %d recorded choices", len(s.points), len(s.prefix))
	}
	return &Result{End: s.end, Detail: s.detail, Blocked: s.blocked, Points: s.points, Cost: s.cost, Steps: s.steps,
		TraceHash: s.hash, Trace: s.trace, Threads: s.spawned, Clock: s.clock}
}

func (s *Sched) newThread(name string, f func()) *Thread {
	t := &Thread{ID: len(s.threads), Name: name, s: s, wake: make(chan struct{}, 1), exited: make(chan struct{})}
	if name == "" {
		t.Name = fmt.Sprintf("t%d", t.ID)
	}
	t.pend = &op{kind: "start"}
	s.threads = append(s.threads, t)
	s.live++
	s.spawned++
	registered := make(chan struct{})
	go func() {
		t.goid = goid()
		threadsByGoid.Store(t.goid, t)
		close(registered)
		defer close(t.exited)
		defer threadsByGoid.Delete(t.goid)
		defer func() {
			if x := recover(); x != nil {
				if _, ok := x.(abortSentinel); ok {
					return
				}
				// A panic of the code under test (or of the harness) ends the
				// execution; it is reported, never swallowed.
				if !s.ended.Load() {
					t.done = true
					t.pend = nil
					s.live--
					s.finish(panicClass(x), fmt.Sprintf("thread %s: %v\n%s", t.Name, x, trimStack(debug.Stack())))
				}
			}
		}()
		<-t.wake
		if s.abort.Load() {
			return
		}
		t.pend = nil
		f()
		// Thread exit is a scheduling point: pick who runs next.
		t.done = true
		t.pend = nil
		s.live--
		s.schedule(t)
	}()
	<-registered
	return t
}

func trimStack(b []byte) string {
	lines := strings.Split(string(b), "\n")
	if len(lines) > 24 {
		lines = lines[:24]
	}
	return strings.Join(lines, "\n")
}

// finish ends the execution. It is called on the goroutine of the running
// thread; the explorer goroutine then tears the rest down.
func (s *Sched) finish(end, detail string) {
	if s.ended.Swap(true) {
		return
	}
	s.end, s.detail = end, detail
	if end == "deadlock" || end == "steplimit" {
		for _, t := range s.threads {
			if !t.done && t.pend != nil {
				s.blocked = append(s.blocked, fmt.Sprintf("%s@%s#%d", t.Name, t.pend.kind, t.pend.obj))
			}
		}
	}
	close(s.finished)
}

// parkForever blocks a thread of an ended execution until teardown.
func (t *Thread) parkForever() {
	<-t.wake
	panic(abortSentinel{})
}

// enabled reports whether t's announced operation can execute now.
func (s *Sched) enabled(t *Thread) bool {
	if t.done || t.pend == nil {
		return false
	}
	if t.pend.sel != nil {
		return t.pend.sel.anyReady(t)
	}
	return t.pend.ready == nil || t.pend.ready()
}

// choose resolves one decision with n options.
func (s *Sched) choose(n, costlyFrom int) int { return s.choose2(n, costlyFrom, false, 255) }

// chooseData resolves a data decision (select case, partner, map order, alarm
// order): free under preemption bounding, one deviation under delay bounding.
func (s *Sched) chooseData(n int) int {
	if s.opt.DelayBounding {
		return s.choose2(n, 1, false, 255)
	}
	return s.choose2(n, n, false, 255)
}

func (s *Sched) choose2(n, costlyFrom int, linear bool, timerAt int) int {
	if n <= 1 {
		return 0
	}
	if n > 255 {
		panic("vsched: more than 255 options at one choice point")
	}
	pos := len(s.points)
	c := 0
	if pos < len(s.prefix) {
		c = int(s.prefix[pos])
		if c >= n {
			// An out-of-range choice while replaying is a hard error.
			s.finish("replay-error", fmt.Sprintf("choice %d at point %d is out of range (only %d options)", c, pos, n))
			s.cur.parkOrExit()
		}
	} else if s.strict {
		s.finish("replay-error", fmt.Sprintf("choice point %d reached but only %d choices were recorded", pos, len(s.prefix)))
		s.cur.parkOrExit()
	}
	p := ChoicePoint{N: uint8(n), Chosen: uint8(c), CostlyFrom: uint8(costlyFrom), Linear: linear, TimerAt: uint8(timerAt)}
	s.points = append(s.points, p)
	s.cost += p.Cost(c)
	return c
}

func (t *Thread) parkOrExit() {
	if t.done {
		runtime.Goexit()
	}
	t.parkForever()
}

// note folds one executed step into the trace fingerprint.
func (s *Sched) note(t *Thread, kind string, obj int) {
	const prime = 1099511628211
	h := s.hash
	for _, v := range [3]uint64{uint64(t.ID) + 1, uint64(obj) + 7, uint64(len(kind))} {
		h ^= v
		h *= prime
	}
	for i := 0; i < len(kind); i++ {
		h ^= uint64(kind[i])
		h *= prime
	}
	s.hash = h
	if s.opt.Trace {
		s.trace = append(s.trace, fmt.Sprintf("%s:%s#%d", t.Name, kind, obj))
	}
}

// schedule is the scheduling point: t (the running thread) has announced its
// next operation in t.pend (or has finished); pick the thread that runs next
// and hand it the baton. schedule returns when t has been picked.
func (s *Sched) schedule(t *Thread) {
	if s.abort.Load() {
		if t.done {
			return
		}
		panic(abortSentinel{})
	}
	for {
		s.steps++
		if s.steps > s.opt.MaxSteps {
			s.finish("steplimit", fmt.Sprintf("more than %d scheduling steps", s.opt.MaxSteps))
			t.parkOrExit()
		}
		// Option 0 is always "the running thread continues" (when enabled).
		en := s.scratch[:0]
		curEnabled := s.enabled(t)
		if curEnabled {
			en = append(en, t)
		}
		if s.opt.DelayBounding {
			// round-robin order starting after the running thread
			nt := len(s.threads)
			for i := 1; i <= nt; i++ {
				u := s.threads[(t.ID+i)%nt]
				if u != t && s.enabled(u) {
					en = append(en, u)
				}
			}
		} else {
			for _, u := range s.threads {
				if u != t && s.enabled(u) {
					en = append(en, u)
				}
			}
		}
		s.scratch = en[:0]
		if len(en) == 0 {
			if s.live == 0 {
				s.finish("done", "")
				return
			}
			if len(s.alarms) == 0 {
				s.finish("deadlock", "")
				t.parkOrExit()
			}
			// Quiescence: virtual time advances to the earliest alarm. Alarms
			// due at the same instant fire in an order chosen by the schedule.
			ties := s.earliest()
			k := s.chooseData(len(ties))
			s.fire(ties[k])
			continue
		}
		n := len(en)
		costly := n
		if curEnabled {
			costly = 1
		}
		timerOpt := -1
		var early *alarm
		for _, a := range s.alarms {
			if !a.quiescentOnly {
				early = a
				break
			}
		}
		if early != nil {
			// Deviation: time passes although threads could run.
			timerOpt = n
			n++
		}
		var k int
		if s.opt.DelayBounding {
			// option 0 (running thread, or first in round-robin order) is free
			k = s.choose2(n, 1, true, func() int {
				if timerOpt < 0 {
					return 255
				}
				return timerOpt
			}())
		} else {
			k = s.choose(n, costly)
		}
		if k == timerOpt {
			s.fire(early)
			continue
		}
		next := en[k]
		s.cur = next
		s.note(next, next.pend.kind, next.pend.obj)
		if next == t {
			return
		}
		next.wake <- struct{}{}
		if t.done {
			return
		}
		<-t.wake
		if s.abort.Load() {
			panic(abortSentinel{})
		}
		return
	}
}

// point announces an operation and blocks until the scheduler lets the calling
// thread execute it. ready (may be nil) must depend only on state that is
// mutated by threads of the same execution.
func (t *Thread) point(kind string, obj int, ready func() bool) {
	t.opbuf = op{kind: kind, obj: obj, ready: ready}
	t.pend = &t.opbuf
	t.s.schedule(t)
	t.pend = nil
}

// Point is an always-enabled scheduling point for harness code (e.g. inside
// the methods of a recording stub) so that other threads may run "inside" it.
func Point(label string) {
	t := current()
	t.point("point:"+label, 0, nil)
}

// Go starts f as a new logical thread (the rewritten form of a go statement).
func Go(f func()) { GoNamed("", f) }

// GoNamed is Go with a thread name for traces and deadlock reports.
func GoNamed(name string, f func()) {
	t := current()
	s := t.s
	// The spawn itself is a visible operation: the new thread may run before
	// the spawner's next step.
	t.point("go", 0, nil)
	s.newThread(name, f)
	if s.live > s.maxLive {
		s.maxLive = s.live
	}
}

// Choose lets harness or shim code take a data decision with n alternatives
// (e.g. map iteration order); all alternatives are explored and none counts
// as a preemption.
func Choose(n int) int {
	t := current()
	return t.s.chooseData(n)
}

// Now returns the virtual clock in nanoseconds since the start of the execution.
func Now() int64 { return current().s.clock }

// --- object identity ----------------------------------------------------------

// Meta is embedded in every shim primitive: it binds the primitive to the
// execution that uses it and gives it a deterministic id. A primitive that
// survives from an earlier execution (package-level variables of the code
// under test) is reset on first use by a later execution.
type Meta struct {
	owner *Sched
	id    int
}

// Bind returns the primitive's id in the current execution and whether the
// primitive was just (re)bound, in which case the caller must reset its state.
func (m *Meta) Bind(t *Thread) (id int, fresh bool) {
	s := t.s
	if m.owner == s {
		return m.id, false
	}
	if m.owner != nil && !m.owner.ended.Load() {
		panic("vsched: a synchronisation object is shared between two concurrent executions (package-level state: explore with one worker)")
	}
	m.owner = s
	s.nextObj++
	m.id = s.nextObj
	return m.id, true
}

// CurrentThread exposes current() to the shim sub-packages.
func CurrentThread() *Thread { return current() }

// Step announces a visible operation of a shim primitive.
func (t *Thread) Step(kind string, obj int, ready func() bool) { t.point(kind, obj, ready) }

// --- alarms (virtual time) ----------------------------------------------------

type alarm struct {
	when int64
	seq  int
	fire func()
	live bool
	// quiescentOnly alarms are never fired early by the "time passes although
	// threads are enabled" deviation (used for the harness's final settling
	// sleep, which stands for "much later").
	quiescentOnly bool
}

func (s *Sched) addAlarm(d int64, fire func()) *alarm {
	if d < 0 {
		d = 0
	}
	s.alarmSeq++
	a := &alarm{when: s.clock + d, seq: s.alarmSeq, fire: fire, live: true}
	s.alarms = append(s.alarms, a)
	sort.SliceStable(s.alarms, func(i, j int) bool {
		if s.alarms[i].when != s.alarms[j].when {
			return s.alarms[i].when < s.alarms[j].when
		}
		return s.alarms[i].seq < s.alarms[j].seq
	})
	return a
}

func (s *Sched) cancelAlarm(a *alarm) bool {
	if a == nil || !a.live {
		return false
	}
	a.live = false
	for i, x := range s.alarms {
		if x == a {
			s.alarms = append(s.alarms[:i], s.alarms[i+1:]...)
			break
		}
	}
	return true
}

func (s *Sched) earliest() []*alarm {
	var ties []*alarm
	for _, a := range s.alarms {
		if a.when == s.alarms[0].when {
			ties = append(ties, a)
		}
	}
	return ties
}

func (s *Sched) fire(a *alarm) {
	if a.when > s.clock {
		s.clock = a.when
	}
	s.cancelAlarm(a)
	const prime = 1099511628211
	s.hash ^= uint64(a.seq) + 1000003
	s.hash *= prime
	if s.opt.Trace {
		s.trace = append(s.trace, fmt.Sprintf("<alarm %d fires at t=%d>", a.seq, s.clock))
	}
	a.fire()
}

// Sleep blocks the calling thread for d of virtual time.
func Sleep(d int64) {
	t := current()
	awake := false
	t.s.addAlarm(d, func() { awake = true })
	t.point("sleep", 0, func() bool { return awake })
}

// SleepQuiescent is Sleep for harness code that wants to observe the state
// "much later": its alarm only fires when no thread is enabled, never early.
func SleepQuiescent(d int64) {
	t := current()
	awake := false
	t.s.addAlarm(d, func() { awake = true }).quiescentOnly = true
	t.point("sleep", 0, func() bool { return awake })
}

// panicClass separates panics raised by the scheduler shim itself (harness or
// rewriter problems: infrastructure) from panics of the code under test.
func panicClass(x any) string {
	if s, ok := x.(string); ok && strings.HasPrefix(s, "vsched:") {
		return "infra"
	}
	return "panic"
}
