package vsched

import "fmt"

// chanCore is the untyped state of a channel.
type chanCore struct {
	Meta
	capacity int
	buf      []any
	closed   bool
}

// Chan is the scheduler-aware replacement of a Go channel (`chan T`,
// `<-chan T` and `chan<- T` all become *Chan[T]). A nil *Chan behaves like a
// nil channel: operations on it block forever.
type Chan[T any] struct {
	core chanCore
}

// NewChan is the rewritten form of make(chan T, n).
func NewChan[T any](n int) *Chan[T] {
	if n < 0 {
		panic("makechan: size out of range")
	}
	c := &Chan[T]{core: chanCore{capacity: n}}
	if t := Current(); t != nil {
		// Created inside an execution: gets its deterministic id right away.
		c.core.bind(t)
	}
	return c
}

func (c *chanCore) bind(t *Thread) int {
	id, fresh := c.Bind(t)
	if fresh {
		// A channel that outlives an execution starts the next one empty and open.
		c.buf = nil
		c.closed = false
	}
	return id
}

// selCase is one communication clause.
type selCase struct {
	ch   *chanCore
	send bool
	val  any // value to send, or the received value after completion
	ok   bool
}

// selectOp is the announced channel operation of a parked thread: a single
// send/receive or a whole select statement.
type selectOp struct {
	cases      []*selCase
	hasDefault bool
	fired      int  // index of the completed case; -1 = default
	completed  bool // completed by a rendezvous partner while parked
}

// partner returns the threads (other than self) parked on the opposite
// operation of an unbuffered channel.
func (c *chanCore) partners(self *Thread, wantSend bool) []*Thread {
	var out []*Thread
	for _, u := range self.s.threads {
		if u == self || u.done || u.pend == nil || u.pend.sel == nil || u.pend.sel.completed {
			continue
		}
		for _, k := range u.pend.sel.cases {
			if k.ch == c && k.send == wantSend {
				out = append(out, u)
				break
			}
		}
	}
	return out
}

func (k *selCase) ready(self *Thread) bool {
	c := k.ch
	if c == nil {
		return false
	}
	if c.owner != self.s {
		// Not touched in this execution yet: empty and open.
		c.bind(self)
	}
	if k.send {
		if c.closed {
			return true // will panic, as in Go
		}
		if c.capacity > 0 {
			return len(c.buf) < c.capacity
		}
		return len(c.partners(self, false)) > 0
	}
	if len(c.buf) > 0 || c.closed {
		return true
	}
	if c.capacity == 0 {
		return len(c.partners(self, true)) > 0
	}
	return false
}

func (o *selectOp) anyReady(self *Thread) bool {
	if o.completed || o.hasDefault {
		return true
	}
	for _, k := range o.cases {
		if k.ready(self) {
			return true
		}
	}
	return false
}

type alternative struct {
	idx     int
	partner *Thread
}

// execute performs the announced channel operation of the running thread t.
func (o *selectOp) execute(t *Thread) {
	if o.completed {
		return // the partner of a rendezvous already did the work
	}
	var alts []alternative
	for i, k := range o.cases {
		if !k.ready(t) {
			continue
		}
		c := k.ch
		switch {
		case k.send && c.closed, c.capacity > 0, !k.send && (len(c.buf) > 0 || c.closed):
			alts = append(alts, alternative{i, nil})
		default:
			for _, p := range c.partners(t, !k.send) {
				alts = append(alts, alternative{i, p})
			}
		}
	}
	if len(alts) == 0 {
		if !o.hasDefault {
			panic("vsched: internal error: channel operation scheduled while not ready")
		}
		o.fired = -1
		return
	}
	// Go picks uniformly among the ready cases (and the runtime's wait queues
	// decide the partner): every alternative is explored.
	a := alts[t.s.chooseData(len(alts))]
	k := o.cases[a.idx]
	c := k.ch
	o.fired = a.idx
	switch {
	case k.send && c.closed:
		panic("send on closed channel")
	case k.send && a.partner == nil:
		c.buf = append(c.buf, k.val)
	case k.send:
		po := a.partner.pend.sel
		for j, pk := range po.cases {
			if pk.ch == c && !pk.send {
				pk.val, pk.ok = k.val, true
				po.fired, po.completed = j, true
				break
			}
		}
	case len(c.buf) > 0:
		k.val, k.ok = c.buf[0], true
		c.buf = c.buf[1:]
	case a.partner != nil:
		po := a.partner.pend.sel
		for j, pk := range po.cases {
			if pk.ch == c && pk.send {
				k.val, k.ok = pk.val, true
				po.fired, po.completed = j, true
				break
			}
		}
	default: // closed and drained
		k.val, k.ok = nil, false
	}
}

// run announces o and executes it once scheduled.
func (o *selectOp) run(t *Thread, kind string) {
	obj := 0
	for _, k := range o.cases {
		if k.ch != nil {
			id := k.ch.bind(t)
			if obj == 0 {
				obj = id
			}
		}
	}
	t.pend = &op{kind: kind, obj: obj, sel: o}
	t.s.schedule(t)
	o.execute(t)
	t.pend = nil
}

func coreOf[T any](c *Chan[T]) *chanCore {
	if c == nil {
		return nil
	}
	return &c.core
}

// Send is the rewritten form of `c <- v`.
func (c *Chan[T]) Send(v T) {
	t := current()
	o := &selectOp{cases: []*selCase{{ch: coreOf(c), send: true, val: v}}}
	o.run(t, "send")
}

// Recv is the rewritten form of `<-c`.
func (c *Chan[T]) Recv() T {
	v, _ := c.Recv2()
	return v
}

// Recv2 is the rewritten form of `v, ok := <-c`.
func (c *Chan[T]) Recv2() (T, bool) {
	t := current()
	k := &selCase{ch: coreOf(c)}
	o := &selectOp{cases: []*selCase{k}}
	o.run(t, "recv")
	var zero T
	if !k.ok || k.val == nil {
		return zero, k.ok
	}
	return k.val.(T), true
}

// Close is the rewritten form of close(c).
func (c *Chan[T]) Close() {
	t := current()
	if c == nil {
		panic("close of nil channel")
	}
	id := c.core.bind(t)
	t.point("close", id, nil)
	if c.core.closed {
		panic("close of closed channel")
	}
	c.core.closed = true
}

// Len is the rewritten form of len(c).
func (c *Chan[T]) Len() int {
	if c == nil {
		return 0
	}
	t := current()
	id := c.core.bind(t)
	t.point("len", id, nil)
	return len(c.core.buf)
}

// Cap is the rewritten form of cap(c).
func (c *Chan[T]) Cap() int {
	if c == nil {
		return 0
	}
	return c.core.capacity
}

// String identifies the channel in canonical orderings (see SortedKeys).
func (c *Chan[T]) String() string {
	if c == nil {
		return "chan(nil)"
	}
	return fmt.Sprintf("chan#%d", c.core.id)
}

// TrySendInternal performs a non-blocking send without a scheduling point; it
// is used by timers, which fire from inside the scheduler.
func (c *Chan[T]) TrySendInternal(t *Thread, v T) bool {
	c.core.bind(t)
	if c.core.closed || len(c.core.buf) >= c.core.capacity {
		return false
	}
	c.core.buf = append(c.core.buf, v)
	return true
}

// DrainInternal empties the buffer without a scheduling point (Go >= 1.23
// timer Stop/Reset semantics). It reports whether a value was discarded.
func (c *Chan[T]) DrainInternal(t *Thread) bool {
	c.core.bind(t)
	had := len(c.core.buf) > 0
	c.core.buf = nil
	return had
}

// --- select -------------------------------------------------------------------

// Sel is a select statement under construction.
type Sel struct {
	o *selectOp
}

// NewSelect starts the rewritten form of a select statement.
func NewSelect(hasDefault bool) *Sel { return &Sel{o: &selectOp{hasDefault: hasDefault}} }

// RecvC is the handle of a receive clause.
type RecvC[T any] struct{ k *selCase }

// RecvCase adds `case ... <-c:`.
func RecvCase[T any](s *Sel, c *Chan[T]) *RecvC[T] {
	k := &selCase{ch: coreOf(c)}
	s.o.cases = append(s.o.cases, k)
	return &RecvC[T]{k}
}

// SendCase adds `case c <- v:`.
func SendCase[T any](s *Sel, c *Chan[T], v T) {
	s.o.cases = append(s.o.cases, &selCase{ch: coreOf(c), send: true, val: v})
}

// Value returns the received value of a completed receive clause.
func (r *RecvC[T]) Value() T {
	v, _ := r.Value2()
	return v
}

// Value2 returns the received value and the ok flag.
func (r *RecvC[T]) Value2() (T, bool) {
	var zero T
	if !r.k.ok || r.k.val == nil {
		return zero, r.k.ok
	}
	return r.k.val.(T), true
}

// Run blocks until one clause can proceed, performs it and returns its index
// in order of addition; -1 means the default clause.
func (s *Sel) Run() int {
	t := current()
	s.o.run(t, "select")
	return s.o.fired
}

// CloseInternal closes the channel without a scheduling point (used by
// vcontext, whose cancel operation is the scheduling point). Closing twice is
// a no-op.
func (c *Chan[T]) CloseInternal(t *Thread) {
	c.core.bind(t)
	c.core.closed = true
}
