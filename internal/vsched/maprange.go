package vsched

import (
	"fmt"
	"reflect"
	"sort"
	"strings"
)

// RangeKeys is the rewritten form of the key sequence of `for k := range m`
// over a map. Go leaves the iteration order unspecified, so the order belongs
// to the schedule: the keys are snapshotted, put in a canonical order (by
// printed content; scheduler-aware channels print as their per-execution id)
// and then permuted by scheduler-owned choices, all of which are explored.
// The rewritten loop skips keys that have been deleted in the meantime, which
// is what the language guarantees for entries removed during iteration.
func RangeKeys[K comparable, V any](m map[K]V) []K {
	keys := make([]K, 0, len(m))
	for k := range m {
		keys = append(keys, k)
	}
	if len(keys) < 2 {
		return keys
	}
	canon := make(map[K]string, len(keys))
	for _, k := range keys {
		canon[k] = canonical(reflect.ValueOf(k), 0)
	}
	sort.SliceStable(keys, func(i, j int) bool { return canon[keys[i]] < canon[keys[j]] })
	for i := 1; i < len(keys); i++ {
		if canon[keys[i]] == canon[keys[i-1]] {
			// Two keys the canonical form cannot tell apart would make the
			// exploration order depend on addresses: refuse (infrastructure).
			panic("vsched: RangeKeys: map keys are not canonically distinguishable: " + canon[keys[i]])
		}
	}
	// Scheduler-owned permutation (selection without replacement).
	out := make([]K, 0, len(keys))
	for len(keys) > 0 {
		i := Choose(len(keys))
		out = append(out, keys[i])
		keys = append(keys[:i:i], keys[i+1:]...)
	}
	return out
}

// canonical prints a value without addresses: pointers are followed, channels
// print as their id.
func canonical(v reflect.Value, depth int) string {
	if depth > 6 {
		return "..."
	}
	if !v.IsValid() {
		return "<invalid>"
	}
	if v.Kind() == reflect.Pointer && !v.IsNil() {
		et := v.Type().Elem()
		if et.PkgPath() == "verif/internal/vsched" && strings.HasPrefix(et.Name(), "Chan[") {
			return fmt.Sprintf("chan#%d", v.Elem().FieldByName("core").FieldByName("Meta").FieldByName("id").Int())
		}
	}
	switch v.Kind() {
	case reflect.Pointer, reflect.Interface:
		if v.IsNil() {
			return "nil"
		}
		return "&" + canonical(v.Elem(), depth+1)
	case reflect.Struct:
		s := "{"
		for i := 0; i < v.NumField(); i++ {
			if i > 0 {
				s += ","
			}
			s += canonical(v.Field(i), depth+1)
		}
		return s + "}"
	case reflect.String:
		return fmt.Sprintf("%q", v.String())
	case reflect.Bool:
		return fmt.Sprint(v.Bool())
	case reflect.Int, reflect.Int8, reflect.Int16, reflect.Int32, reflect.Int64:
		return fmt.Sprint(v.Int())
	case reflect.Uint, reflect.Uint8, reflect.Uint16, reflect.Uint32, reflect.Uint64, reflect.Uintptr:
		return fmt.Sprint(v.Uint())
	case reflect.Float32, reflect.Float64:
		return fmt.Sprint(v.Float())
	case reflect.Slice, reflect.Array:
		s := "["
		for i := 0; i < v.Len(); i++ {
			if i > 0 {
				s += ","
			}
			s += canonical(v.Index(i), depth+1)
		}
		return s + "]"
	}
	return "<" + v.Kind().String() + ">"
}
