// Package vtime is the API-compatible subset of package time that rewritten
// code is built against: durations and instants are the real types, the clock
// and the timers are virtual (see package vsched).
package vtime

import (
	"time"

	"verif/internal/vsched"
)

type (
	Duration = time.Duration
	Time     = time.Time
	Month    = time.Month
	Weekday  = time.Weekday
	Location = time.Location
	Timer    = vsched.Timer
	Ticker   = vsched.Ticker
)

const (
	Nanosecond  = time.Nanosecond
	Microsecond = time.Microsecond
	Millisecond = time.Millisecond
	Second      = time.Second
	Minute      = time.Minute
	Hour        = time.Hour
)

var UTC = time.UTC

// Now returns the virtual time.
func Now() Time { return vsched.VirtualNow() }

// Since returns the virtual time elapsed since t.
func Since(t Time) Duration { return Now().Sub(t) }

// Until returns the virtual duration until t.
func Until(t Time) Duration { return t.Sub(Now()) }

// NewTimer creates a virtual timer.
func NewTimer(d Duration) *Timer { return vsched.NewTimer(d) }

// NewTicker creates a virtual ticker.
func NewTicker(d Duration) *Ticker { return vsched.NewTicker(d) }

// After is NewTimer(d).C.
func After(d Duration) *vsched.Chan[Time] { return vsched.NewTimer(d).C }

// Sleep blocks the calling thread for d of virtual time.
func Sleep(d Duration) { vsched.SleepFor(d) }

// Unix and Date are pure and pass through.
func Unix(sec, nsec int64) Time { return time.Unix(sec, nsec) }
func Date(year int, month Month, day, hour, min, sec, nsec int, loc *Location) Time {
	return time.Date(year, month, day, hour, min, sec, nsec, loc)
}
func ParseDuration(s string) (Duration, error) { return time.ParseDuration(s) }
