package vsched_test

import (
	"fmt"
	"testing"
	"time"

	"verif/internal/vsched"
	"verif/internal/vsched/vcontext"
	"verif/internal/vsched/vsync"
	"verif/internal/vsched/vtime"
)

func explore(t *testing.T, bound, workers int, mk func() vsched.Instance) (vsched.Stats, map[string]int) {
	outcomes := map[string]int{}
	st := vsched.Explore(vsched.Config{MaxCost: bound, Workers: workers, New: mk,
		Visit: func(ch []uint8, res *vsched.Result, j vsched.Judgement) {
			outcomes[res.End+"/"+j.Obs]++
		}})
	if len(st.Infra) > 0 || st.Divergent > 0 || st.ReplayErrors > 0 {
		t.Fatalf("infra problems: %v", st.Infra)
	}
	return st, outcomes
}

// Two threads doing an unprotected read-modify-write with a scheduling point
// in between: the lost update needs exactly one preemption.
func TestLostUpdate(t *testing.T) {
	mk := func() vsched.Instance {
		x := 0
		var mu vsync.Mutex
		var wg vsync.WaitGroup
		body := func() {
			wg.Add(2)
			for i := 0; i < 2; i++ {
				vsched.Go(func() {
					mu.Lock()
					v := x
					mu.Unlock()
					mu.Lock()
					x = v + 1
					mu.Unlock()
					wg.Done()
				})
			}
			wg.Wait()
		}
		return vsched.Instance{Body: body, Judge: func(res *vsched.Result) vsched.Judgement {
			return vsched.Judgement{Obs: fmt.Sprint(x)}
		}}
	}
	st0, o0 := explore(t, 0, 1, mk)
	if o0["done/1"] != 0 || o0["done/2"] == 0 {
		t.Fatalf("bound 0: %v", o0)
	}
	st1, o1 := explore(t, 1, 4, mk)
	if o1["done/1"] == 0 {
		t.Fatalf("bound 1 did not find the lost update: %v", o1)
	}
	t.Logf("bound0 %d schedules, bound1 %d schedules %v, outcomes %v", st0.Schedules, st1.Schedules, st1.ByCost, o1)
}

// Lock-order inversion deadlocks with one preemption.
func TestDeadlock(t *testing.T) {
	mk := func() vsched.Instance {
		var a, b vsync.Mutex
		body := func() {
			vsched.Go(func() { a.Lock(); b.Lock(); b.Unlock(); a.Unlock() })
			vsched.Go(func() { b.Lock(); a.Lock(); a.Unlock(); b.Unlock() })
		}
		return vsched.Instance{Body: body, Judge: func(res *vsched.Result) vsched.Judgement { return vsched.Judgement{} }}
	}
	_, o0 := explore(t, 0, 1, mk)
	_, o1 := explore(t, 1, 2, mk)
	if o0["deadlock/"] != 0 || o1["deadlock/"] == 0 {
		t.Fatalf("o0=%v o1=%v", o0, o1)
	}
}

// Condition variable used without re-checking under the lock: lost wake-up.
func TestCondLostWakeup(t *testing.T) {
	mk := func() vsched.Instance {
		var mu vsync.Mutex
		c := vsync.NewCond(&mu)
		ready := false
		body := func() {
			vsched.Go(func() { // waiter: checks outside the lock (bug)
				mu.Lock()
				r := ready
				mu.Unlock()
				if !r {
					mu.Lock()
					c.Wait()
					mu.Unlock()
				}
			})
			vsched.Go(func() {
				mu.Lock()
				ready = true
				c.Signal()
				mu.Unlock()
			})
		}
		return vsched.Instance{Body: body, Judge: func(res *vsched.Result) vsched.Judgement { return vsched.Judgement{} }}
	}
	_, o := explore(t, 2, 4, mk)
	if o["deadlock/"] == 0 || o["done/"] == 0 {
		t.Fatalf("%v", o)
	}
}

// Channels: rendezvous, buffered, close, select with default, nil channel.
func TestChannels(t *testing.T) {
	mk := func() vsched.Instance {
		var got []int
		sel := ""
		body := func() {
			u := vsched.NewChan[int](0)
			b := vsched.NewChan[int](2)
			done := vsched.NewChan[struct{}](0)
			vsched.Go(func() { u.Send(1); u.Send(2); u.Close() })
			vsched.Go(func() {
				for {
					v, ok := u.Recv2()
					if !ok {
						break
					}
					got = append(got, v)
					b.Send(v * 10)
				}
				done.Close()
			})
			done.Recv()
			var nilc *vsched.Chan[int]
			s := vsched.NewSelect(true)
			vsched.RecvCase(s, nilc)
			if s.Run() != -1 {
				panic("nil channel case fired")
			}
			s2 := vsched.NewSelect(false)
			r := vsched.RecvCase(s2, b)
			vsched.SendCase(s2, b, 99) // buffer has 2 of 2: not ready
			if s2.Run() != 0 {
				panic("expected receive")
			}
			sel = fmt.Sprint(r.Value(), b.Len())
		}
		return vsched.Instance{Body: body, Judge: func(res *vsched.Result) vsched.Judgement {
			return vsched.Judgement{Obs: fmt.Sprint(got, sel)}
		}}
	}
	st, o := explore(t, 2, 4, mk)
	if len(o) != 1 || o["done/[1 2]10 1"] == 0 {
		t.Fatalf("%v", o)
	}
	t.Logf("%d schedules", st.Schedules)
}

// Select picks every ready case; context cancellation; timers in virtual time.
func TestSelectTimerContext(t *testing.T) {
	mk := func() vsched.Instance {
		out := ""
		body := func() {
			ctx, cancel := vcontext.WithCancel(vcontext.Background())
			tm := vtime.NewTimer(5 * time.Millisecond)
			vsched.Go(func() { vtime.Sleep(5 * time.Millisecond); cancel() })
			s := vsched.NewSelect(false)
			vsched.RecvCase(s, ctx.Done())
			vsched.RecvCase(s, tm.C)
			switch s.Run() {
			case 0:
				out = "cancelled"
			case 1:
				out = "timer"
			}
			out += fmt.Sprint(" at ", vtime.Since(vsched.Epoch))
		}
		return vsched.Instance{Body: body, Judge: func(res *vsched.Result) vsched.Judgement { return vsched.Judgement{Obs: out} }}
	}
	_, o := explore(t, 1, 2, mk)
	if o["done/cancelled at 5ms"] == 0 || o["done/timer at 5ms"] == 0 || len(o) != 2 {
		t.Fatalf("%v", o)
	}
}

// Strict replay with a wrong vector is a hard error.
func TestReplayError(t *testing.T) {
	var mu vsync.Mutex
	body := func() {
		vsched.Go(func() { mu.Lock(); mu.Unlock() })
		mu.Lock()
		mu.Unlock()
	}
	res := vsched.Run(vsched.Options{}, []uint8{9}, true, body)
	if res.End != "replay-error" {
		t.Fatalf("end=%s", res.End)
	}
	res = vsched.Run(vsched.Options{}, nil, true, body)
	if res.End != "replay-error" {
		t.Fatalf("end=%s (empty vector on a run with choice points)", res.End)
	}
}

// Map iteration order is owned by the schedule.
func TestRangeKeys(t *testing.T) {
	mk := func() vsched.Instance {
		out := ""
		body := func() {
			m := map[string]int{"a": 1, "b": 2, "c": 3}
			for _, k := range vsched.RangeKeys(m) {
				out += k
			}
		}
		return vsched.Instance{Body: body, Judge: func(res *vsched.Result) vsched.Judgement { return vsched.Judgement{Obs: out} }}
	}
	_, o := explore(t, 0, 1, mk)
	if len(o) != 6 {
		t.Fatalf("%v", o)
	}
}

func BenchmarkRun(b *testing.B) {
	for i := 0; i < b.N; i++ {
		var mu vsync.Mutex
		vsched.Run(vsched.Options{}, nil, false, func() {
			for k := 0; k < 3; k++ {
				vsched.Go(func() {
					for j := 0; j < 10; j++ {
						mu.Lock()
						mu.Unlock()
					}
				})
			}
		})
	}
}

// Incremental exploration (SkipBelow) visits exactly the schedules of each level.
func TestIncremental(t *testing.T) {
	mk := func() vsched.Instance {
		var mu vsync.Mutex
		body := func() {
			for i := 0; i < 3; i++ {
				vsched.Go(func() { mu.Lock(); mu.Unlock(); mu.Lock(); mu.Unlock() })
			}
		}
		return vsched.Instance{Body: body, Judge: func(res *vsched.Result) vsched.Judgement { return vsched.Judgement{} }}
	}
	full := vsched.Explore(vsched.Config{MaxCost: 2, Workers: 4, New: mk})
	var sum int64
	for b := 0; b <= 2; b++ {
		st := vsched.Explore(vsched.Config{MaxCost: b, SkipBelow: b, Workers: 4, New: mk})
		if st.Schedules != full.ByCost[b] || st.CompletedBound != b {
			t.Fatalf("level %d: %d schedules, want %d (completed %d)", b, st.Schedules, full.ByCost[b], st.CompletedBound)
		}
		sum += st.Schedules
	}
	if sum != full.Schedules {
		t.Fatalf("sum %d != %d", sum, full.Schedules)
	}
	t.Logf("%d schedules %v", full.Schedules, full.ByCost)
}

// Delay bounding: deterministic round-robin default, every departure counted.
func TestDelayBounding(t *testing.T) {
	mk := func() vsched.Instance {
		x := 0
		var mu vsync.Mutex
		var wg vsync.WaitGroup
		body := func() {
			wg.Add(3)
			for i := 0; i < 3; i++ {
				vsched.Go(func() {
					mu.Lock()
					v := x
					mu.Unlock()
					mu.Lock()
					x = v + 1
					mu.Unlock()
					wg.Done()
				})
			}
			wg.Wait()
		}
		return vsched.Instance{Body: body, Judge: func(res *vsched.Result) vsched.Judgement { return vsched.Judgement{Obs: fmt.Sprint(x)} }}
	}
	run := func(bound int) (vsched.Stats, map[string]int) {
		out := map[string]int{}
		st := vsched.Explore(vsched.Config{Options: vsched.Options{DelayBounding: true}, MaxCost: bound, Workers: 4, New: mk,
			Visit: func(ch []uint8, res *vsched.Result, j vsched.Judgement) { out[j.Obs]++ }})
		if len(st.Infra) > 0 {
			t.Fatalf("infra: %v", st.Infra)
		}
		return st, out
	}
	st0, o0 := run(0)
	if st0.Schedules != 1 || o0["3"] != 1 {
		t.Fatalf("bound 0 must be the single deterministic schedule: %d %v", st0.Schedules, o0)
	}
	st2, o2 := run(2)
	if o2["2"] == 0 {
		t.Fatalf("bound 2 did not find a lost update: %v", o2)
	}
	pst := vsched.Explore(vsched.Config{MaxCost: 2, Workers: 4, New: mk})
	t.Logf("delay bound 2: %d schedules %v outcomes %v; preemption bound 2: %d schedules", st2.Schedules, st2.ByCost, o2, pst.Schedules)
	if st2.Schedules >= pst.Schedules {
		t.Fatalf("delay bounding should explore fewer schedules than preemption bounding at the same bound")
	}
}
