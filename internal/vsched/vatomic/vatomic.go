// Package vatomic is the API-compatible subset of sync/atomic (typed values
// only) that rewritten code is built against; every access is a scheduling
// point of the vsched scheduler.
package vatomic

import "verif/internal/vsched"

type cell[T any] struct {
	m vsched.Meta
	v T
}

func (c *cell[T]) step(kind string) {
	t := vsched.CurrentThread()
	id, fresh := c.m.Bind(t)
	if fresh {
		var zero T
		c.v = zero
	}
	t.Step(kind, id, nil)
}

// Bool mirrors atomic.Bool.
type Bool struct{ c cell[bool] }

func (b *Bool) Load() bool     { b.c.step("atomic.load"); return b.c.v }
func (b *Bool) Store(v bool)   { b.c.step("atomic.store"); b.c.v = v }
func (b *Bool) Swap(v bool) bool {
	b.c.step("atomic.swap")
	old := b.c.v
	b.c.v = v
	return old
}
func (b *Bool) CompareAndSwap(old, new bool) bool {
	b.c.step("atomic.cas")
	if b.c.v != old {
		return false
	}
	b.c.v = new
	return true
}

type integer interface {
	~int32 | ~int64 | ~uint32 | ~uint64 | ~uintptr
}

type num[T integer] struct{ c cell[T] }

func (n *num[T]) Load() T   { n.c.step("atomic.load"); return n.c.v }
func (n *num[T]) Store(v T) { n.c.step("atomic.store"); n.c.v = v }
func (n *num[T]) Add(d T) T { n.c.step("atomic.add"); n.c.v += d; return n.c.v }
func (n *num[T]) Swap(v T) T {
	n.c.step("atomic.swap")
	old := n.c.v
	n.c.v = v
	return old
}
func (n *num[T]) CompareAndSwap(old, new T) bool {
	n.c.step("atomic.cas")
	if n.c.v != old {
		return false
	}
	n.c.v = new
	return true
}

// Int32, Int64, Uint32, Uint64, Uintptr mirror the sync/atomic types.
type (
	Int32   struct{ num[int32] }
	Int64   struct{ num[int64] }
	Uint32  struct{ num[uint32] }
	Uint64  struct{ num[uint64] }
	Uintptr struct{ num[uintptr] }
)

// Pointer mirrors atomic.Pointer.
type Pointer[T any] struct{ c cell[*T] }

func (p *Pointer[T]) Load() *T   { p.c.step("atomic.load"); return p.c.v }
func (p *Pointer[T]) Store(v *T) { p.c.step("atomic.store"); p.c.v = v }
func (p *Pointer[T]) Swap(v *T) *T {
	p.c.step("atomic.swap")
	old := p.c.v
	p.c.v = v
	return old
}
func (p *Pointer[T]) CompareAndSwap(old, new *T) bool {
	p.c.step("atomic.cas")
	if p.c.v != old {
		return false
	}
	p.c.v = new
	return true
}
