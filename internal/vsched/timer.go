package vsched

import "time"

// Epoch is the virtual wall-clock time at the start of every execution.
var Epoch = time.Date(2000, 1, 1, 0, 0, 0, 0, time.UTC)

// VirtualNow returns the virtual wall-clock time.
func VirtualNow() time.Time { return Epoch.Add(time.Duration(current().s.clock)) }

// Timer is the replacement of time.Timer (see vtime).
type Timer struct {
	C *Chan[time.Time]
	m Meta
	a *alarm
}

// NewTimer is the replacement of time.NewTimer.
func NewTimer(d time.Duration) *Timer {
	t := current()
	tm := &Timer{C: NewChan[time.Time](1)}
	tm.m.Bind(t)
	tm.arm(t, d)
	return tm
}

func (tm *Timer) arm(t *Thread, d time.Duration) {
	s := t.s
	tm.a = s.addAlarm(int64(d), func() {
		// Firing is a non-blocking send, as in the runtime.
		tm.C.TrySendInternal(t, Epoch.Add(time.Duration(s.clock)))
	})
}

// Stop is the replacement of (*time.Timer).Stop.
func (tm *Timer) Stop() bool {
	t := current()
	id, fresh := tm.m.Bind(t)
	if fresh {
		tm.a = nil
	}
	t.point("timer.stop", id, nil)
	active := t.s.cancelAlarm(tm.a)
	if !t.s.opt.LegacyTimerChan {
		// Go >= 1.23: no stale value is observable after Stop; a value that was
		// sent but not yet received counts as "the timer was stopped".
		if tm.C.DrainInternal(t) {
			active = true
		}
	}
	return active
}

// Reset is the replacement of (*time.Timer).Reset.
func (tm *Timer) Reset(d time.Duration) bool {
	t := current()
	id, fresh := tm.m.Bind(t)
	if fresh {
		tm.a = nil
	}
	t.point("timer.reset", id, nil)
	active := t.s.cancelAlarm(tm.a)
	if !t.s.opt.LegacyTimerChan {
		if tm.C.DrainInternal(t) {
			active = true
		}
	}
	tm.arm(t, d)
	return active
}

// SleepFor is the replacement of time.Sleep.
func SleepFor(d time.Duration) { Sleep(int64(d)) }

// Ticker is the replacement of time.Ticker: a periodic alarm that performs a
// non-blocking send on C (capacity 1), dropping ticks for slow receivers.
type Ticker struct {
	C *Chan[time.Time]
	m Meta
	a *alarm
	d time.Duration
}

// NewTicker is the replacement of time.NewTicker.
func NewTicker(d time.Duration) *Ticker {
	if d <= 0 {
		panic("non-positive interval for NewTicker")
	}
	t := current()
	tk := &Ticker{C: NewChan[time.Time](1), d: d}
	tk.m.Bind(t)
	tk.arm(t)
	return tk
}

func (tk *Ticker) arm(t *Thread) {
	s := t.s
	tk.a = s.addAlarm(int64(tk.d), func() {
		tk.C.TrySendInternal(t, Epoch.Add(time.Duration(s.clock)))
		tk.arm(t)
	})
}

// Stop is the replacement of (*time.Ticker).Stop.
func (tk *Ticker) Stop() {
	t := current()
	id, fresh := tk.m.Bind(t)
	if fresh {
		tk.a = nil
	}
	t.point("ticker.stop", id, nil)
	t.s.cancelAlarm(tk.a)
}

// Reset is the replacement of (*time.Ticker).Reset.
func (tk *Ticker) Reset(d time.Duration) {
	t := current()
	id, fresh := tk.m.Bind(t)
	if fresh {
		tk.a = nil
	}
	t.point("ticker.reset", id, nil)
	t.s.cancelAlarm(tk.a)
	tk.d = d
	tk.arm(t)
}
