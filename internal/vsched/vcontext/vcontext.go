// Package vcontext is the API-compatible subset of package context that
// rewritten code is built against. Done channels are scheduler-aware channels
// and cancellation is a visible operation (a scheduling point).
package vcontext

import (
	"context"
	"time"

	"verif/internal/vsched"
)

// Context mirrors context.Context with a scheduler-aware Done channel.
type Context interface {
	Deadline() (deadline time.Time, ok bool)
	Done() *vsched.Chan[struct{}]
	Err() error
	Value(key any) any
}

// CancelFunc mirrors context.CancelFunc.
type CancelFunc func()

// The error values are the real ones, so errors.Is / == keep working.
var (
	Canceled         = context.Canceled
	DeadlineExceeded = context.DeadlineExceeded
)

type emptyCtx struct{}

func (emptyCtx) Deadline() (time.Time, bool)   { return time.Time{}, false }
func (emptyCtx) Done() *vsched.Chan[struct{}]  { return nil }
func (emptyCtx) Err() error                    { return nil }
func (emptyCtx) Value(any) any                 { return nil }

// Background mirrors context.Background.
func Background() Context { return emptyCtx{} }

// TODO mirrors context.TODO.
func TODO() Context { return emptyCtx{} }

type cancelCtx struct {
	parent   Context
	m        vsched.Meta
	done     *vsched.Chan[struct{}]
	err      error
	children []*cancelCtx
}

func (c *cancelCtx) Deadline() (time.Time, bool)  { return c.parent.Deadline() }
func (c *cancelCtx) Done() *vsched.Chan[struct{}] { return c.done }
func (c *cancelCtx) Value(key any) any            { return c.parent.Value(key) }

// Err is a visible read of the cancellation state.
func (c *cancelCtx) Err() error {
	t := vsched.CurrentThread()
	id, _ := c.m.Bind(t)
	t.Step("ctx.err", id, nil)
	return c.err
}

func (c *cancelCtx) cancelAll(t *vsched.Thread, err error) {
	if c.err != nil {
		return
	}
	c.err = err
	c.done.CloseInternal(t)
	for _, k := range c.children {
		k.cancelAll(t, err)
	}
}

// WithCancel mirrors context.WithCancel. Only contexts of this package can be
// parents; anything else is a harness error.
func WithCancel(parent Context) (Context, CancelFunc) {
	t := vsched.CurrentThread()
	c := &cancelCtx{parent: parent, done: vsched.NewChan[struct{}](0)}
	c.m.Bind(t)
	switch p := parent.(type) {
	case emptyCtx:
	case *cancelCtx:
		if p.err != nil {
			c.cancelAll(t, p.err)
		} else {
			p.children = append(p.children, c)
		}
	case *valueCtx:
		if pc := p.nearestCancel(); pc != nil {
			if pc.err != nil {
				c.cancelAll(t, pc.err)
			} else {
				pc.children = append(pc.children, c)
			}
		}
	default:
		panic("vsched: vcontext.WithCancel: unsupported parent context type")
	}
	return c, func() {
		t := vsched.CurrentThread()
		id, _ := c.m.Bind(t)
		t.Step("ctx.cancel", id, nil)
		c.cancelAll(t, Canceled)
	}
}

type valueCtx struct {
	Context
	key, val any
}

func (v *valueCtx) Value(key any) any {
	if key == v.key {
		return v.val
	}
	return v.Context.Value(key)
}

func (v *valueCtx) nearestCancel() *cancelCtx {
	switch p := v.Context.(type) {
	case *cancelCtx:
		return p
	case *valueCtx:
		return p.nearestCancel()
	}
	return nil
}

// WithValue mirrors context.WithValue.
func WithValue(parent Context, key, val any) Context { return &valueCtx{parent, key, val} }
