// Package vsync is the API-compatible subset of package sync that rewritten
// code is built against. Every operation is a scheduling point of the vsched
// scheduler; a blocked operation is represented by a readiness predicate.
//
// Modelling notes (all over-approximate the Go runtime, none under-approximates
// mutual exclusion): Mutex and RWMutex have no fairness/starvation mode, any
// enabled waiter may win; RWMutex does not block new readers while a writer is
// waiting; Cond has no spurious wake-ups and Signal wakes the longest waiter,
// as the runtime's ticket-based notify list does.
package vsync

import (
	"verif/internal/vsched"
)

// Locker mirrors sync.Locker.
type Locker interface {
	Lock()
	Unlock()
}

// Mutex mirrors sync.Mutex.
type Mutex struct {
	m      vsched.Meta
	locked bool
}

func (mu *Mutex) bind(t *vsched.Thread) int {
	id, fresh := mu.m.Bind(t)
	if fresh {
		mu.locked = false
	}
	return id
}

// Lock mirrors (*sync.Mutex).Lock.
func (mu *Mutex) Lock() {
	t := vsched.CurrentThread()
	id := mu.bind(t)
	t.Step("lock", id, func() bool { return !mu.locked })
	mu.locked = true
}

// TryLock mirrors (*sync.Mutex).TryLock.
func (mu *Mutex) TryLock() bool {
	t := vsched.CurrentThread()
	id := mu.bind(t)
	t.Step("trylock", id, nil)
	if mu.locked {
		return false
	}
	mu.locked = true
	return true
}

// Unlock mirrors (*sync.Mutex).Unlock.
func (mu *Mutex) Unlock() {
	t := vsched.CurrentThread()
	id := mu.bind(t)
	t.Step("unlock", id, nil)
	if !mu.locked {
		panic("sync: unlock of unlocked mutex")
	}
	mu.locked = false
}

// RWMutex mirrors sync.RWMutex.
type RWMutex struct {
	m       vsched.Meta
	writer  bool
	readers int
}

func (rw *RWMutex) bind(t *vsched.Thread) int {
	id, fresh := rw.m.Bind(t)
	if fresh {
		rw.writer, rw.readers = false, 0
	}
	return id
}

func (rw *RWMutex) Lock() {
	t := vsched.CurrentThread()
	id := rw.bind(t)
	t.Step("rw.lock", id, func() bool { return !rw.writer && rw.readers == 0 })
	rw.writer = true
}

func (rw *RWMutex) Unlock() {
	t := vsched.CurrentThread()
	id := rw.bind(t)
	t.Step("rw.unlock", id, nil)
	if !rw.writer {
		panic("sync: Unlock of unlocked RWMutex")
	}
	rw.writer = false
}

func (rw *RWMutex) RLock() {
	t := vsched.CurrentThread()
	id := rw.bind(t)
	t.Step("rw.rlock", id, func() bool { return !rw.writer })
	rw.readers++
}

func (rw *RWMutex) RUnlock() {
	t := vsched.CurrentThread()
	id := rw.bind(t)
	t.Step("rw.runlock", id, nil)
	if rw.readers == 0 {
		panic("sync: RUnlock of unlocked RWMutex")
	}
	rw.readers--
}

func (rw *RWMutex) TryLock() bool {
	t := vsched.CurrentThread()
	id := rw.bind(t)
	t.Step("rw.trylock", id, nil)
	if rw.writer || rw.readers > 0 {
		return false
	}
	rw.writer = true
	return true
}

func (rw *RWMutex) TryRLock() bool {
	t := vsched.CurrentThread()
	id := rw.bind(t)
	t.Step("rw.tryrlock", id, nil)
	if rw.writer {
		return false
	}
	rw.readers++
	return true
}

type rlocker RWMutex

func (r *rlocker) Lock()   { (*RWMutex)(r).RLock() }
func (r *rlocker) Unlock() { (*RWMutex)(r).RUnlock() }

// RLocker mirrors (*sync.RWMutex).RLocker.
func (rw *RWMutex) RLocker() Locker { return (*rlocker)(rw) }

// Cond mirrors sync.Cond.
type Cond struct {
	L       Locker
	m       vsched.Meta
	waiters []*condWaiter
}

type condWaiter struct{ signaled bool }

// NewCond mirrors sync.NewCond.
func NewCond(l Locker) *Cond { return &Cond{L: l} }

func (c *Cond) bind(t *vsched.Thread) int {
	id, fresh := c.m.Bind(t)
	if fresh {
		c.waiters = nil
	}
	return id
}

// Wait mirrors (*sync.Cond).Wait: the caller is added to the notify list
// before L is released (so a Signal issued after the release cannot be lost),
// then blocks until signalled, then re-acquires L.
func (c *Cond) Wait() {
	t := vsched.CurrentThread()
	id := c.bind(t)
	w := &condWaiter{}
	c.waiters = append(c.waiters, w)
	c.L.Unlock()
	t.Step("cond.wait", id, func() bool { return w.signaled })
	c.L.Lock()
}

// Signal mirrors (*sync.Cond).Signal.
func (c *Cond) Signal() {
	t := vsched.CurrentThread()
	id := c.bind(t)
	t.Step("cond.signal", id, nil)
	if len(c.waiters) > 0 {
		c.waiters[0].signaled = true
		c.waiters = c.waiters[1:]
	}
}

// Broadcast mirrors (*sync.Cond).Broadcast.
func (c *Cond) Broadcast() {
	t := vsched.CurrentThread()
	id := c.bind(t)
	t.Step("cond.broadcast", id, nil)
	for _, w := range c.waiters {
		w.signaled = true
	}
	c.waiters = nil
}

// WaitGroup mirrors sync.WaitGroup.
type WaitGroup struct {
	m vsched.Meta
	n int
}

func (wg *WaitGroup) bind(t *vsched.Thread) int {
	id, fresh := wg.m.Bind(t)
	if fresh {
		wg.n = 0
	}
	return id
}

func (wg *WaitGroup) Add(delta int) {
	t := vsched.CurrentThread()
	id := wg.bind(t)
	t.Step("wg.add", id, nil)
	wg.n += delta
	if wg.n < 0 {
		panic("sync: negative WaitGroup counter")
	}
}

func (wg *WaitGroup) Done() { wg.Add(-1) }

func (wg *WaitGroup) Wait() {
	t := vsched.CurrentThread()
	id := wg.bind(t)
	t.Step("wg.wait", id, func() bool { return wg.n == 0 })
}

// Go mirrors (*sync.WaitGroup).Go.
func (wg *WaitGroup) Go(f func()) {
	wg.Add(1)
	vsched.Go(func() {
		defer wg.Done()
		f()
	})
}

// Once mirrors sync.Once.
type Once struct {
	mu   Mutex
	done bool
	m    vsched.Meta
}

func (o *Once) Do(f func()) {
	t := vsched.CurrentThread()
	if _, fresh := o.m.Bind(t); fresh {
		o.done = false
	}
	o.mu.Lock()
	defer o.mu.Unlock()
	if !o.done {
		defer func() { o.done = true }()
		f()
	}
}
