//go:build verif

package small

import (
	"encoding/json"
	"fmt"
	"regexp"
	"strings"
	"testing"

	"github.com/mutagen-io/mutagen/pkg/logging"

	"verif/internal/vr"
)

// ---- C44: log output is one neutralized line per record (E-enum) ----

const forgedPrefix = "2000-01-01 00:00:00.000000 [E] "

// logTokens is the message alphabet.
var logTokens = []string{"ab", "\n", "\r", "\r\n", "\x1b[31m", forgedPrefix, "\x00"}

type logCase struct {
	API    string   `json:"api"`    // Error|Warn|Info|Debug|Trace (Println form), <L>f-arg ("%s", msg), <L>f-fmt (msg as format), Info2 (two operands split at token Split), relay-<L> (Writer(level))
	Scope  []string `json:"scope"`  // chain of Sublogger names
	Level  string   `json:"level"`  // logger level name
	Tokens []int    `json:"tokens"` // message = concatenation of logTokens[i]
	Split  int      `json:"split,omitempty"`
	Cuts   []int    `json:"cuts,omitempty"` // relay: byte positions at which the stream is cut into separate Write calls
}

func (c logCase) key() string { return vr.J(c) }

func (c logCase) message() string {
	var b strings.Builder
	for _, i := range c.Tokens {
		b.WriteString(logTokens[i])
	}
	return b.String()
}

// sink captures everything the logger writes.
type logSink struct{ data []byte }

func (s *logSink) Write(p []byte) (int, error) { s.data = append(s.data, p...); return len(p), nil }

var levelByName = map[string]logging.Level{
	"Error": logging.LevelError, "Warn": logging.LevelWarn, "Info": logging.LevelInfo,
	"Debug": logging.LevelDebug, "Trace": logging.LevelTrace, "Disabled": logging.LevelDisabled,
}
var abbrevByName = map[string]byte{"Error": 'E', "Warn": 'W', "Info": 'I', "Debug": 'D', "Trace": 'T'}

var timestampRE = regexp.MustCompile(`^\d{4}-\d{2}-\d{2} \d{2}:\d{2}:\d{2}\.\d{6} `)

// firstSegmentPieces returns the text of a record up to its first CR or LF,
// split at ESC bytes: those pieces must show up in the log line in this order
// (whatever the ESC bytes were replaced with).
func firstSegmentPieces(record string) []string {
	if i := strings.IndexAny(record, "\r\n"); i >= 0 {
		record = record[:i]
	}
	return strings.Split(record, "\x1b")
}

// checkLine judges one log line (including its terminating newline) against the
// property: "exactly one line in the log with its level and scope prefix";
// "Embedded newlines, carriage returns and escape characters can never forge
// additional lines or terminal control sequences".
func checkLine(line string, level byte, scope string, forgedTimestamp bool, pieces []string) string {
	if !strings.HasSuffix(line, "\n") {
		return fmt.Sprintf("line %q is not newline-terminated", line)
	}
	body := line[:len(line)-1]
	if strings.ContainsAny(body, "\n") {
		return fmt.Sprintf("line %q contains an embedded newline", line)
	}
	if strings.Contains(body, "\r") {
		return fmt.Sprintf("line %q contains a raw carriage return", line)
	}
	if strings.Contains(body, "\x1b") {
		return fmt.Sprintf("line %q contains a raw ESC byte", line)
	}
	loc := timestampRE.FindStringIndex(body)
	if loc == nil {
		return fmt.Sprintf("line %q does not start with a timestamp", line)
	}
	if forgedTimestamp && !strings.HasPrefix(body, forgedPrefix[:27]) {
		return fmt.Sprintf("relayed logger line %q lost its own timestamp", line)
	}
	rest := body[loc[1]:]
	want := fmt.Sprintf("[%c] ", level)
	if scope != "" {
		want += "[" + scope + "] "
	}
	if !strings.HasPrefix(rest, want) {
		return fmt.Sprintf("line %q lacks the level/scope prefix %q after the timestamp", line, want)
	}
	rest = rest[len(want):]
	// the record's own text (up to its first line break) is what the line carries
	for i, p := range pieces {
		j := strings.Index(rest, p)
		if j < 0 || (i == 0 && j != 0) {
			return fmt.Sprintf("line %q does not carry the record's text %q (piece %d) after its prefix", line, pieces, i)
		}
		rest = rest[j+len(p):]
	}
	return ""
}

// splitLines splits sink output into lines, each including its newline; a
// trailing unterminated fragment is returned as the last element.
func splitLines(data string) []string {
	var out []string
	for len(data) > 0 {
		i := strings.IndexByte(data, '\n')
		if i < 0 {
			out = append(out, data)
			break
		}
		out = append(out, data[:i+1])
		data = data[i+1:]
	}
	return out
}

// runSubloggerCase offers name as a sublogger name.
func runSubloggerCase(name string) (what string, class string) {
	sink := &logSink{}
	parent := logging.NewLogger(logging.LevelTrace, sink)
	sub := parent.Sublogger(name)
	lines := splitLines(string(sink.data))
	if len(lines) > 1 {
		return fmt.Sprintf("Sublogger(%q) wrote %d lines %q", name, len(lines), lines), "bad"
	}
	if len(lines) == 1 {
		if s := checkLine(lines[0], 'W', "", false, nil); s != "" {
			return fmt.Sprintf("Sublogger(%q): %s", name, s), "bad"
		}
	}
	if sub == nil {
		// "A nil Logger is valid and all of its methods are no-ops."
		sub.Info("x")
		sub.Writer(logging.LevelInfo).Write([]byte("x\n"))
		if len(splitLines(string(sink.data))) != len(lines) {
			return "a nil logger produced output", "bad"
		}
		return "", "sublogger-name-refused"
	}
	sink.data = nil
	sub.Info("m")
	out := splitLines(string(sink.data))
	if len(out) != 1 {
		return fmt.Sprintf("logging through Sublogger(%q) produced %d lines %q", name, len(out), out), "bad"
	}
	return checkLine(out[0], 'I', name, false, []string{"m"}), "sublogger-name-accepted"
}

// runLogCase runs one case through the real logger. normalized is the sink
// output with timestamps of genuine records masked (used to compare chunkings).
func runLogCase(c logCase) (what string, nontrivial bool, class string, normalized string) {
	if c.API == "Sublogger" {
		what, class = runSubloggerCase(c.message())
		return what, class == "sublogger-name-refused", class, ""
	}
	sink := &logSink{}
	loggerLevel := levelByName[c.Level]
	logger := logging.NewLogger(loggerLevel, sink)
	for _, name := range c.Scope {
		logger = logger.Sublogger(name)
		if logger == nil {
			return "INFRA: scope name rejected: " + name, false, "", ""
		}
	}
	if len(sink.data) != 0 {
		return fmt.Sprintf("creating subloggers wrote %q", sink.data), true, "bad", ""
	}
	scope := strings.Join(c.Scope, ".")
	msg := c.message()
	nontrivial = strings.ContainsAny(msg, "\r\n\x1b") || strings.Contains(msg, forgedPrefix)
	mask := func(s string) string {
		var b strings.Builder
		for _, l := range splitLines(s) {
			if loc := timestampRE.FindStringIndex(l); loc != nil && !strings.HasPrefix(l, forgedPrefix[:27]) {
				l = "<ts> " + l[loc[1]:]
			}
			b.WriteString(l)
		}
		return b.String()
	}

	if strings.HasPrefix(c.API, "relay-") {
		lname := strings.TrimPrefix(c.API, "relay-")
		w := logger.Writer(levelByName[lname])
		prev := 0
		for _, cut := range append(append([]int(nil), c.Cuts...), len(msg)) {
			chunk := msg[prev:cut]
			prev = cut
			n, err := w.Write([]byte(chunk))
			if n != len(chunk) || err != nil {
				return fmt.Sprintf("relay writer returned (%d,%v) for %d bytes", n, err, len(chunk)), true, "bad", ""
			}
		}
		// Records = the complete (newline-terminated) incoming lines; a trailing CR is
		// part of the line terminator.
		var records []string
		for _, l := range splitLines(msg) {
			if !strings.HasSuffix(l, "\n") {
				break // unterminated tail: not a record yet
			}
			l = strings.TrimSuffix(l[:len(l)-1], "\r")
			records = append(records, l)
		}
		lines := splitLines(string(sink.data))
		if len(lines) != len(records) {
			return fmt.Sprintf("%d incoming line(s) %q produced %d log line(s) %q", len(records), records, len(lines), lines), true, "bad", ""
		}
		class = "relay-plain"
		for i, rec := range records {
			level, forged, text := abbrevByName[lname], false, rec
			if strings.HasPrefix(rec, forgedPrefix) {
				// A line that is itself output of another logger keeps its own
				// timestamp and level and gets this logger's scope merged in
				// (documented behaviour of Writer).
				level, forged, text = 'E', true, rec[len(forgedPrefix):]
				class = "relay-adopted-logger-line"
			}
			if s := checkLine(lines[i], level, scope, forged, firstSegmentPieces(text)); s != "" {
				return fmt.Sprintf("incoming line %d %q: %s", i, rec, s), true, "bad", ""
			}
		}
		if len(records) == 0 {
			class = "relay-no-complete-line"
			nontrivial = false
		}
		return "", nontrivial, class, mask(string(sink.data))
	}

	// Direct logging: one call = one record.
	lname, formatted := "", ""
	switch {
	case c.API == "Info2":
		var a, b strings.Builder
		for i, t := range c.Tokens {
			if i < c.Split {
				a.WriteString(logTokens[t])
			} else {
				b.WriteString(logTokens[t])
			}
		}
		lname = "Info"
		formatted = a.String() + " " + b.String() // Sprintln semantics: operands separated by a space
		logger.Info(a.String(), b.String())
	case strings.HasSuffix(c.API, "f-arg") || strings.HasSuffix(c.API, "f-fmt"):
		lname = c.API[:len(c.API)-5]
		format, args := msg, []any(nil)
		if strings.HasSuffix(c.API, "f-arg") {
			format, args = "%s", []any{msg}
		}
		formatted = msg
		switch lname {
		case "Error":
			logger.Errorf(format, args...)
		case "Warn":
			logger.Warnf(format, args...)
		case "Info":
			logger.Infof(format, args...)
		case "Debug":
			logger.Debugf(format, args...)
		case "Trace":
			logger.Tracef(format, args...)
		}
	default:
		lname = c.API
		formatted = msg
		switch lname {
		case "Error":
			logger.Error(msg)
		case "Warn":
			logger.Warn(msg)
		case "Info":
			logger.Info(msg)
		case "Debug":
			logger.Debug(msg)
		case "Trace":
			logger.Trace(msg)
		default:
			return "INFRA: unknown api " + c.API, false, "", ""
		}
	}
	out := string(sink.data)
	if levelByName[lname] > loggerLevel {
		// Not a logged message at this logger level; the property says nothing
		// beyond "no forged output": demand at most one well-formed line.
		if out == "" {
			return "", false, "gated", ""
		}
	}
	lines := splitLines(out)
	if len(lines) != 1 {
		return fmt.Sprintf("one %s record %q produced %d log line(s) %q", c.API, formatted, len(lines), lines), true, "bad", ""
	}
	if s := checkLine(lines[0], abbrevByName[lname], scope, false, firstSegmentPieces(formatted)); s != "" {
		return s, true, "bad", ""
	}
	hasBreak := strings.ContainsAny(formatted, "\r\n")
	hasEsc := len(firstSegmentPieces(formatted)) > 1
	switch {
	case hasBreak && hasEsc:
		class = "truncated+neutralized"
	case hasBreak:
		class = "truncated"
	case hasEsc:
		class = "neutralized"
	default:
		class = "clean"
	}
	return "", nontrivial, class, mask(out)
}

// tokenSequences returns every sequence of at most n token indices.
func tokenSequences(ntok, n int) [][]int {
	out := [][]int{{}}
	prev := [][]int{{}}
	for l := 1; l <= n; l++ {
		var cur [][]int
		for _, p := range prev {
			for t := 0; t < ntok; t++ {
				cur = append(cur, append(append([]int(nil), p...), t))
			}
		}
		out = append(out, cur...)
		prev = cur
	}
	return out
}

func TestC44(t *testing.T) {
	r := vr.New(t, "C44", "exploration")
	defer r.Finish()
	if raw := vr.ReplayCase(); raw != nil {
		var c logCase
		if err := json.Unmarshal(raw, &c); err != nil {
			t.Fatalf("INFRA: bad replay case: %v", err)
		}
		what, nt, class, out := runLogCase(c)
		t.Logf("replay %s: message %q output %q class %s nontrivial %v verdict %q", c.key(), c.message(), out, class, nt, what)
		r.Case(c.key(), true)
		if what != "" {
			r.Violate(c.key(), what, c, nil)
		}
		return
	}
	maxTokens := 4
	pairCuts := false
	if vr.Thorough() {
		maxTokens = 5
		pairCuts = true
	}
	r.Rule(fmt.Sprintf("messages = every sequence of <=%d tokens over {\"ab\", LF, CR, CRLF, ESC[31m, a forged '2000-01-01 00:00:00.000000 [E] ' prefix, NUL}; each is (a) logged through Error/Warn/Info/Debug/Trace, the f-variants with the message as %%s operand and as the format string, and Info with two operands split at every token boundary, on loggers with scope none / s / s.t at logger level Trace and Warn; (b) relayed through Writer(Info) and Writer(Error) of the same loggers as one Write and cut into two Writes at every byte position (thorough: every pair of cut positions for messages of <=4 tokens), output compared across chunkings; (c) every token sequence of <=2 tokens is offered as a Sublogger name. Non-trivial = the message contains LF, CR, ESC or the forged prefix; distinct by (api, scope, level, message, cuts).", maxTokens))
	r.Assume("the sink accepts every write; timestamps are only checked for shape (real clock)",
		"NUL and other control bytes besides CR/LF/ESC are outside what the statement names; they pass through unchanged and are not judged",
		"a relayed line that is itself a logger line (timestamp + level prefix) is one record that keeps its own timestamp and level and gets the relaying logger's scope, as documented for Logger.Writer",
		"an unterminated trailing fragment of a relayed stream is not a record yet and produces nothing",
		"messages below the logger's level are not logged; for them only 'nothing, or one well-formed line' is demanded")

	seqs := tokenSequences(len(logTokens), maxTokens)
	scopes := [][]string{{}, {"s"}, {"s", "t"}}
	levels := []string{"Error", "Warn", "Info", "Debug", "Trace"}
	vr.Parallel(len(seqs), func(si int) {
		l := r.Local()
		defer l.Flush()
		toks := seqs[si]
		judge := func(c logCase) string {
			what, nt, class, out := runLogCase(c)
			if nt {
				l.Case(c.key(), true)
			} else {
				l.Case("", false)
			}
			l.Outcome(class)
			if what != "" {
				r.Violate(c.key(), what, c, func() bool { w, _, _, _ := runLogCase(c); return w != "" })
			}
			return out
		}
		for _, scope := range scopes {
			for _, ll := range []string{"Trace", "Warn"} {
				for _, lv := range levels {
					judge(logCase{API: lv, Scope: scope, Level: ll, Tokens: toks})
					judge(logCase{API: lv + "f-arg", Scope: scope, Level: ll, Tokens: toks})
					judge(logCase{API: lv + "f-fmt", Scope: scope, Level: ll, Tokens: toks})
				}
				for sp := 1; sp < len(toks); sp++ {
					judge(logCase{API: "Info2", Scope: scope, Level: ll, Tokens: toks, Split: sp})
				}
			}
			n := len(logCase{Tokens: toks}.message())
			for _, lv := range []string{"Info", "Error"} {
				base := logCase{API: "relay-" + lv, Scope: scope, Level: "Trace", Tokens: toks}
				whole := judge(base)
				for a := 0; a <= n; a++ {
					c := base
					c.Cuts = []int{a}
					if out := judge(c); out != whole && r.Violations() == 0 {
						r.Violate(c.key(), fmt.Sprintf("relayed output depends on chunking: %q when cut at %d, %q as one write", out, a, whole), c, func() bool {
							_, _, _, o1 := runLogCase(c)
							_, _, _, o2 := runLogCase(base)
							return o1 != o2
						})
					}
					if pairCuts && len(toks) <= 4 {
						for b := a; b <= n; b++ {
							c2 := base
							c2.Cuts = []int{a, b}
							if out := judge(c2); out != whole && r.Violations() == 0 {
								r.Violate(c2.key(), fmt.Sprintf("relayed output depends on chunking: %q when cut at %d,%d, %q as one write", out, a, b, whole), c2, func() bool {
									_, _, _, o1 := runLogCase(c2)
									_, _, _, o2 := runLogCase(base)
									return o1 != o2
								})
							}
						}
					}
				}
			}
		}
	})

	// (c) scope names: whatever name is offered, either the sublogger is refused
	// (nil; the parent may log one well-formed warning) or lines logged through it
	// are single well-formed lines carrying that scope.
	l := r.Local()
	for _, toks := range tokenSequences(len(logTokens), 2) {
		c := logCase{API: "Sublogger", Tokens: toks, Level: "Trace"}
		what, nt, class, _ := runLogCase(c)
		l.Case(c.key(), nt)
		l.Outcome(class)
		if what != "" {
			r.Violate(c.key(), what, c, func() bool { w, _, _, _ := runLogCase(c); return w != "" })
		}
	}
	l.Flush()

	r.Sample(map[string]any{"api": "Info", "scope": "s.t", "message": "ab\r\n" + forgedPrefix + "ab"})
	r.Sample(map[string]any{"api": "relay-Info", "scope": "s", "stream": forgedPrefix + "\x1b[31mab\rab\n", "cuts": []int{31}})
	r.Sample(map[string]any{"api": "Errorf-fmt", "scope": "", "message": "\x1b[31m\x00ab\n" + forgedPrefix})
	r.Sample(logCase{API: "Info2", Scope: []string{"s"}, Level: "Trace", Tokens: []int{0, 4, 1, 5}, Split: 2})
}
