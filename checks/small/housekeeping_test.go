//go:build verif

package small

import (
	"encoding/json"
	"fmt"
	"os"
	"os/exec"
	"path/filepath"
	"runtime"
	"sort"
	"strings"
	"sync"
	"syscall"
	"testing"
	"time"
	"unsafe"

	"github.com/mutagen-io/mutagen/pkg/agent"
	"github.com/mutagen-io/mutagen/pkg/filesystem"
	"github.com/mutagen-io/mutagen/pkg/housekeeping"
	"github.com/mutagen-io/mutagen/pkg/platform"

	"verif/internal/vr"
)

// ---- C43: housekeeping removes only stale artifacts (E-enum on a temp data directory) ----

// Thresholds from the property statement: "agent installations unused for more
// than 30 days and caches and staging directories unmodified for more than 7 days".
const (
	hkAgentThreshold = 30 * 24 * time.Hour
	hkOtherThreshold = 7 * 24 * time.Hour
)

// hkAges are the ages an entry's timestamps can take, as (multiple of the
// category threshold, offset). Index order: fresh, just below, just above, ancient.
type hkAge struct {
	Name   string
	Mult   int
	Offset time.Duration
}

var hkAgesQuick = []hkAge{
	{"now", 0, 0},
	{"T-1h", 1, -time.Hour},
	{"T+1h", 1, time.Hour},
	{"10T", 10, 0},
}
var hkAgesThorough = []hkAge{
	{"now", 0, 0},
	{"T/2", 0, 0}, // patched below per category
	{"T-1h", 1, -time.Hour},
	{"T-10m", 1, -10 * time.Minute},
	{"T+10m", 1, 10 * time.Minute},
	{"T+1h", 1, time.Hour},
	{"10T", 10, 0},
}

func (a hkAge) duration(threshold time.Duration) time.Duration {
	if a.Name == "T/2" {
		return threshold / 2
	}
	return time.Duration(a.Mult)*threshold + a.Offset
}

// hkEntry is one entry of a population.
type hkEntry struct {
	Cat  string `json:"cat"`  // agents | caches | staging
	Kind string `json:"kind"` // see hkVariants
	Age  string `json:"age"`  // age of the timestamp the statement names (agent binary access time; cache / staging root modification time)
	Alt  string `json:"alt"`  // age of every other timestamp of the entry
}

func (e hkEntry) String() string { return fmt.Sprintf("%s/%s[%s,%s]", e.Cat, e.Kind, e.Age, e.Alt) }

type hkCase struct {
	Entries []hkEntry `json:"entries"`
	// Sidecar: the process runs with MUTAGEN_SIDECAR=1 (pkg/sidecar), where
	// Housekeep is documented to skip agent housekeeping only.
	Sidecar bool `json:"sidecar,omitempty"`
}

func (c hkCase) key() string {
	s := make([]string, len(c.Entries))
	for i, e := range c.Entries {
		s[i] = e.String()
	}
	if c.Sidecar {
		return "sidecar=1 " + strings.Join(s, " ")
	}
	return strings.Join(s, " ")
}

func hkThreshold(cat string) time.Duration {
	if cat == "agents" {
		return hkAgentThreshold
	}
	return hkOtherThreshold
}

func hkAgeByName(name string) hkAge {
	for _, a := range hkAgesThorough {
		if a.Name == name {
			return a
		}
	}
	panic("INFRA: unknown age " + name)
}

// lutimes sets the timestamps of a path without following a final symlink.
func lutimes(path string, atime, mtime time.Time) error {
	p, err := syscall.BytePtrFromString(path)
	if err != nil {
		return err
	}
	ts := [2]syscall.Timespec{syscall.NsecToTimespec(atime.UnixNano()), syscall.NsecToTimespec(mtime.UnixNano())}
	const atFdcwd = -0x64
	const atSymlinkNofollow = 0x100
	fd := atFdcwd
	_, _, e := syscall.Syscall6(syscall.SYS_UTIMENSAT, uintptr(fd), uintptr(unsafe.Pointer(p)), uintptr(unsafe.Pointer(&ts[0])), atSymlinkNofollow, 0, 0)
	if e != 0 {
		return e
	}
	return nil
}

// hkWorld builds a population on disk and remembers what it put where.
type hkWorld struct {
	data, outside string
	now           time.Time
	content       map[string]string       // regular files created, by absolute path
	times         map[string][2]time.Time // (atime, mtime) to set after all creation, by absolute path
	order         []string
	err           error
}

func (w *hkWorld) fail(err error) {
	if err != nil && w.err == nil {
		w.err = err
	}
}
func (w *hkWorld) stamp(path string, atimeAge, mtimeAge time.Duration) {
	if _, ok := w.times[path]; !ok {
		w.order = append(w.order, path)
	}
	w.times[path] = [2]time.Time{w.now.Add(-atimeAge), w.now.Add(-mtimeAge)}
}
func (w *hkWorld) dir(path string, atimeAge, mtimeAge time.Duration) {
	w.fail(os.MkdirAll(path, 0o700))
	w.stamp(path, atimeAge, mtimeAge)
}
func (w *hkWorld) file(path, content string, atimeAge, mtimeAge time.Duration) {
	w.fail(os.WriteFile(path, []byte(content), 0o600))
	w.content[path] = content
	w.stamp(path, atimeAge, mtimeAge)
}
func (w *hkWorld) link(path, target string, atimeAge, mtimeAge time.Duration) {
	w.fail(os.Symlink(target, path))
	w.stamp(path, atimeAge, mtimeAge)
}

// applyTimes sets all recorded timestamps, children before parents.
func (w *hkWorld) applyTimes() {
	for i := len(w.order) - 1; i >= 0; i-- {
		p := w.order[i]
		w.fail(lutimes(p, w.times[p][0], w.times[p][1]))
	}
}

// hkSnap is an lstat-level snapshot of a tree: path -> description.
func hkSnap(root string, withContent bool) (map[string]string, error) {
	out := map[string]string{}
	err := filepath.Walk(root, func(p string, info os.FileInfo, err error) error {
		if err != nil {
			return err
		}
		rel, _ := filepath.Rel(root, p)
		d := fmt.Sprintf("mode=%v mtime=%d", info.Mode(), info.ModTime().UnixNano())
		switch {
		case info.Mode()&os.ModeSymlink != 0:
			t, err := os.Readlink(p)
			if err != nil {
				return err
			}
			d += " -> " + t
		case info.Mode().IsRegular():
			d += fmt.Sprintf(" size=%d", info.Size())
			if withContent {
				b, err := os.ReadFile(p)
				if err != nil {
					return err
				}
				d += " bytes=" + string(b)
			}
		}
		out[rel] = d
		return nil
	})
	return out, err
}

func hkDiff(before, after map[string]string) string {
	var diffs []string
	for p, d := range before {
		if a, ok := after[p]; !ok {
			diffs = append(diffs, "missing "+p)
		} else if a != d {
			diffs = append(diffs, fmt.Sprintf("changed %s: %s => %s", p, d, a))
		}
	}
	for p := range after {
		if _, ok := before[p]; !ok {
			diffs = append(diffs, "appeared "+p)
		}
	}
	sort.Strings(diffs)
	if len(diffs) > 4 {
		diffs = append(diffs[:4], "...")
	}
	return strings.Join(diffs, "; ")
}

// hkExpect is the oracle's verdict for one entry: "removed", "kept" or "either"
// (the statement does not decide it).
func hkExpect(e hkEntry) string {
	th := hkThreshold(e.Cat)
	stale := hkAgeByName(e.Age).duration(th) > th
	altStale := hkAgeByName(e.Alt).duration(th) > th
	// Symlink entries ("@in": target inside the data directory, otherwise outside):
	// Age is the decisive timestamp of the TARGET (what the entry denotes), Alt is
	// the link's own timestamps. "never removes anything more recent" and "removes
	// ... unmodified for more than 7 days" speak about the agent installation /
	// cache / staging root the entry denotes, so the target's age decides and the
	// link's own age must not matter.
	switch e.Cat + "/" + strings.TrimSuffix(e.Kind, "@in") {
	case "agents/plain", "agents/bin-link", "agents/link-dir":
		// "removes agent installations unused for more than 30 days" / "never removes
		// anything more recent": decided by the access time of the agent binary.
		if stale {
			return "removed"
		}
		return "kept"
	case "agents/nobinary":
		// not an agent installation: nothing demands its removal; if everything in
		// it is recent it must stay
		if !stale && !altStale {
			return "kept"
		}
		return "either"
	case "caches/plain", "caches/link-file", "staging/plain", "staging/link-dir", "staging/nested-link":
		if stale {
			return "removed"
		}
		return "kept"
	case "caches/link-dir", "caches/dir", "staging/link-file":
		// wrong type for the category: removal of a stale one is not demanded
		if stale {
			return "either"
		}
		return "kept"
	case "staging/nested-fresh":
		// root directory stale, content fresh ("unmodified" is ambiguous there)
		if !stale && !altStale {
			return "kept"
		}
		if stale && altStale {
			return "removed"
		}
		if !stale {
			return "kept" // the staging root itself was modified recently
		}
		return "either"
	}
	panic("INFRA: unknown entry kind " + e.Cat + "/" + e.Kind)
}

// build creates entry e under name in the world. Outside objects live in
// outside/<cat>-<name>...
func (w *hkWorld) build(e hkEntry, name string) {
	th := hkThreshold(e.Cat)
	age := hkAgeByName(e.Age).duration(th)
	alt := hkAgeByName(e.Alt).duration(th)
	agentName := platform.ExecutableName(agent.BaseName, runtime.GOOS)
	base := filepath.Join(w.data, e.Cat)
	p := filepath.Join(base, name)
	out := filepath.Join(w.outside, e.Cat+"-"+name)
	kind := e.Kind
	if strings.HasSuffix(kind, "@in") {
		// link target inside the data directory, but outside the three categories
		kind = strings.TrimSuffix(kind, "@in")
		w.dir(filepath.Join(w.data, "relocated"), 0, 0)
		out = filepath.Join(w.data, "relocated", e.Cat+"-"+name)
	}
	switch e.Cat + "/" + kind {
	case "agents/plain":
		w.dir(p, alt, alt)
		w.file(filepath.Join(p, agentName), "agent "+name, age, alt)
	case "agents/nobinary":
		w.dir(p, alt, age)
		w.file(filepath.Join(p, "README"), "readme "+name, alt, age)
	case "agents/link-dir":
		w.dir(out, age, age)
		w.file(filepath.Join(out, agentName), "outside agent "+name, age, age)
		w.link(p, out, alt, alt) // the link's own timestamps (lutimes)
	case "agents/bin-link":
		w.file(out, "outside agent binary "+name, age, age)
		w.dir(p, alt, alt)
		w.link(filepath.Join(p, agentName), out, alt, alt)
	case "caches/plain":
		w.file(p, "cache "+name, alt, age)
	case "caches/dir":
		w.dir(p, alt, age)
		w.file(filepath.Join(p, "x"), "cache dir content "+name, alt, age)
	case "caches/link-file":
		w.file(out, "outside cache "+name, age, age)
		w.link(p, out, alt, alt)
	case "caches/link-dir", "staging/link-dir":
		w.dir(out, age, age)
		w.dir(filepath.Join(out, "ab"), age, age)
		w.file(filepath.Join(out, "ab", "f"), "outside content "+name, age, age)
		w.link(p, out, alt, alt)
	case "staging/link-file":
		w.file(out, "outside file "+name, age, age)
		w.link(p, out, alt, alt)
	case "staging/plain":
		w.dir(p, alt, age)
		w.dir(filepath.Join(p, "ab"), alt, age)
		w.file(filepath.Join(p, "ab", "staged"), "staged "+name, alt, age)
	case "staging/nested-fresh":
		w.dir(p, age, age)
		w.dir(filepath.Join(p, "ab"), alt, alt)
		w.file(filepath.Join(p, "ab", "staged"), "staged "+name, alt, alt)
	case "staging/nested-link":
		// a staging root that contains a symlink to an outside directory
		w.dir(out, age, age)
		w.file(filepath.Join(out, "precious"), "outside precious "+name, age, age)
		w.dir(p, alt, age)
		w.link(filepath.Join(p, "escape"), out, alt, age)
	default:
		panic("INFRA: unknown entry kind " + e.Cat + "/" + e.Kind)
	}
}

// hkVariants lists the entry variants of a category for the given age set.
func hkVariants(cat string, ages []hkAge) []hkEntry {
	var out []hkEntry
	names := func() []string {
		var n []string
		for _, a := range ages {
			n = append(n, a.Name)
		}
		return n
	}()
	alts := []string{"now", "10T"}
	near := []string{"T-1h", "T+1h"}
	add := func(kind string, as, os []string) {
		for _, a := range as {
			for _, o := range os {
				out = append(out, hkEntry{cat, kind, a, o})
			}
		}
	}
	switch cat {
	case "agents":
		add("plain", names, alts)
		add("nobinary", []string{"now", "10T"}, []string{"now"})
		// symlink entries: target's decisive timestamp just below / just above the
		// threshold x the link's OWN timestamps fresh / ancient x target outside /
		// inside the data directory
		add("link-dir", near, alts)
		add("link-dir@in", near, alts)
		add("bin-link", near, alts)
		add("bin-link@in", near, alts)
	case "caches":
		add("plain", names, alts)
		add("link-file", near, alts)
		add("link-file@in", near, alts)
		add("link-dir", near, alts)
		add("dir", near, []string{"now"})
	case "staging":
		add("plain", names, alts)
		add("link-dir", near, alts)
		add("link-dir@in", near, alts)
		add("link-file", near, alts)
		add("nested-link", near, alts)
		add("nested-fresh", []string{"10T", "now"}, []string{"now", "10T"})
	}
	for i := range out {
		if out[i].Alt == "-" {
			out[i].Alt = out[i].Age
		}
	}
	return out
}

// runHKCase builds the population in a fresh data directory, runs the real
// Housekeep and judges the result. It returns the violations as (key, what)
// pairs, whether the population is non-trivial, and the per-entry outcome classes.
func runHKCase(t *testing.T, scratch string, c hkCase) (viol [][2]string, nontrivial bool, classes []string) {
	// The sidecar check is cached per process (sync.Once in pkg/sidecar), so a case
	// can only run in a process started with the matching environment.
	if (os.Getenv("MUTAGEN_SIDECAR") == "1") != c.Sidecar {
		t.Fatalf("INFRA: case sidecar=%v run in a process with MUTAGEN_SIDECAR=%q", c.Sidecar, os.Getenv("MUTAGEN_SIDECAR"))
	}
	vprefix := ""
	if c.Sidecar {
		vprefix = "sidecar=1 "
	}
	root, err := os.MkdirTemp(scratch, "pop")
	if err != nil {
		t.Fatalf("INFRA: %v", err)
	}
	defer os.RemoveAll(root)
	w := &hkWorld{
		data: filepath.Join(root, "data"), outside: filepath.Join(root, "outside"),
		now: time.Now(), content: map[string]string{}, times: map[string][2]time.Time{},
	}
	ancient := 10 * hkAgentThreshold
	w.dir(w.outside, 0, 0)
	w.file(filepath.Join(w.outside, "bystander"), "outside bystander", ancient, ancient)
	w.dir(w.data, 0, 0)
	for _, cat := range []string{"agents", "caches", "staging"} {
		w.dir(filepath.Join(w.data, cat), 0, 0)
	}
	// Bystanders inside the data directory that are none of the three categories:
	// however old, housekeeping "removes agent installations ... caches and staging
	// directories" only.
	for _, by := range []string{"sessions/sync_old", "archives/arch_old", "daemon/daemon.lock", "forwarding/fwd_old", "toplevel_old"} {
		w.dir(filepath.Dir(filepath.Join(w.data, by)), ancient, ancient)
		w.file(filepath.Join(w.data, by), "bystander "+by, ancient, ancient)
	}
	names := make([]string, len(c.Entries))
	for i, e := range c.Entries {
		names[i] = fmt.Sprintf("e%d", i)
		w.build(e, names[i])
	}
	w.applyTimes()
	if w.err != nil {
		t.Fatalf("INFRA: building population %s: %v", c.key(), w.err)
	}
	outsideBefore, err := hkSnap(w.outside, false)
	if err != nil {
		t.Fatalf("INFRA: %v", err)
	}
	dataBefore, err := hkSnap(w.data, false)
	if err != nil {
		t.Fatalf("INFRA: %v", err)
	}

	os.Setenv("MUTAGEN_DATA_DIRECTORY", w.data)
	if p, err := filesystem.Mutagen(false, "agents"); err != nil || p != filepath.Join(w.data, "agents") {
		t.Fatalf("INFRA: data directory override not effective: %q %v", p, err)
	}
	housekeeping.Housekeep()

	outsideAfter, err := hkSnap(w.outside, true)
	if err != nil {
		t.Fatalf("INFRA: %v", err)
	}
	dataAfter, err := hkSnap(w.data, true)
	if err != nil {
		t.Fatalf("INFRA: %v", err)
	}
	// add the known contents to the "before" snapshots (they were not read before
	// the run, so that no access time was disturbed)
	addContent := func(root string, snap map[string]string) {
		for rel, d := range snap {
			if content, ok := w.content[filepath.Join(root, rel)]; ok {
				snap[rel] = d + " bytes=" + content
			}
		}
	}
	addContent(w.outside, outsideBefore)
	addContent(w.data, dataBefore)

	// "never touches anything outside Mutagen's data directory"
	if d := hkDiff(outsideBefore, outsideAfter); d != "" {
		viol = append(viol, [2]string{vprefix + "outside-touched", "objects outside the data directory changed: " + d})
	}
	anyRemoved, anyKept := false, false
	for i, e := range c.Entries {
		rel := filepath.Join(e.Cat, names[i])
		want := hkExpect(e)
		if c.Sidecar && e.Cat == "agents" && want == "removed" {
			// Documented exemption: in a sidecar container agent housekeeping is
			// skipped (access times are unreliable there). The statement itself
			// demands the removal, the code documents the exemption: accept either.
			// Caches and staging are judged exactly as outside a sidecar.
			want = "either"
		}
		_, lerr := os.Lstat(filepath.Join(w.data, rel))
		gone := os.IsNotExist(lerr)
		// the part of the data snapshot that belongs to this entry
		sub := func(snap map[string]string) map[string]string {
			m := map[string]string{}
			for p, d := range snap {
				if p == rel || strings.HasPrefix(p, rel+string(filepath.Separator)) {
					m[p] = d
				}
			}
			return m
		}
		intact := hkDiff(sub(dataBefore), sub(dataAfter)) == ""
		got := "kept"
		switch {
		case gone:
			got = "removed"
		case !intact:
			got = "partially-removed"
		}
		if c.Sidecar {
			// coarse classes in sidecar mode (the per-kind split is in the other half)
			classes = append(classes, fmt.Sprintf("%s%s:%s:%s", vprefix, e.Cat, want, got))
		} else {
			classes = append(classes, fmt.Sprintf("%s/%s:%s:%s", e.Cat, strings.TrimSuffix(e.Kind, "@in"), want, got))
		}
		switch want {
		case "removed":
			anyRemoved = true
			if got != "removed" {
				viol = append(viol, [2]string{vprefix + e.String(), fmt.Sprintf("stale entry %v was not removed (%s): %s", e, got, hkDiff(sub(dataBefore), sub(dataAfter)))})
			}
		case "kept":
			anyKept = true
			if got != "kept" {
				viol = append(viol, [2]string{vprefix + e.String(), fmt.Sprintf("entry %v is not stale but was %s: %s", e, got, hkDiff(sub(dataBefore), sub(dataAfter)))})
			}
		case "either":
			if got == "partially-removed" {
				viol = append(viol, [2]string{vprefix + e.String(), fmt.Sprintf("entry %v was partially removed: %s", e, hkDiff(sub(dataBefore), sub(dataAfter)))})
			}
		}
	}
	// everything in the data directory that is not one of the entries: unchanged
	// except for the modification times of the three category directories.
	rest := func(snap map[string]string) map[string]string {
		m := map[string]string{}
	next:
		for p, d := range snap {
			for i, e := range c.Entries {
				rel := filepath.Join(e.Cat, names[i])
				if p == rel || strings.HasPrefix(p, rel+string(filepath.Separator)) {
					continue next
				}
			}
			if p == "agents" || p == "caches" || p == "staging" {
				d = "category directory"
			}
			m[p] = d
		}
		return m
	}
	if d := hkDiff(rest(dataBefore), rest(dataAfter)); d != "" {
		viol = append(viol, [2]string{vprefix + "bystander-touched", "objects in the data directory that are no agent/cache/staging entry changed: " + d})
	}
	return viol, anyRemoved && anyKept, classes
}

// hkPopulations returns the populations of the tier in canonical order.
func hkPopulations(thorough bool) (pops []hkCase, nva, nvc, nvs int, ageNames []string) {
	ages := hkAgesQuick
	if thorough {
		ages = hkAgesThorough
	}
	for _, a := range ages {
		ageNames = append(ageNames, a.Name)
	}
	va, vc, vs := hkVariants("agents", ages), hkVariants("caches", ages), hkVariants("staging", ages)
	if thorough {
		// every triple (one entry per category)
		for _, a := range va {
			for _, c := range vc {
				for _, s := range vs {
					pops = append(pops, hkCase{Entries: []hkEntry{a, c, s}})
				}
			}
		}
	}
	if thorough {
		// every pair of entries from two different categories
		for _, xy := range [][2][]hkEntry{{va, vc}, {va, vs}, {vc, vs}} {
			for _, x := range xy[0] {
				for _, y := range xy[1] {
					pops = append(pops, hkCase{Entries: []hkEntry{x, y}})
				}
			}
		}
	}
	// every variant alone in an otherwise empty data directory
	for _, variants := range [][]hkEntry{va, vc, vs} {
		for _, x := range variants {
			pops = append(pops, hkCase{Entries: []hkEntry{x}})
		}
	}
	bg := map[string][]hkEntry{
		"agents":  {{"agents", "plain", "10T", "now"}, {"agents", "plain", "now", "10T"}},
		"caches":  {{"caches", "plain", "10T", "now"}, {"caches", "plain", "now", "10T"}},
		"staging": {{"staging", "plain", "10T", "now"}, {"staging", "plain", "now", "10T"}},
	}
	for _, variants := range [][]hkEntry{va, vc, vs} {
		for xi, x := range variants {
			for _, y := range variants[xi:] {
				p := hkCase{Entries: []hkEntry{x, y}}
				for _, other := range []string{"agents", "caches", "staging"} {
					if other != x.Cat {
						p.Entries = append(p.Entries, bg[other]...)
					}
				}
				pops = append(pops, p)
			}
		}
	}
	// one population holding every variant of every category at once
	var all hkCase
	all.Entries = append(append(append(all.Entries, va...), vc...), vs...)
	sort.SliceStable(pops, func(i, j int) bool { return pops[i].key() < pops[j].key() })
	// The all-at-once population goes first and the rest is interleaved across the
	// sorted order, so that a run cut short by its time budget has still seen every
	// variant and a spread of all categories.
	stride := 97
	spread := []hkCase{all}
	for off := 0; off < stride; off++ {
		for i := off; i < len(pops); i += stride {
			spread = append(spread, pops[i])
		}
	}
	pops = spread
	return pops, len(va), len(vc), len(vs), ageNames
}

// hkResult is what a worker reports for one population.
type hkResult struct {
	Index      int         `json:"i"`
	Nontrivial bool        `json:"nt"`
	Classes    []string    `json:"cl"`
	Viol       [][2]string `json:"v,omitempty"`
}

// TestC43Worker is the body of a C43 worker subprocess (the data directory
// override is a process-global environment variable, so populations are sharded
// over processes, not goroutines). It is a no-op unless started by TestC43.
func TestC43Worker(t *testing.T) {
	spec := os.Getenv("VERIF_C43_WORKER")
	if spec == "" {
		t.Skip("worker body; started by TestC43 only")
	}
	scratch := t.TempDir()
	enc := json.NewEncoder(os.Stdout)
	if spec == "single" {
		// one case, given in VERIF_C43_CASE (replay / re-run of a violation)
		var c hkCase
		if err := json.Unmarshal([]byte(os.Getenv("VERIF_C43_CASE")), &c); err != nil {
			t.Fatalf("INFRA: bad VERIF_C43_CASE: %v", err)
		}
		viol, nt, classes := runHKCase(t, scratch, c)
		fmt.Print("HK ")
		enc.Encode(hkResult{0, nt, classes, viol})
		fmt.Println("HKDONE")
		return
	}
	var shard, of, sidecarFlag int
	var deadlineUnix int64
	if _, err := fmt.Sscanf(spec, "%d/%d/%d/%d", &shard, &of, &deadlineUnix, &sidecarFlag); err != nil {
		t.Fatalf("INFRA: bad worker spec %q", spec)
	}
	pops, _, _, _, _ := hkPopulations(vr.Thorough())
	for i, c := range pops {
		if i%of != shard {
			continue
		}
		if time.Now().Unix() > deadlineUnix {
			break
		}
		c.Sidecar = sidecarFlag == 1
		viol, nt, classes := runHKCase(t, scratch, c)
		fmt.Print("HK ")
		enc.Encode(hkResult{i, nt, classes, viol})
	}
	fmt.Println("HKDONE")
}

// hkSidecarEnv is the environment setting that puts a process in / out of
// sidecar mode (pkg/sidecar: MUTAGEN_SIDECAR == "1").
func hkSidecarEnv(sidecar bool) string {
	if sidecar {
		return "MUTAGEN_SIDECAR=1"
	}
	return "MUTAGEN_SIDECAR="
}

// hkRunInChild runs one case in a fresh worker process with the matching
// sidecar environment (replay and re-runs of violations).
func hkRunInChild(t *testing.T, c hkCase) (viol [][2]string, nontrivial bool, classes []string) {
	cmd := exec.Command(os.Args[0], "-test.run=^TestC43Worker$", "-test.v")
	cmd.Env = append(os.Environ(), "VERIF_C43_WORKER=single", "VERIF_C43_CASE="+vr.J(c), "VERIF_REPLAY=", hkSidecarEnv(c.Sidecar))
	out, err := cmd.CombinedOutput()
	if err != nil || !strings.Contains(string(out), "HKDONE") {
		t.Fatalf("INFRA: C43 single-case worker failed: %v\n%s", err, vr.Short(string(out), 4000))
	}
	for _, line := range strings.Split(string(out), "\n") {
		if strings.HasPrefix(line, "HK ") {
			var res hkResult
			if err := json.Unmarshal([]byte(line[3:]), &res); err != nil {
				t.Fatalf("INFRA: C43 single-case worker wrote %q: %v", line, err)
			}
			return res.Viol, res.Nontrivial, res.Classes
		}
	}
	t.Fatalf("INFRA: C43 single-case worker wrote no result")
	return nil, false, nil
}

func TestC43(t *testing.T) {
	r := vr.New(t, "C43", "exploration")
	defer r.Finish()
	if runtime.GOOS != "linux" {
		t.Skip("INFRA: C43 harness sets symlink timestamps with utimensat (linux)")
	}
	t.Setenv("MUTAGEN_SIDECAR", "")
	t.Setenv("MUTAGEN_DATA_DIRECTORY", "/nonexistent-verif-placeholder")
	if raw := vr.ReplayCase(); raw != nil {
		var c hkCase
		if err := json.Unmarshal(raw, &c); err != nil {
			t.Fatalf("INFRA: bad replay case: %v", err)
		}
		viol, nt, classes := hkRunInChild(t, c)
		t.Logf("replay %s: nontrivial %v classes %v violations %v", c.key(), nt, classes, viol)
		r.Case(c.key(), true)
		for _, v := range viol {
			r.Violate(v[0], v[1], c, nil)
		}
		return
	}
	basePops, nva, nvc, nvs, ageNames := hkPopulations(vr.Thorough())
	r.Rule(fmt.Sprintf("populations of a temporary MUTAGEN_DATA_DIRECTORY run through the real top-level housekeeping.Housekeep, each once in a process without and once in a process with the sidecar environment (MUTAGEN_SIDECAR=1; there stale agents may stay, everything else is judged identically): (1) every variant alone (thorough: also every pair of entries from two different categories and every triple, one entry per category) from %d agents x %d caches x %d staging entry variants; (2) every unordered pair (incl. twice the same) of variants within one category next to a fixed stale+fresh background in the other two; (3) all variants at once. Variants: plain entries with the decisive timestamp (agent binary atime; cache / staging-root mtime) at ages %v relative to the category threshold and every other timestamp fresh or ancient; entries that are symlinks to files/directories OUTSIDE the data directory and to relocated targets INSIDE it (target's decisive timestamp just below / just above the threshold x the link's OWN timestamps, set with utimensat(AT_SYMLINK_NOFOLLOW), fresh / ancient; the target's age decides); an agent binary that is a symlink to an outside file; staging roots containing a symlink to an outside directory; version directories without a binary; wrong-type entries; fixed ancient bystanders in sessions/archives/daemon/forwarding and outside. Non-trivial = the oracle demands at least one removal and at least one survival in the population; distinct by population.", nva, nvc, nvs, ageNames))
	r.Assume("ages are measured against the real clock with a margin of at least 10 minutes (1 hour in quick) around the thresholds; the run of one population takes milliseconds",
		"where the statement does not decide (stale staging root with fresh content, wrong-type entries, version directories without a binary) either outcome is accepted for the entry itself, but the outside world and all other entries are still judged strictly",
		"sidecar mode is per process (cached by pkg/sidecar), so both modes run in separate worker processes; in sidecar mode the documented exemption (agents not housekept) is accepted for stale agents, nothing else changes",
		"POSIX, linux utimensat; access times are set explicitly and never disturbed before the run (no reads between setting and Housekeep)",
		"filesystem faults during housekeeping (failed removals) are not injected")

	deadline := vr.Deadline(45*time.Second, 8*time.Minute)
	workers := vr.Workers()
	if workers > 8 {
		workers = 8
	}
	// pops[2*i] = base population i outside a sidecar, pops[2*i+1] = the same in one
	pops := make([]hkCase, 0, 2*len(basePops))
	for _, c := range basePops {
		pops = append(pops, c)
		c.Sidecar = true
		pops = append(pops, c)
	}
	per := workers / 2 // worker processes per mode
	if per < 1 {
		per = 1
	}
	workers = 2 * per
	results := make([]*hkResult, len(pops))
	outputs := make([][]byte, workers)
	errs := make([]error, workers)
	var wg sync.WaitGroup
	for wi := 0; wi < workers; wi++ {
		wg.Add(1)
		go func(wi int) {
			defer wg.Done()
			sidecar := wi / per // 0: normal, 1: sidecar
			cmd := exec.Command(os.Args[0], "-test.run=^TestC43Worker$", "-test.v")
			cmd.Env = append(os.Environ(), fmt.Sprintf("VERIF_C43_WORKER=%d/%d/%d/%d", wi%per, per, deadline.Unix(), sidecar), "VERIF_REPLAY=", hkSidecarEnv(sidecar == 1))
			// Workers with an even index build their populations on the default
			// temporary filesystem, odd ones on tmpfs when there is one (much faster
			// under load; housekeeping itself is filesystem-agnostic).
			if st, err := os.Stat("/dev/shm"); err == nil && st.IsDir() && wi%2 == 1 {
				cmd.Env = append(cmd.Env, "TMPDIR=/dev/shm")
			}
			outputs[wi], errs[wi] = cmd.CombinedOutput()
		}(wi)
	}
	wg.Wait()
	for wi := 0; wi < workers; wi++ {
		out := string(outputs[wi])
		if errs[wi] != nil || !strings.Contains(out, "HKDONE") {
			t.Fatalf("INFRA: C43 worker %d failed: %v\n%s", wi, errs[wi], vr.Short(out, 4000))
		}
		for _, line := range strings.Split(out, "\n") {
			if !strings.HasPrefix(line, "HK ") {
				continue
			}
			var res hkResult
			if err := json.Unmarshal([]byte(line[3:]), &res); err != nil {
				t.Fatalf("INFRA: C43 worker %d wrote %q: %v", wi, line, err)
			}
			results[2*res.Index+wi/per] = &res
		}
	}
	done := 0
	for i, c := range pops {
		res := results[i]
		if res == nil {
			continue
		}
		done++
		r.Case(c.key(), res.Nontrivial)
		for _, cl := range res.Classes {
			r.Outcome(cl)
		}
		for _, v := range res.Viol {
			c := c
			v := v
			// re-run in a fresh process with the matching sidecar environment
			r.Violate(v[0], v[1], c, func() bool {
				vv, _, _ := hkRunInChild(t, c)
				for _, x := range vv {
					if x[0] == v[0] {
						return true
					}
				}
				return false
			})
		}
		if done%701 == 1 {
			r.Sample(c)
		}
	}
	if done < len(pops) {
		r.NotExhaustive(fmt.Sprintf("time budget reached after %d of %d populations", done, len(pops)))
	}
	r.Set("populations", done)
	r.Set("entry_variants", nva+nvc+nvs)
	r.Set("worker_processes", workers)
}
