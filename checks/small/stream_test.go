//go:build verif

package small

import (
	"bytes"
	"encoding/json"
	"errors"
	"fmt"
	"io"
	"strings"
	"testing"

	"github.com/mutagen-io/mutagen/pkg/stream"

	"verif/internal/vr"
)

// ---- C47: stream helper writers honour their contracts (E-enum) ----

// dsSpec describes the behaviour of the scripted downstream writer.
type dsSpec struct {
	Mode       string `json:"mode"` // ok | short (short write with error at byte At) | fail (call At fails, nothing accepted)
	At         int    `json:"at"`
	Persistent bool   `json:"persistent"` // the fault repeats on every later call
}

type dsCall struct {
	offered []byte
	n       int
	err     error
}

// dsWriter is the scripted downstream writer. It honours the io.Writer contract
// (n < len(p) only together with a non-nil error) and records every call.
type dsWriter struct {
	spec     dsSpec
	calls    []dsCall
	accepted []byte
	fired    bool
}

func (d *dsWriter) Write(p []byte) (int, error) {
	idx := len(d.calls)
	n, err := len(p), error(nil)
	switch d.spec.Mode {
	case "short":
		if d.fired {
			if d.spec.Persistent {
				n, err = 0, fmt.Errorf("downstream error in call %d", idx)
			}
		} else if len(d.accepted)+len(p) > d.spec.At {
			d.fired = true
			n, err = d.spec.At-len(d.accepted), fmt.Errorf("downstream error in call %d", idx)
		}
	case "fail":
		if idx == d.spec.At || (d.spec.Persistent && idx > d.spec.At) {
			d.fired = true
			n, err = 0, fmt.Errorf("downstream error in call %d", idx)
		}
	}
	d.calls = append(d.calls, dsCall{append([]byte(nil), p...), n, err})
	d.accepted = append(d.accepted, p[:n]...)
	return n, err
}

// recHash is a hash.Hash whose "digest" is the exact byte sequence it was fed,
// so "digests exactly the bytes accepted downstream" is decided by equality.
type recHash struct{ fed []byte }

func (h *recHash) Write(p []byte) (int, error) { h.fed = append(h.fed, p...); return len(p), nil }
func (h *recHash) Sum(b []byte) []byte         { return append(b, h.fed...) }
func (h *recHash) Reset()                      { h.fed = nil }
func (h *recHash) Size() int                   { return len(h.fed) }
func (h *recHash) BlockSize() int              { return 1 }

type streamCase struct {
	Subject string   `json:"subject"`
	Sizes   []int    `json:"sizes,omitempty"`  // write sequence: chunk sizes; bytes are consecutive letters
	N       int      `json:"n,omitempty"`      // cutoff / check interval / MaximumBufferSize
	J       int      `json:"j,omitempty"`      // cancel / shut before call J (len(Sizes) = never)
	DS      dsSpec   `json:"ds"`               // downstream behaviour
	Chunks  []string `json:"chunks,omitempty"` // line processor writes
	Fail    []bool   `json:"fail,omitempty"`   // closers / flushers that fail
}

func (c streamCase) key() string { return vr.J(c) }

const streamAlphabet = "abcdefghijklmnopqrstuvwxyzABCDEFGHIJKLMNOPQRSTUVWXYZ"

// chunksOf turns sizes into byte chunks of consecutive letters.
func chunksOf(sizes []int) [][]byte {
	var out [][]byte
	p := 0
	for _, s := range sizes {
		out = append(out, []byte(streamAlphabet[p:p+s]))
		p += s
	}
	return out
}

type wres struct {
	n   int
	err error
}

// runWriterCase runs one write-sequence case against the real helper and
// judges it. It returns the violation (or ""), whether the case is non-trivial
// (the helper's own mechanism or a downstream fault came into play) and an
// outcome class.
func runWriterCase(c streamCase) (what string, nontrivial bool, class string) {
	ds := &dsWriter{spec: c.DS}
	chunks := chunksOf(c.Sizes)
	var w io.Writer
	var hasher *recHash
	var audits []uint64
	var cancel chan struct{}
	var valve *stream.ValveWriter
	switch c.Subject {
	case "cutoff":
		w = stream.NewCutoffWriter(ds, uint(c.N))
	case "hashed":
		hasher = &recHash{}
		w = stream.NewHashedWriter(ds, hasher)
	case "audit":
		w = stream.NewAuditWriter(ds, func(n uint64) { audits = append(audits, n) })
	case "audit-nil":
		w = stream.NewAuditWriter(ds, nil)
	case "concurrent":
		w = stream.NewConcurrentWriter(ds)
	case "preempt":
		cancel = make(chan struct{})
		w = stream.NewPreemptableWriter(ds, cancel, uint(c.N))
	case "valve":
		valve = stream.NewValveWriter(ds)
		w = valve
	case "valve-nil":
		valve = stream.NewValveWriter(nil)
		w = valve
	default:
		return "INFRA: unknown subject " + c.Subject, false, ""
	}
	// dsCallsAt[i] = number of downstream calls made before Write i.
	res := make([]wres, len(chunks))
	dsBefore := make([]int, len(chunks)+1)
	for i, ch := range chunks {
		if i == c.J {
			if cancel != nil {
				close(cancel)
			}
			if valve != nil {
				valve.Shut()
			}
		}
		dsBefore[i] = len(ds.calls)
		in := append([]byte(nil), ch...)
		n, err := w.Write(in)
		res[i] = wres{n, err}
		if !bytes.Equal(in, ch) {
			return fmt.Sprintf("write %d modified the caller's buffer", i), true, "bad"
		}
		// io.Writer contract for every wrapper.
		if n < 0 || n > len(ch) {
			return fmt.Sprintf("write %d of %d bytes returned n=%d", i, len(ch), n), true, "bad"
		}
		if n < len(ch) && err == nil {
			return fmt.Sprintf("write %d of %d bytes returned n=%d with nil error", i, len(ch), n), true, "bad"
		}
	}
	dsBefore[len(chunks)] = len(ds.calls)
	// the downstream calls made during Write i
	during := func(i int) []dsCall { return ds.calls[dsBefore[i]:dsBefore[i+1]] }
	// passthrough demands: exactly one downstream call with the same bytes and the
	// same (n, err) result.
	passthrough := func(i int) string {
		d := during(i)
		if len(d) != 1 {
			return fmt.Sprintf("write %d made %d downstream calls, want 1", i, len(d))
		}
		if !bytes.Equal(d[0].offered, chunks[i]) {
			return fmt.Sprintf("write %d offered %q downstream, caller wrote %q", i, d[0].offered, chunks[i])
		}
		if res[i].n != d[0].n || res[i].err != d[0].err {
			return fmt.Sprintf("write %d returned (%d,%v), downstream returned (%d,%v)", i, res[i].n, res[i].err, d[0].n, d[0].err)
		}
		return ""
	}
	class = "no-fault"
	if ds.fired {
		class = "ds-fault"
		nontrivial = true
	}

	switch c.Subject {
	case "cutoff":
		// "The cutoff writer forwards exactly the first N bytes and reports all later
		// bytes as written". L = the bytes the wrapper reported as written, in order.
		var L []byte
		for i, ch := range chunks {
			L = append(L, ch[:res[i].n]...)
			d := during(i)
			if len(d) > 1 {
				return fmt.Sprintf("write %d made %d downstream calls", i, len(d)), true, "bad"
			}
			var derr error
			if len(d) == 1 {
				derr = d[0].err
			}
			// errors come from downstream only, and are reported
			if res[i].err != derr {
				return fmt.Sprintf("write %d returned error %v, downstream error in that call was %v", i, res[i].err, derr), true, "bad"
			}
			if res[i].err == nil && res[i].n != len(ch) {
				return fmt.Sprintf("write %d without error reported %d of %d bytes", i, res[i].n, len(ch)), true, "bad"
			}
		}
		want := L
		if len(want) > c.N {
			want = want[:c.N]
			class += "+cut"
			nontrivial = true
		} else if len(want) == c.N {
			class += "+exact"
		}
		if !bytes.Equal(ds.accepted, want) {
			return fmt.Sprintf("downstream received %q; first %d of the bytes reported written %q are %q", ds.accepted, c.N, L, want), true, "bad"
		}
		// Never hands byte N+1 (or later) to the underlying writer, accepted or not.
		acc := 0
		for k, d := range ds.calls {
			if acc+len(d.offered) > c.N {
				return fmt.Sprintf("downstream call %d was offered %d bytes with %d already forwarded; cutoff %d", k, len(d.offered), acc, c.N), true, "bad"
			}
			acc += d.n
		}
	case "hashed":
		// "The hashing writer digests exactly the bytes accepted downstream"
		for i := range chunks {
			if s := passthrough(i); s != "" {
				return s, true, "bad"
			}
		}
		if !bytes.Equal(hasher.fed, ds.accepted) {
			return fmt.Sprintf("hasher digested %q, downstream accepted %q", hasher.fed, ds.accepted), true, "bad"
		}
		if len(ds.accepted) > 0 {
			nontrivial = true
		}
	case "audit", "audit-nil", "concurrent":
		for i := range chunks {
			if s := passthrough(i); s != "" {
				return s, true, "bad"
			}
		}
		if c.Subject == "audit" {
			// "invokes an auditing callback with written byte counts"
			if len(audits) != len(chunks) {
				return fmt.Sprintf("auditor called %d times for %d writes", len(audits), len(chunks)), true, "bad"
			}
			for i := range chunks {
				if audits[i] != uint64(res[i].n) {
					return fmt.Sprintf("auditor got %d for write %d which wrote %d", audits[i], i, res[i].n), true, "bad"
				}
			}
			if len(ds.accepted) > 0 {
				nontrivial = true
			}
		}
	case "preempt":
		// "the preemptable writer stops within its check interval after cancellation":
		// before cancellation every write is forwarded; after cancellation at most
		// `interval` further writes reach downstream in total; a write that is not
		// forwarded reports (0, ErrWritePreempted).
		forwardedAfter := 0
		for i := range chunks {
			d := during(i)
			if i < c.J {
				if s := passthrough(i); s != "" {
					return "before cancellation: " + s, true, "bad"
				}
				continue
			}
			nontrivial = true
			if len(d) == 0 {
				if res[i].n != 0 || !errors.Is(res[i].err, stream.ErrWritePreempted) {
					return fmt.Sprintf("write %d (after cancellation before write %d) was not forwarded but returned (%d,%v)", i, c.J, res[i].n, res[i].err), true, "bad"
				}
				continue
			}
			if s := passthrough(i); s != "" {
				return "after cancellation: " + s, true, "bad"
			}
			forwardedAfter++
		}
		if forwardedAfter > c.N {
			return fmt.Sprintf("%d writes reached downstream after cancellation (before write %d); check interval is %d", forwardedAfter, c.J, c.N), true, "bad"
		}
		if c.J < len(chunks) {
			class += "+cancelled"
			if forwardedAfter == c.N && c.N > 0 {
				class += "-full-interval-used"
			}
		}
	case "valve", "valve-nil":
		// "a shut valve discards": writes keep succeeding in full, nothing reaches
		// the underlying writer.
		shutAt := c.J
		if c.Subject == "valve-nil" {
			shutAt = 0 // "The writer may be nil, in which case the writer will start pre-shut."
		}
		for i, ch := range chunks {
			if i < shutAt {
				if s := passthrough(i); s != "" {
					return "open valve: " + s, true, "bad"
				}
				continue
			}
			nontrivial = true
			if len(during(i)) != 0 {
				return fmt.Sprintf("write %d after Shut (before write %d) reached the underlying writer", i, shutAt), true, "bad"
			}
			if res[i].n != len(ch) || res[i].err != nil {
				return fmt.Sprintf("write %d of %d bytes after Shut returned (%d,%v)", i, len(ch), res[i].n, res[i].err), true, "bad"
			}
		}
		if shutAt < len(chunks) {
			class += "+shut"
		}
	}
	return "", nontrivial, class
}

// expectedLines is the independent reference for the line splitter: "delivers
// exactly the newline-separated lines with carriage returns trimmed" / "Line
// splits are performed on any instance of '\n' or '\r\n', with the split
// character(s) removed". Only terminated lines are delivered.
func expectedLines(input string) []string {
	var lines []string
	cur := ""
	for i := 0; i < len(input); i++ {
		if input[i] == '\n' {
			if strings.HasSuffix(cur, "\r") {
				cur = cur[:len(cur)-1]
			}
			lines = append(lines, cur)
			cur = ""
		} else {
			cur += string(input[i])
		}
	}
	return lines
}

func sameStrings(a, b []string) bool {
	if len(a) != len(b) {
		return false
	}
	for i := range a {
		if a[i] != b[i] {
			return false
		}
	}
	return true
}

// runLinesCase feeds the chunks to a real LineProcessor. N is MaximumBufferSize.
func runLinesCase(c streamCase) (what string, nontrivial bool, class string) {
	var got []string
	p := &stream.LineProcessor{Callback: func(s string) { got = append(got, s) }, MaximumBufferSize: c.N}
	accepted := "" // concatenation of the writes that were accepted
	pending := 0   // bytes of the unterminated tail of `accepted`
	rejected := 0
	for i, ch := range c.Chunks {
		in := []byte(ch)
		n, err := p.Write(in)
		if string(in) != ch {
			return fmt.Sprintf("write %d modified the caller's buffer", i), true, "bad"
		}
		if c.N <= 0 {
			// no limit (negative) or the 64 KiB default: nothing here can exceed it
			if n != len(ch) || err != nil {
				return fmt.Sprintf("write %d of %q returned (%d,%v)", i, ch, n, err), true, "bad"
			}
		} else {
			// "If writes to the writer exceed this size without incorporating a
			// newline, then an error will be raised."
			hasNL := strings.Contains(ch, "\n")
			switch {
			case err == nil:
				if n != len(ch) {
					return fmt.Sprintf("write %d of %q returned (%d,nil)", i, ch, n), true, "bad"
				}
				// a fragment without newline may not grow beyond the limit
				if !hasNL && pending+len(ch) > c.N {
					return fmt.Sprintf("write %d grows the unterminated fragment to %d bytes, limit %d, no error", i, pending+len(ch), c.N), true, "bad"
				}
			default:
				if !errors.Is(err, stream.ErrMaximumBufferSizeExceeded) || n != 0 {
					return fmt.Sprintf("write %d of %q returned (%d,%v)", i, ch, n, err), true, "bad"
				}
				// no spurious rejection: data that fits within the limit together
				// with the pending fragment must be accepted
				if pending+len(ch) <= c.N {
					return fmt.Sprintf("write %d of %q rejected although pending %d + %d <= limit %d", i, ch, pending, len(ch), c.N), true, "bad"
				}
				rejected++
				continue
			}
		}
		accepted += ch
		if k := strings.LastIndexByte(accepted, '\n'); k >= 0 {
			pending = len(accepted) - k - 1
		} else {
			pending = len(accepted)
		}
	}
	want := expectedLines(accepted)
	if !sameStrings(got, want) {
		return fmt.Sprintf("callback received %q, the accepted input %q has lines %q", got, accepted, want), true, "bad"
	}
	class = "lines0"
	if len(want) > 0 {
		class = "lines>0"
	}
	for _, w := range want {
		if strings.Contains(w, "\r") {
			class = "lines-with-inner-cr"
		}
	}
	if rejected > 0 {
		class += "+rejected"
	}
	return "", len(want) > 0 || rejected > 0, class
}

type scriptedCloser struct {
	idx   int
	err   error
	order *[]int
}

func (s *scriptedCloser) Close() error { *s.order = append(*s.order, s.idx); return s.err }
func (s *scriptedCloser) Flush() error { *s.order = append(*s.order, s.idx); return s.err }

// runCloserCase checks NewMultiCloser / NewMultiFlusher / NewFlushCloser with
// the given failing subset.
func runCloserCase(c streamCase) (what string, nontrivial bool, class string) {
	var order []int
	var members []*scriptedCloser
	first := -1
	for i, f := range c.Fail {
		s := &scriptedCloser{idx: i, order: &order}
		if f {
			s.err = fmt.Errorf("member %d failed", i)
			if first < 0 {
				first = i
			}
		}
		members = append(members, s)
	}
	var wantErr error
	if first >= 0 {
		wantErr = members[first].err
	}
	var got error
	var wantOrder []int
	switch c.Subject {
	case "multicloser":
		// "a multi-closer closes everything while reporting the first error"; "The
		// closers are closed in the order specified".
		var cs []io.Closer
		for _, m := range members {
			cs = append(cs, m)
		}
		got = stream.NewMultiCloser(cs...).Close()
		for i := range members {
			wantOrder = append(wantOrder, i)
		}
	case "multiflusher":
		// "The flushers are flushed in the order specified ... If an error occurs,
		// then flushing halts and subsequent flushers are not flushed."
		var fs []stream.Flusher
		for _, m := range members {
			fs = append(fs, m)
		}
		got = stream.NewMultiFlusher(fs...).Flush()
		for i := range members {
			wantOrder = append(wantOrder, i)
			if i == first {
				break
			}
		}
	case "flushcloser":
		// "aliases Close to the specified flusher's Flush method"
		got = stream.NewFlushCloser(members[0]).Close()
		wantOrder = []int{0}
	}
	if got != wantErr {
		return fmt.Sprintf("returned %v, the first failing member's error is %v", got, wantErr), true, "bad"
	}
	if fmt.Sprint(order) != fmt.Sprint(wantOrder) {
		return fmt.Sprintf("members invoked in order %v, want %v", order, wantOrder), true, "bad"
	}
	nfail := 0
	for _, f := range c.Fail {
		if f {
			nfail++
		}
	}
	class = "fail0"
	if nfail == 1 {
		class = "fail1"
	} else if nfail > 1 {
		class = "fail>1"
	}
	return "", len(c.Fail) >= 2 && nfail >= 1, class
}

func runStreamCase(c streamCase) (string, bool, string) {
	switch c.Subject {
	case "lines":
		return runLinesCase(c)
	case "multicloser", "multiflusher", "flushcloser":
		return runCloserCase(c)
	}
	return runWriterCase(c)
}

// sizeSequences returns every sequence of at most maxChunks chunk sizes in 0..maxSize.
func sizeSequences(maxChunks, maxSize int) [][]int {
	out := [][]int{{}}
	prev := [][]int{{}}
	for l := 1; l <= maxChunks; l++ {
		var cur [][]int
		for _, p := range prev {
			for s := 0; s <= maxSize; s++ {
				cur = append(cur, append(append([]int(nil), p...), s))
			}
		}
		out = append(out, cur...)
		prev = cur
	}
	return out
}

// compositions returns every way of cutting s into consecutive non-empty chunks.
func compositions(s string) [][]string {
	if len(s) == 0 {
		return [][]string{{}}
	}
	var out [][]string
	for mask := 0; mask < 1<<(len(s)-1); mask++ {
		var parts []string
		start := 0
		for i := 1; i < len(s); i++ {
			if mask&(1<<(i-1)) != 0 {
				parts = append(parts, s[start:i])
				start = i
			}
		}
		parts = append(parts, s[start:])
		out = append(out, parts)
	}
	return out
}

// wordsOver returns all strings over alphabet with length <= n.
func wordsOver(alphabet string, n int) []string {
	out := []string{""}
	prev := []string{""}
	for l := 1; l <= n; l++ {
		var cur []string
		for _, p := range prev {
			for i := 0; i < len(alphabet); i++ {
				cur = append(cur, p+alphabet[i:i+1])
			}
		}
		out = append(out, cur...)
		prev = cur
	}
	return out
}

func TestC47(t *testing.T) {
	r := vr.New(t, "C47", "exploration")
	defer r.Finish()
	if raw := vr.ReplayCase(); raw != nil {
		var c streamCase
		if err := json.Unmarshal(raw, &c); err != nil {
			t.Fatalf("INFRA: bad replay case: %v", err)
		}
		what, nt, class := runStreamCase(c)
		t.Logf("replay %s: class %s nontrivial %v verdict %q", c.key(), class, nt, what)
		r.Case(c.key(), true)
		if what != "" {
			r.Violate(c.key(), what, c, nil)
		}
		return
	}
	maxChunks, maxSize, maxInterval, lineLen, maxMembers := 4, 3, 3, 6, 4
	if vr.Thorough() {
		maxChunks, maxSize, maxInterval, lineLen, maxMembers = 5, 4, 5, 8, 6
	}
	r.Rule(fmt.Sprintf("writer helpers (cutoff, hashed, audit, concurrent, preemptable, valve): every write sequence of <=%d chunks with sizes 0..%d (bytes are consecutive letters so positions are identifiable) x downstream {accepts all; short write with error at byte j for every j, once or persistently; call j fails for every j, once or persistently} x helper parameter (cutoff 0..total+1; interval 0..%d x cancellation before write j for every j or never; Shut before write j or never; nil valve); line splitter: every input over {x,CR,LF} of length <=%d x every chunking (plus an empty write inserted at every position) x MaximumBufferSize in {-1,0,1..4}; multi-closer/multi-flusher/flush-closer: 0..%d members x every failing subset. Non-trivial = a downstream fault fired, the cutoff/cancellation/shut took effect, bytes were hashed/audited, at least one line was delivered or rejected, a member failed; distinct by the full case.", maxChunks, maxSize, maxInterval, lineLen, maxMembers))
	r.Assume("downstream writers honour io.Writer (short count only with an error); a failing call accepts exactly the reported prefix",
		"after a downstream error the enumeration keeps writing (callers that stop early see a prefix of these sequences)",
		"single goroutine: the serialisation promised by the concurrent writer and ValveWriter's locking are not explored here",
		"MaximumBufferSize: rejection is demanded only for an unterminated fragment beyond the limit, and forbidden only when pending+len(data) fits; in between either is accepted (the code documents this as a TODO)")

	judge := func(l *vr.Local, c streamCase) {
		what, nt, class := runStreamCase(c)
		if nt {
			l.Case(c.key(), true)
		} else {
			l.Case("", false)
		}
		l.Outcome(c.Subject + ":" + class)
		if what != "" {
			r.Violate(c.key(), what, c, func() bool { w, _, _ := runStreamCase(c); return w != "" })
		}
	}

	seqs := sizeSequences(maxChunks, maxSize)
	vr.Parallel(len(seqs), func(si int) {
		l := r.Local()
		defer l.Flush()
		sizes := seqs[si]
		total := 0
		for _, s := range sizes {
			total += s
		}
		var dss []dsSpec
		dss = append(dss, dsSpec{Mode: "ok"})
		for _, pers := range []bool{false, true} {
			for j := 0; j < total; j++ {
				dss = append(dss, dsSpec{"short", j, pers})
			}
			for j := 0; j < len(sizes); j++ {
				dss = append(dss, dsSpec{"fail", j, pers})
			}
		}
		for _, ds := range dss {
			for n := 0; n <= total+1; n++ {
				judge(l, streamCase{Subject: "cutoff", Sizes: sizes, N: n, DS: ds})
			}
			for _, subj := range []string{"hashed", "audit", "audit-nil", "concurrent", "valve-nil"} {
				judge(l, streamCase{Subject: subj, Sizes: sizes, DS: ds})
			}
			for j := 0; j <= len(sizes); j++ {
				judge(l, streamCase{Subject: "valve", Sizes: sizes, J: j, DS: ds})
				for iv := 0; iv <= maxInterval; iv++ {
					judge(l, streamCase{Subject: "preempt", Sizes: sizes, N: iv, J: j, DS: ds})
				}
			}
		}
	})

	inputs := wordsOver("x\r\n", lineLen)
	vr.Parallel(len(inputs), func(ii int) {
		l := r.Local()
		defer l.Flush()
		in := inputs[ii]
		for _, parts := range compositions(in) {
			for _, max := range []int{-1, 0, 1, 2, 3, 4} {
				judge(l, streamCase{Subject: "lines", Chunks: parts, N: max})
			}
			// an empty write inserted at every position
			for p := 0; p <= len(parts); p++ {
				withEmpty := append(append(append([]string(nil), parts[:p]...), ""), parts[p:]...)
				judge(l, streamCase{Subject: "lines", Chunks: withEmpty, N: -1})
			}
		}
	})

	l := r.Local()
	for n := 0; n <= maxMembers; n++ {
		for mask := 0; mask < 1<<n; mask++ {
			fail := make([]bool, n)
			for i := range fail {
				fail[i] = mask&(1<<i) != 0
			}
			judge(l, streamCase{Subject: "multicloser", Fail: fail})
			judge(l, streamCase{Subject: "multiflusher", Fail: fail})
			if n == 1 {
				judge(l, streamCase{Subject: "flushcloser", Fail: fail})
			}
		}
	}
	l.Flush()

	r.Sample(streamCase{Subject: "cutoff", Sizes: []int{2, 3, 1}, N: 4, DS: dsSpec{"short", 3, false}})
	r.Sample(streamCase{Subject: "preempt", Sizes: []int{1, 1, 1, 1}, N: 2, J: 1, DS: dsSpec{Mode: "ok"}})
	r.Sample(streamCase{Subject: "hashed", Sizes: []int{3, 2}, DS: dsSpec{"short", 4, true}})
	r.Sample(streamCase{Subject: "lines", Chunks: []string{"x\r", "\nx", "\r\r\n"}, N: -1})
	r.Sample(streamCase{Subject: "multicloser", Fail: []bool{false, true, true}})
	r.Sample(streamCase{Subject: "valve", Sizes: []int{1, 2, 3}, J: 1, DS: dsSpec{"fail", 0, false}})
}
