//go:build verif

// Package small holds the bounded-exhaustive checks for the small, self-contained
// components: C45 (LRU cache), C47 (stream helpers), C44 (log lines), C43
// (housekeeping) and C46 (agent bundle lookup).
package small

import (
	"encoding/json"
	"fmt"
	"strings"
	"testing"

	"github.com/mutagen-io/mutagen/pkg/container/lru"

	"verif/internal/vr"
)

// ---- C45: the LRU cache matches its model (E-state) ----

// lruOp is one operation of the cache API.
type lruOp struct {
	Kind string `json:"op"` // add, get, remove, len
	K    int    `json:"k,omitempty"`
	V    string `json:"v,omitempty"`
}

func (o lruOp) String() string {
	switch o.Kind {
	case "add":
		return fmt.Sprintf("Add(%d,%s)", o.K, o.V)
	case "get":
		return fmt.Sprintf("Get(%d)", o.K)
	case "remove":
		return fmt.Sprintf("Remove(%d)", o.K)
	}
	return "Len()"
}

type lruKV struct {
	K int
	V string
}

// lruModel is the reference model: a recency list, index 0 = most recently used.
// It is written from the property statement and the documented API contract,
// not from the implementation (no linked list, no index map).
type lruModel struct {
	cap  int // 0 = unbounded (documented: "A value of zero means no limit")
	list []lruKV
}

func (m *lruModel) find(k int) int {
	for i, e := range m.list {
		if e.K == k {
			return i
		}
	}
	return -1
}

// promote moves entry i to the front.
func (m *lruModel) promote(i int) {
	e := m.list[i]
	copy(m.list[1:i+1], m.list[:i])
	m.list[0] = e
}

// apply executes op on the model and returns the expected observation (return
// values), the expected eviction callback log of this op, and an outcome class.
func (m *lruModel) apply(op lruOp) (obs string, cb []lruKV, class string) {
	switch op.Kind {
	case "add":
		if i := m.find(op.K); i >= 0 {
			// "updates": the entry stays; it becomes the most recently used. It does
			// not leave the cache, so no callback.
			m.promote(i)
			m.list[0].V = op.V
			return "", nil, "add-update"
		}
		m.list = append([]lruKV{{op.K, op.V}}, m.list...)
		if m.cap != 0 && len(m.list) > m.cap {
			// "It evicts the least recently used entry first and invokes the eviction
			// callback exactly once for every entry that leaves it."
			last := m.list[len(m.list)-1]
			m.list = m.list[:len(m.list)-1]
			return "", []lruKV{last}, "add-new-evict"
		}
		return "", nil, "add-new"
	case "get":
		if i := m.find(op.K); i >= 0 {
			m.promote(i)
			return "hit:" + m.list[0].V, nil, "get-hit"
		}
		return "miss", nil, "get-miss"
	case "remove":
		if i := m.find(op.K); i >= 0 {
			e := m.list[i]
			m.list = append(m.list[:i:i], m.list[i+1:]...)
			// Documented: "If an eviction callback is set, it is called with the removed entry."
			return "", []lruKV{e}, "remove-hit"
		}
		return "", nil, "remove-miss"
	default:
		return fmt.Sprintf("len:%d", len(m.list)), nil, "len"
	}
}

func (m *lruModel) key() string {
	var b strings.Builder
	for _, e := range m.list {
		fmt.Fprintf(&b, "%d%s,", e.K, e.V)
	}
	return b.String()
}

func (m *lruModel) clone() *lruModel {
	return &lruModel{cap: m.cap, list: append([]lruKV(nil), m.list...)}
}

// lruReal wraps the real cache with its callback log.
type lruReal struct {
	c   *lru.Cache[int, string]
	log []lruKV
}

func newLRUReal(capacity int) *lruReal {
	r := &lruReal{}
	r.c = lru.New[int, string](capacity, func(k int, v string) { r.log = append(r.log, lruKV{k, v}) })
	return r
}

// apply executes op on the real cache and returns the observation and the
// callbacks made during this op.
func (r *lruReal) apply(op lruOp) (obs string, cb []lruKV) {
	r.log = nil
	switch op.Kind {
	case "add":
		r.c.Add(op.K, op.V)
	case "get":
		if v, ok := r.c.Get(op.K); ok {
			obs = "hit:" + v
		} else {
			if v != "" {
				obs = "miss-with-nonzero-value:" + v
			} else {
				obs = "miss"
			}
		}
	case "remove":
		r.c.Remove(op.K)
	default:
		obs = fmt.Sprintf("len:%d", r.c.Len())
	}
	return obs, r.log
}

func kvEqual(a, b []lruKV) bool {
	if len(a) != len(b) {
		return false
	}
	for i := range a {
		if a[i] != b[i] {
			return false
		}
	}
	return true
}

// lruStep runs one op on both and compares every observable; "" if they agree.
func lruStep(m *lruModel, r *lruReal, op lruOp) (what, class string) {
	wantObs, wantCB, class := m.apply(op)
	gotObs, gotCB := r.apply(op)
	if wantObs != gotObs {
		return fmt.Sprintf("%v returned %q, model says %q", op, gotObs, wantObs), class
	}
	if !kvEqual(wantCB, gotCB) {
		return fmt.Sprintf("%v made eviction callbacks %v, model says %v", op, gotCB, wantCB), class
	}
	if n := r.c.Len(); n != len(m.list) {
		return fmt.Sprintf("after %v Len()=%d, model holds %d entries", op, n, len(m.list)), class
	}
	return "", class
}

// lruProbe validates that the real cache's state equals the model state by a
// destructive probe (the cache is thrown away afterwards): Len; then, for a
// bounded cache, the recency order is read off by adding fresh sentinel keys
// until every original entry has been evicted (evictions must come least
// recently used first, each exactly once, with the current value); for the
// unbounded cache (order has no observable effect there) membership and values
// are read with Get on every key of the universe and then every entry is
// removed (callback exactly once each).
func lruProbe(m *lruModel, r *lruReal, keys []int) string {
	if n := r.c.Len(); n != len(m.list) {
		return fmt.Sprintf("probe: Len()=%d, model holds %d", n, len(m.list))
	}
	if m.cap == 0 {
		for _, k := range keys {
			v, ok := r.c.Get(k)
			i := m.find(k)
			if ok != (i >= 0) || (ok && v != m.list[i].V) {
				return fmt.Sprintf("probe: Get(%d)=(%q,%v), model %v", k, v, ok, m.list)
			}
		}
		for _, k := range keys {
			r.log = nil
			i := m.find(k)
			var want []lruKV
			if i >= 0 {
				want = []lruKV{m.list[i]}
			}
			r.c.Remove(k)
			if !kvEqual(r.log, want) {
				return fmt.Sprintf("probe: Remove(%d) callbacks %v, want %v", k, r.log, want)
			}
		}
		if r.c.Len() != 0 {
			return fmt.Sprintf("probe: Len()=%d after removing every key", r.c.Len())
		}
		return ""
	}
	// Bounded: first fill the free slots with sentinels (no eviction may happen),
	// then each further sentinel must evict the next least recently used original.
	r.log = nil
	free := m.cap - len(m.list)
	for i := 0; i < free; i++ {
		r.c.Add(1000+i, "s")
	}
	if len(r.log) != 0 {
		return fmt.Sprintf("probe: eviction %v while the cache had %d free slot(s)", r.log, free)
	}
	var want []lruKV
	for i := len(m.list) - 1; i >= 0; i-- {
		want = append(want, m.list[i])
	}
	for i := range m.list {
		r.c.Add(2000+i, "s")
	}
	if !kvEqual(r.log, want) {
		return fmt.Sprintf("probe: draining evicted %v, model recency order (LRU first) is %v", r.log, want)
	}
	if r.c.Len() != m.cap {
		return fmt.Sprintf("probe: Len()=%d after filling a cache of capacity %d", r.c.Len(), m.cap)
	}
	return ""
}

type lruCase struct {
	Cap   int     `json:"cap"`
	Keys  int     `json:"keys"`
	Path  []lruOp `json:"path"`
	Probe bool    `json:"probe"`
}

func pathString(p []lruOp) string {
	s := make([]string, len(p))
	for i, o := range p {
		s[i] = o.String()
	}
	return strings.Join(s, " ")
}

func (c lruCase) key() string {
	return fmt.Sprintf("cap=%d;%s;probe=%v", c.Cap, pathString(c.Path), c.Probe)
}

func lruKeys(n int) []int {
	ks := make([]int, n)
	for i := range ks {
		ks[i] = i + 1
	}
	return ks
}

// runLRUCase executes the whole path on a fresh cache in lock-step with a fresh
// model, optionally followed by the state probe; returns the first mismatch.
func runLRUCase(c lruCase, logf func(string, ...any)) string {
	m := &lruModel{cap: c.Cap}
	r := newLRUReal(c.Cap)
	for i, op := range c.Path {
		what, _ := lruStep(m, r, op)
		if logf != nil {
			logf("step %d %v -> model state [%s] verdict %q", i, op, m.key(), what)
		}
		if what != "" {
			return fmt.Sprintf("step %d: %s", i, what)
		}
	}
	if c.Probe {
		if what := lruProbe(m, r, lruKeys(c.Keys)); what != "" {
			return what
		}
	}
	return ""
}

func TestC45(t *testing.T) {
	r := vr.New(t, "C45", "model_checking")
	defer r.Finish()
	if raw := vr.ReplayCase(); raw != nil {
		var c lruCase
		if err := json.Unmarshal(raw, &c); err != nil {
			t.Fatalf("INFRA: bad replay case: %v", err)
		}
		what := runLRUCase(c, t.Logf)
		t.Logf("replay %s: verdict %q", c.key(), what)
		r.Case(c.key(), true)
		if what != "" {
			r.Violate(c.key(), what, c, nil)
		}
		return
	}
	// one more key than the largest capacity, so that capacity evictions happen
	// at every bounded capacity (not only in the probe)
	nKeys, maxCap, seqLen := 4, 3, 5
	values := []string{"a", "b"}
	if vr.Thorough() {
		nKeys, maxCap, seqLen = 5, 4, 5
		values = []string{"a", "b", "c"}
	}
	keys := lruKeys(nKeys)
	var ops []lruOp
	for _, k := range keys {
		for _, v := range values {
			ops = append(ops, lruOp{"add", k, v})
		}
	}
	for _, k := range keys {
		ops = append(ops, lruOp{Kind: "get", K: k})
	}
	for _, k := range keys {
		ops = append(ops, lruOp{Kind: "remove", K: k})
	}
	ops = append(ops, lruOp{Kind: "len"})

	r.Rule(fmt.Sprintf("leg 1 (closure): for each capacity 0..%d, BFS over the model state (recency list with values) from the empty cache; every (state, op) with op in Add(k,v)/Get(k)/Remove(k)/Len over keys 1..%d and values %v is executed on a FRESH real lru.Cache by replaying the state's shortest path plus the op, compared in lock-step (return values, Len, eviction callback log) and followed by a destructive state probe (drain by sentinel Adds reads the real recency order and values; for capacity 0 Get/Remove of every key) so that the dedup key is validated against the implementation; leg 2: every op sequence of length %d (hence every shorter one, as a prefix) per capacity in lock-step without dedup (counted in evaluations, not in distinct_nontrivial). A transition is non-trivial when it changes the model state, hits, or fires a callback; distinct by (capacity, state, op).", maxCap, nKeys, values, seqLen))
	r.Assume("capacities, keys and values bounded as stated; negative capacities are outside the documented domain",
		"an Add that updates an existing key is not an entry leaving the cache (no callback demanded or allowed), per the documented Add contract",
		"the cache is documented as not safe for concurrent use: single-threaded op sequences only; callbacks do not re-enter the cache")

	type node struct {
		m    *lruModel
		path []lruOp
	}
	var states, transitions, seqs int64
	sampled := map[string]bool{}
	for capacity := 0; capacity <= maxCap; capacity++ {
		// Leg 1: closure.
		start := &lruModel{cap: capacity}
		seen := map[string]bool{start.key(): true}
		frontier := []node{{start, nil}}
		states++
		depth := 0
		for len(frontier) > 0 {
			var next []node
			for _, n := range frontier {
				for _, op := range ops {
					// successor = fresh cache + replay of the shortest path + one op
					m := &lruModel{cap: capacity}
					real := newLRUReal(capacity)
					bad := ""
					for i, p := range n.path {
						if what, _ := lruStep(m, real, p); what != "" {
							bad = fmt.Sprintf("replay step %d: %s", i, what)
							break
						}
					}
					before := m.key()
					class := ""
					if bad == "" {
						bad, class = lruStep(m, real, op)
					} else {
						_, _, class = m.apply(op)
					}
					path := append(append([]lruOp(nil), n.path...), op)
					c := lruCase{Cap: capacity, Keys: nKeys, Path: path, Probe: true}
					if bad == "" {
						bad = lruProbe(m, real, keys)
					}
					transitions++
					nontrivial := m.key() != before || class == "get-hit" || class == "add-update"
					r.Case(fmt.Sprintf("%d|%s|%v", capacity, before, op), nontrivial)
					r.Outcome(class)
					if bad != "" {
						r.Violate(c.key(), bad, c, func() bool { return runLRUCase(c, nil) != "" })
					}
					// samples: the first eviction of each bounded capacity, and one deep
					// transition of the unbounded cache
					if sk := fmt.Sprintf("%d/%s", capacity, class); (class == "add-new-evict" || (capacity == 0 && class == "remove-hit" && len(path) == 4)) && !sampled[sk] {
						sampled[sk] = true
						r.Sample(map[string]any{"cap": capacity, "path": pathString(path), "state_after_mru_first": m.key(), "class": class})
					}
					if k := m.key(); !seen[k] {
						seen[k] = true
						states++
						next = append(next, node{m.clone(), path})
					}
				}
			}
			frontier = next
			depth++
		}
		r.Set(fmt.Sprintf("bfs_depth_cap%d", capacity), depth)
		r.Set(fmt.Sprintf("states_cap%d", capacity), len(seen))

	}

	// Leg 2: every op sequence of length exactly seqLen (every shorter sequence
	// is a prefix of one of them and is checked step by step on the way), in
	// lock-step on a fresh cache, no dedup. Sharded on (capacity, first op).
	type shard struct {
		cap int
		op  lruOp
	}
	var shards []shard
	for capacity := 0; capacity <= maxCap; capacity++ {
		for _, op := range ops {
			shards = append(shards, shard{capacity, op})
		}
	}
	seqCounts := make([]int64, len(shards))
	vr.Parallel(len(shards), func(si int) {
		l := r.Local()
		defer l.Flush()
		sh := shards[si]
		path := make([]lruOp, seqLen)
		path[0] = sh.op
		idx := make([]int, seqLen)
		for {
			for i := 1; i < seqLen; i++ {
				path[i] = ops[idx[i]]
			}
			c := lruCase{Cap: sh.cap, Keys: nKeys, Path: path}
			if what := runLRUCase(c, nil); what != "" {
				cc := lruCase{Cap: sh.cap, Keys: nKeys, Path: append([]lruOp(nil), path...)}
				r.Violate(cc.key(), what, cc, func() bool { return runLRUCase(cc, nil) != "" })
			}
			seqCounts[si]++
			l.Case("", false)
			// odometer over positions 1..seqLen-1
			i := seqLen - 1
			for ; i >= 1; i-- {
				idx[i]++
				if idx[i] < len(ops) {
					break
				}
				idx[i] = 0
			}
			if i < 1 {
				break
			}
		}
	})
	for _, n := range seqCounts {
		seqs += n
	}
	r.Set("states", states)
	r.Set("transitions", transitions)
	// Every BFS transition was executed on the implementation in lock-step.
	r.Set("traces_validated_against_impl", transitions)
	r.Set("bounded_sequences_lockstep", seqs)
	r.Set("ops", len(ops))
}
