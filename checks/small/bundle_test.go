//go:build verif

package small

import (
	"archive/tar"
	"bufio"
	"bytes"
	"compress/gzip"
	"encoding/json"
	"fmt"
	"io"
	"os"
	"os/exec"
	"path/filepath"
	"strings"
	"sync"
	"testing"

	"github.com/mutagen-io/mutagen/pkg/agent"

	"verif/internal/vr"
)

// ---- C46: agent bundle lookup honours search order and extracts exactly (E-proc) ----

// bundleCase is one lookup: a layout around the running executable plus one
// ExecutableForPlatform request.
type bundleCase struct {
	Loc     string `json:"loc"`     // where bundles are: neither | exe | libexec | both
	Symlink bool   `json:"symlink"` // the executable is started through a symlink in another directory
	Dir     string `json:"dir"`     // name of the executable's directory: "bin" (FHS layout, libexec is searched) or "tools"
	Reverse bool   `json:"reverse"` // archive entries in reverse order
	GOOS    string `json:"goos"`
	GOARCH  string `json:"goarch"`
	Out     bool   `json:"out"` // explicit output path (else a temporary file)
	// Pre is the state of the explicit output path before the call: "" / "absent",
	// "empty", "shorter", "same" (same length, other bytes), "longer", "readonly"
	// (longer, mode 0400). Prior, when set, is a platform extracted to the same
	// path immediately before (two extractions to one path).
	Pre       string `json:"pre,omitempty"`
	PriorOS   string `json:"prior_os,omitempty"`
	PriorArch string `json:"prior_arch,omitempty"`
	HasPrior  bool   `json:"has_prior,omitempty"`
	// ExeKind / LibKind select the bundle-file-kind leg: what the path
	// <location>/mutagen-agents.tar.gz is in the executable directory and in
	// ../libexec: absent | regular | symlink (to a regular bundle elsewhere) |
	// dangling (symlink to nothing) | directory. FHS bin layout, started directly.
	ExeKind string `json:"exe_kind,omitempty"`
	LibKind string `json:"lib_kind,omitempty"`
	// Custom selects the entry-name leg: a single bundle next to the executable
	// (FHS bin layout, started directly) whose archive holds exactly Entries, in
	// this order, each with its own distinct payload.
	Custom  bool     `json:"custom,omitempty"`
	Entries []string `json:"entries,omitempty"`
}

// customShards is the number of children the entry-name leg is spread over.
const customShards = 4

func (c bundleCase) customShard() int {
	h := 0
	for _, b := range []byte(strings.Join(c.Entries, ",")) {
		h = (h*31 + int(b)) % 1000003
	}
	return h % customShards
}

// kinds reports whether c belongs to the bundle-file-kind leg.
func (c bundleCase) kinds() bool { return c.ExeKind != "" || c.LibKind != "" }

// resolveKinds applies the documented search order to the bundle-file kinds: the
// first location (executable directory, then libexec) whose bundle path leads to
// a regular bundle file, directly or through a symbolic link, is the one used
// ("the first location holding a bundle is the one used"; a symlink to a bundle
// IS a bundle there). An absent path or a dangling link holds no bundle.
// dirFirst reports that a DIRECTORY of that name was met before a bundle was
// found: the statement is silent on that (the unchanged code aborts with "is not
// a file"), so both an error and treating it as holding no bundle are accepted.
func (c bundleCase) resolveKinds() (used string, dirFirst bool) {
	for _, lk := range [][2]string{{"exe", c.ExeKind}, {"libexec", c.LibKind}} {
		switch lk[1] {
		case "regular", "symlink":
			return lk[0], dirFirst
		case "directory":
			dirFirst = true
		}
	}
	return "", dirFirst
}

// asLoc rewrites a kinds case into the equivalent plain-layout case.
func (c bundleCase) asLoc() bundleCase {
	used, _ := c.resolveKinds()
	c.Loc, c.Dir = "neither", "bin"
	if used != "" {
		c.Loc = used
	}
	return c
}

func (c bundleCase) layoutKey() string {
	if c.kinds() {
		return "kinds"
	}
	if c.Custom {
		// all custom bundles of a shard are served by one child; the parent
		// rewrites the bundle file before each request
		return fmt.Sprintf("custom#%d", c.customShard())
	}
	return fmt.Sprintf("loc=%s;symlink=%v;dir=%s;reverse=%v", c.Loc, c.Symlink, c.Dir, c.Reverse)
}
func (c bundleCase) key() string {
	if c.kinds() {
		return fmt.Sprintf("kinds;exe=%s;libexec=%s;platform=%s_%s;out=%v", c.ExeKind, c.LibKind, c.GOOS, c.GOARCH, c.Out)
	}
	if c.Custom {
		return fmt.Sprintf("custom;entries=%s;platform=%s_%s;out=%v", strings.Join(c.Entries, ","), c.GOOS, c.GOARCH, c.Out)
	}
	k := fmt.Sprintf("%s;platform=%s_%s;out=%v", c.layoutKey(), c.GOOS, c.GOARCH, c.Out)
	if c.Pre != "" {
		k += ";pre=" + c.Pre
	}
	if c.HasPrior {
		k += fmt.Sprintf(";prior=%s_%s", c.PriorOS, c.PriorArch)
	}
	return k
}

// bundlePayloads returns the entries (name -> bytes) of the bundle at location
// where ("exe" or "libexec"). The two bundles hold DISTINCT payloads for the
// shared platforms and each has platforms the other lacks.
func bundlePayloads(where string) (names []string, payload map[string][]byte) {
	payload = map[string][]byte{}
	mk := func(name string, body []byte) {
		names = append(names, name)
		payload[name] = body
	}
	tag := []byte("agent from the " + where + " bundle\x00\xff\r\n")
	mk("linux_amd64", append(append([]byte{}, tag...), []byte("linux/amd64 payload")...))
	mk("darwin_arm64", append(append([]byte{}, tag...), bytes.Repeat([]byte{0x7f, 'E', 'L', 'F', 0}, 101)...))
	if where == "exe" {
		mk("plan9_386", nil) // an empty entry, only in the executable-directory bundle
	} else {
		mk("windows_amd64", append(append([]byte{}, tag...), []byte("MZ windows payload")...))
		// larger than a tar block, a gzip window and io.Copy's buffer; not compressible to nothing
		big := make([]byte, 70001)
		x := uint32(12345)
		for i := range big {
			x = x*1664525 + 1013904223
			big[i] = byte(x >> 24)
		}
		mk("freebsd_amd64", big)
	}
	return names, payload
}

func writeBundle(path, where string, reverse bool) error {
	names, payload := bundlePayloads(where)
	if reverse {
		for i, j := 0, len(names)-1; i < j; i, j = i+1, j-1 {
			names[i], names[j] = names[j], names[i]
		}
	}
	var buf bytes.Buffer
	gz := gzip.NewWriter(&buf)
	tw := tar.NewWriter(gz)
	for _, n := range names {
		if err := tw.WriteHeader(&tar.Header{Name: n, Mode: 0o755, Size: int64(len(payload[n])), Typeflag: tar.TypeReg}); err != nil {
			return err
		}
		if _, err := tw.Write(payload[n]); err != nil {
			return err
		}
	}
	if err := tw.Close(); err != nil {
		return err
	}
	if err := gz.Close(); err != nil {
		return err
	}
	return os.WriteFile(path, buf.Bytes(), 0o600)
}

// customPayload is the distinct payload of a custom entry.
func customPayload(name string) []byte {
	return []byte("payload of archive entry <" + name + ">\x00\xff")
}

// writeCustomBundle writes a bundle holding exactly entries, in order. It is
// written to a temporary name and renamed so the child never sees a torn file.
func writeCustomBundle(path string, entries []string) error {
	var buf bytes.Buffer
	gz := gzip.NewWriter(&buf)
	tw := tar.NewWriter(gz)
	for _, n := range entries {
		body := customPayload(n)
		if err := tw.WriteHeader(&tar.Header{Name: n, Mode: 0o755, Size: int64(len(body)), Typeflag: tar.TypeReg}); err != nil {
			return err
		}
		if _, err := tw.Write(body); err != nil {
			return err
		}
	}
	if err := tw.Close(); err != nil {
		return err
	}
	if err := gz.Close(); err != nil {
		return err
	}
	if err := os.WriteFile(path+".new", buf.Bytes(), 0o600); err != nil {
		return err
	}
	return os.Rename(path+".new", path)
}

// setBundleKind makes <dir>/mutagen-agents.tar.gz of the given kind; where names
// the payload set ("exe" / "libexec"), store is a directory outside both
// locations that holds symlink targets.
func setBundleKind(dir, where, kind, store string) error {
	path := filepath.Join(dir, agent.BundleName)
	if err := os.RemoveAll(path); err != nil {
		return err
	}
	switch kind {
	case "absent":
		return nil
	case "regular":
		return writeBundle(path, where, false)
	case "symlink":
		target := filepath.Join(store, where+"-real-bundle.tar.gz")
		if err := writeBundle(target, where, false); err != nil {
			return err
		}
		if where == "libexec" {
			// a relative link for one location, an absolute one for the other
			rel, err := filepath.Rel(dir, target)
			if err != nil {
				return err
			}
			return os.Symlink(rel, path)
		}
		return os.Symlink(target, path)
	case "dangling":
		return os.Symlink(filepath.Join(store, where+"-no-such-bundle.tar.gz"), path)
	case "directory":
		if err := os.Mkdir(path, 0o700); err != nil {
			return err
		}
		return os.WriteFile(filepath.Join(path, "x"), []byte("not a bundle"), 0o600)
	}
	return fmt.Errorf("unknown bundle kind %q", kind)
}

// bundleRequest / bundleReply are the parent <-> child protocol (one JSON line each).
type bundleRequest struct {
	GOOS, GOARCH, Out string
	Keep              bool // leave the extracted file in place (first half of a two-extraction sequence)
}
type bundleReply struct {
	Path    string
	Err     string
	Content []byte
	ReadErr string
	Mode    uint32
	Exe     string // os.Executable() as seen by the child
}

// TestC46Child is the body of the child process: it runs from inside the layout
// and calls the real agent.ExecutableForPlatform for every request line.
func TestC46Child(t *testing.T) {
	if os.Getenv("VERIF_C46_CHILD") == "" {
		t.Skip("child body; started by TestC46 only")
	}
	exe, _ := os.Executable()
	in := bufio.NewScanner(os.Stdin)
	in.Buffer(make([]byte, 1<<20), 1<<20)
	out := json.NewEncoder(os.Stdout)
	for in.Scan() {
		var req bundleRequest
		if err := json.Unmarshal(in.Bytes(), &req); err != nil {
			fmt.Println("C46BAD", err)
			return
		}
		var rep bundleReply
		rep.Exe = exe
		path, err := agent.ExecutableForPlatform(req.GOOS, req.GOARCH, req.Out)
		rep.Path = path
		if err != nil {
			rep.Err = err.Error()
		} else {
			if info, serr := os.Stat(path); serr == nil {
				rep.Mode = uint32(info.Mode().Perm())
			}
			data, rerr := os.ReadFile(path)
			rep.Content = data
			if rerr != nil {
				rep.ReadErr = rerr.Error()
			}
			if !req.Keep {
				os.Remove(path)
			}
		}
		fmt.Print("C46 ")
		out.Encode(rep)
	}
}

// bundleLayout is a layout on disk with a running child inside it.
type bundleLayout struct {
	root  string
	cmd   *exec.Cmd
	stdin io.WriteCloser
	lines *bufio.Scanner
	nOut  int
	// current identifies the custom bundle presently on disk (entry-name leg)
	current string
}

// startLayout builds <root>/<dir>/agentcheck (a hard link / copy of this test
// binary), the bundles, and starts the child from there.
func startLayout(t *testing.T, scratch, exeCopy string, c bundleCase, seq int) (*bundleLayout, error) {
	if c.Custom || c.kinds() {
		c.Loc, c.Dir, c.Symlink = "custom", "bin", false
	}
	root := filepath.Join(scratch, fmt.Sprintf("layout%d", seq))
	exeDir := filepath.Join(root, "prefix", c.Dir)
	libexec := filepath.Join(root, "prefix", "libexec")
	for _, d := range []string{exeDir, libexec, filepath.Join(root, "elsewhere"), filepath.Join(root, "tmp"), filepath.Join(root, "out")} {
		if err := os.MkdirAll(d, 0o700); err != nil {
			return nil, err
		}
	}
	exePath := filepath.Join(exeDir, "agentcheck")
	if err := os.Link(exeCopy, exePath); err != nil {
		return nil, err
	}
	if c.Loc == "exe" || c.Loc == "both" {
		if err := writeBundle(filepath.Join(exeDir, agent.BundleName), "exe", c.Reverse); err != nil {
			return nil, err
		}
	}
	if c.Loc == "libexec" || c.Loc == "both" {
		if err := writeBundle(filepath.Join(libexec, agent.BundleName), "libexec", c.Reverse); err != nil {
			return nil, err
		}
	}
	start := exePath
	if c.Symlink {
		start = filepath.Join(root, "elsewhere", "agentcheck-link")
		if err := os.Symlink(exePath, start); err != nil {
			return nil, err
		}
	}
	cmd := exec.Command(start, "-test.run=^TestC46Child$", "-test.v")
	cmd.Env = append(os.Environ(), "VERIF_C46_CHILD=1", "VERIF_REPLAY=", "TMPDIR="+filepath.Join(root, "tmp"))
	cmd.Dir = filepath.Join(root, "elsewhere")
	stdin, err := cmd.StdinPipe()
	if err != nil {
		return nil, err
	}
	stdout, err := cmd.StdoutPipe()
	if err != nil {
		return nil, err
	}
	cmd.Stderr = os.Stderr
	if err := cmd.Start(); err != nil {
		return nil, err
	}
	sc := bufio.NewScanner(stdout)
	sc.Buffer(make([]byte, 4<<20), 4<<20)
	return &bundleLayout{root: root, cmd: cmd, stdin: stdin, lines: sc}, nil
}

func (l *bundleLayout) ask(c bundleCase) (bundleReply, error) {
	req := bundleRequest{GOOS: c.GOOS, GOARCH: c.GOARCH}
	if c.Out {
		l.nOut++
		req.Out = filepath.Join(l.root, "out", fmt.Sprintf("agent%d", l.nOut))
		// pre-existing state of the output path
		want, _ := expectedBody(c)
		n := len(want)
		if n == 0 {
			n = 10
		}
		var pre []byte
		mode := os.FileMode(0o600)
		switch c.Pre {
		case "", "absent":
			pre = nil
		case "empty":
			pre = []byte{}
		case "shorter":
			pre = bytes.Repeat([]byte{'Z'}, n/2)
		case "same":
			pre = bytes.Repeat([]byte{'Z'}, n)
		case "longer":
			pre = bytes.Repeat([]byte{'Z'}, n+37)
		case "readonly":
			pre = bytes.Repeat([]byte{'Z'}, n+37)
			mode = 0o400
		default:
			return bundleReply{}, fmt.Errorf("unknown pre state %q", c.Pre)
		}
		if pre != nil {
			if err := os.WriteFile(req.Out, pre, mode); err != nil {
				return bundleReply{}, err
			}
		}
		if c.HasPrior {
			// first extraction of the sequence: another platform to the same path,
			// left in place
			first := bundleRequest{GOOS: c.PriorOS, GOARCH: c.PriorArch, Out: req.Out, Keep: true}
			if _, err := l.exchange(first); err != nil {
				return bundleReply{}, err
			}
		}
		defer os.Remove(req.Out)
	}
	rep, err := l.exchange(req)
	if err == nil && c.Out && rep.Err == "" && rep.Path != req.Out {
		rep.ReadErr = fmt.Sprintf("returned path %q differs from the requested output path %q", rep.Path, req.Out)
	}
	return rep, err
}

// exchange sends one request line and reads the reply line.
func (l *bundleLayout) exchange(req bundleRequest) (bundleReply, error) {
	data, _ := json.Marshal(req)
	if _, err := l.stdin.Write(append(data, '\n')); err != nil {
		return bundleReply{}, err
	}
	for l.lines.Scan() {
		line := l.lines.Text()
		if strings.HasPrefix(line, "C46BAD") {
			return bundleReply{}, fmt.Errorf("child: %s", line)
		}
		if strings.HasPrefix(line, "C46 ") {
			var rep bundleReply
			err := json.Unmarshal([]byte(line[4:]), &rep)
			return rep, err
		}
	}
	return bundleReply{}, fmt.Errorf("child ended without a reply: %v", l.lines.Err())
}

func (l *bundleLayout) stop() {
	l.stdin.Close()
	for l.lines.Scan() {
	}
	l.cmd.Wait()
	os.RemoveAll(l.root)
}

// expectedBody returns the archive entry the oracle expects to be extracted for
// c (ok=false when a rejection is expected or the statement leaves it open).
func expectedBody(c bundleCase) (body []byte, ok bool) {
	name := c.GOOS + "_" + c.GOARCH
	if c.Custom {
		for _, e := range c.Entries {
			if e == name {
				return customPayload(e), true
			}
		}
		return nil, false
	}
	if c.kinds() {
		if _, dirFirst := c.resolveKinds(); dirFirst {
			return nil, false
		}
		c = c.asLoc()
	}
	used := ""
	switch {
	case c.Loc == "exe" || c.Loc == "both":
		used = "exe"
	case c.Loc == "libexec" && c.Dir == "bin":
		used = "libexec"
	}
	if used == "" {
		return nil, false
	}
	_, payload := bundlePayloads(used)
	body, ok = payload[name]
	return body, ok
}

// judgeBundle is the oracle. "the directory of the running executable takes
// precedence over the libexec directory, and the first location holding a
// bundle is the one used. The extracted agent is byte-for-byte the archive entry
// for the requested platform, and unknown platforms are rejected."
func judgeBundle(c bundleCase, rep bundleReply) (what, class string) {
	if c.Pre == "readonly" && rep.Err != "" {
		// An unwritable output file may legitimately make the extraction fail (it
		// does not when running as root); only a reported success is judged.
		return "", "readonly-output-refused"
	}
	// the search order as documented: executable directory first, then (FHS "bin"
	// layout only) ../libexec
	if c.Custom {
		// "The extracted agent is byte-for-byte the archive entry for the requested
		// platform, and unknown platforms are rejected": the entry whose name is
		// exactly goos_goarch, whatever else the archive holds and in whatever order.
		name := c.GOOS + "_" + c.GOARCH
		present := false
		for _, e := range c.Entries {
			if e == name {
				present = true
			}
		}
		if !present {
			if rep.Err == "" {
				src := "no entry's payload"
				for _, e := range c.Entries {
					if bytes.Equal(rep.Content, customPayload(e)) {
						src = "the payload of entry " + e
					}
				}
				return fmt.Sprintf("platform %q is not among the archive entries %v but extraction succeeded with %s", name, c.Entries, src), "bad"
			}
			return "", "custom-absent-rejected"
		}
		if rep.Err != "" {
			return fmt.Sprintf("platform %q is among the archive entries %v but extraction failed: %s", name, c.Entries, rep.Err), "bad"
		}
		if rep.ReadErr != "" {
			return rep.ReadErr, "bad"
		}
		if !bytes.Equal(rep.Content, customPayload(name)) {
			src := "no entry's payload"
			for _, e := range c.Entries {
				if bytes.Equal(rep.Content, customPayload(e)) {
					src = "the payload of entry " + e
				}
			}
			return fmt.Sprintf("extracted agent for %q from archive %v is not that entry's payload; it equals %s", name, c.Entries, src), "bad"
		}
		return "", "custom-present-extracted"
	}
	if c.kinds() {
		if _, dirFirst := c.resolveKinds(); dirFirst && rep.Err != "" {
			return "", "directory-candidate-aborts"
		}
		c = c.asLoc()
	}
	used := ""
	switch {
	case c.Loc == "exe" || c.Loc == "both":
		used = "exe"
	case c.Loc == "libexec":
		used = "libexec"
	}
	name := c.GOOS + "_" + c.GOARCH
	if used == "libexec" && c.Dir != "bin" {
		// Outside an FHS bin directory libexec is documented as not searched; the
		// statement does not speak about this layout. Accept a rejection, or the
		// libexec entry, nothing else.
		_, payload := bundlePayloads("libexec")
		body, ok := payload[name]
		if rep.Err != "" {
			return "", "non-fhs-libexec-not-searched"
		}
		if ok && rep.ReadErr == "" && bytes.Equal(rep.Content, body) {
			return "", "non-fhs-libexec-searched"
		}
		return fmt.Sprintf("non-FHS layout with a libexec bundle only: got path %q content %q (%s)", rep.Path, vr.Short(string(rep.Content), 60), rep.ReadErr), "bad"
	}
	if used == "" {
		if rep.Err == "" {
			return fmt.Sprintf("no bundle anywhere, yet %q was extracted to %q", vr.Short(string(rep.Content), 60), rep.Path), "bad"
		}
		return "", "no-bundle-error"
	}
	_, payload := bundlePayloads(used)
	body, known := payload[name]
	if !known {
		// "unknown platforms are rejected" (unknown to the bundle that is used)
		if rep.Err == "" {
			src := "?"
			for _, w := range []string{"exe", "libexec"} {
				if _, p := bundlePayloads(w); bytes.Equal(p[name], rep.Content) {
					if _, ok := p[name]; ok {
						src = w
					}
				}
			}
			return fmt.Sprintf("platform %q is not in the %s-directory bundle (the first location holding a bundle) but extraction succeeded with %d bytes (matching the %s bundle's entry)", name, used, len(rep.Content), src), "bad"
		}
		return "", "unknown-platform-rejected"
	}
	if rep.Err != "" {
		return fmt.Sprintf("platform %q is in the %s-directory bundle but extraction failed: %s", name, used, rep.Err), "bad"
	}
	if rep.ReadErr != "" {
		return rep.ReadErr, "bad"
	}
	if !bytes.Equal(rep.Content, body) {
		src := "neither bundle's entry"
		other := "libexec"
		if used == "libexec" {
			other = "exe"
		}
		if _, p := bundlePayloads(other); bytes.Equal(p[name], rep.Content) {
			src = "the " + other + " bundle's entry"
		}
		return fmt.Sprintf("extracted agent for %q (%d bytes) is not the %s-directory bundle's entry (%d bytes); it equals %s", name, len(rep.Content), used, len(body), src), "bad"
	}
	return "", "extracted-from-" + used
}

type bundlePlatform struct{ GOOS, GOARCH string }

// orderedSubsets returns every permutation of every subset of names (the empty
// archive included), in a deterministic order.
func orderedSubsets(names []string) [][]string {
	out := [][]string{{}}
	var rec func(cur []string, used []bool)
	rec = func(cur []string, used []bool) {
		for i, n := range names {
			if used[i] {
				continue
			}
			next := append(append([]string(nil), cur...), n)
			out = append(out, next)
			used[i] = true
			rec(next, used)
			used[i] = false
		}
	}
	rec(nil, make([]bool, len(names)))
	return out
}

// customRequests derives the requested platforms for an alphabet of entry
// names: every name itself, every proper prefix of a name that still contains
// the goos/goarch separator, every name extended by one character, each split
// into (goos, goarch) at its first underscore; plus goos-only forms.
func customRequests(names []string) []bundlePlatform {
	seen := map[string]bool{}
	var out []bundlePlatform
	add := func(full string) {
		i := strings.IndexByte(full, '_')
		if i < 0 || seen[full] {
			return
		}
		seen[full] = true
		out = append(out, bundlePlatform{full[:i], full[i+1:]})
	}
	for _, n := range names {
		for l := 1; l <= len(n); l++ {
			add(n[:l])
		}
		add(n + "x")
		add(n + "_")
		if !strings.Contains(n, "_") {
			add(n + "_")
		}
	}
	return out
}

func TestC46(t *testing.T) {
	r := vr.New(t, "C46", "exploration")
	defer r.Finish()
	scratch := t.TempDir()
	// one private copy of this test binary; layouts hard-link it
	exeCopy := filepath.Join(scratch, "testbinary")
	self, err := os.Executable()
	if err != nil {
		t.Fatalf("INFRA: %v", err)
	}
	data, err := os.ReadFile(self)
	if err != nil {
		t.Fatalf("INFRA: %v", err)
	}
	if err := os.WriteFile(exeCopy, data, 0o700); err != nil {
		t.Fatalf("INFRA: %v", err)
	}
	data = nil
	// Children are expensive to start (the test binary links most of mutagen), so
	// there is one child per layout, started on first use and asked repeatedly;
	// ExecutableForPlatform keeps no state between calls.
	var poolMu sync.Mutex
	pool := map[string]*bundleLayout{}
	seq := 0
	layoutFor := func(c bundleCase) *bundleLayout {
		poolMu.Lock()
		defer poolMu.Unlock()
		if l := pool[c.layoutKey()]; l != nil {
			return l
		}
		seq++
		n := seq
		poolMu.Unlock()
		l, err := startLayout(t, scratch, exeCopy, c, n)
		poolMu.Lock()
		if err != nil {
			t.Fatalf("INFRA: layout %s: %v", c.layoutKey(), err)
		}
		pool[c.layoutKey()] = l
		return l
	}
	defer func() {
		for _, l := range pool {
			l.stop()
		}
	}()
	runOne := func(c bundleCase) (string, string, bundleReply) {
		l := layoutFor(c)
		if want := "custom:" + strings.Join(c.Entries, ","); c.Custom && l.current != want {
			// rewrite the bundle only when the archive changes
			if err := writeCustomBundle(filepath.Join(l.root, "prefix", "bin", agent.BundleName), c.Entries); err != nil {
				t.Fatalf("INFRA: custom bundle %v: %v", c.Entries, err)
			}
			l.current = want
		}
		if want := "kinds:" + c.ExeKind + "/" + c.LibKind; c.kinds() && l.current != want {
			store := filepath.Join(l.root, "store")
			err := os.MkdirAll(store, 0o700)
			if err == nil {
				err = setBundleKind(filepath.Join(l.root, "prefix", "bin"), "exe", c.ExeKind, store)
			}
			if err == nil {
				err = setBundleKind(filepath.Join(l.root, "prefix", "libexec"), "libexec", c.LibKind, store)
			}
			if err != nil {
				t.Fatalf("INFRA: bundle kinds %s/%s: %v", c.ExeKind, c.LibKind, err)
			}
			l.current = want
		}
		rep, err := l.ask(c)
		if err != nil {
			t.Fatalf("INFRA: layout %s: %v", c.layoutKey(), err)
		}
		what, class := judgeBundle(c, rep)
		return what, class, rep
	}
	if raw := vr.ReplayCase(); raw != nil {
		var c bundleCase
		if err := json.Unmarshal(raw, &c); err != nil {
			t.Fatalf("INFRA: bad replay case: %v", err)
		}
		what, class, rep := runOne(c)
		t.Logf("replay %s: child executable %q returned path %q err %q, %d bytes %q; class %s verdict %q", c.key(), rep.Exe, rep.Path, rep.Err, len(rep.Content), vr.Short(string(rep.Content), 50), class, what)
		r.Case(c.key(), true)
		if what != "" {
			r.Violate(c.key(), what, c, nil)
		}
		return
	}
	platforms := []bundlePlatform{
		{"linux", "amd64"}, {"darwin", "arm64"}, // in both bundles, distinct payloads
		{"plan9", "386"},                           // only in the executable-directory bundle (empty entry)
		{"windows", "amd64"}, {"freebsd", "amd64"}, // only in the libexec bundle
		{"fakeos", "amd64"}, {"linux", "fakearch"}, {"linux", "amd64x"}, {"linux_amd64", ""}, {"", "linux_amd64"}, {"linu", "x_amd64"}, // in neither
		{"", ""},
	}
	dirs := []string{"bin"}
	if vr.Thorough() {
		dirs = []string{"bin", "tools"}
	}
	r.Rule(fmt.Sprintf("the test binary is hard-linked into <tmp>/prefix/<dir>/ and re-executed as a child that calls the real agent.ExecutableForPlatform; layouts = bundle (tar.gz built by the harness) present in {neither, executable directory, ../libexec, both with DISTINCT payloads and different platform sets} x executable started directly / through a symlink in another directory x executable directory name %v x archive entry order {forward, reverse}; per layout every platform of %v x output {temporary file; explicit path whose prior state is absent / empty / shorter than the entry / same length other bytes / LONGER than the entry / longer and read-only; explicit path to which every other platform of the bundle in use was extracted immediately before}; non-trivial = at least one bundle exists. Entry-name leg: one bundle next to the executable whose archive holds every subset of an alphabet of prefix-related entry names (arm/arm64, ppc64/ppc64le, 3/38/386, linux/linuxx, arm64/arm64e, an entry with an extension, an entry without separator) in EVERY order with a distinct payload per entry, requested with every name, every proper prefix of a name that contains the separator, and every name extended by one character; non-trivial there = the archive holds an entry prefix-related to but different from the requested name. Bundle-file-kind leg: the bundle path in the executable directory x in ../libexec is each of {absent, regular file, symlink to a regular bundle stored elsewhere (absolute / relative link), dangling symlink, directory}, all 25 combinations x every platform; a symlinked bundle counts as a bundle of its location, absent and dangling hold none, a directory met first may abort or be skipped; non-trivial there = a link or directory is involved. Distinct by (layout or archive or kinds, platform, output).", dirs, platforms))
	r.Assume("linux: os.Executable resolves the symlink the child was started through, so the executable's directory is the real one in both start modes",
		"BundleLocationDefault (the production setting) only; the build-directory mode used by integration tests is not explored",
		"for an executable outside an FHS bin directory with a bundle in ../libexec only, both rejection and use of the libexec bundle are accepted (the statement is silent; the code documents libexec as searched for bin layouts only)",
		"executability bits and the temporary file's name/location are recorded but not judged; corrupt archives and I/O faults are not injected")

	var layouts []bundleCase
	for _, loc := range []string{"neither", "exe", "libexec", "both"} {
		for _, sym := range []bool{false, true} {
			for _, dir := range dirs {
				for _, rev := range []bool{false, true} {
					layouts = append(layouts, bundleCase{Loc: loc, Symlink: sym, Dir: dir, Reverse: rev})
				}
			}
		}
	}
	// start all children concurrently, then drive them one request at a time
	vr.Parallel(len(layouts), func(i int) { layoutFor(layouts[i]) })
	for _, lc := range layouts {
		l := layoutFor(lc)
		var cases []bundleCase
		for _, p := range platforms {
			c := lc
			c.GOOS, c.GOARCH = p.GOOS, p.GOARCH
			cases = append(cases, c) // temporary file
			for _, pre := range []string{"absent", "empty", "shorter", "same", "longer", "readonly"} {
				co := c
				co.Out, co.Pre = true, pre
				cases = append(cases, co)
			}
			// two extractions to the same explicit path: every other platform that the
			// bundle in use holds first, then this one
			for _, q := range platforms {
				prior := lc
				prior.GOOS, prior.GOARCH = q.GOOS, q.GOARCH
				if _, ok := expectedBody(prior); ok && q != p {
					co := c
					co.Out, co.HasPrior, co.PriorOS, co.PriorArch = true, true, q.GOOS, q.GOARCH
					cases = append(cases, co)
				}
			}
		}
		{
			for _, c := range cases {
				what, class, rep := runOne(c)
				if !strings.HasPrefix(rep.Exe, filepath.Join(l.root, "prefix", lc.Dir)+string(filepath.Separator)) {
					t.Fatalf("INFRA: child sees executable %q outside its layout %q", rep.Exe, l.root)
				}
				r.Case(c.key(), lc.Loc != "neither")
				if c.HasPrior {
					class += "+second-extraction-to-same-path"
				} else if c.Pre != "" && c.Pre != "absent" && class != "readonly-output-refused" {
					class += "+over-existing-file"
				}
				r.Outcome(class)
				if what != "" {
					r.Violate(c.key(), what, c, func() bool { w, _, _ := runOne(c); return w != "" })
				}
				if rep.Err == "" {
					r.Add("extractions", 1)
					if rep.Mode&0o100 != 0 {
						r.Add("extractions_executable", 1)
					}
				}
			}
		}
		r.Add("layouts", 1)
	}

	// ---- entry-name leg: prefix-related platform names, every present/absent
	// combination, every archive order ----
	alphabets := [][]string{
		{"linux_arm", "linux_arm64", "linux_ppc64", "linux_ppc64le"},
		{"linux_3", "linux_38", "linux_386", "linuxx_386"},
		{"darwin_arm64", "darwin_arm64e", "windows_amd64.exe", "linux"},
	}
	if vr.Thorough() {
		alphabets = append(alphabets,
			[]string{"linux_arm", "linux_arm64", "linux_arm64be", "linux_ppc64", "linux_ppc64le", "linuxx_arm"},
			[]string{"linux_mips", "linux_mips64", "linux_mips64le", "linux_mipsle", "linu_x"})
	}
	type customBundle struct {
		entries  []string
		requests []bundlePlatform
	}
	var customs []customBundle
	for _, alpha := range alphabets {
		reqs := customRequests(alpha)
		for _, entries := range orderedSubsets(alpha) {
			customs = append(customs, customBundle{entries, reqs})
		}
	}
	byShard := make([][]customBundle, customShards)
	for _, cb := range customs {
		sh := bundleCase{Custom: true, Entries: cb.entries}.customShard()
		byShard[sh] = append(byShard[sh], cb)
	}
	vr.Parallel(customShards, func(sh int) {
		for _, cb := range byShard[sh] {
			for _, p := range cb.requests {
				c := bundleCase{Custom: true, Entries: cb.entries, GOOS: p.GOOS, GOARCH: p.GOARCH}
				what, class, _ := runOne(c)
				// non-trivial: the archive holds an entry whose name is prefix-related
				// to (but different from) the requested name
				name := p.GOOS + "_" + p.GOARCH
				related := false
				for _, e := range cb.entries {
					if e != name && (strings.HasPrefix(e, name) || strings.HasPrefix(name, e)) {
						related = true
					}
				}
				r.Case(c.key(), related)
				if related {
					class += "+prefix-related-entry"
				}
				r.Outcome(class)
				if what != "" {
					r.Violate(c.key(), what, c, func() bool { w, _, _ := runOne(c); return w != "" })
				}
			}
		}
	})
	r.Set("custom_bundles", len(customs))

	// ---- bundle-file-kind leg: what the bundle path is, per location ----
	bundleKinds := []string{"absent", "regular", "symlink", "dangling", "directory"}
	for _, ek := range bundleKinds {
		for _, lk := range bundleKinds {
			for _, p := range platforms {
				c := bundleCase{ExeKind: ek, LibKind: lk, GOOS: p.GOOS, GOARCH: p.GOARCH}
				what, class, _ := runOne(c)
				// non-trivial: a symlink, dangling link or directory is involved
				special := (ek != "absent" && ek != "regular") || (lk != "absent" && lk != "regular")
				r.Case(c.key(), special)
				if class != "directory-candidate-aborts" {
					switch used, _ := c.resolveKinds(); {
					case used == "exe" && ek == "symlink", used == "libexec" && lk == "symlink":
						class += "+via-symlinked-bundle"
					case ek == "dangling" && used == "libexec":
						class += "+after-dangling-link"
					}
				}
				r.Outcome(class)
				if what != "" {
					r.Violate(c.key(), what, c, func() bool { w, _, _ := runOne(c); return w != "" })
				}
			}
		}
	}
	r.Sample(bundleCase{ExeKind: "symlink", LibKind: "regular", GOOS: "linux", GOARCH: "amd64"})
	r.Sample(bundleCase{ExeKind: "dangling", LibKind: "symlink", GOOS: "freebsd", GOARCH: "amd64"})
	r.Sample(bundleCase{Custom: true, Entries: []string{"linux_arm64", "linux_arm"}, GOOS: "linux", GOARCH: "arm"})
	r.Sample(bundleCase{Custom: true, Entries: []string{"linux_ppc64le", "linux_arm64"}, GOOS: "linux", GOARCH: "ppc64"})
	r.Sample(bundleCase{Loc: "both", Symlink: false, Dir: "bin", GOOS: "linux", GOARCH: "amd64"})
	r.Sample(bundleCase{Loc: "both", Symlink: true, Dir: "bin", Reverse: true, GOOS: "windows", GOARCH: "amd64", Out: true})
	r.Sample(bundleCase{Loc: "libexec", Symlink: true, Dir: "bin", GOOS: "freebsd", GOARCH: "amd64"})
	r.Sample(bundleCase{Loc: "exe", Dir: "bin", GOOS: "", GOARCH: ""})
}
