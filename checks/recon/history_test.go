//go:build verif

package recon

import (
	"fmt"
	"sort"
	"strings"

	"github.com/mutagen-io/mutagen/pkg/synchronization/core"

	"verif/internal/vr"
)

// History leg (core level): explicit-state BFS over multi-cycle histories.
//
// State  = (ancestor, alpha, beta, L) where L is the harness's own record, per path, of the
//          content both endpoints held when they last agreed there ("last successful
//          synchronization" of that path), kept independently of mutagen's ancestor.
// Events = "user replaces the content of slot a on alpha / beta by any value of
//          the slot alphabet" and "one synchronization cycle" (the REAL
//          core.Reconcile, applied exactly through the REAL core.Apply with the
//          controller's recipe for the ancestor).
// The ancestor is whatever the real code makes of it; the harness keeps its own,
// independent record L. Oracle (C01 first sentence, C02 second sentence): on a
// protected endpoint a cycle never deletes or overwrites a node that differs from
// L at its path (i.e. content created or modified since the last synchronization).

var histPaths = []string{"a", "a/x"}

type hstate struct {
	a, x, y *E
	l       [2]*E // last agreed node (shallow) at histPaths; nil = nothing agreed / agreed absent
}

func (s hstate) key() string {
	return fmt.Sprintf("%s|%s|%s|%s|%s", show(s.a), show(s.x), show(s.y), showShallow(s.l[0]), showShallow(s.l[1]))
}

func showShallow(e *E) string {
	if e == nil {
		return "nil"
	}
	c := *e
	c.Contents = nil
	return show(&c)
}

func slotAlphabet() []*E {
	return []*E{nil, file(1, false), file(2, false), link("t"), untracked(), problematic(), dir(), dir("x", file(1, false)), dir("x", file(2, false)), dir("x", untracked())}
}

func withSlot(v *E) *E { return dir("a", clone(v)) }

type histEvent struct {
	Kind  string `json:"kind"` // "alpha", "beta", "cycle"
	Value string `json:"value,omitempty"`
}

// stepCycle runs one real cycle; returns the next state and a violation (or "").
func stepCycle(s hstate, m core.SynchronizationMode, protectAlpha, protectBeta bool) (hstate, string) {
	p := reconcile(s.a, s.x, s.y, m)
	check := func(X *E, cs []*core.Change, side string) string {
		for _, c := range cs {
			bad := ""
			walk(c.Old, c.Path, func(pth string, n *E) {
				if bad != "" {
					return
				}
				for i, hp := range histPaths {
					if hp == pth && shallowEq(at(X, pth), n) && !shallowEq(s.l[i], n) {
						bad = fmt.Sprintf("%s: cycle removes/overwrites %s at %q although the endpoints last agreed on %s there (change %q: %s -> %s)", side, show(n), pth, showShallow(s.l[i]), c.Path, show(c.Old), show(c.New))
					}
				}
			})
			if bad != "" {
				return bad
			}
		}
		return ""
	}
	if protectAlpha {
		if w := check(s.x, p.Alpha, "alpha"); w != "" {
			return s, w
		}
	}
	if protectBeta {
		if w := check(s.y, p.Beta, "beta"); w != "" {
			return s, w
		}
	}
	if m == core.SynchronizationMode_SynchronizationModeOneWaySafe || m == core.SynchronizationMode_SynchronizationModeOneWayReplica {
		if len(p.Alpha) > 0 {
			return s, "one-way mode plans a change to alpha at " + p.Alpha[0].Path
		}
	}
	anc := append([]*core.Change{}, p.Anc...)
	for _, c := range p.Alpha {
		anc = append(anc, &core.Change{Path: c.Path, New: c.New})
	}
	for _, c := range p.Beta {
		anc = append(anc, &core.Change{Path: c.Path, New: c.New})
	}
	a2, err := core.Apply(s.a, anc)
	if err != nil {
		return s, "ancestor update failed: " + err.Error()
	}
	x2, err1 := core.Apply(s.x, p.Alpha)
	y2, err2 := core.Apply(s.y, p.Beta)
	if err1 != nil || err2 != nil {
		return s, fmt.Sprintf("endpoint apply failed: %v %v", err1, err2)
	}
	n := hstate{a: a2, x: x2, y: y2, l: s.l}
	// A path counts as synchronized by this cycle when, afterwards, both endpoints
	// agree on it (same synchronizable node, or both absent) AND agree on every
	// parent directory above it; agreeing on "absent" or on a non-directory at a
	// path also settles everything below it as absent.
	shallow := func(e *E) *E {
		c := *e
		c.Contents = nil
		return &c
	}
	ua, va := at(x2, "a"), at(y2, "a")
	if ua == nil && va == nil {
		n.l[0], n.l[1] = nil, nil
	} else if ua != nil && va != nil && shallowEq(ua, va) && !isUnsync(ua) {
		n.l[0] = shallow(ua)
		if ua.Kind != core.EntryKind_Directory {
			n.l[1] = nil
		} else {
			ux, vx := at(x2, "a/x"), at(y2, "a/x")
			if ux == nil && vx == nil {
				n.l[1] = nil
			} else if ux != nil && vx != nil && shallowEq(ux, vx) && !isUnsync(ux) {
				n.l[1] = shallow(ux)
			}
		}
	}
	return n, ""
}

// historyLeg explores all histories to closure (or to the depth cap).
func historyLeg(r *vr.Report, m core.SynchronizationMode, protectAlpha, protectBeta bool, maxDepth int) {
	alphabet := slotAlphabet()
	init := hstate{a: nil, x: withSlot(nil), y: withSlot(nil)}
	seen := map[string]bool{init.key(): true}
	type node struct {
		s    hstate
		path []histEvent
	}
	frontier := []node{{init, nil}}
	states, transitions, cycles := 1, 0, 0
	depth := 0
	for len(frontier) > 0 && depth < maxDepth {
		var next []node
		for _, nd := range frontier {
			push := func(s hstate, ev histEvent) {
				transitions++
				k := s.key()
				if !seen[k] {
					seen[k] = true
					states++
					np := append(append([]histEvent{}, nd.path...), ev)
					next = append(next, node{s, np})
				}
			}
			for _, v := range alphabet {
				if !deepEq(at(nd.s.x, "a"), v) {
					push(hstate{nd.s.a, withSlot(v), nd.s.y, nd.s.l}, histEvent{"alpha", show(v)})
				}
				if !deepEq(at(nd.s.y, "a"), v) {
					push(hstate{nd.s.a, nd.s.x, withSlot(v), nd.s.l}, histEvent{"beta", show(v)})
				}
			}
			s2, what := stepCycle(nd.s, m, protectAlpha, protectBeta)
			cycles++
			if what != "" {
				hist := append(append([]histEvent{}, nd.path...), histEvent{Kind: "cycle"})
				var parts []string
				for _, e := range hist {
					parts = append(parts, e.Kind+"="+e.Value)
				}
				key := "history:" + modeName(m) + ":" + strings.Join(parts, ";")
				s := nd.s
				r.Violate(key, what, map[string]interface{}{"mode": modeName(m), "history": hist, "state": s.key()}, func() bool {
					_, w := stepCycle(s, m, protectAlpha, protectBeta)
					return w != ""
				})
				continue
			}
			push(s2, histEvent{Kind: "cycle"})
		}
		frontier = next
		depth++
	}
	if len(frontier) > 0 {
		r.NotExhaustive(fmt.Sprintf("history leg (%s) stopped at depth %d with %d frontier states", modeName(m), depth, len(frontier)))
	}
	r.Add("history_states", int64(states))
	r.Add("history_transitions", int64(transitions))
	r.Add("history_cycles_on_real_code", int64(cycles))
	r.Set("history_depth_"+modeName(m), depth)
	keys := make([]string, 0, 3)
	for k := range seen {
		keys = append(keys, k)
		if len(keys) == 3 {
			break
		}
	}
	sort.Strings(keys)
	r.Sample(map[string]interface{}{"history_leg_state_examples": keys, "mode": modeName(m)})
}
