//go:build verif

package recon

import (
	"encoding/json"
	"fmt"
	"testing"

	"github.com/mutagen-io/mutagen/pkg/synchronization/core"

	"verif/internal/vr"
)

// ---- C05: saved state valid and faithful under any transition outcome ----

// subtrees returns every "prefix-closed sub-tree" of t: nil, t itself for
// scalars, and for a directory the directory holding any subset of its
// children, each child replaced by one of its own non-nil sub-trees. This is
// what an endpoint can report after a partial creation (sub-tree of New) or a
// partial removal (sub-tree of Old).
func subtrees(t *E) []*E {
	if t == nil {
		return []*E{nil}
	}
	if t.Kind != core.EntryKind_Directory {
		return []*E{nil, t}
	}
	out := []*E{nil}
	names := []string{}
	for n := range t.Contents {
		names = append(names, n)
	}
	// deterministic order
	for i := 0; i < len(names); i++ {
		for j := i + 1; j < len(names); j++ {
			if names[j] < names[i] {
				names[i], names[j] = names[j], names[i]
			}
		}
	}
	partial := []*E{{Kind: core.EntryKind_Directory}}
	for _, n := range names {
		var next []*E
		for _, p := range partial {
			next = append(next, p) // child absent
			for _, s := range subtrees(t.Contents[n]) {
				if s == nil {
					continue
				}
				c := &E{Kind: core.EntryKind_Directory, Contents: map[string]*E{}}
				for k, v := range p.Contents {
					c.Contents[k] = v
				}
				c.Contents[n] = s
				next = append(next, c)
			}
		}
		partial = next
	}
	return append(out, partial...)
}

func outcomesFor(c *core.Change) []*E {
	var out []*E
	seen := map[string]bool{}
	add := func(e *E) {
		k := show(e)
		if !seen[k] {
			seen[k] = true
			out = append(out, e)
		}
	}
	add(c.New)
	add(c.Old)
	add(nil)
	for _, s := range subtrees(c.Old) {
		add(s)
	}
	for _, s := range subtrees(c.New) {
		add(s)
	}
	return out
}

type c05case struct {
	Triple
	AlphaErr bool     `json:"alpha_errored"`
	BetaErr  bool     `json:"beta_errored"`
	Results  []string `json:"results"` // per change (alpha changes then beta changes), show() form
}

// applyOutcome runs the controller's recipe for one outcome vector.
func applyOutcome(a *E, p Plan, res []*E, alphaErr, betaErr bool) string {
	anc := append([]*core.Change{}, p.Anc...)
	k := 0
	type want struct {
		path string
		e    *E
	}
	var wants []want
	for _, c := range p.Alpha {
		if !alphaErr {
			anc = append(anc, &core.Change{Path: c.Path, New: res[k]})
			wants = append(wants, want{c.Path, res[k]})
		}
		k++
	}
	for _, c := range p.Beta {
		if !betaErr {
			anc = append(anc, &core.Change{Path: c.Path, New: res[k]})
			wants = append(wants, want{c.Path, res[k]})
		}
		k++
	}
	a2, err := core.Apply(a, anc)
	if err != nil {
		return "updating the last-synchronized state failed: " + err.Error()
	}
	if err := a2.EnsureValid(true); err != nil {
		return "updated last-synchronized state is invalid: " + err.Error()
	}
	if hasUnsync(a2) {
		return "updated last-synchronized state contains unsynchronizable content: " + show(a2)
	}
	for _, w := range wants {
		if got := at(a2, w.path); !deepEq(got, w.e) {
			return fmt.Sprintf("last-synchronized state records %s at %q but the endpoint reported %s", show(got), w.path, show(w.e))
		}
	}
	return ""
}

func TestC05(t *testing.T) {
	r := vr.New(t, "C05", "fault_enumeration")
	defer r.Finish()
	if raw := vr.ReplayCase(); raw != nil {
		var oc c05orderCase
		if json.Unmarshal(raw, &oc) == nil && oc.Leg == "prefix-order" {
			what := replayOrderC05(oc)
			t.Logf("replay %+v verdict %q", oc, what)
			r.Case(vr.J(oc), true)
			if what != "" {
				r.Violate(vr.J(oc), what, oc, nil)
			}
			return
		}
		var c c05case
		json.Unmarshal(raw, &c)
		a, x, y, m := parse(c.Ancestor), parse(c.Alpha), parse(c.Beta), modeByName(c.Mode)
		p := reconcile(a, x, y, m)
		var res []*E
		for _, s := range c.Results {
			res = append(res, parse(s))
		}
		what := applyOutcome(a, p, res, c.AlphaErr, c.BetaErr)
		t.Logf("replay %+v verdict %q", c, what)
		r.Case(vr.J(c), true)
		if what != "" {
			r.Violate(vr.J(c), what, c, nil)
		}
		return
	}
	// S2 in both tiers: a result directory must be able to land on a path where the
	// last-synchronized state already holds a differently populated directory.
	u := universeS2()
	maxChanges := 1
	if vr.Thorough() {
		maxChanges = 3
	}
	r.Rule(fmt.Sprintf("every triple of universe %s x 4 modes whose plan (real Reconcile) has 1..%d endpoint changes x every outcome vector assigning each change one result from {New, Old, nil, every prefix-closed sub-tree of Old, every prefix-closed sub-tree of New} x {both endpoints reported, alpha errored (results dropped), beta errored}; the controller's recipe (ancestor changes, then alpha results, then beta results, real core.Apply, EnsureValid(true)) is run on each; each vector is visited once; non-trivial = at least one result differs from New", u.Name, maxChanges))
	r.Assume("results are sub-trees of what the plan named (what Transition can report); arbitrary foreign content in results is outside the fault model",
		"plans with more endpoint changes than the bound are skipped and counted (skipped_plans)")
	var skipped int64
	vr.Parallel(len(u.Ancestors), func(i int) {
		l := r.Local()
		defer l.Flush()
		a := clone(u.Ancestors[i])
		eps := make([]*E, len(u.Endpoints))
		for k, e := range u.Endpoints {
			eps[k] = clone(e)
		}
		var sk int64
		for _, x := range eps {
			for _, y := range eps {
				for _, m := range allModes {
					p := reconcile(a, x, y, m)
					n := len(p.Alpha) + len(p.Beta)
					if n == 0 {
						continue
					}
					if n > maxChanges {
						sk++
						continue
					}
					var opts [][]*E
					for _, c := range p.Alpha {
						opts = append(opts, outcomesFor(c))
					}
					for _, c := range p.Beta {
						opts = append(opts, outcomesFor(c))
					}
					idx := make([]int, n)
					res := make([]*E, n)
					for {
						allNew := true
						for k := range idx {
							res[k] = opts[k][idx[k]]
							if idx[k] != 0 {
								allNew = false
							}
						}
						for _, errs := range [][2]bool{{false, false}, {true, false}, {false, true}} {
							if (errs[0] && len(p.Alpha) == 0) || (errs[1] && len(p.Beta) == 0) {
								continue
							}
							l.CaseOnce(!allNew || errs[0] || errs[1])
							if what := applyOutcome(a, p, res, errs[0], errs[1]); what != "" {
								l.Outcome("violation")
								c := c05case{Triple: Triple{u.Name, show(a), show(x), show(y), modeName(m)}, AlphaErr: errs[0], BetaErr: errs[1]}
								for _, e := range res {
									c.Results = append(c.Results, show(e))
								}
								resCopy := append([]*E{}, res...)
								r.Violate(vr.J(c), what, c, func() bool { return applyOutcome(a, reconcile(a, x, y, m), resCopy, errs[0], errs[1]) != "" })
							} else {
								l.Outcome("valid")
							}
						}
						k := n - 1
						for k >= 0 {
							idx[k]++
							if idx[k] < len(opts[k]) {
								break
							}
							idx[k] = 0
							k--
						}
						if k < 0 {
							break
						}
					}
				}
			}
		}
		r.Add("skipped_plans", sk)
		_ = skipped
	})
	r.Sample(c05case{Triple: Triple{u.Name, "D{a:D{x:F1}}", "D{a:D{x:F1},b:F2}", "D{}", "two-way-safe"}, Results: []string{"D{}", "F2"}})
	prefixOrderLegC05(r)
}

// ---- C07: Diff / Apply / Copy / filter / Count consistency ----

func countSync(e *E) uint64 {
	if e == nil || isUnsync(e) {
		return 0
	}
	n := uint64(1)
	for _, c := range e.Contents {
		n += countSync(c)
	}
	return n
}

// mutations returns closures that each mutate tree t in one place (delete or
// replace a child at every directory position, flip a scalar's fields).
func mutatePositions(t *E) []func() {
	var out []func()
	var rec func(e *E)
	rec = func(e *E) {
		if e == nil {
			return
		}
		e0 := e
		out = append(out, func() { e0.Executable = !e0.Executable })
		out = append(out, func() { e0.Target = e0.Target + "!" })
		if len(e0.Digest) > 0 {
			// (digest byte slices are treated as immutable values; replace, never scribble)
			out = append(out, func() { e0.Digest = []byte{42} })
		}
		for n, c := range e.Contents {
			n := n
			out = append(out, func() { delete(e0.Contents, n) })
			out = append(out, func() { e0.Contents[n] = link("mutated") })
			rec(c)
		}
		if e.Kind == core.EntryKind_Directory || e.Kind == core.EntryKind_PhantomDirectory {
			out = append(out, func() {
				if e0.Contents == nil {
					e0.Contents = map[string]*E{}
				}
				e0.Contents["zz"] = file(9, false)
			})
		}
	}
	rec(t)
	return out
}

func c07universe(thorough bool) []*E {
	// S2 (two levels) in both tiers: copy-independence needs grandchildren.
	base := universeS2()
	trees := append([]*E{}, base.Endpoints...)
	if thorough {
		trees = append(trees, universeS3().Endpoints...)
	}
	// Phantom-directory variants of every directory tree (the + in S1+/S2+).
	for _, t := range base.Endpoints {
		if t != nil && t.Kind == core.EntryKind_Directory {
			p := clone(t)
			p.Kind = core.EntryKind_PhantomDirectory
			trees = append(trees, p)
			if len(t.Contents) > 0 {
				q := clone(t)
				for _, c := range q.Contents {
					if c.Kind == core.EntryKind_Directory {
						c.Kind = core.EntryKind_PhantomDirectory
					}
				}
				if !deepEq(q, t) {
					trees = append(trees, q)
				}
			}
		}
	}
	// Variants whose problematic entries carry another message (same kind, same position).
	var hasP func(e *E) bool
	hasP = func(e *E) bool {
		if e == nil {
			return false
		}
		if e.Kind == core.EntryKind_Problematic {
			return true
		}
		for _, c := range e.Contents {
			if hasP(c) {
				return true
			}
		}
		return false
	}
	var retitle func(e *E)
	retitle = func(e *E) {
		if e.Kind == core.EntryKind_Problematic {
			e.Problem = "q"
		}
		for _, c := range e.Contents {
			retitle(c)
		}
	}
	for _, t := range base.Endpoints {
		if hasP(t) {
			q := clone(t)
			retitle(q)
			trees = append(trees, q)
		}
	}
	// An executable file so Copy/Equal see the bit.
	trees = append(trees, dir("a", file(1, true)), file(1, true))
	return trees
}

func checkPairC07(x, y *E) string {
	// "Applying the difference between two valid trees to the first yields the second"
	d := core.Diff(x, y)
	got, err := core.Apply(x, d)
	if err != nil {
		return "Apply(X, Diff(X,Y)) failed: " + err.Error()
	}
	if !deepEq(got, y) {
		return fmt.Sprintf("Apply(X, Diff(X,Y)) = %s, want %s", show(got), show(y))
	}
	if !got.Equal(y, true) {
		return "Entry.Equal(deep) disagrees with structural equality on Apply result"
	}
	if x.Equal(y, true) != deepEq(x, y) {
		return fmt.Sprintf("Entry.Equal(deep) = %v but structural equality = %v", x.Equal(y, true), deepEq(x, y))
	}
	if x.Equal(y, false) != shallowEq(x, y) {
		return fmt.Sprintf("Entry.Equal(shallow) = %v but structural shallow equality = %v", x.Equal(y, false), shallowEq(x, y))
	}
	return ""
}

func checkSingleC07(x *E) string {
	// "the difference between a tree and itself is empty"
	if d := core.Diff(x, x); len(d) != 0 {
		return fmt.Sprintf("Diff(X,X) has %d changes", len(d))
	}
	if d := core.Diff(x, clone(x)); len(d) != 0 {
		return fmt.Sprintf("Diff(X, copy of X) has %d changes", len(d))
	}
	// "filtering a tree to its synchronizable part removes exactly the untracked, problematic and phantom sub-trees"
	if got, want := core.VerifSynchronizable(x), syncFilter(x); !deepEq(got, want) {
		return fmt.Sprintf("synchronizable part = %s, want %s", show(got), show(want))
	}
	// "entry counts equal the number of synchronizable entries"
	if got, want := x.Count(), countSync(x); got != want {
		return fmt.Sprintf("Count = %d, want %d", got, want)
	}
	// "Copies of a tree compare equal to it and are unaffected by later changes to the original"
	for _, b := range []core.EntryCopyBehavior{core.EntryCopyBehaviorDeep, core.EntryCopyBehaviorDeepPreservingLeaves, core.EntryCopyBehaviorShallow, core.EntryCopyBehaviorSlim} {
		c := x.Copy(b)
		switch b {
		case core.EntryCopyBehaviorSlim:
			if !shallowEq(c, x) || (c != nil && c.Contents != nil) {
				return fmt.Sprintf("slim copy is %s for %s", show(c), show(x))
			}
		default:
			if !deepEq(c, x) {
				return fmt.Sprintf("copy(%d) = %s differs from original %s", b, show(c), show(x))
			}
		}
	}
	if x == nil {
		return ""
	}
	// Independence of deep copies under every single-position mutation of the original.
	n := len(mutatePositions(clone(x)))
	for i := 0; i < n; i++ {
		orig := clone(x)
		pristine := clone(x)
		cp := orig.Copy(core.EntryCopyBehaviorDeep)
		mutatePositions(orig)[i]()
		if !deepEq(cp, pristine) {
			return fmt.Sprintf("deep copy of %s changed to %s after mutation #%d of the original", show(pristine), show(cp), i)
		}
		// DeepPreservingLeaves promises independent directory structure: mutations of
		// directory maps in the original must not show through.
		orig2 := clone(x)
		cp2 := orig2.Copy(core.EntryCopyBehaviorDeepPreservingLeaves)
		// only directory-map mutations (delete / replace child / add child) are covered by its contract
		structural := structuralMutations(orig2)
		for _, m := range structural {
			m()
		}
		if len(structural) > 0 && !deepEq(cp2, pristine) {
			return fmt.Sprintf("deep-preserving-leaves copy of %s changed to %s after directory mutations of the original", show(pristine), show(cp2))
		}
	}
	return ""
}

// structuralMutations mutates only directory content maps (never leaf fields).
func structuralMutations(t *E) []func() {
	var out []func()
	var rec func(e *E)
	rec = func(e *E) {
		if e == nil {
			return
		}
		e0 := e
		if e.Kind == core.EntryKind_Directory || e.Kind == core.EntryKind_PhantomDirectory {
			for n, c := range e.Contents {
				n := n
				rec(c)
				out = append(out, func() { delete(e0.Contents, n) })
			}
			out = append(out, func() {
				if e0.Contents == nil {
					e0.Contents = map[string]*E{}
				}
				e0.Contents["zz"] = file(9, false)
			})
		}
	}
	rec(t)
	return out
}

type c07case struct {
	X string `json:"x"`
	Y string `json:"y,omitempty"`
}

func TestC07(t *testing.T) {
	r := vr.New(t, "C07", "exploration")
	defer r.Finish()
	if raw := vr.ReplayCase(); raw != nil {
		var c c07case
		json.Unmarshal(raw, &c)
		var what string
		if c.Y == "" {
			what = checkSingleC07(parse(c.X))
		} else {
			what = checkPairC07(parse(c.X), parse(c.Y))
		}
		t.Logf("replay %+v verdict %q", c, what)
		r.Case(vr.J(c), true)
		if what != "" {
			r.Violate(vr.J(c), what, c, nil)
		}
		return
	}
	trees := c07universe(vr.Thorough())
	r.Rule(fmt.Sprintf("all ordered pairs of %d trees (endpoint universe S1 quick / S2 thorough, extended with phantom-directory variants and an executable file): Apply(X,Diff(X,Y))==Y, Equal vs structural equality; per tree: Diff(X,X) empty, every Copy behaviour, independence of copies under every single-position mutation of the original, synchronizable filter (core.VerifSynchronizable) vs independent filter, Count vs independent count; non-trivial pair = X and Y differ; each pair visited once", len(trees)))
	r.Assume("tree shapes bounded as stated; random larger trees are outside the bound")
	vr.Parallel(len(trees), func(i int) {
		l := r.Local()
		defer l.Flush()
		x := trees[i]
		if what := checkSingleC07(x); what != "" {
			c := c07case{X: show(x)}
			r.Violate(vr.J(c), what, c, func() bool { return checkSingleC07(parse(show(x))) != "" })
		}
		l.CaseOnce(x != nil)
		for _, y := range trees {
			what := checkPairC07(x, y)
			l.CaseOnce(!deepEq(x, y))
			if what != "" {
				c := c07case{show(x), show(y)}
				l.Outcome("violation")
				r.Violate(vr.J(c), what, c, func() bool { return checkPairC07(parse(show(x)), parse(show(y))) != "" })
			} else if deepEq(x, y) {
				l.Outcome("equal")
			} else {
				l.Outcome("differ")
			}
		}
	})
	r.Sample(c07case{"D{a:Ph{x:F1},b:U}", "D{a:D{x:F2}}"})
	r.Sample(c07case{X: "D{a:D{x:P},b:F1x}"})
}
