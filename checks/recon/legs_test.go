//go:build verif

package recon

import (
	"bytes"
	"context"
	"crypto/sha1"
	"fmt"
	"io"
	"os"
	"path/filepath"
	"sort"
	"strings"
	"syscall"
	"testing"

	"github.com/mutagen-io/mutagen/pkg/filesystem"
	"github.com/mutagen-io/mutagen/pkg/filesystem/behavior"
	"github.com/mutagen-io/mutagen/pkg/logging"
	"github.com/mutagen-io/mutagen/pkg/synchronization"
	"github.com/mutagen-io/mutagen/pkg/synchronization/core"
	mutagenignore "github.com/mutagen-io/mutagen/pkg/synchronization/core/ignore/mutagen"
	"github.com/mutagen-io/mutagen/pkg/synchronization/endpoint/local"

	"verif/internal/vr"
)

// diskSnapshot is an independent lstat/readlink/bytes walk of a directory.
func diskSnapshot(root string) map[string]string {
	out := map[string]string{}
	filepath.Walk(root, func(p string, info os.FileInfo, err error) error {
		if err != nil {
			return nil
		}
		rel, _ := filepath.Rel(root, p)
		st := info.Sys().(*syscall.Stat_t)
		desc := fmt.Sprintf("mode=%v ino=%d", info.Mode(), st.Ino)
		switch {
		case info.Mode()&os.ModeSymlink != 0:
			t, _ := os.Readlink(p)
			desc += " -> " + t
		case info.Mode().IsRegular():
			b, _ := os.ReadFile(p)
			desc += fmt.Sprintf(" sha=%x", sha1.Sum(b))
		}
		out[rel] = desc
		return nil
	})
	return out
}

func snapshotDiff(a, b map[string]string) string {
	var d []string
	for k, v := range a {
		if w, ok := b[k]; !ok {
			d = append(d, "removed "+k)
		} else if w != v {
			d = append(d, "changed "+k)
		}
	}
	for k := range b {
		if _, ok := a[k]; !ok {
			d = append(d, "added "+k)
		}
	}
	sort.Strings(d)
	return strings.Join(d, ", ")
}

// endpointLegC02: "the source (alpha) endpoint is never modified ... through its
// endpoint accepting staging or transition requests".
func endpointLegC02(t *testing.T, r *vr.Report) {
	data := t.TempDir()
	t.Setenv("MUTAGEN_DATA_DIRECTORY", data)
	logger := logging.NewLogger(logging.LevelDisabled, io.Discard)
	ops := []string{"stage-one", "stage-none", "transition-create", "transition-delete"}
	n := 0
	for _, m := range allModes {
		for _, alpha := range []bool{true, false} {
			for _, op := range ops {
				n++
				root := filepath.Join(t.TempDir(), "root")
				os.MkdirAll(root, 0o755)
				os.WriteFile(filepath.Join(root, "f"), []byte("content-f"), 0o644)
				cfg := &synchronization.Configuration{SynchronizationMode: m, WatchMode: synchronization.WatchMode_WatchModeNoWatch}
				ep, err := local.NewEndpoint(logger, root, fmt.Sprintf("sync_verifC02%04d", n), synchronization.Version_Version1, cfg, alpha)
				if err != nil {
					t.Fatalf("INFRA: NewEndpoint: %v", err)
				}
				snap, err, _ := ep.Scan(context.Background(), nil, true)
				if err != nil {
					ep.Shutdown()
					t.Fatalf("INFRA: Scan: %v", err)
				}
				before := diskSnapshot(root)
				var opErr error
				digest := sha1.Sum([]byte("new"))
				switch op {
				case "stage-one":
					_, _, rc, e := ep.Stage([]string{"g"}, [][]byte{digest[:]})
					opErr = e
					_ = rc
				case "stage-none":
					_, _, _, opErr = ep.Stage(nil, nil)
				case "transition-create":
					_, _, _, opErr = ep.Transition(context.Background(), []*core.Change{{Path: "d", New: &E{Kind: core.EntryKind_Directory}}})
				case "transition-delete":
					_, _, _, opErr = ep.Transition(context.Background(), []*core.Change{{Path: "f", Old: snap.Content.Contents["f"]}})
				}
				after := diskSnapshot(root)
				ep.Shutdown()
				readOnly := alpha && (m == core.SynchronizationMode_SynchronizationModeOneWaySafe || m == core.SynchronizationMode_SynchronizationModeOneWayReplica)
				key := fmt.Sprintf("endpoint:%s:alpha=%v:%s", modeName(m), alpha, op)
				r.Case(key, true)
				if readOnly {
					r.Outcome("endpoint-leg-readonly")
					if opErr == nil && op != "stage-none" {
						r.Violate(key, "alpha endpoint of a one-way session accepted "+op, map[string]interface{}{"mode": modeName(m), "alpha": alpha, "op": op}, nil)
					}
					if d := snapshotDiff(before, after); d != "" {
						r.Violate(key+":disk", "alpha root of a one-way session was modified by "+op+": "+d, map[string]interface{}{"mode": modeName(m), "alpha": alpha, "op": op}, nil)
					}
				} else {
					if opErr == nil {
						r.Outcome("endpoint-leg-writable-accepted")
					} else {
						r.Outcome("endpoint-leg-writable-refused")
					}
					// Vacuity guard for the leg: the same requests DO modify a writable endpoint.
					if op == "transition-delete" && opErr == nil && snapshotDiff(before, after) == "" {
						r.Set("endpoint_leg_anomaly", "transition-delete left a writable root unchanged")
					}
				}
			}
		}
	}
	r.Set("endpoint_leg_cases", n)
}

type dirProvider struct{ dir string }

func (p *dirProvider) Provide(path string, digest []byte) (string, error) {
	return filepath.Join(p.dir, fmt.Sprintf("%x", digest)), nil
}

// diskLegC03: real directories that hold ignored files, FIFOs and non-UTF-8 names
// while a plan wants to delete or replace the directory (or a parent).
func diskLegC03(t *testing.T, r *vr.Report) {
	objects := []string{"ignored-file", "fifo", "non-utf8", "ignored-dir-with-file"}
	places := []string{"d", "d/sub"}
	plans := []string{"remove", "to-file", "to-link"}
	ign, err := mutagenignore.NewIgnorer([]string{"ign*"})
	if err != nil {
		t.Fatalf("INFRA: %v", err)
	}
	n := 0
	for _, obj := range objects {
		for _, place := range places {
			for _, plan := range plans {
				for _, fresh := range []bool{false, true} {
					n++
					root := filepath.Join(t.TempDir(), "root")
					stage := t.TempDir()
					os.MkdirAll(filepath.Join(root, "d", "sub"), 0o755)
					os.WriteFile(filepath.Join(root, "d", "f"), []byte("tracked-f"), 0o644)
					os.WriteFile(filepath.Join(root, "d", "sub", "g"), []byte("tracked-g"), 0o644)
					mk := func() []string {
						base := filepath.Join(root, place)
						switch obj {
						case "ignored-file":
							os.WriteFile(filepath.Join(base, "ignored.txt"), []byte("precious"), 0o644)
							return []string{filepath.Join(place, "ignored.txt")}
						case "fifo":
							syscall.Mkfifo(filepath.Join(base, "pipe"), 0o644)
							return []string{filepath.Join(place, "pipe")}
						case "non-utf8":
							os.WriteFile(filepath.Join(base, "bad\xffname"), []byte("precious"), 0o644)
							return []string{filepath.Join(place, "bad\xffname")}
						default:
							os.MkdirAll(filepath.Join(base, "ignoreddir"), 0o755)
							os.WriteFile(filepath.Join(base, "ignoreddir", "k"), []byte("precious"), 0o644)
							return []string{filepath.Join(place, "ignoreddir"), filepath.Join(place, "ignoreddir", "k")}
						}
					}
					var precious []string
					if !fresh {
						precious = mk() // present at scan time (shows up as untracked/problematic)
					}
					snap, cache, _, err := core.Scan(context.Background(), root, nil, nil, sha1.New(), &core.Cache{}, ign, nil,
						behavior.ProbeMode_ProbeModeProbe, core.SymbolicLinkMode_SymbolicLinkModePortable, core.PermissionsMode_PermissionsModePortable)
					if err != nil {
						t.Fatalf("INFRA: scan: %v", err)
					}
					if fresh {
						precious = mk() // appears between scan and transition
					}
					old := syncFilter(snap.Content.Contents["d"])
					var nw *E
					switch plan {
					case "to-file":
						data := []byte("replacement")
						sum := sha1.Sum(data)
						os.WriteFile(filepath.Join(stage, fmt.Sprintf("%x", sum[:])), data, 0o600)
						nw = &E{Kind: core.EntryKind_File, Digest: sum[:]}
					case "to-link":
						nw = &E{Kind: core.EntryKind_SymbolicLink, Target: "elsewhere"}
					}
					before := diskSnapshot(root)
					results, problems, _ := core.Transition(context.Background(), root, []*core.Change{{Path: "d", Old: old, New: nw}}, cache,
						core.SymbolicLinkMode_SymbolicLinkModePortable, filesystem.ModePermissionUserRead|filesystem.ModePermissionUserWrite,
						filesystem.ModePermissionUserRead|filesystem.ModePermissionUserWrite|filesystem.ModePermissionUserExecute, nil, false, &dirProvider{stage})
					after := diskSnapshot(root)
					key := fmt.Sprintf("disk:%s:%s:%s:fresh=%v", obj, place, plan, fresh)
					r.Case(key, true)
					c := map[string]interface{}{"object": obj, "place": place, "plan": plan, "appeared_after_scan": fresh}
					for _, p := range precious {
						if before[p] == "" {
							t.Fatalf("INFRA: fixture %q missing before transition", p)
						}
						if after[p] != before[p] {
							r.Violate(key, fmt.Sprintf("untracked object %q was %s by the transition (before %q, after %q)", p, map[bool]string{true: "removed", false: "replaced/modified"}[after[p] == ""], before[p], after[p]), c, nil)
						}
					}
					if len(problems) == 0 {
						r.Violate(key+":silent", "transition over a directory holding untracked content reported no problem", c, nil)
					}
					if len(results) == 1 && results[0] != nil && bytes.Equal(results[0].Digest, nw.GetDigest()) && nw != nil && nw.Kind == core.EntryKind_File {
						r.Violate(key+":replaced", "transition reports the directory was replaced although it held untracked content", c, nil)
					}
					r.Outcome(fmt.Sprintf("disk-leg-problems=%v", len(problems) > 0))
				}
			}
		}
	}
	r.Set("disk_leg_cases", n)
	r.Sample(map[string]interface{}{"disk_leg": "root/d{f,sub{g}} + FIFO in d/sub appearing after the scan; plan: replace d by a file"})
}
