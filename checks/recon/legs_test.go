//go:build verif

package recon

import (
	"testing"

	"verif/internal/vr"
)

func endpointLegC02(t *testing.T, r *vr.Report) {}
func diskLegC03(t *testing.T, r *vr.Report)     {}
