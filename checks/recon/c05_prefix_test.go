//go:build verif

package recon

import (
	"fmt"
	"sort"
	"strings"

	"github.com/mutagen-io/mutagen/pkg/synchronization/core"

	"verif/internal/vr"
)

// Prefix-name / change-order leg of C05.
//
// The controller folds three blocks of changes into the saved state with one
// core.Apply call: Reconcile's ancestor changes, alpha's reported results, beta's
// reported results. Inside each block the order is whatever Reconcile's
// traversal produced, and Reconcile iterates Go maps: every permutation inside
// a block is a realizable order. The main C05 enumeration visits one order per
// plan and uses one-letter names; this leg owns the order and uses names that
// are string prefixes of each other ("a", "ab", "a.b", "a-b") next to a
// directory "a" that itself receives nested changes, so that any path
// arithmetic done on strings instead of components is exercised.

type c05orderCase struct {
	Triple
	Leg     string   `json:"leg"`     // "prefix-order"
	Results []string `json:"results"` // per endpoint change in canonical (path-sorted) order: alpha changes then beta changes
	Order   []int    `json:"order"`   // permutation of the canonical combined list (anc sorted, alpha sorted, beta sorted), block-preserving
}

func prefixTrees() []*E {
	aOpts := []*E{nil, dir(), dir("x", file(1, false)), dir("x", file(2, false))}
	sOpts := []*E{nil, file(1, false), file(2, false)}
	var out []*E
	for _, a := range aOpts {
		for _, ab := range sOpts {
			for _, adot := range sOpts {
				for _, adash := range []*E{nil} {
					r := dir()
					put := func(n string, e *E) {
						if e != nil {
							if r.Contents == nil {
								r.Contents = map[string]*E{}
							}
							r.Contents[n] = clone(e)
						}
					}
					put("a", a)
					put("ab", ab)
					put("a.b", adot)
					put("a-b", adash)
					out = append(out, r)
				}
			}
		}
	}
	return out
}

func sortedChanges(cs []*core.Change) []*core.Change {
	out := append([]*core.Change{}, cs...)
	sort.SliceStable(out, func(i, j int) bool { return out[i].Path < out[j].Path })
	return out
}

// permutations of 0..n-1.
func perms(n int) [][]int {
	if n == 0 {
		return [][]int{{}}
	}
	var out [][]int
	for _, p := range perms(n - 1) {
		for pos := 0; pos <= len(p); pos++ {
			q := append(append(append([]int{}, p[:pos]...), n-1), p[pos:]...)
			out = append(out, q)
		}
	}
	return out
}

// blockOrders returns every order of the combined list that permutes inside
// the three blocks only.
func blockOrders(na, nx, ny int) [][]int {
	var out [][]int
	for _, pa := range perms(na) {
		for _, px := range perms(nx) {
			for _, py := range perms(ny) {
				o := make([]int, 0, na+nx+ny)
				for _, i := range pa {
					o = append(o, i)
				}
				for _, i := range px {
					o = append(o, na+i)
				}
				for _, i := range py {
					o = append(o, na+nx+i)
				}
				out = append(out, o)
			}
		}
	}
	return out
}

// runOrder applies the canonical combined list in the given order and judges the result.
func runOrder(a *E, anc, al, be []*core.Change, res []*E, order []int) (string, *E) {
	var list []*core.Change
	list = append(list, anc...)
	k := 0
	type want struct {
		path string
		e    *E
	}
	var wants []want
	for _, c := range al {
		list = append(list, &core.Change{Path: c.Path, New: res[k]})
		wants = append(wants, want{c.Path, res[k]})
		k++
	}
	for _, c := range be {
		list = append(list, &core.Change{Path: c.Path, New: res[k]})
		wants = append(wants, want{c.Path, res[k]})
		k++
	}
	ordered := make([]*core.Change, len(list))
	for i, j := range order {
		ordered[i] = list[j]
	}
	a2, err := core.Apply(a, ordered)
	if err != nil {
		return "updating the last-synchronized state failed: " + err.Error(), nil
	}
	if err := a2.EnsureValid(true); err != nil {
		return "updated last-synchronized state is invalid: " + err.Error(), nil
	}
	for _, w := range wants {
		if got := at(a2, w.path); !deepEq(got, w.e) {
			return fmt.Sprintf("last-synchronized state records %s at %q but the endpoint reported %s", show(got), w.path, show(w.e)), nil
		}
	}
	// Reference model: the same list applied by the harness's own component-wise walk.
	if ref := refApply(a, ordered); !deepEq(ref, a2) {
		return fmt.Sprintf("core.Apply gives %s, applying the same change list component by component gives %s", show(a2), show(ref)), nil
	}
	return "", a2
}

// refApply is the boring reference: split the path into components, walk, set or delete.
func refApply(base *E, list []*core.Change) *E {
	res := clone(base)
	for _, c := range list {
		if c.Path == "" {
			res = clone(c.New)
			continue
		}
		comps := strings.Split(c.Path, "/")
		parent := res
		for _, n := range comps[:len(comps)-1] {
			if parent == nil {
				break
			}
			parent = parent.Contents[n]
		}
		if parent == nil {
			return nil
		}
		leaf := comps[len(comps)-1]
		if c.New == nil {
			delete(parent.Contents, leaf)
		} else {
			if parent.Contents == nil {
				parent.Contents = map[string]*E{}
			}
			parent.Contents[leaf] = clone(c.New)
		}
	}
	return res
}

// orderKeepsRelated reports whether the order keeps the canonical relative order of every
// pair of changes whose paths are related (equal, or one below the other): Reconcile emits a
// parent before its descendants, only unrelated (sibling) changes come in map order.
func orderKeepsRelated(paths []string, order []int) bool {
	pos := make([]int, len(order))
	for i, j := range order {
		pos[j] = i
	}
	for i := range paths {
		for j := i + 1; j < len(paths); j++ {
			if pathsRelated(paths[i], paths[j]) && pos[i] > pos[j] {
				return false
			}
		}
	}
	return true
}

func replayOrderC05(c c05orderCase) string {
	a, x, y, m := parse(c.Ancestor), parse(c.Alpha), parse(c.Beta), modeByName(c.Mode)
	p := reconcile(a, x, y, m)
	anc, al, be := sortedChanges(p.Anc), sortedChanges(p.Alpha), sortedChanges(p.Beta)
	var res []*E
	for _, s := range c.Results {
		res = append(res, parse(s))
	}
	if len(res) != len(al)+len(be) || len(c.Order) != len(anc)+len(al)+len(be) {
		return "INFRA: replay case does not match the plan"
	}
	what, a2 := runOrder(a, anc, al, be, res, c.Order)
	if what != "" {
		return what
	}
	ident := make([]int, len(c.Order))
	for i := range ident {
		ident[i] = i
	}
	_, ref := runOrder(a, anc, al, be, res, ident)
	if ref != nil && !deepEq(ref, a2) {
		return fmt.Sprintf("saved state depends on the order of the change list: %s vs %s", show(a2), show(ref))
	}
	return ""
}

func prefixOrderLegC05(r *vr.Report) {
	trees := prefixTrees()
	const maxList = 4
	var cases, orders int64
	vr.Parallel(len(trees), func(i int) {
		l := r.Local()
		defer l.Flush()
		a := clone(trees[i])
		eps := make([]*E, len(trees))
		for k, e := range trees {
			eps[k] = clone(e)
		}
		var nc, no int64
		for _, x := range eps {
			for _, y := range eps {
				for _, m := range allModes {
					p := reconcile(a, x, y, m)
					anc, al, be := sortedChanges(p.Anc), sortedChanges(p.Alpha), sortedChanges(p.Beta)
					n := len(al) + len(be)
					total := len(anc) + n
					if total < 2 || total > maxList {
						continue
					}
					var paths []string
					for _, c := range anc {
						paths = append(paths, c.Path)
					}
					for _, c := range al {
						paths = append(paths, c.Path)
					}
					for _, c := range be {
						paths = append(paths, c.Path)
					}
					var ords [][]int
					for _, o := range blockOrders(len(anc), len(al), len(be)) {
						if orderKeepsRelated(paths, o) {
							ords = append(ords, o)
						}
					}
					if len(ords) < 2 {
						continue
					}
					// outcome vectors over {New, Old}
					for bits := 0; bits < 1<<n; bits++ {
						res := make([]*E, n)
						k := 0
						for _, c := range append(append([]*core.Change{}, al...), be...) {
							if bits>>k&1 == 0 {
								res[k] = c.New
							} else {
								res[k] = c.Old
							}
							k++
						}
						nc++
						var ref *E
						for oi, o := range ords {
							no++
							l.CaseOnce(true)
							what, a2 := runOrder(a, anc, al, be, res, o)
							if what == "" && oi == 0 {
								ref = a2
							}
							if what == "" && oi > 0 && ref != nil && !deepEq(ref, a2) {
								what = fmt.Sprintf("saved state depends on the order of the change list: %s vs %s", show(a2), show(ref))
							}
							if what != "" {
								l.Outcome("violation")
								c := c05orderCase{Triple: Triple{"SPfx", show(a), show(x), show(y), modeName(m)}, Leg: "prefix-order", Order: o}
								for _, e := range res {
									c.Results = append(c.Results, show(e))
								}
								r.Violate(vr.J(c), what, c, func() bool { return replayOrderC05(c) != "" })
							} else {
								l.Outcome("valid-any-order")
							}
						}
					}
				}
			}
		}
		r.Add("prefix_order_plans_x_outcomes", nc)
		r.Add("prefix_order_orders", no)
	})
	_ = cases
	_ = orders
	r.Set("prefix_order_leg", fmt.Sprintf("%d trees over names {a (nil|D{}|D{x:F1}|D{x:F2}), ab, a.b (nil|F1|F2)}: every (ancestor, alpha, beta) x 4 modes whose combined change list (ancestor changes + endpoint results) has 2..%d entries x outcome per endpoint change in {New, Old} x EVERY order that permutes inside the three blocks (ancestor changes | alpha results | beta results) and keeps a parent before its descendants, each judged (valid, records what was reported, equal to the harness's component-wise reference application) and compared with the first order", len(trees), maxList))
}
