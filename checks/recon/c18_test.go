//go:build verif

package recon

import (
	"encoding/json"
	"fmt"
	"testing"

	"github.com/mutagen-io/mutagen/pkg/synchronization/core"

	"verif/internal/vr"
)

// C18: executability through an endpoint that cannot store it.
//
// Explicit-state search to closure. State = (ancestor, P, N): the file slot "f"
// inside the root directory as recorded in the last-synchronized state, on the
// executability-PRESERVING endpoint P and on the NON-preserving endpoint N.
// A slot is nil or a file (digest 1|2, executable bit). On N the on-disk bit is
// always false (that is what "cannot store it" means: a scan reports false).
// Transitions:
//   user events: edit content on P / on N, chmod +x / -x on P, delete on either, create on either;
//   cycle:       exactly what the controller does in portable permission mode: the REAL
//                core.PropagateExecutability(ancestor, P, N) on N's snapshot, the REAL
//                core.Reconcile, then the plan applied exactly (files written to N lose the
//                bit on disk, the ancestor records what the transition reported = New).
// The reference model is the plain "disk" kept by the harness; every cycle
// transition executes the implementation, so every explored transition is
// validated against it.

type slot struct {
	Present bool `json:"present"`
	Digest  byte `json:"digest,omitempty"`
	Exec    bool `json:"exec,omitempty"`
}

func (s slot) entry() *E {
	if !s.Present {
		return nil
	}
	return file(s.Digest, s.Exec)
}

func slotOf(e *E) slot {
	if e == nil {
		return slot{}
	}
	return slot{true, e.Digest[0], e.Executable}
}

func (s slot) String() string { return show(s.entry()) }

type xstate struct{ A, P, N slot }

func (s xstate) key() string { return fmt.Sprintf("A=%v P=%v N=%v", s.A, s.P, s.N) }

type xevent struct {
	Kind string `json:"kind"`
	Arg  byte   `json:"arg,omitempty"`
}

func userEvents(s xstate) []struct {
	ev   xevent
	next xstate
} {
	var out []struct {
		ev   xevent
		next xstate
	}
	add := func(k string, arg byte, n xstate) {
		if n != s {
			out = append(out, struct {
				ev   xevent
				next xstate
			}{xevent{k, arg}, n})
		}
	}
	for _, d := range []byte{1, 2} {
		// content edit / creation on P keeps P's mode bit (an edit does not chmod); creation makes a non-executable file
		n := s
		n.P = slot{true, d, s.P.Present && s.P.Exec}
		add("write-P", d, n)
		n = s
		n.N = slot{true, d, false}
		add("write-N", d, n)
	}
	if s.P.Present {
		n := s
		n.P.Exec = true
		add("chmod+x-P", 0, n)
		n = s
		n.P.Exec = false
		add("chmod-x-P", 0, n)
		n = s
		n.P = slot{}
		add("delete-P", 0, n)
	}
	if s.N.Present {
		n := s
		n.N = slot{}
		add("delete-N", 0, n)
	}
	return out
}

// cycle runs one real synchronization cycle; preservingIsAlpha selects which
// endpoint is alpha. Returns the next state and a violation description.
func cycle(s xstate, m core.SynchronizationMode, preservingIsAlpha bool) (xstate, string) {
	root := func(sl slot) *E { return dir("f", sl.entry()) }
	anc := root(s.A)
	pTree, nTree := root(s.P), root(s.N)
	// Controller: the non-preserving side's snapshot gets executability propagated.
	nProp := core.PropagateExecutability(anc, pTree, nTree)
	// "the non-preserving side only ever takes its notion of executability from
	// matching content on the preserving side or in the last-synchronized state"
	if np := at(nProp, "f"); np != nil && np.Executable {
		okP := s.P.Present && s.P.Exec
		okA := s.A.Present && s.A.Exec
		if !okP && !okA {
			return s, fmt.Sprintf("non-preserving side assumed +x for %v although neither the preserving side (%v) nor the last-synchronized state (%v) has an executable file there", s.N, s.P, s.A)
		}
	}
	if np := at(nProp, "f"); (np == nil) != (!s.N.Present) || (np != nil && np.Digest[0] != s.N.Digest) {
		return s, "executability propagation changed more than the executable bit"
	}
	var p Plan
	var pChanges, nChanges []*core.Change
	if preservingIsAlpha {
		p = reconcile(anc, pTree, nProp, m)
		pChanges, nChanges = p.Alpha, p.Beta
	} else {
		p = reconcile(anc, nProp, pTree, m)
		pChanges, nChanges = p.Beta, p.Alpha
	}
	ancChanges := append([]*core.Change{}, p.Anc...)
	for _, c := range p.Alpha {
		ancChanges = append(ancChanges, &core.Change{Path: c.Path, New: c.New})
	}
	for _, c := range p.Beta {
		ancChanges = append(ancChanges, &core.Change{Path: c.Path, New: c.New})
	}
	a2, err := core.Apply(anc, ancChanges)
	if err != nil {
		return s, "ancestor update failed: " + err.Error()
	}
	p2, err1 := core.Apply(pTree, pChanges)
	n2, err2 := core.Apply(nProp, nChanges)
	if err1 != nil || err2 != nil {
		return s, fmt.Sprintf("apply failed: %v %v", err1, err2)
	}
	next := xstate{A: slotOf(at(a2, "f")), P: slotOf(at(p2, "f")), N: slotOf(at(n2, "f"))}
	next.N.Exec = false // the non-preserving filesystem drops the bit
	// "a file's executable bit on that endpoint is never changed by synchronization
	// while the file exists on both sides" - judged when the cycle did not replace P's
	// file by an unrelated one: P's own content is unchanged since the last
	// synchronization (only the other side edited), or both sides hold the same content.
	if s.P.Present && s.N.Present && next.P.Present && next.N.Present {
		pUnedited := s.A.Present && s.A.Digest == s.P.Digest
		sameContent := s.P.Digest == s.N.Digest
		if (pUnedited || sameContent) && next.P.Exec != s.P.Exec {
			return s, fmt.Sprintf("cycle changed the preserving endpoint's executable bit from %v to %v (ancestor %v, non-preserving %v)", s.P, next.P, s.A, s.N)
		}
	}
	return next, ""
}

type c18case struct {
	Mode              string   `json:"mode"`
	PreservingIsAlpha bool     `json:"preserving_is_alpha"`
	History           []xevent `json:"history"`
}

func replayC18(c c18case) (string, xstate) {
	s := xstate{}
	m := modeByName(c.Mode)
	for _, ev := range c.History {
		if ev.Kind == "cycle" {
			n, what := cycle(s, m, c.PreservingIsAlpha)
			if what != "" {
				return what, s
			}
			s = n
			continue
		}
		found := false
		for _, u := range userEvents(s) {
			if u.ev == ev {
				s = u.next
				found = true
				break
			}
		}
		if !found {
			panic(fmt.Sprintf("INFRA: replay event %+v not enabled in %s", ev, s.key()))
		}
	}
	return "", s
}

func TestC18(t *testing.T) {
	r := vr.New(t, "C18", "model_checking")
	defer r.Finish()
	if raw := vr.ReplayCase(); raw != nil {
		var c c18case
		json.Unmarshal(raw, &c)
		what, s := replayC18(c)
		t.Logf("replay %+v: final state %s verdict %q", c, s.key(), what)
		r.Case(vr.J(c), true)
		r.Set("states", 1)
		r.Set("transitions", len(c.History))
		r.Set("traces_validated_against_impl", 1)
		if what != "" {
			r.Violate(vr.J(c), what, c, nil)
		}
		return
	}
	r.Rule("explicit-state BFS to closure over (ancestor, preserving, non-preserving) file slots (nil | digest 1,2 x exec bit) for each of 4 modes x {preserving endpoint is alpha, is beta}; events: write/create digest d on either side, chmod +x/-x and delete on the preserving side, delete on the other, one real cycle (PropagateExecutability + Reconcile + Apply); a case is one (state, event) transition; non-trivial = a cycle transition whose plan is non-empty")
	r.Assume("one file slot inside a root directory, two digests; directories/links at the slot and nested files are outside the model",
		"a non-preserving filesystem reports executable=false for every file and drops the bit of files written to it",
		"the transition reports exactly the planned entry (faithfulness of transition results is C09's business)")
	var states, transitions, cycles int64
	for _, m := range allModes {
		for _, pa := range []bool{true, false} {
			type node struct {
				s    xstate
				path []xevent
			}
			seen := map[xstate]bool{{}: true}
			frontier := []node{{xstate{}, nil}}
			for len(frontier) > 0 {
				var next []node
				for _, nd := range frontier {
					push := func(n xstate, ev xevent) {
						transitions++
						if !seen[n] {
							seen[n] = true
							next = append(next, node{n, append(append([]xevent{}, nd.path...), ev)})
						}
					}
					for _, u := range userEvents(nd.s) {
						r.Case("", false)
						push(u.next, u.ev)
					}
					n, what := cycle(nd.s, m, pa)
					cycles++
					changed := n != nd.s
					r.Case(fmt.Sprintf("%s|%v|%s", modeName(m), pa, nd.s.key()), changed)
					if what != "" {
						c := c18case{modeName(m), pa, append(append([]xevent{}, nd.path...), xevent{Kind: "cycle"})}
						r.Outcome("violation")
						r.Violate(vr.J(c), what, c, func() bool { w, _ := replayC18(c); return w != "" })
						continue
					}
					if changed {
						r.Outcome("cycle-changes-state")
					} else {
						r.Outcome("cycle-fixpoint")
					}
					push(n, xevent{Kind: "cycle"})
				}
				frontier = next
			}
			states += int64(len(seen))
		}
	}
	r.Set("states", states)
	r.Set("transitions", transitions)
	r.Set("traces_validated_against_impl", cycles)
	r.Set("explanation_traces", "every cycle transition of the search executes the real PropagateExecutability/Reconcile/Apply; user-event transitions are harness-only")
	r.Sample(c18case{"two-way-safe", true, []xevent{{"write-P", 1}, {"chmod+x-P", 0}, {Kind: "cycle"}, {"write-N", 2}, {Kind: "cycle"}}})
}
