//go:build verif

// Package recon holds the bounded-exhaustive checks of the reconciliation core
// (C01-C07, C18): every (ancestor, alpha, beta) triple of a small tree universe
// is run through the real core.Reconcile / core.Apply / core.Diff and judged by
// oracles written here, independently of the code under test.
package recon

import (
	"bytes"
	"fmt"
	"sort"
	"strings"

	"github.com/mutagen-io/mutagen/pkg/synchronization/core"
)

type E = core.Entry

// ---- leaf constructors ----

func file(d byte, x bool) *E { return &E{Kind: core.EntryKind_File, Digest: []byte{d}, Executable: x} }
func link(t string) *E       { return &E{Kind: core.EntryKind_SymbolicLink, Target: t} }
func untracked() *E          { return &E{Kind: core.EntryKind_Untracked} }
func problematic() *E        { return &E{Kind: core.EntryKind_Problematic, Problem: "p"} }
func dir(kv ...interface{}) *E {
	e := &E{Kind: core.EntryKind_Directory}
	for i := 0; i+1 < len(kv); i += 2 {
		if c := kv[i+1].(*E); c != nil {
			if e.Contents == nil {
				e.Contents = map[string]*E{}
			}
			e.Contents[kv[i].(string)] = c
		}
	}
	return e
}
func phantom(kv ...interface{}) *E {
	e := dir(kv...)
	e.Kind = core.EntryKind_PhantomDirectory
	return e
}

// Universe is a finite set of ancestor trees (synchronizable only) and endpoint
// trees (may contain untracked / problematic nodes).
type Universe struct {
	Name      string
	Ancestors []*E
	Endpoints []*E
}

func syncLeaves(withExec bool) []*E {
	l := []*E{file(1, false), file(2, false), link("t")}
	if withExec {
		l = append(l, file(1, true))
	}
	return l
}

// children returns the options for one child slot of the root directory.
// nested: the child may itself be dir{x -> leaf}.
func childOptions(endpoint, nested, withExec bool) []*E {
	leaves := syncLeaves(withExec)
	opts := []*E{nil}
	opts = append(opts, leaves...)
	if endpoint {
		opts = append(opts, untracked(), problematic())
	}
	opts = append(opts, dir())
	if nested {
		inner := append([]*E{}, leaves...)
		if endpoint {
			inner = append(inner, untracked(), problematic())
		}
		inner = append(inner, dir())
		for _, in := range inner {
			opts = append(opts, dir("x", in))
		}
	}
	return opts
}

func roots(names []string, endpoint, nested, withExec bool) []*E {
	out := []*E{nil}
	out = append(out, syncLeaves(withExec)...)
	if endpoint {
		out = append(out, untracked(), problematic())
	}
	opts := childOptions(endpoint, nested, withExec)
	// odometer over the child slots
	idx := make([]int, len(names))
	for {
		kv := []interface{}{}
		for i, n := range names {
			kv = append(kv, n, opts[idx[i]])
		}
		out = append(out, dir(kv...))
		i := len(idx) - 1
		for i >= 0 {
			idx[i]++
			if idx[i] < len(opts) {
				break
			}
			idx[i] = 0
			i--
		}
		if i < 0 {
			break
		}
	}
	return out
}

// S1: root in {nil, scalar, unsync, dir{a,b -> leaf}}.
func universeS1() Universe {
	return Universe{"S1", roots([]string{"a", "b"}, false, false, false), roots([]string{"a", "b"}, true, false, false)}
}

// S2: children of the root may be dir{x -> leaf}.
func universeS2() Universe {
	return Universe{"S2", roots([]string{"a", "b"}, false, true, false), roots([]string{"a", "b"}, true, true, false)}
}

// S1x: S1 with an executable variant of F1.
func universeS1x() Universe {
	return Universe{"S1x", roots([]string{"a", "b"}, false, false, true), roots([]string{"a", "b"}, true, false, true)}
}

// S3: three flat names.
func universeS3() Universe {
	return Universe{"S3", roots([]string{"a", "b", "c"}, false, false, false), roots([]string{"a", "b", "c"}, true, false, false)}
}

// SX: one directory "a" holding two files x (absent, F1, F1 executable, F2) and y (absent, F1):
// executability-only edits next to sibling deletions, one level down (S1x has the bit only at the root level).
func universeSX() Universe {
	aopts := []*E{nil, file(1, false)}
	for _, x := range []*E{nil, file(1, false), file(1, true), file(2, false)} {
		for _, y := range []*E{nil, file(1, false)} {
			aopts = append(aopts, dir("x", x, "y", y))
		}
	}
	trees := []*E{nil}
	for _, a := range aopts {
		trees = append(trees, dir("a", a))
	}
	return Universe{"SX", trees, trees}
}

// SP: endpoint trees with phantom directories (Docker ignore syntax); they are
// passed through the real ReifyPhantomDirectories first, as the controller does.
func universeSP() Universe {
	opts := []*E{nil, file(1, false), file(2, false), untracked(), dir(), phantom(), phantom("x", file(1, false)),
		phantom("x", untracked()), dir("x", file(1, false)), phantom("x", phantom("y", file(1, false))), phantom("x", phantom())}
	var eps []*E
	eps = append(eps, nil)
	for _, a := range opts {
		for _, b := range opts {
			eps = append(eps, dir("a", a, "b", b))
		}
	}
	aopts := []*E{nil, file(1, false), dir(), dir("x", file(1, false)), dir("x", dir("y", file(1, false))), dir("x", dir())}
	var ans []*E
	ans = append(ans, nil)
	for _, a := range aopts {
		for _, b := range aopts {
			ans = append(ans, dir("a", a, "b", b))
		}
	}
	return Universe{"SP", ans, eps}
}

var allModes = []core.SynchronizationMode{
	core.SynchronizationMode_SynchronizationModeTwoWaySafe,
	core.SynchronizationMode_SynchronizationModeTwoWayResolved,
	core.SynchronizationMode_SynchronizationModeOneWaySafe,
	core.SynchronizationMode_SynchronizationModeOneWayReplica,
}

func modeName(m core.SynchronizationMode) string {
	switch m {
	case core.SynchronizationMode_SynchronizationModeTwoWaySafe:
		return "two-way-safe"
	case core.SynchronizationMode_SynchronizationModeTwoWayResolved:
		return "two-way-resolved"
	case core.SynchronizationMode_SynchronizationModeOneWaySafe:
		return "one-way-safe"
	case core.SynchronizationMode_SynchronizationModeOneWayReplica:
		return "one-way-replica"
	}
	return "?"
}

// ---- independent tree helpers (not using the code under test) ----

func isUnsync(e *E) bool {
	return e != nil && (e.Kind == core.EntryKind_Untracked || e.Kind == core.EntryKind_Problematic || e.Kind == core.EntryKind_PhantomDirectory)
}

func shallowEq(a, b *E) bool {
	if a == nil || b == nil {
		return a == nil && b == nil
	}
	return a.Kind == b.Kind && a.Executable == b.Executable && bytes.Equal(a.Digest, b.Digest) && a.Target == b.Target && a.Problem == b.Problem
}

func deepEq(a, b *E) bool {
	if !shallowEq(a, b) {
		return false
	}
	if a == nil {
		return true
	}
	if len(a.Contents) != len(b.Contents) {
		return false
	}
	for n, c := range a.Contents {
		o, ok := b.Contents[n]
		if !ok || !deepEq(c, o) {
			return false
		}
	}
	return true
}

func at(t *E, path string) *E {
	if path == "" {
		return t
	}
	for _, c := range strings.Split(path, "/") {
		if t == nil {
			return nil
		}
		t = t.Contents[c]
	}
	return t
}

func join(p, n string) string {
	if p == "" {
		return n
	}
	if n == "" {
		return p
	}
	return p + "/" + n
}

// syncFilter drops every untracked / problematic / phantom sub-tree.
func syncFilter(e *E) *E {
	if e == nil || isUnsync(e) {
		return nil
	}
	if e.Kind != core.EntryKind_Directory {
		return e
	}
	r := &E{Kind: e.Kind}
	for n, c := range e.Contents {
		if f := syncFilter(c); f != nil {
			if r.Contents == nil {
				r.Contents = map[string]*E{}
			}
			r.Contents[n] = f
		}
	}
	return r
}

func hasUnsync(e *E) bool {
	if e == nil {
		return false
	}
	if isUnsync(e) {
		return true
	}
	for _, c := range e.Contents {
		if hasUnsync(c) {
			return true
		}
	}
	return false
}

func walk(e *E, path string, fn func(path string, n *E)) {
	if e == nil {
		return
	}
	fn(path, e)
	names := make([]string, 0, len(e.Contents))
	for n := range e.Contents {
		names = append(names, n)
	}
	sort.Strings(names)
	for _, n := range names {
		walk(e.Contents[n], join(path, n), fn)
	}
}

// hasNew reports whether x contains a node that was created or modified
// relative to base (a node whose counterpart in base is absent or not
// shallow-equal).
func hasNew(base, x *E) bool {
	if x == nil {
		return false
	}
	if !shallowEq(base, x) {
		return true
	}
	for n, c := range x.Contents {
		var b *E
		if base != nil {
			b = base.Contents[n]
		}
		if hasNew(b, c) {
			return true
		}
	}
	return false
}

// pathsRelated reports whether p and q are equal or one is a proper ancestor of the other.
func pathsRelated(p, q string) bool {
	if p == q || p == "" || q == "" {
		return true
	}
	return strings.HasPrefix(p, q+"/") || strings.HasPrefix(q, p+"/")
}

// disagreementPoints walks alpha and beta top-down and returns the paths where
// they stop being shallow-equal (excluding, as the property texts do, paths
// where either side is itself problematic, and paths where both are nil or untracked).
func disagreementPoints(alpha, beta *E) []string {
	var out []string
	var rec func(p string, x, y *E)
	rec = func(p string, x, y *E) {
		if (x != nil && x.Kind == core.EntryKind_Problematic) || (y != nil && y.Kind == core.EntryKind_Problematic) {
			return
		}
		xn := x == nil || x.Kind == core.EntryKind_Untracked
		yn := y == nil || y.Kind == core.EntryKind_Untracked
		if xn && yn {
			return
		}
		if !shallowEq(x, y) {
			out = append(out, p)
			return
		}
		names := map[string]bool{}
		for n := range x.Contents {
			names[n] = true
		}
		for n := range y.Contents {
			names[n] = true
		}
		for n := range names {
			rec(join(p, n), x.Contents[n], y.Contents[n])
		}
	}
	rec("", alpha, beta)
	sort.Strings(out)
	return out
}

// clone makes a fully independent deep copy.
func clone(e *E) *E {
	if e == nil {
		return nil
	}
	r := &E{Kind: e.Kind, Executable: e.Executable, Target: e.Target, Problem: e.Problem}
	if e.Digest != nil {
		r.Digest = append([]byte{}, e.Digest...)
	}
	if e.Contents != nil {
		r.Contents = make(map[string]*E, len(e.Contents))
		for n, c := range e.Contents {
			r.Contents[n] = clone(c)
		}
	}
	return r
}

// show renders a tree compactly for replay files and messages.
func show(e *E) string {
	if e == nil {
		return "nil"
	}
	switch e.Kind {
	case core.EntryKind_File:
		x := ""
		if e.Executable {
			x = "x"
		}
		return fmt.Sprintf("F%d%s", e.Digest[0], x)
	case core.EntryKind_SymbolicLink:
		return "L(" + e.Target + ")"
	case core.EntryKind_Untracked:
		return "U"
	case core.EntryKind_Problematic:
		if e.Problem != "p" {
			return "P(" + e.Problem + ")"
		}
		return "P"
	}
	names := make([]string, 0, len(e.Contents))
	for n := range e.Contents {
		names = append(names, n)
	}
	sort.Strings(names)
	parts := []string{}
	for _, n := range names {
		parts = append(parts, n+":"+show(e.Contents[n]))
	}
	k := "D"
	if e.Kind == core.EntryKind_PhantomDirectory {
		k = "Ph"
	}
	return k + "{" + strings.Join(parts, ",") + "}"
}

// parse is the inverse of show (used by --replay).
func parse(s string) *E {
	e, rest := parseAt(s)
	if rest != "" {
		panic("trailing input in tree: " + rest)
	}
	return e
}

func parseAt(s string) (*E, string) {
	switch {
	case strings.HasPrefix(s, "nil"):
		return nil, s[3:]
	case strings.HasPrefix(s, "F"):
		d := s[1] - '0'
		if len(s) > 2 && s[2] == 'x' {
			return file(d, true), s[3:]
		}
		return file(d, false), s[2:]
	case strings.HasPrefix(s, "L("):
		i := strings.Index(s, ")")
		return link(s[2:i]), s[i+1:]
	case strings.HasPrefix(s, "U"):
		return untracked(), s[1:]
	case strings.HasPrefix(s, "Ph{"), strings.HasPrefix(s, "D{"):
		kind := core.EntryKind_Directory
		rest := s[2:]
		if s[0] == 'P' {
			kind = core.EntryKind_PhantomDirectory
			rest = s[3:]
		}
		e := &E{Kind: kind}
		for !strings.HasPrefix(rest, "}") {
			i := strings.Index(rest, ":")
			name := rest[:i]
			var c *E
			c, rest = parseAt(rest[i+1:])
			if e.Contents == nil {
				e.Contents = map[string]*E{}
			}
			e.Contents[name] = c
			rest = strings.TrimPrefix(rest, ",")
		}
		return e, rest[1:]
	case strings.HasPrefix(s, "P("):
		i := strings.Index(s, ")")
		e := problematic()
		e.Problem = s[2:i]
		return e, s[i+1:]
	case strings.HasPrefix(s, "P"):
		return problematic(), s[1:]
	}
	panic("cannot parse tree: " + s)
}

// Triple is the replayable form of one case.
type Triple struct {
	Universe string `json:"universe"`
	Ancestor string `json:"ancestor"`
	Alpha    string `json:"alpha"`
	Beta     string `json:"beta"`
	Mode     string `json:"mode"`
}

func modeByName(n string) core.SynchronizationMode {
	for _, m := range allModes {
		if modeName(m) == n {
			return m
		}
	}
	panic("unknown mode " + n)
}

// Plan is the output of one Reconcile call.
type Plan struct {
	Anc, Alpha, Beta []*core.Change
	Conflicts        []*core.Conflict
}

func reconcile(a, x, y *E, m core.SynchronizationMode) Plan {
	an, al, be, co := core.Reconcile(a, x, y, m)
	return Plan{an, al, be, co}
}

func (p Plan) nontrivial() bool { return len(p.Alpha)+len(p.Beta)+len(p.Conflicts) > 0 }

func (p Plan) class() string {
	return fmt.Sprintf("anc%v/al%v/be%v/co%v", len(p.Anc) > 0, len(p.Alpha) > 0, len(p.Beta) > 0, len(p.Conflicts) > 0)
}
