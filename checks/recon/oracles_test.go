//go:build verif

package recon

import (
	"encoding/json"
	"fmt"
	"sort"
	"strings"
	"testing"

	"github.com/mutagen-io/mutagen/pkg/synchronization/core"

	"verif/internal/vr"
)

// oracle judges one (triple, mode, plan); it returns "" when the property holds.
type oracle func(a, x, y *E, m core.SynchronizationMode, p Plan) string

// runTriples enumerates every triple of every universe under every listed mode.
func runTriples(t *testing.T, r *vr.Report, us []Universe, modes []core.SynchronizationMode, orc oracle, relevant func(a, x, y *E) bool) {
	if raw := vr.ReplayCase(); raw != nil {
		var c Triple
		if err := json.Unmarshal(raw, &c); err != nil {
			t.Fatalf("INFRA: %v", err)
		}
		a, x, y, m := parse(c.Ancestor), parse(c.Alpha), parse(c.Beta), modeByName(c.Mode)
		if c.Universe == "SP" {
			x, y, _, _ = core.ReifyPhantomDirectories(a, x, y)
		}
		p := reconcile(a, x, y, m)
		t.Logf("replay %+v", c)
		for _, ch := range p.Anc {
			t.Logf("  ancestor change %q -> %s", ch.Path, show(ch.New))
		}
		for _, ch := range p.Alpha {
			t.Logf("  alpha change %q: %s -> %s", ch.Path, show(ch.Old), show(ch.New))
		}
		for _, ch := range p.Beta {
			t.Logf("  beta change %q: %s -> %s", ch.Path, show(ch.Old), show(ch.New))
		}
		for _, co := range p.Conflicts {
			t.Logf("  conflict at %q (%d alpha / %d beta changes)", co.Root, len(co.AlphaChanges), len(co.BetaChanges))
		}
		what := orc(a, x, y, m, p)
		t.Logf("  verdict: %q", what)
		r.Case(vr.J(c), true)
		r.Sample(c)
		if what != "" {
			r.Violate(vr.J(c), what, c, nil)
		}
		return
	}
	for _, u := range us {
		u := u
		sampled := false
		vr.Parallel(len(u.Ancestors), func(i int) {
			l := r.Local()
			defer l.Flush()
			// Private deep copies per shard: the code under test must not mutate its
			// inputs, but if a broken build does, shards must not race on shared maps.
			a := clone(u.Ancestors[i])
			eps := make([]*E, len(u.Endpoints))
			for k, e := range u.Endpoints {
				eps[k] = clone(e)
			}
			for _, x0 := range eps {
				for _, y0 := range eps {
					x, y := x0, y0
					if relevant != nil && !relevant(a, x, y) {
						continue
					}
					if u.Name == "SP" {
						x, y, _, _ = core.ReifyPhantomDirectories(a, x0, y0)
					}
					for _, m := range modes {
						p := reconcile(a, x, y, m)
						l.CaseOnce(p.nontrivial())
						l.Outcome(p.class())
						if what := orc(a, x, y, m, p); what != "" {
							c := Triple{u.Name, show(a), show(x0), show(y0), modeName(m)}
							r.Violate(vr.J(c), what, c, func() bool {
								xx, yy := x0, y0
								if u.Name == "SP" {
									xx, yy, _, _ = core.ReifyPhantomDirectories(a, x0, y0)
								}
								return orc(a, xx, yy, m, reconcile(a, xx, yy, m)) != ""
							})
						}
					}
				}
			}
		})
		if !sampled && len(u.Ancestors) > 3 && len(u.Endpoints) > 40 {
			r.Sample(Triple{u.Name, show(u.Ancestors[len(u.Ancestors)/2]), show(u.Endpoints[len(u.Endpoints)/3]), show(u.Endpoints[len(u.Endpoints)/2]), "all listed modes"})
		}
		r.Set("universe_"+u.Name, fmt.Sprintf("%d ancestors x %d x %d endpoint trees x %d modes", len(u.Ancestors), len(u.Endpoints), len(u.Endpoints), len(modes)))
	}
}

func universesFor(quick []Universe, thorough []Universe) []Universe {
	if vr.Thorough() {
		return append(quick, thorough...)
	}
	return quick
}

// destroysModified implements the first sentence of C01 (and the protected
// side of C02): a change may only delete or overwrite content that is
// unchanged since the last synchronization. A transition removes exactly the
// nodes described by Old (it verifies each against the disk first), so the
// content destroyed by change c on endpoint tree X is every node of c.Old that
// matches X at the same position; each such node must equal the ancestor's.
func destroysModified(a, X *E, c *core.Change) string {
	bad := ""
	walk(c.Old, c.Path, func(p string, n *E) {
		if bad != "" {
			return
		}
		onDisk := at(X, p)
		if onDisk != nil && shallowEq(onDisk, n) && !shallowEq(at(a, p), n) {
			bad = fmt.Sprintf("change at %q (%s -> %s) removes/overwrites %s at %q which differs from the last-synchronized %s", c.Path, show(c.Old), show(c.New), show(onDisk), p, show(at(a, p)))
		}
	})
	return bad
}

func conflictAt(p Plan, root string) *core.Conflict {
	for _, c := range p.Conflicts {
		if c.Root == root {
			return c
		}
	}
	return nil
}

func changesRelatedTo(cs []*core.Change, path string) *core.Change {
	for _, c := range cs {
		if pathsRelated(c.Path, path) {
			return c
		}
	}
	return nil
}

// ---- C01 ----

func oracleC01(a, x, y *E, m core.SynchronizationMode, p Plan) string {
	for _, c := range p.Alpha {
		if w := destroysModified(a, x, c); w != "" {
			return "alpha: " + w
		}
	}
	for _, c := range p.Beta {
		if w := destroysModified(a, y, c); w != "" {
			return "beta: " + w
		}
	}
	// "When both endpoints created or modified content at overlapping paths, the
	// disagreement is reported as a conflict and both versions stay on disk."
	for _, d := range disagreementPoints(x, y) {
		ad := at(a, d)
		if hasNew(ad, syncFilter(at(x, d))) && hasNew(ad, syncFilter(at(y, d))) {
			if conflictAt(p, d) == nil {
				return fmt.Sprintf("both endpoints created/modified content at %q but no conflict is rooted there", d)
			}
			if c := changesRelatedTo(p.Alpha, d); c != nil {
				return fmt.Sprintf("both endpoints created/modified content at %q but alpha is changed at %q", d, c.Path)
			}
			if c := changesRelatedTo(p.Beta, d); c != nil {
				return fmt.Sprintf("both endpoints created/modified content at %q but beta is changed at %q", d, c.Path)
			}
		}
	}
	return ""
}

func TestC01(t *testing.T) {
	r := vr.New(t, "C01", "exploration")
	defer r.Finish()
	r.Rule("every (ancestor, alpha, beta) triple of the tree universes (S2: root in {nil, scalar, untracked, problematic, dir{a,b -> leaf | dir{x -> leaf}}}, leaves F1 F2 L U P D{}; thorough adds S1x (executable bit), S3 (three flat names) and SP (phantom directories, reified by the real ReifyPhantomDirectories)) under two-way-safe, through the real core.Reconcile; each triple is visited once; non-trivial = the plan contains at least one endpoint change or conflict")
	r.Assume("small-scope: trees deeper than 2 levels, more than 3 names per directory and more than two file digests are outside the bound",
		"a transition destroys exactly the nodes of Change.Old that match the disk (verified per node by Transition; decided separately by C08)",
		"history leg (real sessions on disk) is covered by the session checks, not here")
	us := universesFor([]Universe{universeS2(), universeSX()}, []Universe{universeS1x(), universeS3(), universeSP()})
	runTriples(t, r, us, []core.SynchronizationMode{core.SynchronizationMode_SynchronizationModeTwoWaySafe}, oracleC01, nil)
	if vr.ReplayCase() == nil {
		// Multi-cycle histories (explicit-state search to closure; see history_test.go).
		historyLeg(r, core.SynchronizationMode_SynchronizationModeTwoWaySafe, true, true, 64)
	}
}

// ---- C02 ----

func oracleC02(a, x, y *E, m core.SynchronizationMode, p Plan) string {
	switch m {
	case core.SynchronizationMode_SynchronizationModeOneWaySafe, core.SynchronizationMode_SynchronizationModeOneWayReplica:
		if len(p.Alpha) > 0 {
			return fmt.Sprintf("one-way mode plans a change to alpha at %q", p.Alpha[0].Path)
		}
	}
	if m == core.SynchronizationMode_SynchronizationModeOneWaySafe {
		for _, c := range p.Beta {
			if w := destroysModified(a, y, c); w != "" {
				return "one-way-safe beta: " + w
			}
		}
	}
	if m == core.SynchronizationMode_SynchronizationModeTwoWayResolved {
		for _, c := range p.Alpha {
			if w := destroysModified(a, x, c); w != "" {
				return "two-way-resolved alpha: " + w
			}
		}
	}
	return ""
}

// ---- C03 ----

func oracleC03(a, x, y *E, m core.SynchronizationMode, p Plan) string {
	// No change may be planned for an endpoint at a path whose content there
	// is, or contains, untracked / problematic / phantom content.
	for _, c := range p.Alpha {
		if hasUnsync(at(x, c.Path)) {
			return fmt.Sprintf("alpha change at %q would remove/replace unsynchronizable content %s", c.Path, show(at(x, c.Path)))
		}
		if hasUnsync(c.New) {
			return fmt.Sprintf("alpha change at %q propagates unsynchronizable content %s", c.Path, show(c.New))
		}
	}
	for _, c := range p.Beta {
		if hasUnsync(at(y, c.Path)) {
			return fmt.Sprintf("beta change at %q would remove/replace unsynchronizable content %s", c.Path, show(at(y, c.Path)))
		}
		if hasUnsync(c.New) {
			return fmt.Sprintf("beta change at %q propagates unsynchronizable content %s", c.Path, show(c.New))
		}
	}
	// "When propagating a change would require removing such content, a
	// conflict is reported instead": at a disagreement point where one side
	// holds unsynchronizable content, the plan must contain a decision (a
	// change on the other side or a conflict rooted there) - silently doing
	// nothing is only legitimate for one-way-safe's documented "leave beta's
	// new content alone" rule (alpha nil or untracked).
	for _, d := range disagreementPoints(x, y) {
		xd, yd := at(x, d), at(y, d)
		if !hasUnsync(xd) && !hasUnsync(yd) {
			continue
		}
		if conflictAt(p, d) != nil {
			continue
		}
		decided := false
		for _, c := range p.Alpha {
			if c.Path == d {
				decided = true
			}
		}
		for _, c := range p.Beta {
			if c.Path == d {
				decided = true
			}
		}
		if decided {
			continue
		}
		if m == core.SynchronizationMode_SynchronizationModeOneWaySafe && (xd == nil || xd.Kind == core.EntryKind_Untracked) {
			continue
		}
		return fmt.Sprintf("disagreement at %q involves unsynchronizable content (%s vs %s) but the plan has neither a conflict nor a change there", d, show(xd), show(yd))
	}
	return ""
}

// ---- C06 ----

func oracleC06(a, x, y *E, m core.SynchronizationMode, p Plan) string {
	type item struct{ what, path string }
	var items []item
	for _, c := range p.Alpha {
		items = append(items, item{"alpha change", c.Path})
	}
	for _, c := range p.Beta {
		items = append(items, item{"beta change", c.Path})
	}
	for _, c := range p.Conflicts {
		items = append(items, item{"conflict", c.Root})
	}
	for i := range items {
		for j := i + 1; j < len(items); j++ {
			if pathsRelated(items[i].path, items[j].path) {
				return fmt.Sprintf("%s at %q and %s at %q overlap", items[i].what, items[i].path, items[j].what, items[j].path)
			}
		}
	}
	dps := disagreementPoints(x, y)
	isDP := func(p string) bool {
		i := sort.SearchStrings(dps, p)
		return i < len(dps) && dps[i] == p
	}
	for _, c := range p.Conflicts {
		if err := c.EnsureValid(); err != nil {
			return fmt.Sprintf("conflict at %q invalid: %v", c.Root, err)
		}
		if len(c.AlphaChanges) == 0 || len(c.BetaChanges) == 0 {
			return fmt.Sprintf("conflict at %q lacks a change on one side", c.Root)
		}
		for _, ch := range append(append([]*core.Change{}, c.AlphaChanges...), c.BetaChanges...) {
			if !(ch.Path == c.Root || c.Root == "" || strings.HasPrefix(ch.Path, c.Root+"/")) {
				return fmt.Sprintf("conflict at %q contains a change at %q outside its root", c.Root, ch.Path)
			}
		}
		if !isDP(c.Root) {
			return fmt.Sprintf("conflict rooted at %q, which is not where alpha and beta disagree (disagreement points %v)", c.Root, dps)
		}
	}
	// Changes too must sit exactly at disagreement points.
	for _, c := range p.Alpha {
		if !isDP(c.Path) {
			return fmt.Sprintf("alpha change at %q, which is not a disagreement point %v", c.Path, dps)
		}
	}
	for _, c := range p.Beta {
		if !isDP(c.Path) {
			return fmt.Sprintf("beta change at %q, which is not a disagreement point %v", c.Path, dps)
		}
	}
	return ""
}

// ---- C04 ----

// idealApply applies endpoint changes exactly (results == New).
func idealApply(base *E, cs []*core.Change) (*E, error) {
	return core.Apply(base, cs)
}

func oracleC04(a, x, y *E, m core.SynchronizationMode, p Plan) string {
	// Controller recipe: ancestor changes, then alpha results, then beta results.
	anc := append([]*core.Change{}, p.Anc...)
	for _, c := range p.Alpha {
		anc = append(anc, &core.Change{Path: c.Path, New: c.New})
	}
	for _, c := range p.Beta {
		anc = append(anc, &core.Change{Path: c.Path, New: c.New})
	}
	a2, err := core.Apply(a, anc)
	if err != nil {
		return "applying the plan to the ancestor failed: " + err.Error()
	}
	x2, err := idealApply(x, p.Alpha)
	if err != nil {
		return "applying the plan to alpha failed: " + err.Error()
	}
	y2, err := idealApply(y, p.Beta)
	if err != nil {
		return "applying the plan to beta failed: " + err.Error()
	}
	p2 := reconcile(a2, x2, y2, m)
	if len(p2.Alpha) > 0 {
		return fmt.Sprintf("second cycle still changes alpha at %q (%s -> %s)", p2.Alpha[0].Path, show(p2.Alpha[0].Old), show(p2.Alpha[0].New))
	}
	if len(p2.Beta) > 0 {
		return fmt.Sprintf("second cycle still changes beta at %q (%s -> %s)", p2.Beta[0].Path, show(p2.Beta[0].Old), show(p2.Beta[0].New))
	}
	if len(p2.Anc) > 0 {
		return fmt.Sprintf("second cycle still changes the ancestor at %q (-> %s)", p2.Anc[0].Path, show(p2.Anc[0].New))
	}
	roots := func(cs []*core.Conflict) string {
		var s []string
		for _, c := range cs {
			s = append(s, c.Root)
		}
		sort.Strings(s)
		return strings.Join(s, "|")
	}
	if roots(p.Conflicts) != roots(p2.Conflicts) {
		return fmt.Sprintf("conflict roots changed across an exactly applied cycle: %q then %q", roots(p.Conflicts), roots(p2.Conflicts))
	}
	// Two-way convergence: identical synchronizable content everywhere except
	// under reported conflicts and paths untracked/problematic on one side.
	if m == core.SynchronizationMode_SynchronizationModeTwoWaySafe || m == core.SynchronizationMode_SynchronizationModeTwoWayResolved {
		var bad string
		var rec func(pth string, u, v *E)
		rec = func(pth string, u, v *E) {
			if bad != "" {
				return
			}
			if conflictAt(p, pth) != nil {
				return
			}
			if isUnsync(u) || isUnsync(v) {
				return
			}
			if !shallowEq(u, v) {
				bad = fmt.Sprintf("after the cycle alpha has %s and beta has %s at %q (no conflict there)", show(u), show(v), pth)
				return
			}
			if u == nil {
				return
			}
			names := map[string]bool{}
			for n := range u.Contents {
				names[n] = true
			}
			for n := range v.Contents {
				names[n] = true
			}
			for n := range names {
				rec(join(pth, n), u.Contents[n], v.Contents[n])
			}
		}
		rec("", x2, y2)
		if bad != "" {
			return bad
		}
	}
	return ""
}

func TestC02(t *testing.T) {
	r := vr.New(t, "C02", "exploration")
	defer r.Finish()
	r.Rule("every triple of the tree universes (as C01) under one-way-safe, one-way-replica and two-way-resolved through the real core.Reconcile, plus the endpoint leg: a real local endpoint created as alpha of each one-way mode must refuse Stage and Transition and leave its root untouched; each case visited once; non-trivial = plan has a change or conflict")
	r.Assume("small-scope tree universe as in C01", "a transition destroys exactly the nodes of Change.Old that match the disk")
	us := universesFor([]Universe{universeS2(), universeSX()}, []Universe{universeS1x(), universeS3(), universeSP()})
	runTriples(t, r, us, []core.SynchronizationMode{
		core.SynchronizationMode_SynchronizationModeOneWaySafe,
		core.SynchronizationMode_SynchronizationModeOneWayReplica,
		core.SynchronizationMode_SynchronizationModeTwoWayResolved}, oracleC02, nil)
	if vr.ReplayCase() == nil {
		historyLeg(r, core.SynchronizationMode_SynchronizationModeOneWaySafe, false, true, 64)
		historyLeg(r, core.SynchronizationMode_SynchronizationModeOneWayReplica, false, false, 64)
		historyLeg(r, core.SynchronizationMode_SynchronizationModeTwoWayResolved, true, false, 64)
		endpointLegC02(t, r)
	}
}

func TestC03(t *testing.T) {
	r := vr.New(t, "C03", "exploration")
	defer r.Finish()
	r.Rule("every triple of the tree universes (as C01; SP with phantom directories in both tiers) in which alpha or beta contains untracked, problematic or phantom content, under all 4 modes, through the real core.Reconcile; plus an on-disk leg (real Scan + Transition over directories holding ignored files, FIFOs and non-UTF-8 names); non-trivial = plan has a change or conflict")
	r.Assume("small-scope tree universe as in C01")
	us := universesFor([]Universe{universeS2(), universeSP(), universeSX()}, []Universe{universeS3()})
	runTriples(t, r, us, allModes, oracleC03, func(a, x, y *E) bool { return hasUnsync(x) || hasUnsync(y) })
	if vr.ReplayCase() == nil {
		diskLegC03(t, r)
	}
}

func TestC04(t *testing.T) {
	r := vr.New(t, "C04", "exploration")
	defer r.Finish()
	r.Rule("every triple of the tree universes (as C01) under all 4 modes: plan with the real Reconcile, apply it exactly (controller recipe for the ancestor via the real Apply; endpoint trees via Apply with results == New), reconcile again; non-trivial = first plan has a change or conflict")
	r.Assume("small-scope tree universe as in C01", "history leg on real sessions is covered by the session checks")
	us := universesFor([]Universe{universeS2(), universeSX()}, []Universe{universeS1x(), universeS3(), universeSP()})
	runTriples(t, r, us, allModes, oracleC04, nil)
}

func TestC06(t *testing.T) {
	r := vr.New(t, "C06", "exploration")
	defer r.Finish()
	r.Rule("every triple of the tree universes (as C01) under all 4 modes through the real core.Reconcile; pairwise path-overlap test over alpha changes, beta changes and conflict roots; conflict well-formedness; non-trivial = plan has a change or conflict")
	r.Assume("small-scope tree universe as in C01")
	us := universesFor([]Universe{universeS2(), universeSX()}, []Universe{universeS1x(), universeS3(), universeSP()})
	runTriples(t, r, us, allModes, oracleC06, nil)
}
