//go:build verif

// C26: the ring buffer behaves as a bounded FIFO byte queue.
//
// Engine E-state: explicit-state breadth-first search to CLOSURE over the real
// ring.Buffer. A state is the complete private state of the real object
// (capacity, start, used, raw storage) read through the verif accessor
// (*Buffer).VerifState; because a real buffer cannot be cloned, the successor of
// a state under an operation is produced by building a fresh buffer, replaying
// the shortest operation path that reaches the state, and applying the one
// operation. Every operation (path replay included) is executed in lock-step on
// the real buffer and on an independent slice-backed FIFO model, and every
// observable result is compared.
package mux

import (
	"bytes"
	"encoding/json"
	"errors"
	"fmt"
	"io"
	"sort"
	"testing"

	"github.com/mutagen-io/mutagen/pkg/multiplexing/ring"

	"verif/internal/vr"
)

// ---- operations ----

// ringOp is one operation of the C26 alphabet (JSON-able so that a failing
// path can be stored in a replay file).
type ringOp struct {
	// K is the kind: write, writebyte, read, readbyte, readnfrom, writeto, reset.
	K string `json:"k"`
	// Data is the argument of write / writebyte (1 byte) and the source bytes
	// held by the reader passed to readnfrom.
	Data []byte `json:"data,omitempty"`
	// N is the destination length of read and the requested count of readnfrom.
	N int `json:"n,omitempty"`
	// Chunk is the most bytes the scripted reader / writer moves per call
	// (0 = no per-call limit).
	Chunk int `json:"chunk,omitempty"`
	// End says how the scripted reader ends: its terminal error ("eof" or
	// "err") is returned either together with the last source byte ("with") or
	// by the call after it ("after").
	End string `json:"end,omitempty"`
	// Budget is the total number of bytes the scripted writer accepts before
	// failing (-1 = unlimited).
	Budget int `json:"budget,omitempty"`
}

func (o ringOp) String() string {
	switch o.K {
	case "write":
		return fmt.Sprintf("Write(%v)", o.Data)
	case "writebyte":
		return fmt.Sprintf("WriteByte(%d)", o.Data[0])
	case "read":
		return fmt.Sprintf("Read(len %d)", o.N)
	case "readbyte":
		return "ReadByte()"
	case "readnfrom":
		return fmt.Sprintf("ReadNFrom(src %v chunk %d end %s, n=%d)", o.Data, o.Chunk, o.End, o.N)
	case "writeto":
		return fmt.Sprintf("WriteTo(chunk %d budget %d)", o.Chunk, o.Budget)
	case "reset":
		return "Reset()"
	}
	return o.K
}

var errScripted = errors.New("scripted failure")

// scriptedReader delivers src sequentially, at most chunk bytes per call, and
// ends with a terminal error (io.EOF or errScripted) that is returned either
// together with the last byte or on the following call. It records what it
// delivered so that "short reads are accounted exactly" can be judged.
type scriptedReader struct {
	src       []byte
	chunk     int
	withData  bool
	terminal  error
	delivered []byte
	calls     int
}

func newScriptedReader(o ringOp) *scriptedReader {
	r := &scriptedReader{src: append([]byte(nil), o.Data...), chunk: o.Chunk}
	switch o.End {
	case "eof-with":
		r.withData, r.terminal = true, io.EOF
	case "eof-after":
		r.terminal = io.EOF
	case "err-with":
		r.withData, r.terminal = true, errScripted
	default:
		r.terminal = errScripted
	}
	return r
}

func (r *scriptedReader) Read(p []byte) (int, error) {
	r.calls++
	if r.calls > 1000 {
		panic("scripted reader called more than 1000 times: the operation does not terminate")
	}
	if len(r.src) == 0 {
		return 0, r.terminal
	}
	n := len(p)
	if n > len(r.src) {
		n = len(r.src)
	}
	if r.chunk > 0 && n > r.chunk {
		n = r.chunk
	}
	copy(p, r.src[:n])
	r.delivered = append(r.delivered, r.src[:n]...)
	r.src = r.src[n:]
	if len(r.src) == 0 && r.withData && n > 0 {
		return n, r.terminal
	}
	return n, nil
}

// scriptedWriter accepts at most chunk bytes per call (a shorter acceptance is
// reported with io.ErrShortWrite, as the io.Writer contract requires) and at
// most budget bytes in total (then errScripted). It records what it accepted.
type scriptedWriter struct {
	chunk    int
	budget   int
	accepted []byte
	firstErr error
	calls    int
}

func (w *scriptedWriter) Write(p []byte) (int, error) {
	w.calls++
	if w.calls > 1000 {
		panic("scripted writer called more than 1000 times: the operation does not terminate")
	}
	n := len(p)
	var err error
	if w.chunk > 0 && n > w.chunk {
		n = w.chunk
		err = io.ErrShortWrite
	}
	if w.budget >= 0 && n > w.budget-len(w.accepted) {
		n = w.budget - len(w.accepted)
		err = errScripted
	}
	w.accepted = append(w.accepted, p[:n]...)
	if err != nil && w.firstErr == nil {
		w.firstErr = err
	}
	return n, err
}

// ringAlphabet builds the operation alphabet for one capacity: every argument
// shape up to capacity+1 over the byte alphabet.
func ringAlphabet(capacity int, alphabet []byte, fullSources bool) []ringOp {
	var ops []ringOp
	// All byte strings up to length capacity+1.
	var words [][]byte
	level := [][]byte{{}}
	words = append(words, []byte{})
	for l := 1; l <= capacity+1; l++ {
		var next [][]byte
		for _, p := range level {
			for _, c := range alphabet {
				next = append(next, append(append([]byte{}, p...), c))
			}
		}
		words = append(words, next...)
		level = next
	}
	for _, w := range words {
		ops = append(ops, ringOp{K: "write", Data: w})
	}
	for _, c := range alphabet {
		ops = append(ops, ringOp{K: "writebyte", Data: []byte{c}})
	}
	for k := 0; k <= capacity+1; k++ {
		ops = append(ops, ringOp{K: "read", N: k})
	}
	ops = append(ops, ringOp{K: "readbyte"})
	// ReadNFrom: every requested count, every source content (or, when
	// fullSources is false, one alternating content per length), every
	// chunking and every way of ending.
	sources := words
	if !fullSources {
		sources = nil
		for l := 0; l <= capacity+1; l++ {
			for first := 0; first < len(alphabet) && (l > 0 || first == 0); first++ {
				w := make([]byte, l)
				for i := range w {
					w[i] = alphabet[(first+i)%len(alphabet)]
				}
				sources = append(sources, w)
			}
		}
	}
	for n := 0; n <= capacity+1; n++ {
		for _, src := range sources {
			for _, chunk := range []int{1, 2, 0} {
				for _, end := range []string{"eof-after", "eof-with", "err-after", "err-with"} {
					ops = append(ops, ringOp{K: "readnfrom", Data: src, N: n, Chunk: chunk, End: end})
				}
			}
		}
	}
	for _, chunk := range []int{1, 2, 0} {
		for budget := -1; budget <= capacity; budget++ {
			ops = append(ops, ringOp{K: "writeto", Chunk: chunk, Budget: budget})
		}
	}
	ops = append(ops, ringOp{K: "reset"})
	return ops
}

// ---- model ----

// fifo is the reference: a bounded first-in-first-out byte queue backed by a
// plain slice (no indices, no wrap-around).
type fifo struct {
	capacity int
	q        []byte
}

func (f *fifo) free() int { return f.capacity - len(f.q) }

// applyRing executes op on the real buffer and on the model and returns a
// description of the first disagreement ("" if none), the outcome class and
// whether the op was non-trivial (moved a byte or hit a full/empty boundary).
func applyRing(b *ring.Buffer, f *fifo, op ringOp) (what, class string, nontrivial bool) {
	defer func() {
		if p := recover(); p != nil {
			what = fmt.Sprintf("%s panicked: %v", op, p)
			class = op.K + ":panic"
		}
	}()
	cmpErr := func(got, want error) bool { return got == want }
	switch op.K {
	case "write":
		// "a bounded FIFO of the same capacity": accepts the leading bytes that
		// fit; reports full exactly when something did not fit.
		n, err := b.Write(op.Data)
		wantN := len(op.Data)
		if wantN > f.free() {
			wantN = f.free()
		}
		var wantErr error
		if wantN < len(op.Data) {
			wantErr = ring.ErrBufferFull
		}
		f.q = append(f.q, op.Data[:wantN]...)
		if n != wantN || !cmpErr(err, wantErr) {
			return fmt.Sprintf("%s returned (%d,%v), FIFO model (%d,%v)", op, n, err, wantN, wantErr), "", true
		}
		class = fmt.Sprintf("write:%v", wantErr != nil)
		nontrivial = wantN > 0 || wantErr != nil
	case "writebyte":
		err := b.WriteByte(op.Data[0])
		var wantErr error
		if f.free() == 0 {
			wantErr = ring.ErrBufferFull
		} else {
			f.q = append(f.q, op.Data[0])
		}
		if !cmpErr(err, wantErr) {
			return fmt.Sprintf("%s returned %v, FIFO model %v", op, err, wantErr), "", true
		}
		class = fmt.Sprintf("writebyte:%v", wantErr != nil)
		nontrivial = true
	case "read":
		// bytes.Buffer-like: a zero-length destination reads nothing without
		// error; an empty queue reports io.EOF; otherwise the oldest bytes.
		dst := make([]byte, op.N)
		n, err := b.Read(dst)
		wantN := op.N
		if wantN > len(f.q) {
			wantN = len(f.q)
		}
		var wantErr error
		if op.N > 0 && len(f.q) == 0 {
			wantErr = io.EOF
		}
		want := append([]byte(nil), f.q[:wantN]...)
		f.q = f.q[wantN:]
		if n != wantN || !cmpErr(err, wantErr) || (n >= 0 && n <= len(dst) && !bytes.Equal(dst[:n], want)) {
			return fmt.Sprintf("%s returned (%d,%v,%v), FIFO model (%d,%v,%v)", op, n, err, dst[:min(max(n, 0), len(dst))], wantN, wantErr, want), "", true
		}
		class = fmt.Sprintf("read:%v", wantErr != nil)
		nontrivial = wantN > 0 || wantErr != nil
	case "readbyte":
		v, err := b.ReadByte()
		var want byte
		var wantErr error
		if len(f.q) == 0 {
			wantErr = io.EOF
		} else {
			want = f.q[0]
			f.q = f.q[1:]
		}
		if !cmpErr(err, wantErr) || (wantErr == nil && v != want) {
			return fmt.Sprintf("%s returned (%d,%v), FIFO model (%d,%v)", op, v, err, want, wantErr), "", true
		}
		class = fmt.Sprintf("readbyte:%v", wantErr != nil)
		nontrivial = true
	case "readnfrom":
		// The model moves one byte at a time from an identical scripted reader
		// into the slice queue while bytes are requested and space is left.
		// Result rules are those of the method's contract: ErrBufferFull when
		// the request could not be completed for lack of space (a simultaneous
		// reader error wins), io.EOF suppressed when it coincides with
		// completion of the request.
		impl := newScriptedReader(op)
		n, err := b.ReadNFrom(impl, op.N)
		ref := newScriptedReader(op)
		remaining, wantN := op.N, 0
		var wantErr error
		var one [1]byte
		for remaining > 0 && f.free() > 0 && wantErr == nil {
			var k int
			k, wantErr = ref.Read(one[:])
			if k == 1 {
				f.q = append(f.q, one[0])
				wantN++
				remaining--
			}
		}
		if remaining > 0 && f.free() == 0 && wantErr == nil {
			wantErr = ring.ErrBufferFull
		}
		if wantErr == io.EOF && remaining == 0 {
			wantErr = nil
		}
		if n != wantN || !cmpErr(err, wantErr) {
			return fmt.Sprintf("%s returned (%d,%v), FIFO model (%d,%v)", op, n, err, wantN, wantErr), "", true
		}
		// "short reads ... by the connected reader ... are accounted exactly":
		// the count returned is exactly what the reader handed over.
		if len(impl.delivered) != n {
			return fmt.Sprintf("%s returned count %d but the reader delivered %d bytes", op, n, len(impl.delivered)), "", true
		}
		class = fmt.Sprintf("readnfrom:%v", wantErr)
		nontrivial = wantN > 0 || wantErr != nil
	case "writeto":
		// How the buffer splits its contents into Write calls is its own
		// business (it depends on the wrap position), so the model is driven by
		// what the writer accepted: exactly those bytes, in FIFO order, leave
		// the queue; the count equals them; the error is the writer's; without
		// an error the queue is drained.
		w := &scriptedWriter{chunk: op.Chunk, budget: op.Budget}
		n, err := b.WriteTo(w)
		before := append([]byte(nil), f.q...)
		if len(w.accepted) > len(f.q) || !bytes.Equal(w.accepted, f.q[:len(w.accepted)]) {
			return fmt.Sprintf("%s: writer received %v, FIFO content was %v", op, w.accepted, before), "", true
		}
		f.q = f.q[len(w.accepted):]
		if n != int64(len(w.accepted)) {
			return fmt.Sprintf("%s returned count %d, writer accepted %d", op, n, len(w.accepted)), "", true
		}
		if !cmpErr(err, w.firstErr) {
			return fmt.Sprintf("%s returned error %v, writer's error was %v", op, err, w.firstErr), "", true
		}
		if err == nil && len(f.q) != 0 {
			return fmt.Sprintf("%s returned nil with %d bytes still queued", op, len(f.q)), "", true
		}
		class = fmt.Sprintf("writeto:%v", err)
		nontrivial = len(before) > 0
	case "reset":
		b.Reset()
		nontrivial = len(f.q) > 0
		f.q = f.q[:0]
		class = "reset"
	default:
		panic("unknown ring op " + op.K)
	}
	// "reports full and empty conditions at exactly the same points": the
	// occupancy accessors agree with the model after every operation.
	if b.Size() != f.capacity || b.Used() != len(f.q) || b.Free() != f.free() {
		return fmt.Sprintf("after %s: Size/Used/Free = %d/%d/%d, FIFO model %d/%d/%d", op, b.Size(), b.Used(), b.Free(), f.capacity, len(f.q), f.free()), class, true
	}
	return "", class, nontrivial
}

// ringKey renders the complete private state of the real buffer.
func ringKey(b *ring.Buffer) string {
	start, used, storage := b.VerifState()
	return fmt.Sprintf("s%d u%d %v", start, used, storage)
}

type ringCase struct {
	Capacity int      `json:"capacity"`
	Path     []ringOp `json:"path"`
}

// runRingPath replays a path on a fresh buffer in lock-step with a fresh model.
// It returns the buffer, the model and the first disagreement.
func runRingPath(c ringCase, logf func(string, ...interface{})) (*ring.Buffer, *fifo, string, string, bool) {
	b := ring.NewBuffer(c.Capacity)
	f := &fifo{capacity: c.Capacity}
	var class string
	var nt bool
	for i, op := range c.Path {
		var what string
		what, class, nt = applyRing(b, f, op)
		if logf != nil {
			logf("step %d %s -> impl %s, model queue %v, verdict %q", i, op, ringKey(b), f.q, what)
		}
		if what != "" {
			return b, f, fmt.Sprintf("step %d: %s", i, what), class, nt
		}
	}
	return b, f, "", class, nt
}

func TestC26(t *testing.T) {
	r := vr.New(t, "C26", "model_checking")
	defer r.Finish()
	if raw := vr.ReplayCase(); raw != nil {
		var c ringCase
		if err := json.Unmarshal(raw, &c); err != nil {
			t.Fatalf("INFRA: replay case does not parse: %v", err)
		}
		_, _, what, _, _ := runRingPath(c, t.Logf)
		r.Case(vr.J(c), true)
		r.Set("states", 1)
		r.Set("transitions", len(c.Path))
		r.Set("traces_validated_against_impl", len(c.Path))
		if what != "" {
			r.Violate(vr.J(c), what, c, nil)
		}
		return
	}
	// One pass = (byte alphabet, largest capacity, largest capacity whose
	// ReadNFrom sources range over every byte string; above it one alternating
	// source per length and first letter is used).
	type pass struct {
		alphabet    []byte
		maxCap      int
		fullSources int
	}
	passes := []pass{{[]byte{0, 1}, 4, 4}}
	if vr.Thorough() {
		passes = []pass{{[]byte{0, 1}, 6, 4}, {[]byte{0, 1, 2}, 4, 3}}
	}
	r.Rule(fmt.Sprintf("passes (alphabet, max capacity, full ReadNFrom sources up to capacity) = %v; for each pass and capacity 0..max: breadth-first search to closure over the complete private state (start, used, raw storage) of the real ring.Buffer; from every reachable state every operation of the alphabet is executed (Write of every byte string over the alphabet up to capacity+1, WriteByte, Read 0..capacity+1, ReadByte, ReadNFrom for every count 0..capacity+1 x source contents x per-call chunk {1,2,unlimited} x ending {EOF,error} x {with last byte, on next call}, WriteTo for per-call chunk {1,2,unlimited} x total budget {unlimited,0..capacity}, Reset); a case = (pass, capacity, state, operation); non-trivial = the operation moved at least one byte or hit a full/empty/error condition; distinct by (pass, capacity, state, operation)", passes))
	r.Assume("readers passed to ReadNFrom never return (0, nil) (discouraged by io.Reader; the method would legitimately loop)",
		"writers passed to WriteTo honour the io.Writer contract (n < len(p) implies a non-nil error)",
		"capacities and byte alphabet bounded as stated; the search is to closure, not depth-bounded, within those bounds")
	var states, transitions int64
	maxDepth := 0
	for pi, ps := range passes {
		for capacity := 0; capacity <= ps.maxCap; capacity++ {
			ops := ringAlphabet(capacity, ps.alphabet, capacity <= ps.fullSources)
			// BFS by levels; shortest path per state.
			init := ring.NewBuffer(capacity)
			seen := map[string][]ringOp{ringKey(init): {}}
			frontier := []string{ringKey(init)}
			depth := 0
			for len(frontier) > 0 {
				type succ struct {
					key  string
					path []ringOp
				}
				results := make([][]succ, len(frontier))
				vr.Parallel(len(frontier), func(i int) {
					l := r.Local()
					defer l.Flush()
					path := seen[frontier[i]]
					for oi, op := range ops {
						c := ringCase{Capacity: capacity, Path: append(append([]ringOp{}, path...), op)}
						b, _, what, class, nt := runRingPath(c, nil)
						caseKey := fmt.Sprintf("%d|%d|%s|%d", pi, capacity, frontier[i], oi)
						l.Case(caseKey, nt)
						l.Outcome(class)
						if what != "" {
							r.Violate(fmt.Sprintf("cap=%d state=%s op=%s", capacity, frontier[i], op), what, c, func() bool {
								_, _, w, _, _ := runRingPath(c, nil)
								return w != ""
							})
							continue
						}
						// Replaying a path must reach the state it reached before
						// (the object is deterministic); successor key from the impl.
						results[i] = append(results[i], succ{ringKey(b), c.Path})
					}
				})
				var next []string
				for i := range results {
					transitions += int64(len(ops))
					for _, s := range results[i] {
						if _, ok := seen[s.key]; !ok {
							seen[s.key] = s.path
							next = append(next, s.key)
						}
					}
				}
				frontier = next
				if len(next) > 0 {
					depth++
				}
			}
			states += int64(len(seen))
			if depth > maxDepth {
				maxDepth = depth
			}
			keys := make([]string, 0, len(seen))
			for k := range seen {
				keys = append(keys, k)
			}
			sort.Strings(keys)
			t.Logf("alphabet %v capacity %d: %d states, %d ops per state, BFS depth %d", ps.alphabet, capacity, len(seen), len(ops), depth)
			if pi == 0 && capacity == 3 && len(keys) > 5 {
				r.Sample(map[string]interface{}{"capacity": capacity, "state": keys[len(keys)/2], "shortest_path": fmt.Sprint(seen[keys[len(keys)/2]])})
				r.Sample(map[string]interface{}{"capacity": capacity, "state": keys[len(keys)-1], "shortest_path": fmt.Sprint(seen[keys[len(keys)-1]])})
			}
		}
	}
	r.Set("states", states)
	r.Set("transitions", transitions)
	// Every transition was executed on the implementation in lock-step with the model.
	r.Set("traces_validated_against_impl", transitions)
	r.Set("closure_reached", true)
	r.Set("max_bfs_depth", maxDepth)
	r.Sample(ringCase{Capacity: 2, Path: []ringOp{{K: "write", Data: []byte{0, 1}}, {K: "read", N: 1}, {K: "writebyte", Data: []byte{1}}, {K: "read", N: 3}}})
}
