//go:build verif

package mux

import (
	"fmt"
	"testing"
	"time"

	"verif/internal/vr"
)

func TestDbgR2(t *testing.T) {
	var cfg *Config
	for _, c := range c23Configs() {
		if c.Name == "W2-backpressure-one-write-buffer-halfclose" {
			cfg = c
		}
	}
	target := []Event{{K: "write", S: 0, ID: 1, N: 2}, {K: "deliver", S: 0}, {K: "write", S: 1, ID: 1, N: 1}, {K: "write", S: 1, ID: 1, N: 1}, {K: "read", S: 1, ID: 1, N: 2}, {K: "closeWrite", S: 1, ID: 1}, {K: "deliver", S: 1}, {K: "deliver", S: 1}, {K: "deliver", S: 1}, {K: "write", S: 0, ID: 1, N: 2}}
	dbgSeen = map[[20]byte]string{}
	r := vr.New(t, "C23", "model_checking")
	st, fs := explore(t, r, cfg, "C23", time.Now().Add(time.Hour))
	fmt.Printf("prefix stats %+v found %d\n", st, len(fs))
	for i := 0; i <= len(target); i++ {
		ev := append(append([]Event{}, cfg.Preamble...), target[:i]...)
		res := execute(t, cfg, ev, true, nil)
		inMenu := false
		if i < len(target) {
			for _, m := range res.Menu {
				if m == target[i] {
					inMenu = true
				}
			}
		}
		fmt.Printf("prefix seen-as %q\n", dbgSeen[res.Hash])
		fmt.Printf("prefix %d ok=%v terminal=%v viol=%d nextInMenu=%v menu=%v\n", i, res.OK, res.Terminal, len(res.Viol), inMenu, res.Menu)
	}
}
