//go:build verif

// The "world" explored for C23, C24 and C25: two REAL multiplexers
// (multiplexing.Multiplex) connected by a harness-owned in-memory carrier, run
// inside a testing/synctest bubble. All nondeterminism that matters is owned by
// the harness:
//
//   - which API calls are made, in which order, and which are outstanding: each
//     call is one harness event and runs in its own goroutine; after every
//     event the harness calls synctest.Wait() (quiescence); a call that has not
//     returned by then is "pending" and part of the state;
//   - message delivery: a carrier Write never blocks (unless the bounded variant
//     is configured); it appends one chunk to the direction's held queue; the
//     event deliver(dir) hands the oldest held chunk (or its first byte) to the
//     reading side, which blocks on a bubble channel until then;
//   - time: the synctest virtual clock, advanced only by the event sleep.
//
// What is NOT owned: the order in which goroutines run inside one quiescence
// step and Go's choice among simultaneously ready select cases. Every observed
// behaviour is still a real execution of the real code.
//
// A lock-step byte-stream model is kept per stream and direction (bytes the
// writer reported as written, bytes the reader obtained, half-close / close /
// deadline status); the oracles of the three properties are evaluated on it at
// every quiescent state.
package mux

import (
	"context"
	"errors"
	"fmt"
	"io"
	"runtime"
	"sort"
	"strings"
	"sync"
	"time"

	"github.com/mutagen-io/mutagen/pkg/multiplexing"
)

// ---- events ----

// Event is one harness-owned step.
type Event struct {
	// K is the kind: open, accept, cancel, write, read, closeWrite, close, rdl,
	// wdl, sleep, deliver, deliverByte, deliverN (the first N bytes of the
	// oldest held chunk; the rest stays at the head of the queue), closeMux.
	K string `json:"k"`
	// S is the side the event acts on (0 = A, the odd multiplexer; 1 = B, the
	// even one); for deliver / deliverByte it is the SENDING side.
	S int `json:"s"`
	// ID is the stream identifier (cancel: 0 cancels the pending accept).
	ID int `json:"id,omitempty"`
	// N is the byte count of write / read, the deadline kind of rdl / wdl
	// (0 = clear, 1 = one second in the past, 2 = one second in the future), or
	// the virtual milliseconds of sleep (0 = 2 s).
	N int `json:"n,omitempty"`
}

var sideName = [2]string{"A", "B"}

func (e Event) String() string {
	s := sideName[e.S&1]
	switch e.K {
	case "open", "accept", "closeMux":
		return s + "." + e.K
	case "cancel":
		if e.ID == 0 {
			return s + ".cancelAccept"
		}
		return fmt.Sprintf("%s.cancelOpen(%d)", s, e.ID)
	case "write", "read":
		return fmt.Sprintf("%s%d.%s(%d)", s, e.ID, e.K, e.N)
	case "closeWrite", "close":
		return fmt.Sprintf("%s%d.%s", s, e.ID, e.K)
	case "rdl", "wdl":
		return fmt.Sprintf("%s%d.%s(%s)", s, e.ID, e.K, [3]string{"clear", "past", "+1s"}[e.N%3])
	case "sleep":
		if e.N > 0 {
			return fmt.Sprintf("sleep(%dms)", e.N)
		}
		return "sleep(2s)"
	case "deliver":
		return fmt.Sprintf("%s>%s", s, sideName[1-e.S&1])
	case "deliverByte":
		return fmt.Sprintf("%s>%s.byte", s, sideName[1-e.S&1])
	case "deliverN":
		return fmt.Sprintf("%s>%s.first(%d)", s, sideName[1-e.S&1], e.N)
	}
	return e.K
}

func pathString(p []Event) string {
	parts := make([]string, len(p))
	for i, e := range p {
		parts[i] = e.String()
	}
	return strings.Join(parts, " ")
}

// Config bounds one exploration.
type Config struct {
	Name string `json:"name"`
	// W is Configuration.StreamReceiveWindow on both sides.
	W            int `json:"w"`
	WriteBuffers int `json:"write_buffers"`
	Backlog      int `json:"backlog"`
	// MaxHeld bounds the number of undelivered chunks per direction; a carrier
	// Write beyond it blocks until a delivery (0 = never blocks).
	MaxHeld int `json:"max_held"`
	// Opens / Accepts bound the number of OpenStream / AcceptStream calls per side.
	Opens   [2]int `json:"opens"`
	Accepts [2]int `json:"accepts"`
	// MaxBytes bounds the bytes written per stream and direction.
	MaxBytes   int   `json:"max_bytes"`
	WriteSizes []int `json:"write_sizes"`
	ReadSizes  []int `json:"read_sizes"`
	// Writers / Readers / Closers / Deadliners say which side may issue the
	// respective events.
	Writers    [2]bool `json:"writers"`
	Readers    [2]bool `json:"readers"`
	Closers    [2]bool `json:"closers"`
	Deadliners [2]bool `json:"deadliners"`
	// Kinds lists the optional event kinds that are enabled: closeWrite, close,
	// rdl, wdl, sleep, cancel, closeMux, deliverByte.
	Kinds []string `json:"kinds"`
	// DeadlineKinds lists the deadline arguments offered (0 clear, 1 past, 2 +1s).
	DeadlineKinds []int `json:"deadline_kinds"`
	// AfterClose also offers reads / writes on a stream after its local close
	// and reads after end-of-stream was seen.
	AfterClose bool `json:"after_close"`
	// HeartbeatMs / HeartbeatLimitMs are Configuration.HeartbeatTransmitInterval
	// and MaximumHeartbeatReceiveInterval in (virtual) milliseconds on both
	// sides; 0 disables them.
	HeartbeatMs      int `json:"heartbeat_ms,omitempty"`
	HeartbeatLimitMs int `json:"heartbeat_limit_ms,omitempty"`
	// MaxConcurrent is the number of Read calls (and of Write calls) that may
	// be outstanding at the same time on one stream side (0 means 1).
	MaxConcurrent int `json:"max_concurrent,omitempty"`
	// LongPattern makes byte values a function of the full offset (period far
	// above any write size) instead of offset mod 16: for large transfers.
	LongPattern bool `json:"long_pattern,omitempty"`
	// RepeatCloses is how many times CloseWrite and Close may each be called
	// on one stream side (0 means once; repeated calls are legal, idempotent
	// API usage, and CloseWrite may also follow Close).
	RepeatCloses int `json:"repeat_closes,omitempty"`
	// WriteSizesBySide, when non-nil for a side, replaces WriteSizes for it.
	WriteSizesBySide [2][]int `json:"write_sizes_by_side,omitempty"`
	// Preamble is executed before the explored suffix (not counted in Depth).
	Preamble []Event `json:"preamble"`
	Depth    int     `json:"depth"`
	// Dedup prunes a branch whose quiescent state key was seen before.
	Dedup bool `json:"dedup"`
}

func (c *Config) maxConcurrent() int {
	if c.MaxConcurrent > 1 {
		return c.MaxConcurrent
	}
	return 1
}

func (c *Config) has(kind string) bool {
	for _, k := range c.Kinds {
		if k == kind {
			return true
		}
	}
	return false
}

// byteAt is the value of the byte at offset off of the data written by side
// writer on stream id: distinct for every (stream, direction, offset) in the
// bound, so loss, duplication, reordering and cross-stream leakage are all
// visible in the value itself.
func byteAt(id, writer, off int) byte {
	return byte((((id-1)*2+writer)&15)<<4 | off&15)
}

// byteAt picks the pattern the configuration asks for.
func (w *world) byteAt(id, writer, off int) byte {
	if w.cfg.LongPattern {
		// Low byte of the offset through an odd multiplier (a bijection on it),
		// mixed with the higher offset bytes and the stream / direction.
		return byte(off*131 + (off>>8)*29 + (off>>16)*7 + ((id-1)*2+writer)*97)
	}
	return byteAt(id, writer, off)
}

func (w *world) describeByte(b byte) string {
	if w.cfg.LongPattern {
		return fmt.Sprintf("%#02x", b)
	}
	return describeByte(b)
}

func describeByte(b byte) string {
	tag := int(b >> 4)
	return fmt.Sprintf("%#02x(stream %d written by %s offset %d)", b, tag/2+1, sideName[tag%2], b&15)
}

// ---- carrier ----

// wire is one direction of the carrier.
type wire struct {
	mu      sync.Mutex
	held    [][]byte // written, not yet delivered (harness-owned)
	avail   []byte   // delivered, not yet consumed by the reading multiplexer
	partial []byte   // already delivered prefix of the chunk now at held[0] (byte-wise delivery)
	blocked []byte   // chunk a blocked Write is waiting to append (bounded variant)
	closed  bool
	maxHeld int
	wake    chan struct{} // cap 1: something was delivered
	space   chan struct{} // cap 1: the held queue shrank
	done    chan struct{} // closed when the wire is closed
	chunks  int
	// midPayload: the reading multiplexer is blocked in the carrier in the
	// middle of a data message's payload (called from ring.Buffer.ReadNFrom),
	// i.e. while it holds the stream's receive-buffer lock.
	midPayload bool
}

func newWire(maxHeld int) *wire {
	return &wire{maxHeld: maxHeld, wake: make(chan struct{}, 1), space: make(chan struct{}, 1), done: make(chan struct{})}
}

func signal(ch chan struct{}) {
	select {
	case ch <- struct{}{}:
	default:
	}
}

// deliver hands the oldest held chunk (or its first byte) to the reader.
func (q *wire) deliver(byteWise bool) bool {
	q.mu.Lock()
	defer q.mu.Unlock()
	if q.closed || len(q.held) == 0 {
		return false
	}
	if byteWise {
		b := q.held[0][0]
		q.avail = append(q.avail, b)
		q.partial = append(q.partial, b)
		q.held[0] = q.held[0][1:]
		if len(q.held[0]) == 0 {
			q.held = q.held[1:]
			q.partial = nil
		}
	} else {
		q.avail = append(q.avail, q.held[0]...)
		q.held = q.held[1:]
		q.partial = nil
	}
	signal(q.wake)
	signal(q.space)
	return true
}

// idle reports that everything written into the wire was handed to the reading
// multiplexer (nothing held back by the harness, no Write blocked). Bytes that
// were handed over but not consumed do not count: a live multiplexer consumes
// what it is given, and one that does not is exactly what the oracles that use
// idle() are there to expose.
// deliverN hands over the first n bytes of the oldest held chunk (all of it if
// it is not longer): the carrier read boundary then falls at offset n.
func (q *wire) deliverN(n int) bool {
	q.mu.Lock()
	defer q.mu.Unlock()
	if q.closed || len(q.held) == 0 || n <= 0 {
		return false
	}
	if n >= len(q.held[0]) {
		q.avail = append(q.avail, q.held[0]...)
		q.held = q.held[1:]
		q.partial = nil
	} else {
		q.avail = append(q.avail, q.held[0][:n]...)
		q.partial = append(q.partial, q.held[0][:n]...)
		q.held[0] = q.held[0][n:]
	}
	signal(q.wake)
	signal(q.space)
	return true
}

func (q *wire) idle() bool {
	q.mu.Lock()
	defer q.mu.Unlock()
	return len(q.held) == 0 && q.partial == nil && q.blocked == nil
}

func (q *wire) key() string {
	q.mu.Lock()
	defer q.mu.Unlock()
	var b strings.Builder
	fmt.Fprintf(&b, "closed=%v avail=%x partial=%x blocked=%x held=", q.closed, q.avail, q.partial, q.blocked)
	for _, c := range q.held {
		fmt.Fprintf(&b, "%x,", c)
	}
	return b.String()
}

// end is one endpoint of the carrier; it implements multiplexing.Carrier.
type end struct {
	in, out *wire
}

// take blocks until at least one delivered byte is available (or the wire is
// closed) and lets f consume from the available bytes.
func (e *end) take(f func(avail []byte) int) error {
	q := e.in
	for {
		q.mu.Lock()
		if len(q.avail) > 0 {
			n := f(q.avail)
			q.avail = q.avail[n:]
			q.mu.Unlock()
			return nil
		}
		if q.closed {
			q.mu.Unlock()
			return io.EOF
		}
		if !q.midPayload && calledFromReadNFrom() {
			q.midPayload = true
		}
		q.mu.Unlock()
		select {
		case <-q.wake:
		case <-q.done:
		}
		q.mu.Lock()
		q.midPayload = false
		q.mu.Unlock()
	}
}

// calledFromReadNFrom reports whether the current goroutine is inside
// ring.(*Buffer).ReadNFrom (the multiplexer reads a data payload straight into
// the stream's receive buffer, under that buffer's lock).
func calledFromReadNFrom() bool {
	var pcs [16]uintptr
	n := runtime.Callers(2, pcs[:])
	frames := runtime.CallersFrames(pcs[:n])
	for {
		f, more := frames.Next()
		if strings.HasSuffix(f.Function, "ring.(*Buffer).ReadNFrom") {
			return true
		}
		if !more {
			return false
		}
	}
}

func (q *wire) readerMidPayload() bool {
	q.mu.Lock()
	defer q.mu.Unlock()
	return q.midPayload
}

func (e *end) Read(p []byte) (int, error) {
	if len(p) == 0 {
		return 0, nil
	}
	var n int
	err := e.take(func(avail []byte) int { n = copy(p, avail); return n })
	return n, err
}

func (e *end) ReadByte() (byte, error) {
	var b byte
	err := e.take(func(avail []byte) int { b = avail[0]; return 1 })
	return b, err
}

func (e *end) Discard(n int) (int, error) {
	discarded := 0
	for discarded < n {
		err := e.take(func(avail []byte) int {
			k := n - discarded
			if k > len(avail) {
				k = len(avail)
			}
			discarded += k
			return k
		})
		if err != nil {
			return discarded, err
		}
	}
	return discarded, nil
}

func (e *end) Write(p []byte) (int, error) {
	q := e.out
	for {
		q.mu.Lock()
		if q.closed {
			q.blocked = nil
			q.mu.Unlock()
			return 0, io.ErrClosedPipe
		}
		if q.maxHeld == 0 || len(q.held) < q.maxHeld {
			q.held = append(q.held, append([]byte(nil), p...))
			q.blocked = nil
			q.chunks++
			q.mu.Unlock()
			return len(p), nil
		}
		q.blocked = append([]byte(nil), p...)
		q.mu.Unlock()
		select {
		case <-q.space:
		case <-q.done:
		}
	}
}

// Close closes both directions (like closing a socket): blocked reads and
// writes on either end wake up; undelivered chunks are dropped; bytes already
// delivered stay readable and are followed by io.EOF.
func (e *end) Close() error {
	for _, q := range []*wire{e.in, e.out} {
		q.mu.Lock()
		if !q.closed {
			q.closed = true
			q.held = nil
			q.partial = nil
			close(q.done)
		}
		q.mu.Unlock()
	}
	return nil
}

// ---- calls and model ----

// call is one API call started by an event.
type call struct {
	seq       int
	kind      string
	side, id  int
	n         int
	data      []byte // write: the data; read: the destination buffer
	at        time.Time
	cancel    context.CancelFunc
	cancelled bool
	step      int
	// results, written by the call's goroutine before done is set
	count  int
	err    error
	stream *multiplexing.Stream
	done   bool
	// processed is set by the harness once the result was folded into the model.
	processed bool
}

func (c *call) String() string {
	s := fmt.Sprintf("%s%d.%s", sideName[c.side], c.id, c.kind)
	if c.kind == "read" || c.kind == "write" {
		s += fmt.Sprintf("(%d)", c.n)
	}
	if c.cancelled {
		s += "[cancelled]"
	}
	return s
}

// deadline models one read or write deadline.
type deadline struct {
	kind int // 0 none, 1 set in the past, 2 set in the future
	at   time.Time
}

func (d deadline) elapsed(now time.Time) bool {
	return d.kind == 1 || (d.kind == 2 && !now.Before(d.at))
}

func (d deadline) key(now time.Time) string {
	switch {
	case d.kind == 0:
		return "-"
	case d.kind == 1:
		return "P"
	case d.elapsed(now):
		return "E"
	}
	return "F" + d.at.Sub(now).String()
}

// sideModel is what the harness knows about one side of one stream.
type sideModel struct {
	handle *multiplexing.Stream
	// confirmed is the number of bytes Write calls reported as written.
	confirmed int
	// read is the number of bytes Read calls returned.
	read int
	// cwCalled / cCalled: CloseWrite / Close was called on this side (Close is
	// also assumed when the side's OpenStream failed or was cancelled, because
	// OpenStream then closes the stream itself).
	cwCalled, cCalled bool
	// cwCount / cCount: how often CloseWrite / Close were called.
	cwCount, cCount int
	eof             bool
	deadlineErrSeen [2]bool // a read / write returned os.ErrDeadlineExceeded
	rdl, wdl        deadline
	// sent holds the bytes Write calls reported as written (len(sent) ==
	// confirmed), in the order the calls were served.
	sent []byte
	// readCalls / writeCalls are the outstanding Read / Write calls in the
	// order they were started, which is the order the stream serves them (each
	// queues on the stream's read / write slot).
	readCalls  []*call
	writeCalls []*call
}

func (m *sideModel) pendingWriteBytes() int {
	n := 0
	for _, c := range m.writeCalls {
		n += len(c.data)
	}
	return n
}

// bytesUpTo is the number of bytes offered by the outstanding Write calls up to
// and including c.
func (m *sideModel) bytesUpTo(c *call) int {
	n := 0
	for _, pc := range m.writeCalls {
		n += len(pc.data)
		if pc == c {
			break
		}
	}
	return n
}

func removeCall(list []*call, c *call) []*call {
	out := list[:0:0]
	for _, x := range list {
		if x != c {
			out = append(out, x)
		}
	}
	return out
}

type streamModel struct {
	id     int
	opener int
	side   [2]sideModel
}

// violation is one oracle failure.
type violation struct {
	Prop string `json:"prop"`
	// Class is the canonical identity used in the violation key.
	Class string `json:"class"`
	What  string `json:"what"`
	// Step is the index of the event after which it was observed (len(events)
	// for the final teardown).
	Step int `json:"step"`
}

type world struct {
	cfg     *Config
	mux     [2]*multiplexing.Multiplexer
	ends    [2]*end
	wires   [2]*wire // wires[s]: written by side s
	mu      sync.Mutex
	calls   []*call
	streams map[int]*streamModel
	nextID  [2]int
	opens   [2]int
	accepts [2]int
	// acceptCall is the pending AcceptStream call per side.
	acceptCall [2]*call
	// harnessClosed: the harness closed this multiplexer.
	harnessClosed [2]bool
	// internalError: a multiplexer closed itself although nobody closed either.
	internalError bool
	viol          []violation
	maxPending    int
	bytesRead     int
	sawPending    bool
	sawSpecial    bool // a zero-length op, deadline, cancel, reject or close was exercised
	outcomes      map[string]int
	logf          func(string, ...interface{})
	// accLog[s] lists, in order, the calls of side s that handed something to
	// the multiplexer's accumulator goroutine (reads that consumed bytes,
	// CloseWrite, Close) while side s had no write buffer available, i.e. while
	// that accumulator could not flush. Its pending contents are private to a
	// goroutine and not visible through VerifState; the order of these calls is
	// what determines them, so it is part of the state key. It is empty
	// whenever a write buffer is available at quiescence (always, with a
	// carrier that never blocks).
	accLog [2][]string
}

func newWorld(cfg *Config) *world {
	w := &world{cfg: cfg, streams: map[int]*streamModel{}, nextID: [2]int{1, 2}, outcomes: map[string]int{}}
	w.wires[0], w.wires[1] = newWire(cfg.MaxHeld), newWire(cfg.MaxHeld)
	w.ends[0] = &end{in: w.wires[1], out: w.wires[0]}
	w.ends[1] = &end{in: w.wires[0], out: w.wires[1]}
	for s := 0; s < 2; s++ {
		w.mux[s] = multiplexing.Multiplex(w.ends[s], s == 1, &multiplexing.Configuration{
			StreamReceiveWindow: cfg.W,
			WriteBufferCount:    cfg.WriteBuffers,
			AcceptBacklog:       cfg.Backlog,
			// Heartbeats are disabled unless the configuration asks for them:
			// then no timers exist other than the deadlines set by events.
			HeartbeatTransmitInterval:       time.Duration(cfg.HeartbeatMs) * time.Millisecond,
			MaximumHeartbeatReceiveInterval: time.Duration(cfg.HeartbeatLimitMs) * time.Millisecond,
		})
	}
	return w
}

func (w *world) violate(prop, class, what string, step int) {
	w.viol = append(w.viol, violation{prop, class, what, step})
	if w.logf != nil {
		w.logf("    !! %s %s: %s", prop, class, what)
	}
}

func (w *world) launch(c *call, step int, f func(c *call)) {
	c.seq = len(w.calls)
	c.step = step
	w.calls = append(w.calls, c)
	go func() {
		f(c)
		w.mu.Lock()
		c.done = true
		w.mu.Unlock()
	}()
}

func (w *world) muxClosed(s int) bool {
	select {
	case <-w.mux[s].Closed():
		return true
	default:
		return false
	}
}

func (w *world) stream(id int) *streamModel { return w.streams[id] }

// do applies one event; it reports false when the event is not applicable in
// the current state (possible only when a replayed prefix diverged).
func (w *world) do(ev Event, step int) bool {
	s := ev.S & 1
	switch ev.K {
	case "open":
		id := w.nextID[s]
		w.nextID[s] += 2
		w.opens[s]++
		w.streams[id] = &streamModel{id: id, opener: s}
		ctx, cancel := context.WithCancel(context.Background())
		w.launch(&call{kind: "open", side: s, id: id, cancel: cancel}, step, func(c *call) {
			c.stream, c.err = w.mux[s].OpenStream(ctx)
		})
	case "accept":
		if w.acceptCall[s] != nil {
			return false
		}
		w.accepts[s]++
		ctx, cancel := context.WithCancel(context.Background())
		c := &call{kind: "accept", side: s, cancel: cancel}
		w.acceptCall[s] = c
		w.launch(c, step, func(c *call) {
			c.stream, c.err = w.mux[s].AcceptStream(ctx)
		})
	case "cancel":
		var target *call
		for _, c := range w.calls {
			if c.side == s && !c.isDone(w) && ((ev.ID == 0 && c.kind == "accept") || (ev.ID != 0 && c.kind == "open" && c.id == ev.ID)) {
				target = c
			}
		}
		if target == nil {
			return false
		}
		target.cancelled = true
		target.cancel()
		w.sawSpecial = true
	case "write", "read", "closeWrite", "close", "rdl", "wdl":
		st := w.streams[ev.ID]
		if st == nil || st.side[s].handle == nil {
			return false
		}
		m := &st.side[s]
		h := m.handle
		switch ev.K {
		case "write":
			if len(m.writeCalls) >= w.cfg.maxConcurrent() {
				return false
			}
			// The data continues where the bytes handed to earlier Write calls
			// (returned or still outstanding) end.
			off := m.confirmed + m.pendingWriteBytes()
			data := make([]byte, ev.N)
			for i := range data {
				data[i] = w.byteAt(ev.ID, s, off+i)
			}
			c := &call{kind: "write", side: s, id: ev.ID, n: ev.N, data: data}
			m.writeCalls = append(m.writeCalls, c)
			if ev.N == 0 {
				w.sawSpecial = true
			}
			w.launch(c, step, func(c *call) { c.count, c.err = h.Write(c.data) })
		case "read":
			if len(m.readCalls) >= w.cfg.maxConcurrent() {
				return false
			}
			c := &call{kind: "read", side: s, id: ev.ID, n: ev.N, data: make([]byte, ev.N)}
			m.readCalls = append(m.readCalls, c)
			if ev.N == 0 {
				w.sawSpecial = true
			}
			w.launch(c, step, func(c *call) { c.count, c.err = h.Read(c.data) })
		case "closeWrite":
			m.cwCalled = true
			m.cwCount++
			w.sawSpecial = true
			w.launch(&call{kind: "closeWrite", side: s, id: ev.ID}, step, func(c *call) { c.err = h.CloseWrite() })
		case "close":
			m.cCalled = true
			m.cCount++
			w.sawSpecial = true
			w.launch(&call{kind: "close", side: s, id: ev.ID}, step, func(c *call) { c.err = h.Close() })
		case "rdl", "wdl":
			var at time.Time
			switch ev.N {
			case 1:
				at = time.Now().Add(-time.Second)
			case 2:
				at = time.Now().Add(time.Second)
			}
			w.sawSpecial = true
			c := &call{kind: ev.K, side: s, id: ev.ID, n: ev.N, at: at}
			if ev.K == "rdl" {
				w.launch(c, step, func(c *call) { c.err = h.SetReadDeadline(c.at) })
			} else {
				w.launch(c, step, func(c *call) { c.err = h.SetWriteDeadline(c.at) })
			}
		}
	case "sleep":
		d := 2 * time.Second
		if ev.N > 0 {
			d = time.Duration(ev.N) * time.Millisecond
		}
		time.Sleep(d)
	case "deliver":
		return w.wires[s].deliver(false)
	case "deliverByte":
		return w.wires[s].deliver(true)
	case "deliverN":
		return w.wires[s].deliverN(ev.N)
	case "closeMux":
		if w.harnessClosed[s] {
			return false
		}
		w.harnessClosed[s] = true
		w.sawSpecial = true
		w.launch(&call{kind: "closeMux", side: s}, step, func(c *call) { c.err = w.mux[s].Close() })
	default:
		panic("unknown event kind " + ev.K)
	}
	return true
}

func (c *call) isDone(w *world) bool {
	w.mu.Lock()
	defer w.mu.Unlock()
	return c.done
}

func errClass(err error) string {
	switch {
	case err == nil:
		return "ok"
	case err == io.EOF:
		return "EOF"
	case errors.Is(err, context.Canceled):
		return "cancelled"
	case errors.Is(err, multiplexing.ErrStreamRejected):
		return "rejected"
	case errors.Is(err, multiplexing.ErrMultiplexerClosed):
		return "mux-closed"
	case errors.Is(err, multiplexing.ErrWriteClosed):
		return "write-closed"
	case isDeadline(err):
		return "deadline"
	case strings.Contains(err.Error(), "remote"):
		return "remote-closed"
	case strings.Contains(err.Error(), "closed"):
		return "closed"
	}
	return "other"
}

func isDeadline(err error) bool {
	type timeout interface{ Timeout() bool }
	var t timeout
	return errors.As(err, &t) && t.Timeout()
}

// observe is called at quiescence after event number step: it folds the results
// of the calls that returned into the model (checking the C23 clauses on them)
// and then evaluates the state invariants of C23, C24 and C25.
func (w *world) observe(step int) {
	w.mu.Lock()
	var fresh []*call
	pending := 0
	for _, c := range w.calls {
		if c.done && !c.processed {
			fresh = append(fresh, c)
		}
		if !c.done {
			pending++
		}
	}
	w.mu.Unlock()
	if pending > w.maxPending {
		w.maxPending = pending
	}
	if pending > 0 {
		w.sawPending = true
	}
	// Writes, opens, closes and deadline calls first, reads second: a read that
	// returned in this step is judged against what the peer's Write calls have
	// reported by the end of the step.
	for pass := 0; pass < 2; pass++ {
		for _, c := range fresh {
			if (c.kind == "read") != (pass == 1) {
				continue
			}
			c.processed = true
			w.fold(c, step)
			if (c.kind == "read" && c.count > 0) || c.kind == "closeWrite" || c.kind == "close" {
				w.accLog[c.side] = append(w.accLog[c.side], fmt.Sprintf("%d.%s%d", c.id, c.kind, c.count))
			}
		}
	}
	for s := 0; s < 2; s++ {
		if len(w.accLog[s]) > 0 && !w.wires[1-s].readerMidPayload() {
			if i := strings.Index(w.mux[s].VerifState(), "wavail="); i >= 0 {
				var avail int
				fmt.Sscanf(w.mux[s].VerifState()[i:], "wavail=%d", &avail)
				if avail > 0 {
					w.accLog[s] = nil
				}
			}
		}
	}
	w.invariants(step)
}

// fold processes one returned call.
func (w *world) fold(c *call, step int) {
	w.outcomes[c.kind+":"+errClass(c.err)]++
	if w.logf != nil {
		extra := ""
		if c.kind == "read" {
			extra = fmt.Sprintf(" data=%x", c.data[:clamp(c.count, len(c.data))])
		}
		w.logf("    returned: %s -> n=%d err=%v%s", c, c.count, c.err, extra)
	}
	switch c.kind {
	case "open":
		st := w.streams[c.id]
		if c.err != nil || c.stream == nil {
			// OpenStream closes the half-created stream itself when it fails.
			st.side[c.side].cCalled = true
			if errors.Is(c.err, multiplexing.ErrStreamRejected) {
				w.sawSpecial = true
			}
			return
		}
		if got := c.stream.LocalAddr().String(); got != fmt.Sprintf("local:%d", c.id) {
			w.violate("C23", "stream-identity", fmt.Sprintf("OpenStream number %d on %s returned stream %q, expected identifier %d", (c.id+1)/2, sideName[c.side], got, c.id), step)
			return
		}
		st.side[c.side].handle = c.stream
	case "accept":
		w.acceptCall[c.side] = nil
		if c.err != nil || c.stream == nil {
			return
		}
		var id int
		fmt.Sscanf(c.stream.LocalAddr().String(), "local:%d", &id)
		st := w.streams[id]
		if st == nil || st.opener == c.side || st.side[c.side].handle != nil {
			w.violate("C23", "stream-identity", fmt.Sprintf("AcceptStream on %s returned stream %q which the peer did not open (or which was accepted before)", sideName[c.side], c.stream.LocalAddr()), step)
			return
		}
		st.side[c.side].handle = c.stream
	case "write":
		m := &w.streams[c.id].side[c.side]
		m.writeCalls = removeCall(m.writeCalls, c)
		if c.count < 0 || c.count > len(c.data) {
			w.violate("C23", "write-count", fmt.Sprintf("%s returned count %d for %d bytes", c, c.count, len(c.data)), step)
			return
		}
		// "without loss": a Write that reports success accepted every byte.
		if c.err == nil && c.count != len(c.data) {
			w.violate("C23", "write-short-no-error", fmt.Sprintf("%s returned (%d, nil)", c, c.count), step)
		}
		m.confirmed += c.count
		m.sent = append(m.sent, c.data[:c.count]...)
		if isDeadline(c.err) {
			m.deadlineErrSeen[1] = true
		}
	case "read":
		w.foldRead(c, step)
	case "rdl", "wdl":
		if c.err != nil {
			return
		}
		m := &w.streams[c.id].side[c.side]
		d := deadline{kind: c.n, at: c.at}
		if c.kind == "rdl" {
			m.rdl = d
			m.deadlineErrSeen[0] = false
		} else {
			m.wdl = d
			m.deadlineErrSeen[1] = false
		}
	}
}

func clamp(n, hi int) int {
	if n < 0 {
		return 0
	}
	if n > hi {
		return hi
	}
	return n
}

// foldRead judges one returned Read against the byte-stream model (C23).
func (w *world) foldRead(c *call, step int) {
	st := w.streams[c.id]
	me, peer := &st.side[c.side], &st.side[1-c.side]
	me.readCalls = removeCall(me.readCalls, c)
	if c.count < 0 || c.count > len(c.data) {
		w.violate("C23", "read-count", fmt.Sprintf("%s returned count %d for a %d byte buffer", c, c.count, len(c.data)), step)
		return
	}
	// "the bytes read by one side are exactly the bytes written by the other
	// side, in order, without loss or duplication ... data on one stream never
	// appears on another": byte number k read here must be byte number k the
	// peer wrote on this stream.
	// The reference stream is what the peer's Write calls reported as written,
	// followed by the data of its outstanding Write calls in the order they
	// will be served.
	expected := func(k int) (byte, bool) {
		if k < len(peer.sent) {
			return peer.sent[k], true
		}
		k -= len(peer.sent)
		for _, pc := range peer.writeCalls {
			if k < len(pc.data) {
				return pc.data[k], true
			}
			k -= len(pc.data)
		}
		return 0, false
	}
	for i := 0; i < c.count; i++ {
		want, ok := expected(me.read + i)
		if !ok {
			break // beyond everything handed to Write: reported below
		}
		if c.data[i] != want {
			class := "order-or-duplication"
			if !w.cfg.LongPattern && c.data[i]>>4 != want>>4 {
				class = "cross-stream"
			}
			w.violate("C23", class, fmt.Sprintf("%s: byte %d of the stream is %s, expected %s", c, me.read+i, w.describeByte(c.data[i]), w.describeByte(want)), step)
			break
		}
	}
	// Nothing can be read that the peer's Write calls did not report (or, for a
	// Write still in progress, were not handed).
	upper := peer.confirmed + peer.pendingWriteBytes()
	if me.read+c.count > upper {
		w.violate("C23", "phantom-bytes", fmt.Sprintf("%s: %d bytes read in total but the peer's Write calls reported only %d bytes written", c, me.read+c.count, upper), step)
	}
	me.read += c.count
	w.bytesRead += c.count
	if isDeadline(c.err) {
		me.deadlineErrSeen[0] = true
	}
	// "A reader sees end-of-stream only after the peer half-closed or closed
	// and all data written before that was read".
	if c.err == io.EOF {
		me.eof = true
		if !peer.cwCalled && !peer.cCalled {
			w.violate("C23", "early-eof", fmt.Sprintf("%s returned io.EOF although the peer neither half-closed nor closed the stream", c), step)
		} else if me.read < peer.confirmed {
			w.violate("C23", "eof-before-data", fmt.Sprintf("%s returned io.EOF after %d bytes although the peer wrote %d bytes before closing", c, me.read, peer.confirmed), step)
		}
	}
}

func (w *world) idle() bool { return w.wires[0].idle() && w.wires[1].idle() }

// invariants evaluates the per-state oracles.
func (w *world) invariants(step int) {
	now := time.Now()
	closed := [2]bool{w.muxClosed(0), w.muxClosed(1)}
	anyHarnessClosed := w.harnessClosed[0] || w.harnessClosed[1]

	// C24: "never send each other a message the receiver treats as a protocol
	// violation. Their connection stays up until one side is closed explicitly
	// or the carrier fails." The harness never fails the carrier.
	if !anyHarnessClosed && !w.internalError {
		var texts []string
		primary, secondary := "", ""
		for s := 0; s < 2; s++ {
			err := w.mux[s].InternalError()
			if err == nil && !closed[s] {
				continue
			}
			if err == nil {
				texts = append(texts, sideName[s]+" closed itself without recording an error")
				continue
			}
			texts = append(texts, fmt.Sprintf("%s: %v", sideName[s], err))
			// The side that merely saw the carrier go away (because the other
			// side tore the connection down) is secondary.
			if strings.Contains(err.Error(), "EOF") || strings.Contains(err.Error(), "closed pipe") {
				if secondary == "" {
					secondary = err.Error()
				}
			} else if primary == "" {
				primary = err.Error()
			}
		}
		if primary == "" {
			primary = secondary
		}
		if len(texts) > 0 {
			w.internalError = true
			w.violate("C24", "teardown: "+primary, "multiplexer(s) closed without being closed by the caller: "+strings.Join(texts, "; "), step)
		}
	}

	idle := w.idle()
	pendingOpens := [2]int{}
	// A pending call of a side whose multiplexer reader is parked in the middle
	// of a data message's payload (the carrier stalled mid-message) is blocked
	// under a specific, separately identifiable circumstance: the class (and so
	// the violation key) says so, so that this circumstance and any other hang
	// never share a key.
	stalled := [2]bool{w.wires[1].readerMidPayload(), w.wires[0].readerMidPayload()}
	cls := func(base string, side int) string {
		if stalled[side] {
			return base + "@carrier-stalled-mid-data-message"
		}
		return base
	}
	for _, c := range w.calls {
		if c.done {
			continue
		}
		s := c.side
		rwoa := c.kind == "read" || c.kind == "write" || c.kind == "open" || c.kind == "accept"
		// C25: "Every blocked read, write, open or accept returns once ... the
		// multiplexer is closed".
		if rwoa && closed[s] {
			w.violate("C25", cls("blocked-after-mux-closed:"+c.kind, s), fmt.Sprintf("%s is still blocked although multiplexer %s is closed", c, sideName[s]), step)
			continue
		}
		switch c.kind {
		case "open":
			pendingOpens[s]++
			if c.cancelled {
				w.violate("C25", cls("blocked-after-cancel:open", s), fmt.Sprintf("%s is still blocked although its context was cancelled", c), step)
			}
		case "accept":
			if c.cancelled {
				w.violate("C25", cls("blocked-after-cancel:accept", s), fmt.Sprintf("%s is still blocked although its context was cancelled", c), step)
			}
		case "read":
			st := w.streams[c.id]
			me, peer := &st.side[s], &st.side[1-s]
			switch {
			case me.rdl.elapsed(now):
				// "returns once its deadline passes"
				w.violate("C25", cls("blocked-after-deadline:read", s), fmt.Sprintf("%s is still blocked although its read deadline (%s) has passed", c, me.rdl.key(now)), step)
			case me.cCalled:
				// "its stream ... is closed"
				w.violate("C25", cls("blocked-after-close:read", s), fmt.Sprintf("%s is still blocked although Close was called on the stream", c), step)
			case (peer.cCalled || peer.cwCalled) && w.wires[1-s].idle() && !closed[1-s]:
				// "or the peer closes the stream" (for a reader a half-close
				// of the writing direction ends the stream as well).
				w.violate("C25", cls("blocked-after-peer-close:read", s), fmt.Sprintf("%s is still blocked although the peer closed (or half-closed) the stream and everything it sent was delivered", c), step)
			case c.n > 0 && w.wires[1-s].idle() && peer.confirmed > me.read:
				// C23 "without loss": bytes reported written and fully
				// delivered must be readable.
				w.violate("C23", cls("lost-bytes", s), fmt.Sprintf("%s is blocked although the peer reported %d bytes written, only %d were read and nothing is in flight", c, peer.confirmed, me.read), step)
				// C25 "A stream whose reader stops consuming never prevents
				// data from flowing on other streams": the same situation is a
				// head-of-line block when another stream of this side holds
				// delivered data nobody is reading.
				for _, other := range w.streams {
					if other.id != c.id && len(other.side[s].readCalls) == 0 && other.side[1-s].confirmed > other.side[s].read {
						w.violate("C25", cls("head-of-line:read", s), fmt.Sprintf("%s is blocked although its %d bytes were delivered, while stream %d has unread data and no reader", c, peer.confirmed-me.read, other.id), step)
						break
					}
				}
			}
		case "write":
			st := w.streams[c.id]
			me, peer := &st.side[s], &st.side[1-s]
			switch {
			case me.wdl.elapsed(now):
				w.violate("C25", cls("blocked-after-deadline:write", s), fmt.Sprintf("%s is still blocked although its write deadline (%s) has passed", c, me.wdl.key(now)), step)
			case me.cCalled || me.cwCalled:
				w.violate("C25", cls("blocked-after-close:write", s), fmt.Sprintf("%s is still blocked although Close/CloseWrite was called on the stream", c), step)
			case peer.cCalled && w.wires[1-s].idle() && !closed[1-s]:
				w.violate("C25", cls("blocked-after-peer-close:write", s), fmt.Sprintf("%s is still blocked although the peer closed the stream and its close was delivered", c), step)
			case idle && !closed[1-s] && !peer.cCalled && w.cfg.W > 0 && me.confirmed+me.bytesUpTo(c)-peer.read <= w.cfg.W:
				// "A stream whose reader stops consuming never prevents data
				// from flowing on other streams": with nothing in flight in
				// either direction the only legitimate reason for a Write to
				// be blocked is that the peer's receive window for THIS stream
				// cannot take the data, i.e. unread bytes would exceed it.
				w.violate("C25", cls("write-stalled-with-window", s), fmt.Sprintf("%s is blocked although nothing is in flight and the peer's window has room: %d reported + %d offered (earlier outstanding writes included) - %d read by peer <= window %d", c, me.confirmed, me.bytesUpTo(c), peer.read, w.cfg.W), step)
				// C23 "deliver bytes reliably ... without loss": the same state
				// means bytes handed to Write can never reach a peer that has
				// consumed everything before (e.g. receive-window credit that
				// was lost on the way), in particular on the still-open
				// direction of a half-closed stream.
				w.violate("C23", cls("write-stalled-with-window", s), fmt.Sprintf("%s can never deliver its bytes: it is blocked although nothing is in flight and the peer has read %d of the %d bytes reported written (window %d)", c, peer.read, me.confirmed, w.cfg.W), step)
			}
		}
	}
	// C25: "an open request beyond the peer's accept backlog is rejected rather
	// than left pending": with nothing in flight, at most Backlog opens of one
	// side can still be waiting (those sitting in the peer's backlog).
	for s := 0; s < 2; s++ {
		if idle && !closed[0] && !closed[1] && pendingOpens[s] > w.cfg.Backlog {
			w.violate("C25", "open-beyond-backlog-pending", fmt.Sprintf("%d OpenStream calls of %s are pending with nothing in flight although the peer's accept backlog is %d", pendingOpens[s], sideName[s], w.cfg.Backlog), step)
		}
	}
}

// key renders the quiescent state for deduplication: lock-step model, private
// state of both multiplexers (VerifState), pending calls, carrier contents.
func (w *world) key() string {
	now := time.Now()
	var b strings.Builder
	for s := 0; s < 2; s++ {
		vs := "reader-mid-payload(private state not readable: receive-buffer lock held)"
		if !w.wires[1-s].readerMidPayload() {
			vs = w.mux[s].VerifState()
		}
		fmt.Fprintf(&b, "%s{%s hc=%v o=%d a=%d}\n", sideName[s], vs, w.harnessClosed[s], w.opens[s], w.accepts[s])
	}
	ids := make([]int, 0, len(w.streams))
	for id := range w.streams {
		ids = append(ids, id)
	}
	sort.Ints(ids)
	for _, id := range ids {
		st := w.streams[id]
		fmt.Fprintf(&b, "s%d:", id)
		for s := 0; s < 2; s++ {
			m := &st.side[s]
			fmt.Fprintf(&b, "[h=%v w=%d r=%d cw=%v%d c=%v%d eof=%v rdl=%s%v wdl=%s%v]", m.handle != nil, m.confirmed, m.read, m.cwCalled, m.cwCount, m.cCalled, m.cCount, m.eof,
				m.rdl.key(now), m.deadlineErrSeen[0], m.wdl.key(now), m.deadlineErrSeen[1])
		}
		b.WriteString("\n")
	}
	// Pending calls, grouped by (side, stream, kind); within a group in start
	// order, which is the order the stream will serve them.
	var pc []*call
	for _, c := range w.calls {
		if !c.done {
			pc = append(pc, c)
		}
	}
	sort.SliceStable(pc, func(i, j int) bool {
		a, b := pc[i], pc[j]
		if a.side != b.side {
			return a.side < b.side
		}
		if a.id != b.id {
			return a.id < b.id
		}
		return a.kind < b.kind
	})
	pend := make([]string, len(pc))
	for i, c := range pc {
		pend[i] = c.String()
	}
	fmt.Fprintf(&b, "pending=%v\nA>B %s\nB>A %s\nunflushed A=%v B=%v\n", pend, w.wires[0].key(), w.wires[1].key(), w.accLog[0], w.accLog[1])
	return b.String()
}

// menu lists the events enabled in the current state, in canonical order, from
// harness-visible state only.
func (w *world) menu() []Event {
	cfg := w.cfg
	var m []Event
	now := time.Now()
	anyPending := false
	armed := false
	for _, c := range w.calls {
		if !c.done {
			anyPending = true
		}
	}
	for s := 0; s < 2; s++ {
		if w.harnessClosed[s] {
			continue
		}
		if w.opens[s] < cfg.Opens[s] {
			m = append(m, Event{K: "open", S: s})
		}
		if w.accepts[s] < cfg.Accepts[s] && w.acceptCall[s] == nil {
			m = append(m, Event{K: "accept", S: s})
		}
		if cfg.has("cancel") {
			for _, c := range w.calls {
				if c.side == s && !c.done && !c.cancelled {
					if c.kind == "open" {
						m = append(m, Event{K: "cancel", S: s, ID: c.id})
					} else if c.kind == "accept" {
						m = append(m, Event{K: "cancel", S: s})
					}
				}
			}
		}
	}
	ids := make([]int, 0, len(w.streams))
	for id := range w.streams {
		ids = append(ids, id)
	}
	sort.Ints(ids)
	for _, id := range ids {
		st := w.streams[id]
		for s := 0; s < 2; s++ {
			sm := &st.side[s]
			if sm.handle == nil || w.harnessClosed[s] {
				continue
			}
			if sm.rdl.kind == 2 && !sm.rdl.elapsed(now) || sm.wdl.kind == 2 && !sm.wdl.elapsed(now) {
				armed = true
			}
			live := !sm.cCalled || cfg.AfterClose
			if cfg.Writers[s] && len(sm.writeCalls) < cfg.maxConcurrent() && live && (!sm.cwCalled || cfg.AfterClose) {
				sizes := cfg.WriteSizes
				if cfg.WriteSizesBySide[s] != nil {
					sizes = cfg.WriteSizesBySide[s]
				}
				for _, n := range sizes {
					if sm.confirmed+sm.pendingWriteBytes()+n <= cfg.MaxBytes {
						m = append(m, Event{K: "write", S: s, ID: id, N: n})
					}
				}
			}
			if cfg.Readers[s] && len(sm.readCalls) < cfg.maxConcurrent() && live && (!sm.eof || cfg.AfterClose) {
				for _, n := range cfg.ReadSizes {
					m = append(m, Event{K: "read", S: s, ID: id, N: n})
				}
			}
			if cfg.Closers[s] {
				limit := 1
				if cfg.RepeatCloses > 1 {
					limit = cfg.RepeatCloses
				}
				if cfg.has("closeWrite") && sm.cwCount < limit && (!sm.cCalled || limit > 1) {
					m = append(m, Event{K: "closeWrite", S: s, ID: id})
				}
				if cfg.has("close") && sm.cCount < limit {
					m = append(m, Event{K: "close", S: s, ID: id})
				}
			}
			if cfg.Deadliners[s] && live {
				for _, kind := range []string{"rdl", "wdl"} {
					if !cfg.has(kind) || (kind == "wdl" && sm.cwCalled && !cfg.AfterClose) {
						continue
					}
					cur := sm.rdl
					if kind == "wdl" {
						cur = sm.wdl
					}
					for _, n := range cfg.DeadlineKinds {
						if n == 0 && cur.kind == 0 {
							continue // clearing an unset deadline
						}
						m = append(m, Event{K: kind, S: s, ID: id, N: n})
					}
				}
			}
		}
	}
	if cfg.has("sleep") && armed {
		m = append(m, Event{K: "sleep"})
	}
	for s := 0; s < 2; s++ {
		w.wires[s].mu.Lock()
		n := len(w.wires[s].held)
		multi := n > 0 && len(w.wires[s].held[0]) > 1
		w.wires[s].mu.Unlock()
		if n > 0 {
			m = append(m, Event{K: "deliver", S: s})
			if cfg.has("deliverByte") && multi {
				m = append(m, Event{K: "deliverByte", S: s})
			}
		}
	}
	// While a multiplexer's reader sits in the middle of a data payload it holds
	// that stream's receive-buffer lock; an API call of that side could block on
	// the lock, which synctest cannot see as blocked. Exploration therefore only
	// lets the other side act and the carrier deliver in such states (the
	// scripted C25 histories go further, with their own quiescence detection).
	mid := [2]bool{w.wires[1].readerMidPayload(), w.wires[0].readerMidPayload()} // indexed by receiving side
	if mid[0] || mid[1] {
		var r []Event
		for _, e := range m {
			if e.K == "deliver" || e.K == "deliverByte" || (e.K != "sleep" && !mid[e.S&1]) {
				r = append(r, e)
			}
		}
		return r
	}
	if cfg.has("closeMux") && anyPending {
		for s := 0; s < 2; s++ {
			if !w.harnessClosed[s] {
				m = append(m, Event{K: "closeMux", S: s})
			}
		}
	}
	return m
}

// teardown closes both multiplexers and checks the last C25 clause: every call
// must have returned ("the multiplexer is closed").
func (w *world) teardown(step int) (leaked []string) {
	for s := 0; s < 2; s++ {
		w.mux[s].Close()
	}
	for _, c := range w.calls {
		if c.cancel != nil {
			c.cancel()
		}
	}
	w.quiesce()
	w.mu.Lock()
	defer w.mu.Unlock()
	for _, c := range w.calls {
		if c.done {
			continue
		}
		leaked = append(leaked, c.String())
		if c.kind == "read" || c.kind == "write" || c.kind == "open" || c.kind == "accept" {
			w.violate("C25", "blocked-after-mux-closed:"+c.kind, fmt.Sprintf("%s did not return after both multiplexers were closed", c), step)
		}
	}
	return leaked
}
