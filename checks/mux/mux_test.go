//go:build verif

// TestC23, TestC24, TestC25: configurations (bounds) of the exploration of
// explore_test.go / world_test.go for each property.
package mux

import (
	"fmt"
	"testing"

	"verif/internal/vr"
)

var both = [2]bool{true, true}

// established is the event prefix that sets up stream 1 (opened by A, accepted
// by B) with nothing in flight.
var established = []Event{{K: "open", S: 0}, {K: "deliver", S: 0}, {K: "accept", S: 1}, {K: "deliver", S: 1}}

// twoEstablished sets up streams 1 and 3 (both opened by A, accepted by B).
var twoEstablished = []Event{
	{K: "open", S: 0}, {K: "deliver", S: 0}, {K: "accept", S: 1}, {K: "deliver", S: 1},
	{K: "open", S: 0}, {K: "deliver", S: 0}, {K: "accept", S: 1}, {K: "deliver", S: 1},
}

const commonAssume1 = "intra-process goroutine interleavings finer than one quiescence step (and Go's choice among simultaneously ready select cases) are not owned by the harness; every observed execution is still a real one"
const commonAssume2 = "bounds: receive window, stream count, bytes per stream and history length as stated in the rule; heartbeats disabled; the carrier is reliable and ordered and (unless stated) never blocks a Write"
const commonAssume3 = "at most one Read and one Write outstanding per stream side at a time (two each in the C25 blocked-calls configuration); other calls may overlap them"

func c23Configs() []*Config {
	base := Config{W: 2, WriteBuffers: 2, Backlog: 2, Opens: [2]int{1, 0}, Accepts: [2]int{0, 1}, MaxBytes: 4,
		WriteSizes: []int{0, 1, 3}, ReadSizes: []int{0, 1, 3}, Writers: both, Readers: both, Closers: both,
		Kinds: []string{"closeWrite", "close"}, Dedup: true}
	scratch := base
	scratch.Name, scratch.Depth = "W2-one-stream-from-scratch", 9
	est := base
	est.Name, est.Preamble, est.Depth = "W2-one-stream-established", established, 7
	// Two streams: A writes on both, B reads both ("data on one stream never
	// appears on another").
	two := base
	two.Name, two.Opens, two.Accepts, two.Preamble, two.Depth = "W2-two-streams-established", [2]int{2, 0}, [2]int{0, 2}, twoEstablished, 6
	two.Writers, two.Readers, two.Closers, two.WriteSizes, two.ReadSizes = [2]bool{true, false}, [2]bool{false, true}, [2]bool{true, false}, []int{1, 3}, []int{0, 3}
	// Half-close under backpressure: one write buffer and a carrier that holds
	// one chunk per direction, so that window increments and the close-write
	// message wait in the multiplexer's accumulator while the only buffer is
	// stuck in the carrier. A (opener) writes a full window at a time, B writes
	// single bytes, reads and half-closes; the still-open direction A>B must
	// keep its full window.
	hc := base
	hc.Name, hc.WriteBuffers, hc.MaxHeld, hc.Preamble, hc.Depth = "W2-backpressure-one-write-buffer-halfclose", 1, 1, established, 12
	hc.WriteSizesBySide, hc.ReadSizes, hc.Closers, hc.Kinds = [2][]int{{2}, {1}}, []int{2}, [2]bool{false, true}, []string{"closeWrite"}
	cfgs := []*Config{&scratch, &est, &two, &hc}
	if vr.Thorough() {
		scratch.Depth, est.Depth, two.Depth, hc.Depth = 11, 9, 7, 18
		w3 := base
		w3.Name, w3.W, w3.WriteSizes, w3.ReadSizes, w3.MaxBytes, w3.Preamble, w3.Depth = "W3-one-stream-established", 3, []int{0, 1, 4}, []int{0, 1, 4}, 5, established, 7
		bytewise := base
		bytewise.Name, bytewise.Kinds, bytewise.Preamble, bytewise.Depth = "W2-one-stream-bytewise-delivery", []string{"closeWrite", "close", "deliverByte"}, established, 7
		bytewise.Writers, bytewise.Readers = [2]bool{true, false}, [2]bool{false, true}
		cross := base
		cross.Name, cross.Opens, cross.Accepts, cross.Depth = "W2-two-streams-opened-from-both-sides", [2]int{1, 1}, [2]int{1, 1}, 9
		cross.WriteSizes, cross.ReadSizes, cross.Kinds = []int{3}, []int{3}, []string{"close"}
		cfgs = append(cfgs, &w3, &bytewise, &cross)
	}
	return cfgs
}

// c23Scenarios: large windows and large single writes (the 16-bit length of a
// data message caps a block at 65535 bytes, so a Write beyond that is split
// across messages and, beyond the window, across window updates). Fixed
// histories, no exploration: receive window W in {65535, 65536, 1<<18}; A
// performs ONE Write of N in {65535, 65536, 100000, 200000} patterned bytes
// (value = function of the full offset, so holes, repeats and reordering show),
// then an 18-byte trailer, then CloseWrite; B reads with a 70000-byte buffer
// until end-of-stream; after every API event everything in flight is delivered.
// Judged by the same lock-step byte-stream model as the exploration.
func c23Scenarios() []scenario {
	var out []scenario
	for _, win := range []int{65535, 65536, 1 << 18} {
		for _, n := range []int{65535, 65536, 100000, 200000} {
			cfg := Config{Name: fmt.Sprintf("large-window-%d-single-write-%d", win, n), W: win, WriteBuffers: 2, Backlog: 2,
				Opens: [2]int{1, 0}, Accepts: [2]int{0, 1}, MaxBytes: 1 << 30, LongPattern: true,
				Writers: [2]bool{true, false}, Readers: [2]bool{false, true}, Closers: [2]bool{true, false}, Kinds: []string{"closeWrite"}}
			size := n
			drive := func(w *world, step func(Event) bool) {
				for _, ev := range established {
					if !step(ev) {
						return
					}
				}
				a, b := &w.streams[1].side[0], &w.streams[1].side[1]
				// pump delivers everything in flight, keeps one Read outstanding
				// at B, and repeats until done() or nothing moves any more.
				pump := func(done func() bool) bool {
					for i := 0; i < 400; i++ {
						moved := false
						for s := 0; s < 2; s++ {
							for j := 0; j < 64 && !w.wires[s].idle(); j++ {
								if !step(Event{K: "deliver", S: s}) {
									return false
								}
								moved = true
							}
						}
						if len(b.readCalls) == 0 && !b.eof {
							if !step(Event{K: "read", S: 1, ID: 1, N: 70000}) {
								return false
							}
							moved = true
						}
						if done() && w.idle() {
							return true
						}
						if !moved {
							return true
						}
					}
					return true
				}
				writeDone := func() bool { return len(a.writeCalls) == 0 }
				if !step(Event{K: "write", S: 0, ID: 1, N: size}) || !pump(writeDone) {
					return
				}
				if !step(Event{K: "write", S: 0, ID: 1, N: 18}) || !pump(writeDone) {
					return
				}
				if !step(Event{K: "closeWrite", S: 0, ID: 1}) {
					return
				}
				pump(func() bool { return b.eof })
			}
			out = append(out, scenario{cfg.Name, cfg, drive})
		}
	}
	return out
}

// segmentationScenarios: carrier segmentation as a dimension. The carrier hands
// bytes to the reading multiplexer in pieces whose boundaries fall at every
// offset inside a data message's header and just behind it (kind byte | stream
// identifier | two length bytes | payload: offsets 1..5), for each data message
// of the history in turn (the others are delivered whole), and additionally
// the whole history is delivered one byte at a time and three bytes at a time.
// Histories use payload lengths whose two length bytes differ from the previous
// message's (1, 300, 2 on one stream; 1, 300, 2, 1 alternating over two
// streams). B keeps a Read outstanding on every stream, so whatever the
// receiver makes of a data message is seen immediately; A finally half-closes
// and B reads to end-of-stream. Same lock-step byte-stream model and (for C24)
// the same no-teardown oracle as everywhere else.
func segmentationScenarios() []scenario {
	type wr struct{ id, n int }
	type plan struct {
		name     string
		preamble []Event
		ids      []int
		writes   []wr
	}
	plans := []plan{
		{"one-stream-writes-1-300-2", established, []int{1}, []wr{{1, 1}, {1, 300}, {1, 2}}},
		{"two-streams-writes-1-300-2-1", twoEstablished, []int{1, 3}, []wr{{1, 1}, {3, 300}, {1, 2}, {3, 1}}},
	}
	var out []scenario
	for _, p := range plans {
		p := p
		// mode: target < 0 means "every delivery in pieces of `piece` bytes";
		// otherwise data message number target is split at offset piece.
		add := func(label string, target, piece int) {
			cfg := Config{Name: "segmentation-" + p.name, W: 1024, WriteBuffers: 2, Backlog: 2, Opens: [2]int{len(p.ids), 0}, Accepts: [2]int{0, len(p.ids)},
				MaxBytes: 1 << 20, LongPattern: true, Writers: [2]bool{true, false}, Readers: [2]bool{false, true}, Closers: [2]bool{true, false}, Kinds: []string{"closeWrite"}}
			drive := func(w *world, step func(Event) bool) {
				for _, ev := range p.preamble {
					if !step(ev) {
						return
					}
				}
				reads := func() bool {
					for _, id := range p.ids {
						b := &w.streams[id].side[1]
						if len(b.readCalls) == 0 && !b.eof && !step(Event{K: "read", S: 1, ID: id, N: 1024}) {
							return false
						}
					}
					return true
				}
				flush := func(split int) bool {
					first := true
					for i := 0; i < 2000 && !w.wires[0].idle(); i++ {
						ev := Event{K: "deliver", S: 0}
						if target < 0 {
							ev = Event{K: "deliverN", S: 0, N: piece}
						} else if split > 0 && first {
							ev = Event{K: "deliverN", S: 0, N: split}
						}
						first = false
						if !step(ev) {
							return false
						}
					}
					for i := 0; i < 16 && !w.wires[1].idle(); i++ {
						if !step(Event{K: "deliver", S: 1}) {
							return false
						}
					}
					return true
				}
				if !reads() {
					return
				}
				for i, x := range p.writes {
					split := 0
					if i == target {
						split = piece
					}
					if !step(Event{K: "write", S: 0, ID: x.id, N: x.n}) || !flush(split) || !reads() {
						return
					}
				}
				for _, id := range p.ids {
					if !step(Event{K: "closeWrite", S: 0, ID: id}) || !flush(0) {
						return
					}
				}
				for i := 0; i < 8; i++ {
					if !reads() || !flush(0) {
						return
					}
				}
			}
			out = append(out, scenario{"segmentation-" + p.name + "-" + label, cfg, drive})
		}
		for m := range p.writes {
			for k := 1; k <= 5; k++ {
				add(fmt.Sprintf("message-%d-split-at-%d", m, k), m, k)
			}
		}
		add("every-1-byte", -1, 1)
		add("every-3-bytes", -1, 3)
	}
	return out
}

func TestC23(t *testing.T) {
	runProperty(t, "C23", c23Configs(), nil, append(c23Scenarios(), segmentationScenarios()...),
		"breadth-first exploration with state deduplication of ALL harness event sequences up to the configured depth over two real multiplexers on a harness-owned carrier inside a synctest bubble; events: open, accept, write(n) n in {0,1,W+1}, read(k) k in {0,1,W+1}, closeWrite, close (both sides), deliver next chunk A>B / B>A (thorough also: next byte, window 3, two streams); one case = one executed history; judged on every Read/Write result and at every quiescent state: byte k read on a stream = byte k the peer wrote on it (values encode stream, direction, offset), nothing read beyond what Write calls reported, io.EOF only after the peer's CloseWrite/Close and with all reported bytes read, reported bytes with nothing in flight are readable, and with nothing in flight no Write stays blocked whose data fits the window the peer has freed by reading (delivery on the still-open direction of a half-closed stream included: configuration with one write buffer and a carrier holding one chunk per direction, so that window increments and close-write wait in the accumulator); non-trivial = at least one byte was read end to end; distinct by final state key (which includes the order of reads / half-closes made while the side had no write buffer). In addition 12 fixed large-transfer histories: receive window in {65535, 65536, 262144} x one Write of {65535, 65536, 100000, 200000} bytes whose values are a function of the full offset, then an 18-byte trailer and CloseWrite, reader reading with a 70000-byte buffer to end-of-stream, everything delivered after each call; and 39 carrier-segmentation histories: payload lengths 1,300,2 on one stream and 1,300,2,1 alternating over two streams (window 1024, a Read always outstanding at the receiver, final half-close and read to end-of-stream), with the carrier read boundary placed at every offset 1..5 of each data message in turn (kind | stream id | 2 length bytes | first payload byte), plus the whole history delivered 1 byte at a time and 3 bytes at a time; same byte-stream model",
		[]string{commonAssume1, commonAssume2, commonAssume3,
			"branches in which a multiplexer records an internal error are not continued here (that is C24's subject); they are counted in branches_stopped_at_internal_error"})
}

func c24Configs() []*Config {
	base := Config{W: 2, WriteBuffers: 2, Backlog: 1, Opens: [2]int{1, 0}, Accepts: [2]int{0, 1}, MaxBytes: 3,
		WriteSizes: []int{0, 1, 3}, ReadSizes: []int{0, 1, 3}, Writers: both, Readers: both, Closers: both, Deadliners: both,
		Kinds: []string{"closeWrite", "close"}, AfterClose: true, Dedup: true}
	data := base
	data.Name, data.Depth = "W2-data-and-closes-from-scratch", 10
	// Deadlines: one writer, one reader, so the alphabet stays small.
	dl := base
	dl.Name, dl.Preamble, dl.Depth = "W2-deadlines-established", established, 7
	dl.Writers, dl.Readers, dl.Deadliners, dl.Closers = [2]bool{true, false}, [2]bool{false, true}, both, [2]bool{false, true}
	dl.Kinds, dl.DeadlineKinds, dl.WriteSizes, dl.ReadSizes = []string{"close", "rdl", "wdl", "sleep"}, []int{0, 1, 2}, []int{0, 3}, []int{0, 3}
	dl.AfterClose = false
	// Rejected and cancelled opens: backlog 1, two opens, cancellation.
	rej := base
	rej.Name, rej.Opens, rej.Accepts, rej.Depth = "W2-backlog1-rejected-and-cancelled-opens", [2]int{2, 0}, [2]int{0, 2}, 9
	rej.Kinds, rej.WriteSizes, rej.ReadSizes, rej.Closers = []string{"cancel", "close"}, []int{1}, []int{1}, [2]bool{true, false}
	rej.AfterClose = false
	// A Write blocked on an exhausted window is handed a deadline in the past,
	// the deadline is cleared and the stream is written to again.
	bw := base
	bw.Name, bw.Preamble, bw.Depth = "W2-blocked-write-vs-past-deadline", established, 8
	bw.Writers, bw.Readers, bw.Deadliners, bw.Closers = [2]bool{true, false}, [2]bool{}, [2]bool{true, false}, [2]bool{} // the peer never reads: the window stays exhausted
	bw.Kinds, bw.DeadlineKinds, bw.WriteSizes, bw.ReadSizes, bw.MaxBytes, bw.AfterClose = []string{"wdl"}, []int{0, 1}, []int{1, 3}, []int{3}, 6, false
	// Repeated half-closes and closes (idempotent calls): CloseWrite and Close
	// up to twice each per stream side, CloseWrite also after Close.
	rc := base
	rc.Name, rc.Preamble, rc.Depth, rc.RepeatCloses = "W2-repeated-closewrite-and-close", established, 7, 2
	rc.WriteSizes, rc.ReadSizes, rc.AfterClose = []int{1}, []int{3}, false
	cfgs := []*Config{&bw, &data, &dl, &rej, &rc}
	if vr.Thorough() {
		data.Depth, dl.Depth, rej.Depth, bw.Depth, rc.Depth = 12, 11, 13, 12, 10
		w3 := base
		w3.Name, w3.W, w3.WriteSizes, w3.ReadSizes, w3.MaxBytes, w3.Preamble, w3.Depth = "W3-data-and-closes-established", 3, []int{0, 1, 4}, []int{0, 1, 4}, 4, established, 8
		cross := base
		cross.Name, cross.Opens, cross.Accepts, cross.Depth = "W2-two-streams-opened-from-both-sides", [2]int{1, 1}, [2]int{1, 1}, 11
		cross.WriteSizes, cross.ReadSizes, cross.Kinds, cross.AfterClose = []int{0, 3}, []int{0, 3}, []string{"close", "closeWrite"}, false
		cfgs = append(cfgs, &w3, &cross)
	}
	return cfgs
}

// c24Scenarios: heartbeats ENABLED (transmit every 1 s, receive limit 4 s,
// virtual time) on a harness-paced carrier that holds one chunk per direction,
// so that a carrier Write takes (virtual) time: each round advances the clock
// by 50 ms and hands over at most one chunk A>B.
//
//   - sustained-load: two established streams; every round A writes one byte
//     on each stream that has no Write outstanding, B reads on each stream
//     that has no Read outstanding, everything B sent is delivered and ONE
//     chunk of A's is delivered. A's two write buffers are therefore never
//     idle (one is in the carrier, one queued) for 12 virtual seconds = 3x the
//     receive limit. Conforming endpoints must stay up: heartbeats have to get
//     through between the data. (On the unchanged code the writer's select
//     picks randomly between a due heartbeat and queued data at every round;
//     the chance that 60 consecutive rounds all pick data is 2^-60.)
//   - idle-link (positive control): nothing but time and deliveries for 12 s.
func c24Scenarios() []scenario {
	cfg := Config{Name: "heartbeat-1s-limit-4s-paced-carrier", W: 4, WriteBuffers: 2, Backlog: 2, MaxHeld: 1,
		Opens: [2]int{2, 0}, Accepts: [2]int{0, 2}, MaxBytes: 1 << 20, WriteSizes: []int{1}, ReadSizes: []int{4},
		Writers: [2]bool{true, false}, Readers: [2]bool{false, true}, Kinds: []string{"sleep"},
		HeartbeatMs: 1000, HeartbeatLimitMs: 4000}
	const slice, rounds = 50, 240
	drainB := func(w *world, step func(Event) bool) bool {
		for i := 0; i < 8 && !w.wires[1].idle(); i++ {
			if !step(Event{K: "deliver", S: 1}) {
				return false
			}
		}
		return true
	}
	load := func(w *world, step func(Event) bool) {
		for _, ev := range twoEstablished {
			if !step(ev) {
				return
			}
		}
		for r := 0; r < rounds; r++ {
			for _, id := range []int{1, 3} {
				if len(w.streams[id].side[0].writeCalls) == 0 && !step(Event{K: "write", S: 0, ID: id, N: 1}) {
					return
				}
				if len(w.streams[id].side[1].readCalls) == 0 && !step(Event{K: "read", S: 1, ID: id, N: 4}) {
					return
				}
			}
			if !step(Event{K: "sleep", N: slice}) || !drainB(w, step) {
				return
			}
			if !w.wires[0].idle() && !step(Event{K: "deliver", S: 0}) {
				return
			}
		}
	}
	idle := func(w *world, step func(Event) bool) {
		for _, ev := range established {
			if !step(ev) {
				return
			}
		}
		for r := 0; r < rounds; r++ {
			if !step(Event{K: "sleep", N: slice}) || !drainB(w, step) {
				return
			}
			if !w.wires[0].idle() && !step(Event{K: "deliver", S: 0}) {
				return
			}
		}
	}
	return []scenario{{"sustained-load-two-streams-12s", cfg, load}, {"idle-link-12s", cfg, idle}}
}

func TestC24(t *testing.T) {
	runProperty(t, "C24", c24Configs(), nil, append(c24Scenarios(), segmentationScenarios()...),
		"breadth-first exploration with state deduplication of ALL harness event sequences up to the configured depth over two real multiplexers on a harness-owned carrier inside a synctest bubble; events: open, accept, cancel of a pending open/accept, write(n) and read(k) with n,k in {0,1,W+1} (also after close / end-of-stream), closeWrite, close, SetReadDeadline/SetWriteDeadline(clear | 1 s in the past | 1 s in the future), sleep 2 s (virtual), open beyond an accept backlog of 1, CloseWrite and Close repeated (up to twice each per stream side, CloseWrite also after Close), deliver next chunk A>B / B>A; oracle at every quiescent state: InternalError()==nil and Closed() not closed on both sides (the harness never closes a multiplexer and never fails the carrier in these runs); non-trivial = the history contains a zero-length operation, a deadline, a cancellation, a rejection or a (half-)close; distinct by final state key. In addition two driver-policy scenarios with heartbeats ENABLED (transmit 1 s, receive limit 4 s, virtual time) on a carrier that holds one chunk per direction and is paced by the harness (50 ms of virtual time and one chunk A>B per round, 240 rounds = 12 s = 3x the limit): sustained back-to-back one-byte writes on two streams (both write buffers of the sender permanently busy) and an idle link (positive control); and the 39 carrier-segmentation histories of C23 (read boundary at every offset of every data message header, 1-byte and 3-byte carriers); same oracle",
		[]string{commonAssume1, commonAssume2, commonAssume3,
			"the wire message trace is not decoded: the oracle is the receiver's own verdict (InternalError / Closed) as the property states",
			"heartbeat scenario: on the unchanged code the writer's select chooses randomly between a due heartbeat and queued data; a false alarm needs 60 consecutive choices of data (probability 2^-60)"})
}

func c25Configs() []*Config {
	base := Config{W: 2, WriteBuffers: 2, Backlog: 1, Opens: [2]int{1, 0}, Accepts: [2]int{0, 1}, MaxBytes: 4,
		WriteSizes: []int{3}, ReadSizes: []int{3}, Writers: both, Readers: both, Closers: both, Deadliners: both, Dedup: true}
	// Blocked calls x {deadline passes, local close, peer close, multiplexer close}.
	unb := base
	unb.Name, unb.Preamble, unb.Depth = "W2-blocked-calls-vs-deadline-close-peerclose-muxclose", established, 8
	unb.Writers, unb.Readers = [2]bool{true, false}, both
	unb.Kinds, unb.DeadlineKinds = []string{"closeWrite", "close", "rdl", "wdl", "sleep", "closeMux"}, []int{1, 2}
	unb.Deadliners = [2]bool{true, false}
	// Up to two Reads and two Writes outstanding per stream side: the second
	// queues on the stream's read / write slot behind the first.
	unb.MaxConcurrent, unb.MaxBytes = 2, 6
	// Opens and accepts: backlog overflow, cancellation, multiplexer close.
	oa := base
	oa.Name, oa.Opens, oa.Accepts, oa.Depth = "W2-backlog1-opens-accepts-cancel-muxclose", [2]int{3, 0}, [2]int{0, 2}, 11
	oa.Kinds, oa.Writers, oa.Readers, oa.Closers = []string{"cancel", "closeMux"}, [2]bool{}, [2]bool{}, [2]bool{}
	// Head-of-line: two established streams, A writes, B reads; a stalled
	// stream 1 must not block stream 3.
	hol := base
	hol.Name, hol.Opens, hol.Accepts, hol.Preamble, hol.Depth = "W2-two-streams-head-of-line", [2]int{2, 0}, [2]int{0, 2}, twoEstablished, 11
	hol.Writers, hol.Readers, hol.Closers, hol.WriteSizes, hol.ReadSizes, hol.MaxBytes = [2]bool{true, false}, [2]bool{false, true}, [2]bool{}, []int{2, 3}, []int{3}, 5
	hol.WriteBuffers = 1
	// Backpressure: carrier holds one chunk per direction, one write buffer;
	// writers wait for a write buffer while a write deadline comes and goes.
	bp := base
	bp.Name, bp.W, bp.WriteBuffers, bp.MaxHeld, bp.Preamble, bp.Depth = "W3-backpressure-one-write-buffer-deadlines", 3, 1, 1, established, 16
	bp.Writers, bp.Readers, bp.Closers, bp.Deadliners, bp.WriteSizes, bp.ReadSizes = [2]bool{true, false}, [2]bool{false, true}, [2]bool{}, [2]bool{true, false}, []int{1}, []int{4}
	bp.Kinds, bp.DeadlineKinds = []string{"wdl"}, []int{0, 1}
	// Abandoned opens drained by accept, then ordinary traffic: one write
	// buffer, stream 1 established, a second open is cancelled while it sits in
	// the peer's backlog and the peer accepts afterwards; then reads, writes and
	// closes on stream 1 must still get through in both directions.
	so := base
	so.Name, so.WriteBuffers, so.Preamble, so.Depth = "W2-one-write-buffer-cancelled-open-then-accept-then-traffic", 1, established, 9
	so.Opens, so.Accepts, so.Kinds = [2]int{2, 0}, [2]int{0, 2}, []string{"cancel", "close"}
	so.Writers, so.Readers, so.Closers, so.Deadliners = [2]bool{true, false}, both, [2]bool{false, true}, [2]bool{}
	so.WriteSizes, so.ReadSizes = []int{2}, []int{3}
	cfgs := []*Config{&unb, &oa, &hol, &bp, &so}
	if vr.Thorough() {
		unb.Depth, oa.Depth, hol.Depth, bp.Depth, so.Depth = 12, 16, 16, 24, 12
		unb.MaxBytes, hol.MaxBytes, bp.MaxBytes = 6, 6, 6
		scratch := base
		scratch.Name, scratch.Depth = "W2-one-stream-from-scratch-all-kinds", 11
		scratch.Kinds, scratch.DeadlineKinds = []string{"close", "rdl", "wdl", "closeMux", "cancel"}, []int{1}
		// Window 3, both sides write and read, deadlines on both sides.
		w3 := unb
		w3.Name, w3.W, w3.WriteSizes, w3.ReadSizes, w3.Writers, w3.Deadliners, w3.Depth = "W3-blocked-calls-both-directions", 3, []int{4}, []int{4}, both, both, 8
		cfgs = append(cfgs, &w3)
		cfgs = append(cfgs, &scratch)
	}
	return cfgs
}

// c25Scripted are fixed histories in which the carrier stalls in the middle of
// a data message (header delivered, payload not) for a stream that already
// holds buffered data; the side then reads and closes.
func c25Scripted() []replayCase {
	cfg := Config{Name: "W2-carrier-stalls-mid-data-message", W: 2, WriteBuffers: 1, Backlog: 1, Opens: [2]int{1, 0}, Accepts: [2]int{0, 1}, MaxBytes: 4,
		WriteSizes: []int{1}, ReadSizes: []int{1}, Writers: [2]bool{true, false}, Readers: [2]bool{false, true}, Closers: [2]bool{false, true},
		Kinds: []string{"close", "deliverByte"}}
	stall := append(append([]Event{}, established...),
		Event{K: "write", S: 0, ID: 1, N: 1}, Event{K: "deliver", S: 0}, // one byte buffered at B, unread
		Event{K: "write", S: 0, ID: 1, N: 1}, // second data message: kind, id, 2 length bytes, 1 payload byte
		Event{K: "deliverByte", S: 0}, Event{K: "deliverByte", S: 0}, Event{K: "deliverByte", S: 0}, Event{K: "deliverByte", S: 0})
	readThenClose := append(append([]Event{}, stall...), Event{K: "read", S: 1, ID: 1, N: 1}, Event{K: "close", S: 1, ID: 1})
	readThenFinish := append(append([]Event{}, stall...), Event{K: "read", S: 1, ID: 1, N: 1}, Event{K: "deliver", S: 0}, Event{K: "read", S: 1, ID: 1, N: 1})
	return []replayCase{{Config: cfg, Events: readThenClose}, {Config: cfg, Events: readThenFinish}}
}

func TestC25(t *testing.T) {
	runProperty(t, "C25", c25Configs(), c25Scripted(), nil,
		"breadth-first exploration with state deduplication of ALL harness event sequences up to the configured depth over two real multiplexers on a harness-owned carrier inside a synctest bubble; five configurations: (1) blocked reads/writes x {deadline set in the past, deadline 1 s ahead + 2 s virtual sleep, CloseWrite, Close, peer Close/CloseWrite + delivery, multiplexer Close}; (2) three opens against an accept backlog of 1 with accepts, cancellations and multiplexer Close; (3) two established streams, window 2, writer A / reader B (head-of-line); (4) carrier that holds one chunk per direction and one write buffer with write deadlines; (5) one write buffer, an established stream, a second open cancelled while it sits in the peer's backlog and drained by a later accept, followed by reads, writes and closes on the established stream; oracle at every quiescent state: no read/write/open/accept is pending whose deadline has passed, whose stream or multiplexer was closed, whose context was cancelled or whose peer closed the stream (close delivered); with nothing in flight no Write is pending whose data fits the peer's window for that stream and at most Backlog opens of one side are pending; in configuration (1) up to two Reads and two Writes may be outstanding per stream side (the second queues behind the first) and EVERY one of them must have returned; after closing both multiplexers every call has returned; non-trivial = at least one call was pending at a quiescent state of the history; distinct by final state key",
		[]string{commonAssume1, commonAssume2, commonAssume3,
			"'returns once X' is judged at the first quiescent state after X (virtual time, no wall clock)",
			"a blocked reader is expected to return also after the peer's CloseWrite (half-close ends the stream for the reader)",
			"branches in which a multiplexer records an internal error are not continued here (that is C24's subject); they are counted in branches_stopped_at_internal_error"})
}
