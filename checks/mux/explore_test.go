//go:build verif

// Bounded exhaustive exploration of harness event sequences over the world of
// world_test.go (engine E-bubble with E-state style deduplication).
//
// One execution = one testing/synctest bubble: fresh multiplexer pair, the
// events of one path applied one by one, synctest.Wait() and the oracles after
// each. Real objects cannot be cloned, so the successor of a state under an
// event is produced by replaying the shortest known path to the state in a
// fresh bubble plus the one event. Exploration is breadth-first by levels; a
// state reached before (same key = lock-step model + VerifState of both
// multiplexers + pending calls + carrier contents) is not expanded again.
package mux

import (
	"context"
	"crypto/sha1"
	"encoding/hex"
	"encoding/json"
	"fmt"
	"os"
	"os/exec"
	"runtime"
	"sort"
	"strings"
	"sync"
	"sync/atomic"
	"testing"
	"testing/synctest"
	"time"

	"verif/internal/vr"
)

// quiesce waits until everything started so far has run as far as it can.
// Normally that is synctest.Wait(). In a state where a multiplexer's reader is
// parked in the carrier in the middle of a data payload (holding a stream's
// receive-buffer lock) a call may block on that sync.Mutex, which synctest does
// not regard as durably blocked, so Wait would never return; then quiescence is
// established by inspecting goroutine states instead: every other goroutine of
// this bubble is parked on a channel, select, mutex, wait group, condition or
// timer. Such a state cannot change without a harness action (the mutex owner
// itself waits for the carrier), so this is not a timing judgement.
func (w *world) quiesce() {
	if !w.wires[0].readerMidPayload() && !w.wires[1].readerMidPayload() {
		synctest.Wait()
		return
	}
	buf := make([]byte, 1<<20)
	for {
		dump := string(buf[:runtime.Stack(buf, true)])
		blocks := strings.Split(dump, "\n\n")
		// The first block is the calling goroutine: "goroutine N [running, synctest bubble B]:".
		bubble := ""
		if i := strings.Index(blocks[0], "synctest bubble "); i >= 0 {
			bubble = blocks[0][i:strings.Index(blocks[0], "]")]
		}
		if bubble == "" {
			panic("quiesce: not inside a bubble")
		}
		all := true
		for _, b := range blocks[1:] {
			header := b
			if i := strings.Index(b, "\n"); i >= 0 {
				header = b[:i]
			}
			if !strings.Contains(header, bubble+"]") {
				continue
			}
			parked := false
			for _, reason := range []string{"[chan receive", "[chan send", "[select", "[sync.Mutex.Lock", "[sync.RWMutex", "[sync.WaitGroup.Wait", "[sync.Cond.Wait", "[sleep", "[synctest"} {
				if strings.Contains(header, reason) {
					parked = true
				}
			}
			if !parked {
				all = false
				break
			}
		}
		if all {
			return
		}
		runtime.Gosched()
	}
}

// execResult is what one execution reports.
type execResult struct {
	// OK: every event of the path was applicable.
	OK      bool
	Applied int
	// Hash identifies the final quiescent state (sha1 of the key).
	Hash [20]byte
	Key  string
	Menu []Event
	Viol []violation
	// Terminal: the final state must not be expanded (a violation was seen, a
	// multiplexer has an internal error, or a multiplexer was closed).
	Terminal      bool
	InternalError bool
	MaxPending    int
	BytesRead     int
	SawPending    bool
	SawSpecial    bool
	Outcomes      map[string]int
	// Panic is set when the bubble panicked (synctest reports goroutines that
	// are still blocked when the bubble ends as a deadlock panic).
	Panic  string
	Leaked []string
	// Events are the events that were attempted, in order.
	Events []Event
}

var executions atomic.Int64

// execute runs one path in a fresh bubble.
func execute(t *testing.T, cfg *Config, events []Event, keepKey bool, logf func(string, ...interface{})) (res execResult) {
	return executeDriven(t, cfg, "", events, func(w *world, step func(Event) bool) {
		for _, ev := range events {
			if !step(ev) {
				return
			}
		}
	}, keepKey, logf)
}

// executeDriven runs one history in a fresh bubble; the history is produced by
// drive, which calls step(event) for each event (and may look at harness-
// visible state of the world in between); step reports false when the history
// must end (event not applicable, violation seen, multiplexer down).
func executeDriven(t *testing.T, cfg *Config, scenarioName string, planned []Event, drive func(w *world, step func(Event) bool), keepKey bool, logf func(string, ...interface{})) (res execResult) {
	executions.Add(1)
	// Registered while running so that the watchdog can name the history of an
	// execution that never comes back.
	id := inflightSeq.Add(1)
	inflightMap.Store(id, &inflight{id: id, cfg: cfg, events: planned, scenario: scenarioName})
	defer func() {
		inflightMap.Delete(id)
		progress.Add(1)
	}()
	defer func() {
		if p := recover(); p != nil {
			res.Panic = fmt.Sprint(p)
		}
	}()
	synctest.Test(t, func(t *testing.T) {
		w := newWorld(cfg)
		w.logf = logf
		w.quiesce()
		res.OK = true
		i := 0
		step := func(ev Event) bool {
			if res.Terminal || !res.OK {
				return false
			}
			if logf != nil {
				logf("step %d: %s", i, ev)
			}
			res.Events = append(res.Events, ev)
			if !w.do(ev, i) {
				if logf != nil {
					logf("    (event not applicable in this state)")
				}
				res.OK = false
				return false
			}
			w.quiesce()
			w.observe(i)
			i++
			res.Applied = i
			if logf != nil {
				logf("    state:\n      %s", strings.ReplaceAll(strings.TrimSpace(w.key()), "\n", "\n      "))
			}
			if len(w.viol) > 0 || w.internalError || ev.K == "closeMux" {
				res.Terminal = true
				return false
			}
			return true
		}
		drive(w, step)
		if res.OK && !res.Terminal {
			key := w.key()
			res.Hash = sha1.Sum([]byte(key))
			if keepKey {
				res.Key = key
			}
			res.Menu = w.menu()
		}
		res.Leaked = w.teardown(i)
		res.Viol = w.viol
		res.InternalError = w.internalError
		res.MaxPending = w.maxPending
		res.BytesRead = w.bytesRead
		res.SawPending = w.sawPending
		res.SawSpecial = w.sawSpecial
		res.Outcomes = w.outcomes
	})
	return res
}

// scenario is a history produced by a driver policy instead of a fixed event
// list: the driver decides the next event from harness-visible state (e.g.
// "write on every stream that has no Write outstanding"), which keeps long
// timed histories applicable even where the code under test makes a choice the
// harness does not own (Go's select between a due heartbeat and queued data).
type scenario struct {
	Name   string
	Config Config
	Drive  func(w *world, step func(Event) bool)
}

// replayCase is what a replay file holds: the configuration and the complete
// event list (preamble included).
type replayCase struct {
	Config Config  `json:"config"`
	Events []Event `json:"events"`
	Path   string  `json:"path"`
	// Scenario, when set, names the driver policy that produced Events; a
	// replay then re-runs the policy (Events are informational).
	Scenario string `json:"scenario,omitempty"`
}

type node struct {
	path []Event
	menu []Event
}

// found is one violation with the execution that produced it.
type found struct {
	v      violation
	events []Event // preamble + path, truncated after the violating step
	cfg    *Config
}

// trigger summarises which kinds of API events a history contains (streams,
// sides and positive sizes abstracted away; opens, accepts and deliveries left
// out): together with the violation class it forms the violation key, so that
// the same defect reached through different interleavings has one key.
func trigger(events []Event) string {
	set := map[string]bool{}
	for _, e := range events {
		switch e.K {
		case "open", "accept", "deliver", "deliverByte", "deliverN":
		case "read", "write":
			if e.N == 0 {
				set[e.K+"(0)"] = true
			} else {
				set[e.K+"(+)"] = true
			}
		case "rdl", "wdl":
			set[fmt.Sprintf("%s(%s)", e.K, [3]string{"clear", "past", "+1s"}[e.N%3])] = true
		default:
			set[e.K] = true
		}
	}
	kinds := make([]string, 0, len(set))
	for k := range set {
		kinds = append(kinds, k)
	}
	sort.Strings(kinds)
	if len(kinds) == 0 {
		return "establishment-only"
	}
	return strings.Join(kinds, "+")
}

// exploreStats accumulates what one exploration measured.
type exploreStats struct {
	Config        string `json:"config"`
	Executions    int64  `json:"executions"`
	States        int64  `json:"distinct_states"`
	Transitions   int64  `json:"transitions"`
	DepthReached  int    `json:"depth_reached"`
	MaxPending    int    `json:"max_pending_calls"`
	PrunedIntErr  int64  `json:"branches_stopped_at_internal_error"`
	PrunedOther   int64  `json:"branches_stopped_at_other_property_violation"`
	Revisits      int64  `json:"revisited_states"`
	Inapplicable  int64  `json:"divergent_replays"`
	Frontier      int    `json:"last_frontier"`
	Complete      bool   `json:"complete_to_depth"`
	ClosureBefore bool   `json:"closure_reached_before_depth"`
	ViolatingRuns int64  `json:"violating_executions"`
	Deadlocks     int64  `json:"bubbles_ending_with_blocked_goroutines"`
	FirstDeadlock string `json:"first_bubble_deadlock,omitempty"`
}

// explore runs the BFS for one configuration and returns the violations of
// property prop (first = shortest per class and trigger).
func explore(t *testing.T, r *vr.Report, cfg *Config, prop string, deadline time.Time) (exploreStats, []found) {
	st := exploreStats{Config: cfg.Name, Complete: true}
	root := execute(t, cfg, cfg.Preamble, true, nil)
	st.Executions++
	if !root.OK || root.Panic != "" {
		t.Fatalf("INFRA: config %s: preamble not executable (applied %d of %d, panic %q)", cfg.Name, root.Applied, len(cfg.Preamble), root.Panic)
	}
	best := map[string]found{}
	record := func(res *execResult, events []Event) (own, other bool) {
		for _, v := range res.Viol {
			if v.Prop != prop {
				other = true
				continue
			}
			own = true
			ev := events
			if v.Step+1 < len(ev) {
				ev = ev[:v.Step+1]
			}
			k := v.Class + "|" + trigger(ev)
			cur, ok := best[k]
			if !ok || len(ev) < len(cur.events) || (len(ev) == len(cur.events) && pathString(ev) < pathString(cur.events)) {
				best[k] = found{v, append([]Event(nil), ev...), cfg}
			}
		}
		return
	}
	if own, _ := record(&root, cfg.Preamble); own || root.Terminal {
		st.States = 1
		return st, sortedFound(best)
	}
	seen := map[[20]byte]struct{}{root.Hash: {}}
	frontier := []node{{nil, root.Menu}}
	r.Sample(map[string]interface{}{"config": cfg.Name, "path": pathString(cfg.Preamble), "state_key": root.Key})
	sampled := 0
	const chunk = 16384
	for depth := 0; depth < cfg.Depth && len(frontier) > 0; depth++ {
		type task struct {
			n  int
			ev Event
		}
		var tasks []task
		for i := range frontier {
			for _, ev := range frontier[i].menu {
				tasks = append(tasks, task{i, ev})
			}
		}
		var next []node
		for base := 0; base < len(tasks); base += chunk {
			if time.Now().After(deadline) {
				st.Complete = false
				r.NotExhaustive(fmt.Sprintf("time budget reached in config %s at depth %d (%d of %d successor executions of that level done); all shallower levels are complete", cfg.Name, depth+1, base, len(tasks)))
				break
			}
			hi := base + chunk
			if hi > len(tasks) {
				hi = len(tasks)
			}
			results := make([]execResult, hi-base)
			vr.Parallel(hi-base, func(i int) {
				tk := tasks[base+i]
				events := make([]Event, 0, len(cfg.Preamble)+len(frontier[tk.n].path)+1)
				events = append(events, cfg.Preamble...)
				events = append(events, frontier[tk.n].path...)
				events = append(events, tk.ev)
				results[i] = execute(t, cfg, events, false, nil)
			})
			l := r.Local()
			for i := range results {
				res := &results[i]
				tk := tasks[base+i]
				st.Executions++
				if res.MaxPending > st.MaxPending {
					st.MaxPending = res.MaxPending
				}
				if res.Panic != "" && len(res.Viol) == 0 {
					// Goroutines left blocked after both multiplexers were
					// closed, without any oracle having fired (yet): not
					// attributable to a property clause by itself. The branch
					// is not continued; if the whole run ends without a
					// violation this is reported as an infrastructure error.
					st.Deadlocks++
					if st.FirstDeadlock == "" {
						st.FirstDeadlock = pathString(append(append(append([]Event{}, cfg.Preamble...), frontier[tk.n].path...), tk.ev)) + ": " + res.Panic
					}
					l.Case("", false)
					continue
				}
				if !res.OK {
					st.Inapplicable++
					l.Case("", false)
					continue
				}
				st.Transitions++
				full := append(append(append([]Event{}, cfg.Preamble...), frontier[tk.n].path...), tk.ev)
				own, other := record(res, full)
				for k, n := range res.Outcomes {
					for j := 0; j < n; j++ {
						l.Outcome(k)
					}
				}
				nontrivial := false
				switch prop {
				case "C23":
					nontrivial = res.BytesRead > 0
				case "C24":
					nontrivial = res.SawSpecial
				case "C25":
					nontrivial = res.SawPending
				}
				if own {
					st.ViolatingRuns++
					l.Outcome("VIOLATION")
					l.Case("violation:"+pathString(full), true)
					continue
				}
				l.Case(cfg.Name+":"+hex.EncodeToString(res.Hash[:]), nontrivial && !res.Terminal)
				if res.InternalError {
					st.PrunedIntErr++
					continue
				}
				if other {
					st.PrunedOther++
					continue
				}
				if res.Terminal {
					continue
				}
				if _, ok := seen[res.Hash]; ok {
					st.Revisits++
					if cfg.Dedup {
						continue
					}
				} else {
					seen[res.Hash] = struct{}{}
					if sampled < 2 && depth >= 3 && nontrivial {
						sampled++
						r.Sample(map[string]interface{}{"config": cfg.Name, "path": pathString(full)})
					}
				}
				next = append(next, node{append(append([]Event{}, frontier[tk.n].path...), tk.ev), res.Menu})
			}
			l.Flush()
		}
		if !st.Complete {
			break
		}
		st.DepthReached = depth + 1
		frontier = next
		st.Frontier = len(frontier)
	}
	if st.Complete && len(frontier) == 0 {
		st.ClosureBefore = true
	}
	st.States = int64(len(seen))
	return st, sortedFound(best)
}

func sortedFound(m map[string]found) []found {
	keys := make([]string, 0, len(m))
	for k := range m {
		keys = append(keys, k)
	}
	sort.Strings(keys)
	out := make([]found, 0, len(m))
	for _, k := range keys {
		out = append(out, m[k])
	}
	return out
}

// violates re-executes a history and reports whether a violation of the same
// property and class occurs, and after which step.
func violates(t *testing.T, cfg *Config, events []Event, prop, class string) (bool, int, string) {
	c := *cfg
	c.Preamble = nil
	res := execute(t, &c, events, false, nil)
	for _, v := range res.Viol {
		if v.Prop == prop && v.Class == class {
			return true, v.Step, v.What
		}
	}
	return false, 0, ""
}

// minimise removes events one at a time while the same violation still occurs.
func minimise(t *testing.T, f found) found {
	events := append([]Event(nil), f.events...)
	for changed := true; changed; {
		changed = false
		for i := len(events) - 1; i >= 0; i-- {
			cand := append(append([]Event{}, events[:i]...), events[i+1:]...)
			if ok, step, what := violates(t, f.cfg, cand, f.v.Prop, f.v.Class); ok {
				if step+1 < len(cand) {
					cand = cand[:step+1]
				}
				events = cand
				f.v.What = what
				f.v.Step = step
				changed = true
			}
		}
	}
	f.events = events
	return f
}

// progress is bumped after every execution. A multiplexer that wedges in a way
// the virtual clock cannot see (a goroutine parked on a sync.Mutex whose owner
// waits forever) makes synctest.Wait, or a harness call that needs the same
// mutex, block for good: the execution never finishes. The watchdog turns that
// into a verdict instead of a silent hang: when no execution has finished for
// hangAfter, it takes the history of an execution that is still in flight and
// re-executes exactly that history in fresh child processes (this test binary
// in replay mode, hangLimit each). If the child does not come back (or the
// bubble dead-locks) in all 5 runs, the history is reported as a violation of
// the running property ("does not reach quiescence"); otherwise the run ends as
// an infrastructure error. The unchanged tree never gets here.
var progress atomic.Int64

const (
	hangAfter = 60 * time.Second
	hangLimit = 60 * time.Second
)

type inflight struct {
	id       int64
	cfg      *Config
	events   []Event
	scenario string
}

var (
	inflightMap sync.Map
	inflightSeq atomic.Int64
)

// runHangChild re-executes one replay file in a child process and reports
// whether it hung (or dead-locked) and a summary of the parked goroutines.
func runHangChild(testName, file string) (hung bool, summary string) {
	ctx, cancel := context.WithTimeout(context.Background(), hangLimit+30*time.Second)
	defer cancel()
	dir, _ := os.MkdirTemp("", "mux-hang-child")
	defer os.RemoveAll(dir)
	cmd := exec.CommandContext(ctx, os.Args[0], "-test.run=^"+testName+"$", fmt.Sprintf("-test.timeout=%s", hangLimit), "-test.v")
	cmd.Env = append(os.Environ(), "VERIF_REPLAY="+file, "VERIF_EVIDENCE_DIR="+dir)
	out, _ := cmd.CombinedOutput()
	text := string(out)
	switch {
	case ctx.Err() != nil:
		return true, "child process did not finish and was killed"
	case strings.Contains(text, "panic: test timed out"), strings.Contains(text, "deadlock: "):
		return true, summariseGoroutines(text)
	}
	return false, ""
}

// summariseGoroutines extracts "state @ function" for the goroutines of a
// bubble that are parked inside the multiplexer or the harness.
func summariseGoroutines(dump string) string {
	seen := map[string]bool{}
	var out []string
	for _, block := range strings.Split(dump, "\n\n") {
		lines := strings.Split(strings.TrimSpace(block), "\n")
		if len(lines) < 2 || !strings.HasPrefix(lines[0], "goroutine ") || !strings.Contains(lines[0], "synctest bubble") {
			continue
		}
		state := lines[0]
		if i := strings.Index(state, "["); i >= 0 {
			state = strings.TrimSuffix(state[i+1:], "]:")
		}
		if i := strings.Index(state, ","); i >= 0 {
			state = state[:i]
		}
		fn := ""
		for _, l := range lines[1:] {
			if strings.HasPrefix(l, "\t") {
				continue
			}
			if strings.Contains(l, "pkg/multiplexing.") || strings.Contains(l, "checks/mux.") {
				fn = l
				if i := strings.LastIndex(fn, "("); i > 0 {
					fn = fn[:i]
				}
				fn = fn[strings.LastIndex(fn, "/")+1:]
				break
			}
		}
		if fn == "" {
			continue
		}
		item := state + " @ " + fn
		if !seen[item] {
			seen[item] = true
			out = append(out, item)
		}
	}
	sort.Strings(out)
	if len(out) > 8 {
		out = out[:8]
	}
	return strings.Join(out, "; ")
}

// reportHang is called by the watchdog goroutine; it returns only when no
// execution is in flight.
func reportHang(t *testing.T, r *vr.Report, prop string) {
	var flights []*inflight
	inflightMap.Range(func(_, v interface{}) bool { flights = append(flights, v.(*inflight)); return true })
	sort.Slice(flights, func(i, j int) bool { return flights[i].id < flights[j].id })
	if len(flights) == 0 {
		return // nothing is executing (the driver itself is busy): not a hang of the code under test
	}
	fmt.Printf("WATCHDOG: no execution finished for %s; %d execution(s) in flight; re-executing in child processes\n", hangAfter, len(flights))
	dir, _ := os.MkdirTemp("", "mux-hang")
	defer os.RemoveAll(dir)
	for i, f := range flights {
		if i >= 3 {
			break
		}
		cfg := *f.cfg
		cfg.Preamble = nil
		c := replayCase{Config: cfg, Events: f.events, Path: pathString(f.events), Scenario: f.scenario}
		file := fmt.Sprintf("%s/hang-%d.json", dir, i)
		data, _ := json.Marshal(map[string]interface{}{"property": prop, "case": c, "test": t.Name()})
		os.WriteFile(file, data, 0o644)
		// Five child runs at once (each has its own time limit).
		hung := make([]bool, 5)
		sums := make([]string, 5)
		var wg sync.WaitGroup
		for k := range hung {
			wg.Add(1)
			go func(k int) {
				defer wg.Done()
				hung[k], sums[k] = runHangChild(t.Name(), file)
			}(k)
		}
		wg.Wait()
		n := 0
		for _, h := range hung {
			if h {
				n++
			}
		}
		fmt.Printf("WATCHDOG: history %q hung in %d of 5 child runs\n", c.Path, n)
		if n == 0 {
			continue
		}
		class := trigger(f.events)
		if f.scenario != "" {
			class = "scenario:" + f.scenario
		}
		what := fmt.Sprintf("execution of [%s] (config %s) does not reach quiescence: %s", c.Path, cfg.Name, sums[0])
		k := 0
		defer os.Exit(1) // also runs if Finish ends this goroutine through t.Fatalf
		r.Violate("hang|"+class, what, c, func() bool { k++; return hung[k-1] })
		r.Set("states", 1)
		r.Set("transitions", executions.Load())
		r.Set("traces_validated_against_impl", executions.Load())
		r.NotExhaustive("run ended by the hang watchdog")
		r.Finish()
		os.Exit(1)
	}
	fmt.Println("INFRA: an execution did not finish in this process but its history does not hang when re-executed")
	buf := make([]byte, 1<<20)
	fmt.Printf("%s\n", buf[:runtime.Stack(buf, true)])
	os.Exit(2)
}

func startWatchdog(t *testing.T, r *vr.Report, prop string) func() {
	stop := make(chan struct{})
	go func() {
		last, since := progress.Load(), time.Now()
		for {
			select {
			case <-stop:
				return
			case <-time.After(5 * time.Second):
			}
			if cur := progress.Load(); cur != last {
				last, since = cur, time.Now()
			} else if time.Since(since) >= hangAfter {
				reportHang(t, r, prop)
				since = time.Now()
			}
		}
	}()
	var once sync.Once
	return func() { once.Do(func() { close(stop) }) }
}

// runProperty is the body shared by TestC23, TestC24 and TestC25.
func runProperty(t *testing.T, prop string, configs []*Config, scripted []replayCase, scenarios []scenario, rule string, assume []string) {
	r := vr.New(t, prop, "model_checking")
	defer r.Finish()
	if raw := vr.ReplayCase(); raw != nil {
		var c replayCase
		if err := json.Unmarshal(raw, &c); err != nil {
			t.Fatalf("INFRA: replay case does not parse: %v", err)
		}
		c.Config.Preamble = nil
		var res execResult
		if c.Scenario != "" {
			found := false
			for _, sc := range scenarios {
				if sc.Name == c.Scenario {
					found = true
					res = executeDriven(t, &sc.Config, sc.Name, nil, sc.Drive, true, t.Logf)
					c.Events = res.Events
				}
			}
			if !found {
				t.Fatalf("INFRA: replay names unknown scenario %q", c.Scenario)
			}
		} else {
			res = execute(t, &c.Config, c.Events, true, t.Logf)
		}
		t.Logf("replayed %d events; leaked calls at teardown: %v; panic: %q", res.Applied, res.Leaked, res.Panic)
		r.Case(pathString(c.Events), true)
		r.Set("states", 1)
		r.Set("transitions", res.Applied)
		r.Set("traces_validated_against_impl", 1)
		for _, v := range res.Viol {
			t.Logf("violation: %+v", v)
			if v.Prop == prop {
				r.Violate(v.Class+"|"+trigger(c.Events[:clamp(v.Step+1, len(c.Events))]), v.What, c, nil)
			}
		}
		return
	}
	stop := startWatchdog(t, r, prop)
	defer stop()
	r.Rule(rule)
	r.Assume(assume...)
	budget := vr.Deadline(4*time.Minute, 20*time.Minute)
	start := time.Now()
	var all []exploreStats
	var states, transitions, execs, pruned int64
	maxPending, depth := 0, 0
	for i, cfg := range configs {
		// Each configuration gets an equal share of what is left of the budget.
		share := time.Until(budget) / time.Duration(len(configs)-i)
		st, fs := explore(t, r, cfg, prop, time.Now().Add(share))
		all = append(all, st)
		states += st.States
		transitions += st.Transitions
		execs += st.Executions
		pruned += st.PrunedIntErr
		if st.MaxPending > maxPending {
			maxPending = st.MaxPending
		}
		if st.DepthReached+len(cfg.Preamble) > depth {
			depth = st.DepthReached + len(cfg.Preamble)
		}
		t.Logf("config %s: %+v (%.1fs)", cfg.Name, st, time.Since(start).Seconds())
		for _, f := range fs {
			f = minimise(t, f)
			key := f.v.Class + "|" + trigger(f.events)
			c := replayCase{Config: *f.cfg, Events: f.events, Path: pathString(f.events)}
			c.Config.Preamble = nil
			what := fmt.Sprintf("%s [after: %s] (config %s)", f.v.What, c.Path, cfg.Name)
			cls := f.v.Class
			r.Violate(key, what, c, func() bool {
				ok, _, _ := violates(t, f.cfg, f.events, prop, cls)
				return ok
			})
		}
	}
	for _, st := range all {
		if st.Deadlocks > 0 && r.Violations() == 0 {
			t.Fatalf("INFRA: %d bubble(s) ended with goroutines still blocked after both multiplexers were closed although no oracle fired; first: %s", st.Deadlocks, st.FirstDeadlock)
		}
	}
	// Scripted histories: fixed event lists that reach states the exploration
	// deliberately does not enter (see world.menu on mid-payload states).
	for i := range scripted {
		sc := scripted[i]
		res := execute(t, &sc.Config, sc.Events, true, nil)
		execs++
		transitions++
		states++
		r.Case("scripted:"+pathString(sc.Events), res.SawPending)
		if !res.OK || (res.Panic != "" && len(res.Viol) == 0) {
			t.Fatalf("INFRA: scripted history %q not executable (applied %d, panic %q)", pathString(sc.Events), res.Applied, res.Panic)
		}
		t.Logf("scripted history %s: %d violation(s)", pathString(sc.Events), len(res.Viol))
		for _, v := range res.Viol {
			if v.Prop != prop {
				continue
			}
			f := minimise(t, found{v, sc.Events[:clamp(v.Step+1, len(sc.Events))], &sc.Config})
			c := replayCase{Config: sc.Config, Events: f.events, Path: pathString(f.events)}
			cls := f.v.Class
			r.Violate(f.v.Class+"|"+trigger(f.events), fmt.Sprintf("%s [after: %s] (scripted history, config %s)", f.v.What, c.Path, sc.Config.Name), c, func() bool {
				ok, _, _ := violates(t, f.cfg, f.events, prop, cls)
				return ok
			})
		}
	}
	// Driver-policy scenarios (long timed histories).
	for i := range scenarios {
		sc := scenarios[i]
		res := executeDriven(t, &sc.Config, sc.Name, nil, sc.Drive, false, nil)
		execs++
		transitions++
		states++
		r.Case("scenario:"+sc.Name, res.Applied > 0)
		if !res.OK || (res.Panic != "" && len(res.Viol) == 0) {
			t.Fatalf("INFRA: scenario %s not executable (applied %d events, last %v, panic %q)", sc.Name, res.Applied, res.Events[len(res.Events)-1:], res.Panic)
		}
		t.Logf("scenario %s: %d events, %d bytes read end to end, %d violation(s)", sc.Name, res.Applied, res.BytesRead, len(res.Viol))
		for k, n := range res.Outcomes {
			for j := 0; j < n && j < 3; j++ {
				r.Outcome(k)
			}
		}
		for _, v := range res.Viol {
			if v.Prop != prop {
				continue
			}
			ev := res.Events[:clamp(v.Step+1, len(res.Events))]
			tail := ev
			if len(tail) > 12 {
				tail = tail[len(tail)-12:]
			}
			c := replayCase{Config: sc.Config, Events: ev, Scenario: sc.Name, Path: fmt.Sprintf("%d events, ending: %s", len(ev), pathString(tail))}
			cls := v.Class
			r.Violate(v.Class+"|scenario:"+sc.Name, fmt.Sprintf("%s [scenario %s, after %s]", v.What, sc.Name, c.Path), c, func() bool {
				again := executeDriven(t, &sc.Config, sc.Name, nil, sc.Drive, false, nil)
				for _, v2 := range again.Viol {
					if v2.Prop == prop && v2.Class == cls {
						return true
					}
				}
				return false
			})
		}
	}
	r.Set("scenarios", len(scenarios))
	r.Set("scripted_histories", len(scripted))
	r.Set("states", states)
	r.Set("transitions", transitions)
	// Every execution is a trace of harness events run on the real multiplexers
	// in lock-step with the byte-stream model.
	r.Set("traces_validated_against_impl", execs)
	r.Set("executions", execs)
	r.Set("max_pending_calls", maxPending)
	r.Set("max_history_length", depth)
	r.Set("branches_stopped_at_internal_error", pruned)
	r.Set("configs", all)
}
