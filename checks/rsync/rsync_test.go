//go:build verif

// Package rsync holds the bounded-exhaustive checks for C19 (delta round trip)
// and C20 (transmission failures are reported).
package rsync

import (
	"bytes"
	"encoding/json"
	"errors"
	"fmt"
	"os"
	"path/filepath"
	"testing"

	"google.golang.org/protobuf/proto"

	"github.com/mutagen-io/mutagen/pkg/synchronization/rsync"

	"verif/internal/vr"
)

// words returns all strings over {a,b} with length <= n, shortest first.
func words(n int) [][]byte {
	out := [][]byte{{}}
	prev := [][]byte{{}}
	for l := 1; l <= n; l++ {
		var cur [][]byte
		for _, p := range prev {
			for _, c := range []byte{'a', 'b'} {
				w := append(append([]byte{}, p...), c)
				cur = append(cur, w)
			}
		}
		out = append(out, cur...)
		prev = cur
	}
	return out
}

type c19case struct {
	Base, Target string
	BlockSize    uint64
	MaxData      uint64
	// Reader selects how the target is presented to Deltify: "bytes" (DeltifyBytes over a
	// dual-mode bytes.Reader), "plain" (an io.Reader WITHOUT io.ByteReader, like the *os.File
	// that rsync.Transmit passes: Deltify wraps it in its own buffered reader), "dribble"
	// (plain reader that returns one byte per Read call).
	Reader string
}

// plainReader hides every method of the underlying reader except Read.
type plainReader struct {
	r       *bytes.Reader
	dribble bool
}

func (p *plainReader) Read(b []byte) (int, error) {
	if p.dribble && len(b) > 1 {
		b = b[:1]
	}
	return p.r.Read(b)
}

func deltify(e *rsync.Engine, c c19case, sig *rsync.Signature) ([]*rsync.Operation, error) {
	if c.Reader == "" || c.Reader == "bytes" {
		return e.DeltifyBytes([]byte(c.Target), sig, c.MaxData), nil
	}
	var delta []*rsync.Operation
	err := e.Deltify(&plainReader{bytes.NewReader([]byte(c.Target)), c.Reader == "dribble"}, sig, c.MaxData, func(o *rsync.Operation) error {
		delta = append(delta, proto.Clone(o).(*rsync.Operation))
		return nil
	})
	return delta, err
}

// checkRoundTrip runs one C19 case against the real engine; returns "" if ok.
func checkRoundTrip(e *rsync.Engine, c c19case) (what string, ndata, nblock int) {
	base, target := []byte(c.Base), []byte(c.Target)
	sig := e.BytesSignature(base, c.BlockSize)
	if err := sig.EnsureValid(); err != nil {
		return "signature invalid: " + err.Error(), 0, 0
	}
	delta, derr := deltify(e, c, sig)
	if derr != nil {
		return "Deltify failed on an in-memory target: " + derr.Error(), 0, 0
	}
	for i, o := range delta {
		if err := o.EnsureValid(); err != nil {
			return fmt.Sprintf("op %d invalid: %v", i, err), 0, 0
		}
		if len(o.Data) > 0 {
			ndata++
			if uint64(len(o.Data)) > c.MaxData {
				return fmt.Sprintf("op %d literal of %d bytes exceeds limit %d", i, len(o.Data), c.MaxData), 0, 0
			}
		} else {
			nblock++
			if o.Start+o.Count > uint64(len(sig.Hashes)) || o.Start+o.Count < o.Start {
				return fmt.Sprintf("op %d block range [%d,+%d) outside signature of %d blocks", i, o.Start, o.Count, len(sig.Hashes)), 0, 0
			}
		}
	}
	got, err := e.PatchBytes(base, sig, delta)
	if err != nil {
		return "patch error: " + err.Error(), 0, 0
	}
	if !bytes.Equal(got, target) {
		return fmt.Sprintf("patched %q != target %q", got, target), 0, 0
	}
	if bytes.Equal(base, target) && len(base) > 0 && ndata > 0 {
		return fmt.Sprintf("unchanged target sent with %d literal op(s)", ndata), 0, 0
	}
	return "", ndata, nblock
}

func TestC19(t *testing.T) {
	r := vr.New(t, "C19", "exploration")
	defer r.Finish()
	if raw := vr.ReplayCase(); raw != nil {
		var c c19case
		json.Unmarshal(raw, &c)
		what, nd, nb := checkRoundTrip(rsync.NewEngine(), c)
		t.Logf("replay %+v: data ops %d block ops %d verdict %q", c, nd, nb, what)
		r.Case(vr.J(c), true)
		if what != "" {
			r.Violate(vr.J(c), what, c, nil)
		}
		return
	}
	maxLen := 6
	if vr.Thorough() {
		maxLen = 8
	}
	ws := words(maxLen)
	r.Rule(fmt.Sprintf("every base,target in {a,b}^<=%d x block size 1..%d x max literal size 1..3 (plus one large limit) x target presented as {dual-mode bytes.Reader via DeltifyBytes, plain io.Reader without ReadByte (what Transmit passes), plain reader returning 1 byte per Read}; non-trivial = delta contains at least one block op and one data op, distinct by (base,target,bs,max)", maxLen, maxLen))
	r.Assume("alphabet {a,b}: data outside the two-letter alphabet and lengths beyond the bound are not covered",
		"engine reused across cases within a worker (as mutagen reuses it across files)")
	maxes := []uint64{1, 2, 3, 1 << 16}
	vr.Parallel(len(ws), func(i int) {
		e := rsync.NewEngine()
		l := r.Local()
		defer l.Flush()
		base := ws[i]
		for _, target := range ws {
			for bs := uint64(1); bs <= uint64(maxLen); bs++ {
				for _, m := range maxes {
					for _, rd := range []string{"bytes", "plain", "dribble"} {
						c := c19case{string(base), string(target), bs, m, rd}
						what, nd, nb := checkRoundTrip(e, c)
						if what != "" {
							key := vr.J(c)
							r.Violate(key, what, c, func() bool { w, _, _ := checkRoundTrip(rsync.NewEngine(), c); return w != "" })
						}
						nt := nd > 0 && nb > 0
						if nt {
							l.Case(fmt.Sprintf("%s|%s|%d|%d|%s", base, target, bs, m, rd), true)
						} else {
							l.Case("", false)
						}
						switch {
						case nd > 0 && nb > 0:
							l.Outcome("mixed")
						case nd > 0:
							l.Outcome("data-only")
						case nb > 0:
							l.Outcome("block-only")
						default:
							l.Outcome("empty")
						}
					}
				}
			}
		}
	})
	// Second family: LONGER bases (up to 12 / 14 letters) with targets derived from the base
	// - unchanged, one letter flipped, one letter inserted, one letter deleted, two blocks
	// swapped - for every block size up to 6. Longer bases are needed for the clause "an
	// unchanged target is sent without literal data": two DISTINCT blocks with the same weak
	// hash need block size >= 4 over a two-letter alphabet ("abba" vs "baab"), i.e. bases of
	// length >= 8, which the full product above does not reach in the quick tier.
	longLen := 12
	if vr.Thorough() {
		longLen = 14
	}
	long := words(longLen)
	var longBases [][]byte
	for _, w := range long {
		if len(w) > maxLen {
			longBases = append(longBases, w)
		}
	}
	vr.Parallel(len(longBases), func(i int) {
		e := rsync.NewEngine()
		l := r.Local()
		defer l.Flush()
		base := longBases[i]
		targets := [][]byte{base}
		if i%8 == 0 { // derived edits on every 8th base keep the family cheap; "unchanged" runs on all
			for p := 0; p < len(base); p += 3 {
				f := append([]byte{}, base...)
				f[p] ^= 'a' ^ 'b'
				targets = append(targets, f)
				targets = append(targets, append(append(append([]byte{}, base[:p]...), 'b'), base[p:]...))
				targets = append(targets, append(append([]byte{}, base[:p]...), base[p+1:]...))
			}
			if len(base) >= 8 {
				targets = append(targets, append(append(append([]byte{}, base[4:8]...), base[:4]...), base[8:]...))
			}
		}
		for _, target := range targets {
			for bs := uint64(1); bs <= 6; bs++ {
				for _, rd := range []string{"bytes", "plain"} {
					c := c19case{string(base), string(target), bs, 3, rd}
					what, nd, nb := checkRoundTrip(e, c)
					if what != "" {
						r.Violate(vr.J(c), what, c, func() bool { w, _, _ := checkRoundTrip(rsync.NewEngine(), c); return w != "" })
					}
					if nb > 0 {
						l.Case(fmt.Sprintf("L|%s|%s|%d|%s", base, target, bs, rd), true)
					} else {
						l.Case("", false)
					}
					if nd == 0 && nb > 0 {
						l.Outcome("block-only")
					} else {
						l.Outcome("long-family-other")
					}
				}
			}
		}
	})
	r.Set("long_family", fmt.Sprintf("%d bases of length %d..%d x {unchanged (all), flip/insert/delete/swap (every 8th base)} x block size 1..6 x {bytes, plain}", len(longBases), maxLen+1, longLen))
	r.Sample(c19case{"abbabaab", "abbabaab", 4, 3, "bytes"})
	r.Sample(c19case{"abab", "babab", 2, 1, "bytes"})
	r.Sample(c19case{"aabba", "abbaab", 3, 2, "plain"})
}

// ---- C20 ----

type c20case struct {
	Base, Target string
	BlockSize    uint64
	MaxData      uint64
	FailAt       int
	Persistent   bool
	Via          string // "deltify", "transmit" or "transmit-buffered"
}

var errInjected = errors.New("injected transmit failure")

// runDeltifyFault runs Deltify with a transmitter that fails at op index
// FailAt (once, or from then on). Returns (violation, fired).
func runDeltifyFault(e *rsync.Engine, c c20case) (string, bool) {
	base, target := []byte(c.Base), []byte(c.Target)
	sig := e.BytesSignature(base, c.BlockSize)
	var delivered []*rsync.Operation
	idx := 0
	fired := false
	transmit := func(o *rsync.Operation) error {
		i := idx
		idx++
		if i == c.FailAt || (c.Persistent && i > c.FailAt) {
			fired = true
			return errInjected
		}
		delivered = append(delivered, proto.Clone(o).(*rsync.Operation))
		return nil
	}
	err := e.Deltify(bytes.NewReader(target), sig, c.MaxData, transmit)
	if !fired {
		return "", false
	}
	if err != nil {
		return "", true
	}
	got, perr := e.PatchBytes(base, sig, delivered)
	if perr == nil && bytes.Equal(got, target) {
		return "", true
	}
	return fmt.Sprintf("Deltify returned nil although transmit of op %d failed; receiver reconstructs %q, target %q", c.FailAt, got, target), true
}

// scriptedEncoder is the Encoder behind rsync.NewEncodingReceiver.
type scriptedEncoder struct {
	failAt     int
	persistent bool
	buffered   bool // Encode only buffers; Finalize puts the messages on the wire (as mutagen's own protobuf encoder does)
	idx        int
	fired      bool
	got        []*rsync.Transmission
	pending    []*rsync.Transmission
	finalized  int
}

func (s *scriptedEncoder) deliver(tr *rsync.Transmission) error {
	i := s.idx
	s.idx++
	if i == s.failAt || (s.persistent && i > s.failAt) {
		s.fired = true
		return errInjected
	}
	s.got = append(s.got, tr)
	return nil
}

func (s *scriptedEncoder) Encode(tr *rsync.Transmission) error {
	c := proto.Clone(tr).(*rsync.Transmission)
	if s.buffered {
		s.pending = append(s.pending, c)
		return nil
	}
	return s.deliver(c)
}

// Finalize flushes what a buffering encoder holds; the wire fails at message
// failAt, the rest of the buffer is lost and the error is what Finalize returns.
func (s *scriptedEncoder) Finalize() error {
	s.finalized++
	pend := s.pending
	s.pending = nil
	for _, tr := range pend {
		if err := s.deliver(tr); err != nil {
			return err
		}
	}
	return nil
}

// runTransmitFault drives the real rsync.Transmit over an on-disk target file.
func runTransmitFault(e *rsync.Engine, root string, c c20case) (string, bool) {
	base := []byte(c.Base)
	sig := e.BytesSignature(base, c.BlockSize)
	enc := &scriptedEncoder{failAt: c.FailAt, persistent: c.Persistent, buffered: c.Via == "transmit-buffered"}
	name := "t_" + c.Target
	err := rsync.Transmit(root, []string{name}, []*rsync.Signature{sig}, rsync.NewEncodingReceiver(enc))
	if !enc.fired {
		return "", false
	}
	if err != nil {
		return "", true
	}
	// Success was reported: what the receiver obtained must be exactly the target.
	var ops []*rsync.Operation
	done := false
	for _, tr := range enc.got {
		if tr.Done {
			done = true
			// An in-band Done.Error is how NON-transmission (engine) errors are relayed; it
			// does not excuse a failed transmission: the real receiver finalizes the
			// (truncated) file all the same, so the sender must still return an error.
			if tr.Error != "" {
				done = false
			}
			continue
		}
		ops = append(ops, tr.Operation)
	}
	got, perr := e.PatchBytes(base, sig, ops)
	if done && perr == nil && bytes.Equal(got, []byte(c.Target)) {
		return "", true
	}
	return fmt.Sprintf("Transmit returned nil although sending message %d failed; receiver has done=%v data %q, target %q", c.FailAt, done, got, c.Target), true
}

func TestC20(t *testing.T) {
	r := vr.New(t, "C20", "fault_enumeration")
	defer r.Finish()
	maxLen := 4
	if vr.Thorough() {
		maxLen = 6
	}
	ws := words(maxLen)
	root := t.TempDir()
	for _, w := range ws {
		if err := os.WriteFile(filepath.Join(root, "t_"+string(w)), w, 0o600); err != nil {
			t.Fatalf("INFRA: %v", err)
		}
	}
	run := func(e *rsync.Engine, c c20case) (string, bool) {
		if c.Via == "transmit" || c.Via == "transmit-buffered" {
			return runTransmitFault(e, root, c)
		}
		return runDeltifyFault(e, c)
	}
	if raw := vr.ReplayCase(); raw != nil {
		var c c20case
		json.Unmarshal(raw, &c)
		os.WriteFile(filepath.Join(root, "t_"+c.Target), []byte(c.Target), 0o600)
		what, fired := run(rsync.NewEngine(), c)
		t.Logf("replay %+v: fired=%v verdict %q", c, fired, what)
		r.Case(vr.J(c), fired)
		if what != "" {
			r.Violate(vr.J(c), what, c, nil)
		}
		return
	}
	r.Rule(fmt.Sprintf("every base,target in {a,b}^<=%d x block size 1..%d x max literal {1,2,default} x fail index k (every k until the fault no longer fires) x {once, persistent} x {Engine.Deltify with failing transmitter, rsync.Transmit with an Encoder whose Encode fails, rsync.Transmit with a BUFFERING Encoder (Encode queues, Finalize flushes and fails at message k)}; non-trivial = the fault actually fired", maxLen, maxLen))
	r.Assume("a failing transmit/Encode call delivers nothing to the receiver", "alphabet {a,b}, bounded lengths")
	vr.Parallel(len(ws), func(i int) {
		e := rsync.NewEngine()
		l := r.Local()
		defer l.Flush()
		base := ws[i]
		for _, target := range ws {
			for bs := uint64(1); bs <= uint64(maxLen); bs++ {
				for _, via := range []string{"deltify", "transmit", "transmit-buffered"} {
					maxes := []uint64{1, 2, 0}
					if via != "deltify" {
						maxes = []uint64{0} // Transmit fixes the literal size itself.
					}
					for _, m := range maxes {
						for _, pers := range []bool{false, true} {
							if pers && via == "transmit-buffered" {
								continue // a failed flush loses the rest of the buffer either way
							}
							for k := 0; ; k++ {
								c := c20case{string(base), string(target), bs, m, k, pers, via}
								what, fired := run(e, c)
								if !fired {
									l.Case("", false)
									break
								}
								l.Case(vr.J(c), true)
								if what != "" {
									l.Outcome("violation")
									r.Violate(vr.J(c), what, c, func() bool { w, _ := run(rsync.NewEngine(), c); return w != "" })
								} else {
									l.Outcome("reported-or-complete")
								}
							}
						}
					}
				}
			}
		}
	})
	r.Sample(c20case{"a", "aa", 1, 1, 0, false, "deltify"})
	r.Sample(c20case{"ab", "abab", 1, 0, 1, true, "transmit"})
}
