//go:build verif

package procs

import (
	"bufio"
	"bytes"
	"encoding/json"
	"fmt"
	"os"
	"os/signal"
	"path/filepath"
	"sort"
	"strings"
	"sync"
	"syscall"
	"testing"
	"time"
	"unsafe"

	"google.golang.org/protobuf/proto"

	"github.com/mutagen-io/mutagen/pkg/encoding"
	"github.com/mutagen-io/mutagen/pkg/filesystem"
	"github.com/mutagen-io/mutagen/pkg/synchronization/core"
	"github.com/mutagen-io/mutagen/pkg/verifhook"

	"verif/internal/vr"
)

// ---------------------------------------------------------------------------
// Case vocabulary.
// ---------------------------------------------------------------------------

// content names a file content: "absent" or "<generator>:<size>". Generators
// are position dependent so that a truncation or a mixture of two contents is
// never equal to a complete one.
type content string

const absent content = "absent"

func mkContent(gen string, size int) content { return content(fmt.Sprintf("%s:%d", gen, size)) }

func (c content) parts() (gen string, size int) {
	fmt.Sscanf(strings.Replace(string(c), ":", " ", 1), "%s %d", &gen, &size)
	return
}

// rawBytes returns the generator's byte string.
func (c content) rawBytes() []byte {
	gen, size := c.parts()
	base, mod := byte('a'), 23
	switch gen {
	case "new":
		base, mod = 'A', 19
	case "third":
		base, mod = '0', 7
	}
	b := make([]byte, size)
	for i := range b {
		b[i] = base + byte(i%mod)
	}
	return b
}

// fileBytes is what the named API is expected to put on disk for content c.
func fileBytes(api string, c content) []byte {
	if api == "protobuf" {
		data, err := proto.Marshal(archiveMessage(c))
		if err != nil {
			panic(err)
		}
		return data
	}
	return c.rawBytes()
}

// archiveMessage is a synchronization archive whose serialisation has (about)
// the requested size: one file entry with a digest of that many bytes.
func archiveMessage(c content) *core.Archive {
	return &core.Archive{Content: &core.Entry{Kind: core.EntryKind_File, Digest: c.rawBytes()}}
}

// fault describes what is injected into the writing child.
type fault struct {
	// Kind: "none"; "crash" (SIGKILL self at hook point Point); "error" (hook point Point
	// returns Errno); "write-efbig" (real fault: RLIMIT_FSIZE below the new size, SIGXFSZ
	// ignored => write(2) fails with EFBIG after a partial write); "write-sigxfsz" (same,
	// SIGXFSZ fatal => the kernel kills the process in the middle of the write; the Go runtime
	// would swallow SIGXFSZ, so the child resets the kernel disposition to SIG_DFL with a raw
	// rt_sigaction and the process dies inside write(2) after a partial write);
	// "createtemp-emfile" (real fault: descriptor table exhausted); "createtemp-nodir"
	// (real fault: parent directory missing).
	// "error-persistent": every rename attempt on the target (hook ops renameat AND renameat2,
	// every time they are reached) fails with Errno.
	Kind  string
	Point string `json:",omitempty"`
	Errno int    `json:",omitempty"`
	// Then (only with Kind "error"): a SECOND fault inside the same write, at the Ordinal-th
	// hook point reached after the first fault was injected (whatever operation that is: the
	// list of later points is discovered by the single-fault run). Op is informational.
	Then *secondFault `json:",omitempty"`
}

type secondFault struct {
	Ordinal int
	Op      string
	Action  string // "crash" (SIGKILL self before the operation) or "error" (the operation fails with Errno)
	Errno   int    `json:",omitempty"`
}

func (f fault) String() string {
	switch f.Kind {
	case "crash":
		return "crash@" + f.Point
	case "error":
		s := fmt.Sprintf("error@%s=%s", f.Point, errnoName(f.Errno))
		if f.Then != nil {
			s += fmt.Sprintf(" then %s@later[%d]:%s", f.Then.Action, f.Then.Ordinal, f.Then.Op)
			if f.Then.Action == "error" {
				s += "=" + errnoName(f.Then.Errno)
			}
		}
		return s
	case "error-persistent":
		return "error@every-rename=" + errnoName(f.Errno)
	}
	return f.Kind
}

func errnoName(e int) string {
	switch syscall.Errno(e) {
	case syscall.EIO:
		return "EIO"
	case syscall.EXDEV:
		return "EXDEV"
	case syscall.ENOSPC:
		return "ENOSPC"
	}
	return fmt.Sprint(e)
}

// The crash points: after each step of the atomic write (create, write, close,
// chmod), immediately before the rename system call, and after the rename.
var crashPoints = []string{"atomic.created", "atomic.written", "atomic.closed", "atomic.chmodded", "renameat", "atomic.renamed"}

func allFaults() []fault {
	fs := []fault{{Kind: "none"}}
	for _, p := range crashPoints {
		fs = append(fs, fault{Kind: "crash", Point: p})
	}
	fs = append(fs,
		fault{Kind: "write-sigxfsz"},
		fault{Kind: "error", Point: "renameat", Errno: int(syscall.EIO)},
		fault{Kind: "error", Point: "renameat", Errno: int(syscall.EXDEV)},
		fault{Kind: "error-persistent", Errno: int(syscall.EIO)},
		fault{Kind: "write-efbig"},
		fault{Kind: "createtemp-emfile"},
		fault{Kind: "createtemp-nodir"},
	)
	return fs
}

// writeStep is one write performed by one child process.
type writeStep struct {
	API   string // "raw" filesystem.WriteFileAtomic, "marshal" encoding.MarshalAndSave, "protobuf" encoding.MarshalAndSaveProtobuf
	New   content
	Fault fault
}

type c27case struct {
	Old   content
	Steps []writeStep
}

func (c c27case) key() string {
	var b strings.Builder
	fmt.Fprintf(&b, "old=%s", c.Old)
	for _, s := range c.Steps {
		fmt.Fprintf(&b, " | %s new=%s %s", s.API, s.New, s.Fault)
	}
	return b.String()
}

// ---------------------------------------------------------------------------
// Child side.
// ---------------------------------------------------------------------------

type writerSpec struct {
	Path string
	Step writeStep
}

type writerResult struct {
	Returned bool   `json:"returned"`
	Err      string `json:"err,omitempty"`
	Setup    string `json:"setup,omitempty"` // harness-side setup problem (infrastructure)
	// Later lists the hook operations reached after the first injected error (in order).
	Later []string `json:"later,omitempty"`
	// SecondFired: the second fault (Then, action "error") was injected.
	SecondFired bool `json:"second_fired,omitempty"`
}

// State of the child's hook handler.
var (
	hookMu      sync.Mutex
	laterPoints []string
	secondFired bool
)

func writerChild() {
	var spec writerSpec
	childSpec(&spec)
	out := json.NewEncoder(os.Stdout)
	fail := func(what string, err error) {
		out.Encode(writerResult{Setup: fmt.Sprintf("%s: %v", what, err)})
		os.Exit(0)
	}
	f := spec.Step.Fault
	_, newSize := spec.Step.New.parts()
	switch f.Kind {
	case "crash":
		verifhook.Set(func(op string, _ int, name string) error {
			if op == f.Point && name == spec.Path {
				// A process crash: nothing after this instruction runs, nothing is flushed.
				syscall.Kill(os.Getpid(), syscall.SIGKILL)
				select {}
			}
			return nil
		})
	case "error":
		firstFired := false
		verifhook.Set(func(op string, _ int, name string) error {
			hookMu.Lock()
			defer hookMu.Unlock()
			if !firstFired {
				if op == f.Point && name == spec.Path {
					firstFired = true
					return syscall.Errno(f.Errno)
				}
				return nil
			}
			// Every hook point the same write reaches after the injected error.
			ordinal := len(laterPoints)
			laterPoints = append(laterPoints, op)
			if f.Then != nil && ordinal == f.Then.Ordinal {
				if f.Then.Action == "crash" {
					syscall.Kill(os.Getpid(), syscall.SIGKILL)
					select {}
				}
				secondFired = true
				return syscall.Errno(f.Then.Errno)
			}
			return nil
		})
	case "error-persistent":
		verifhook.Set(func(op string, _ int, name string) error {
			if (op == "renameat" || op == "renameat2") && name == spec.Path {
				return syscall.Errno(f.Errno)
			}
			return nil
		})
	case "write-efbig", "write-sigxfsz":
		if f.Kind == "write-efbig" {
			signal.Ignore(syscall.SIGXFSZ)
		} else {
			// No core file, and the kernel's default action (terminate) for SIGXFSZ.
			syscall.Setrlimit(syscall.RLIMIT_CORE, &syscall.Rlimit{})
			if err := resetToKernelDefault(syscall.SIGXFSZ); err != nil {
				fail("rt_sigaction", err)
			}
		}
		var lim syscall.Rlimit
		if err := syscall.Getrlimit(syscall.RLIMIT_FSIZE, &lim); err != nil {
			fail("getrlimit", err)
		}
		lim.Cur = uint64(newSize / 2)
		if err := syscall.Setrlimit(syscall.RLIMIT_FSIZE, &lim); err != nil {
			fail("setrlimit", err)
		}
	case "createtemp-emfile":
		// Warm up everything the runtime opens lazily, then exhaust the descriptor table.
		if w, err := os.CreateTemp("", "verif-c27-warm"); err == nil {
			w.Close()
			os.Remove(w.Name())
		}
		var lim syscall.Rlimit
		if err := syscall.Getrlimit(syscall.RLIMIT_NOFILE, &lim); err != nil {
			fail("getrlimit", err)
		}
		lim.Cur = 64
		if err := syscall.Setrlimit(syscall.RLIMIT_NOFILE, &lim); err != nil {
			fail("setrlimit", err)
		}
		for i := 0; ; i++ {
			if _, err := syscall.Open("/dev/null", syscall.O_RDONLY, 0); err != nil {
				break
			}
			if i > 100 {
				fail("exhaust descriptors", fmt.Errorf("limit not effective"))
			}
		}
	}
	var err error
	switch spec.Step.API {
	case "raw":
		err = filesystem.WriteFileAtomic(spec.Path, spec.Step.New.rawBytes(), 0o644)
	case "marshal":
		data := spec.Step.New.rawBytes()
		err = encoding.MarshalAndSave(spec.Path, func() ([]byte, error) { return data, nil })
	case "protobuf":
		err = encoding.MarshalAndSaveProtobuf(spec.Path, archiveMessage(spec.Step.New))
	default:
		fail("api", fmt.Errorf("unknown %q", spec.Step.API))
	}
	hookMu.Lock()
	res := writerResult{Returned: true, Later: laterPoints, SecondFired: secondFired}
	hookMu.Unlock()
	if err != nil {
		res.Err = err.Error()
	}
	out.Encode(res)
	os.Exit(0)
}

// resetToKernelDefault installs SIG_DFL for sig behind the Go runtime's back
// (the runtime's own handler ignores SIGXFSZ). A zeroed kernel sigaction is
// {handler: SIG_DFL, flags: 0, restorer: 0, mask: 0} on every Linux port.
func resetToKernelDefault(sig syscall.Signal) error {
	var action [4]uint64
	_, _, e := syscall.RawSyscall6(syscall.SYS_RT_SIGACTION, uintptr(sig), uintptr(unsafe.Pointer(&action)), 0, 8, 0, 0)
	if e != 0 {
		return e
	}
	return nil
}

// ---------------------------------------------------------------------------
// Parent side: run one case and judge it.
// ---------------------------------------------------------------------------

const writerWatchdog = 120 * time.Second

type stepObservation struct {
	Step     string   `json:"step"`
	Ending   string   `json:"ending"` // "returned-nil", "returned-error", "killed:<signal>"
	Err      string   `json:"err,omitempty"`
	Target   string   `json:"target"`          // "old", "new", "old=new", "absent(old)", or a description of anything else
	Leftover []string `json:"leftover"`        // other names in the directory
	Fired    bool     `json:"fired"`           // the injected fault(s) actually happened
	Later    []string `json:"later,omitempty"` // hook operations reached after the first injected error
}

type c27run struct {
	Obs       []stepObservation
	Violation string
}

// describe classifies got against the two legal contents (nil slice pointer = absent).
func describe(got *[]byte, old, new *[]byte) (class string, legal bool) {
	eq := func(a, b *[]byte) bool {
		if a == nil || b == nil {
			return a == nil && b == nil
		}
		return bytes.Equal(*a, *b)
	}
	isOld, isNew := eq(got, old), eq(got, new)
	switch {
	case isOld && isNew:
		return "old=new", true
	case isOld && old == nil:
		return "absent(old)", true
	case isOld:
		return "old", true
	case isNew:
		return "new", true
	case got == nil:
		return "ABSENT (old content lost, new content not there)", false
	}
	n := len(*got)
	what := fmt.Sprintf("NEITHER (%d bytes", n)
	if new != nil && n < len(*new) && bytes.Equal(*got, (*new)[:n]) {
		what += ", a proper prefix of the new content"
	} else if old != nil && n < len(*old) && bytes.Equal(*got, (*old)[:n]) {
		what += ", a proper prefix of the old content"
	}
	return what + ")", false
}

func readOptional(path string) (*[]byte, error) {
	data, err := os.ReadFile(path)
	if err != nil {
		if os.IsNotExist(err) {
			return nil, nil
		}
		return nil, err
	}
	return &data, nil
}

func runC27(c c27case) (run c27run, err error) {
	root, err := os.MkdirTemp("", "verif-c27-")
	if err != nil {
		return run, &infraError{err.Error()}
	}
	defer os.RemoveAll(root)
	dir := filepath.Join(root, "d")
	target := filepath.Join(dir, "target")
	nodir := false
	for _, s := range c.Steps {
		if s.Fault.Kind == "createtemp-nodir" {
			nodir = true
		}
	}
	if !nodir {
		if err := os.Mkdir(dir, 0o700); err != nil {
			return run, &infraError{err.Error()}
		}
		if c.Old != absent {
			// The old content is what an earlier complete write of the same API left there.
			if err := os.WriteFile(target, fileBytes(c.Steps[0].API, c.Old), 0o600); err != nil {
				return run, &infraError{err.Error()}
			}
		}
	}
	current, err := readOptional(target)
	if err != nil {
		return run, &infraError{err.Error()}
	}
	for si, s := range c.Steps {
		obs := stepObservation{Step: fmt.Sprintf("%s new=%s %s", s.API, s.New, s.Fault)}
		cmd := childCommand("writer", writerSpec{Path: target, Step: s})
		stdout, err := cmd.StdoutPipe()
		if err != nil {
			return run, &infraError{err.Error()}
		}
		if err := cmd.Start(); err != nil {
			return run, &infraError{err.Error()}
		}
		lr := newLineReader(bufio.NewReader(stdout))
		line, gotLine, timedOut := lr.next(writerWatchdog)
		if timedOut {
			cmd.Process.Kill()
			cmd.Wait()
			return run, &infraError{"writer child did not finish within the watchdog: " + c.key()}
		}
		werr := cmd.Wait()
		var res writerResult
		if gotLine {
			if err := json.Unmarshal([]byte(line), &res); err != nil {
				return run, &infraError{"bad writer result " + line}
			}
		}
		if res.Setup != "" {
			return run, &infraError{"writer setup: " + res.Setup}
		}
		switch {
		case res.Returned && res.Err == "":
			obs.Ending = "returned-nil"
		case res.Returned:
			obs.Ending, obs.Err = "returned-error", res.Err
		default:
			ws, ok := cmd.ProcessState.Sys().(syscall.WaitStatus)
			if !ok || !ws.Signaled() {
				return run, &infraError{fmt.Sprintf("writer child ended without result and without signal (%v): %s", werr, c.key())}
			}
			obs.Ending = "killed:" + ws.Signal().String()
		}
		switch s.Fault.Kind {
		case "none":
			obs.Fired = false
		case "crash", "write-sigxfsz":
			obs.Fired = strings.HasPrefix(obs.Ending, "killed:")
		default:
			obs.Fired = obs.Ending == "returned-error"
		}
		obs.Later = res.Later
		if then := s.Fault.Then; then != nil {
			// Two faults in one write: non-trivial when the second one happened too.
			if then.Action == "crash" {
				obs.Fired = strings.HasPrefix(obs.Ending, "killed:")
			} else {
				obs.Fired = res.SecondFired
			}
		}

		// ---- Oracle -------------------------------------------------------
		newBytes := fileBytes(s.API, s.New)
		got, err := readOptional(target)
		if err != nil {
			return run, &infraError{err.Error()}
		}
		class, legal := describe(got, current, &newBytes)
		obs.Target = class
		violate := func(format string, a ...interface{}) {
			if run.Violation == "" {
				run.Violation = fmt.Sprintf("write %d (%s), child %s: ", si+1, obs.Step, obs.Ending) + fmt.Sprintf(format, a...)
			}
		}
		// "leaves, after a crash at any point, either the complete previous content or the
		// complete new content at the target path, never a partial file" - the same is demanded
		// of a write that reports failure.
		if !legal {
			violate("target holds %s", class)
		}
		// A write that reports success must have put the new content there.
		if obs.Ending == "returned-nil" && legal && class != "new" && class != "old=new" {
			violate("success reported but the target holds %s", class)
		}
		// "A failed write leaves no stray files other than Mutagen temporary files" (crashed
		// writes likewise: only names carrying filesystem.TemporaryNamePrefix may remain).
		entries, derr := os.ReadDir(dir)
		if derr != nil && !(os.IsNotExist(derr) && nodir) {
			return run, &infraError{derr.Error()}
		}
		for _, e := range entries {
			if e.Name() == "target" {
				continue
			}
			obs.Leftover = append(obs.Leftover, e.Name())
			if !strings.HasPrefix(e.Name(), filesystem.TemporaryNamePrefix) {
				violate("stray file %q left in the directory (not a Mutagen temporary name)", e.Name())
			}
		}
		sort.Strings(obs.Leftover)
		run.Obs = append(run.Obs, obs)
		if run.Violation != "" {
			return run, nil
		}
		current = got
	}
	return run, nil
}

// ---------------------------------------------------------------------------
// The check.
// ---------------------------------------------------------------------------

func TestC27(t *testing.T) {
	r := vr.New(t, "C27", "fault_enumeration")
	defer r.Finish()
	if raw := vr.ReplayCase(); raw != nil {
		var c c27case
		if err := json.Unmarshal(raw, &c); err != nil {
			t.Fatalf("INFRA: bad replay case: %v", err)
		}
		run, err := runC27(c)
		if err != nil {
			t.Fatalf("%v", err)
		}
		for _, o := range run.Obs {
			t.Logf("%s", vr.J(o))
		}
		t.Logf("verdict: %q", run.Violation)
		r.Case(c.key(), true)
		if run.Violation != "" {
			r.Violate(c.key(), run.Violation, c, nil)
		}
		return
	}

	sizes := []int{0, 10, 100 << 10}
	olds := []content{absent}
	var news []content
	for _, s := range sizes {
		olds = append(olds, mkContent("old", s))
		news = append(news, mkContent("new", s))
	}
	if vr.Thorough() {
		olds = append(olds, mkContent("old", 1<<20+1))
		news = append(news, mkContent("new", 4097), mkContent("new", 1<<20+1))
	}
	apis := []string{"raw", "marshal", "protobuf"}
	faults := allFaults()

	// Enumeration order = decreasing information per case, so that a run cut by the time
	// budget has covered the most telling slice: single faults on the raw API, then the
	// crash-then-rewrite slice, then the same single faults through the encoding wrappers,
	// and (thorough) all remaining ordered pairs last.
	var cases []c27case
	seen := map[string]bool{}
	add := func(c c27case) {
		if !seen[c.key()] {
			seen[c.key()] = true
			cases = append(cases, c)
		}
	}
	singlesOf := func(api string, olds, news []content) {
		for _, old := range olds {
			for _, nw := range news {
				for _, f := range faults {
					if f.Kind == "createtemp-nodir" && old != absent {
						continue // a missing directory cannot hold an old file
					}
					add(c27case{Old: old, Steps: []writeStep{{api, nw, f}}})
				}
			}
		}
	}
	var groupStarts []int
	groupStarts = append(groupStarts, len(cases))
	singlesOf("raw", olds, news)
	// Crash-then-rewrite slice: a write of a LONG content dies after its data reached the
	// temporary file (or part of it) and before the rename; then a fresh process writes a
	// shorter / equally long / longer / empty content to the same target without any fault.
	groupStarts = append(groupStarts, len(cases))
	long := 100 << 10
	var stale []fault
	for _, p := range []string{"atomic.written", "atomic.closed", "atomic.chmodded", "renameat"} {
		stale = append(stale, fault{Kind: "crash", Point: p})
	}
	stale = append(stale, fault{Kind: "write-sigxfsz"})
	for _, api := range []string{"raw", "protobuf"} {
		for _, old := range []content{absent, mkContent("old", 10)} {
			for _, f1 := range stale {
				for _, second := range []content{mkContent("third", 10), mkContent("third", long), mkContent("third", 2*long), mkContent("third", 0)} {
					add(c27case{Old: old, Steps: []writeStep{{api, mkContent("new", long), f1}, {api, second, fault{Kind: "none"}}}})
				}
			}
		}
	}
	slice := len(cases) - groupStarts[1]
	groupStarts = append(groupStarts, len(cases))
	singlesOf("protobuf", olds, news)
	groupStarts = append(groupStarts, len(cases))
	if vr.Thorough() {
		singlesOf("marshal", olds, news)
	} else {
		// MarshalAndSave is a two-line wrapper around WriteFileAtomic: a reduced grid in quick.
		singlesOf("marshal", []content{absent, mkContent("old", 10)}, []content{mkContent("new", 10), mkContent("new", long)})
	}
	singles := len(cases) - slice
	if vr.Thorough() {
		// All ordered pairs: a first faulty write, then a second write under every fault by a
		// fresh process in the same directory (leftovers of the first must not break the second).
		groupStarts = append(groupStarts, len(cases))
		thirds := []content{mkContent("third", 0), mkContent("third", 10), mkContent("third", long)}
		for _, api := range apis {
			for _, old := range []content{absent, mkContent("old", 10)} {
				for _, nw := range []content{mkContent("new", 10), mkContent("new", long)} {
					for _, f1 := range faults {
						if f1.Kind == "none" || f1.Kind == "createtemp-nodir" {
							continue
						}
						for _, third := range thirds {
							for _, f2 := range faults {
								if f2.Kind == "createtemp-nodir" {
									continue
								}
								add(c27case{Old: old, Steps: []writeStep{{api, nw, f1}, {api, third, f2}}})
							}
						}
					}
				}
			}
		}
	}
	r.Rule(fmt.Sprintf("every API in %v x old content in %v x new content in %v x fault in {none, SIGKILL of the writing process at each of %v, SIGXFSZ kill in the middle of write(2), "+
		"renameat failing with EIO/EXDEV, every rename attempt (renameat and renameat2) failing persistently, write(2) failing with EFBIG after a partial write, CreateTemp failing with EMFILE / ENOENT} (marshal API on a reduced grid in quick); plus the crash-then-rewrite slice: "+
		"a 100 KiB write killed at written/closed/chmodded/before-rename/inside write(2), then a fault-free write of a shorter / equal / longer / empty content by a fresh process; thorough adds larger contents and every ordered pair "+
		"(faulty write, then second write with every fault, fresh process, same directory). Single-write two-fault closure: whenever a write that received an injected error goes on to reach further hook points, each of them gets a second fault (crash before it / failure of it) in a fresh execution. One child process per write. Non-trivial = the injected crash/failure actually happened "+
		"(child died by the signal / call returned an error); distinct by (api, old, new, fault[, second write])", apis, olds, news, crashPoints))
	r.Assume("process crash only: the page cache survives, power-loss torn writes are outside the property",
		"crash points are the verifhook points between the steps of WriteFileAtomic plus the renameat wrapper; a crash inside a single system call is represented only by the SIGXFSZ kill inside write(2)",
		"close(2) and chmod(2) failures cannot be provoked as root on a local filesystem and have no hook point: not enumerated",
		"expected protobuf bytes are computed by proto.Marshal in the parent from the same message (same binary)")
	r.Set("single_fault_cases", int64(singles))
	r.Set("pair_cases", int64(len(cases)-singles))

	deadline := vr.Deadline(4*time.Minute, 24*time.Minute) // safety net below the INDEX timeouts (10m / 30m); an idle machine needs ~10 s / a few minutes
	var skipped, notFired int64
	var infraMsg string
	var mu = make(chan struct{}, 1)
	mu <- struct{}{}
	for _, i := range groupStarts {
		if i+1 < len(cases) {
			r.Sample(cases[i+1])
		}
	}
	var followUps int64
	var process func(c c27case, level int)
	process = func(c c27case, level int) {
		run, err := runC27(c)
		if err != nil {
			<-mu
			if infraMsg == "" {
				infraMsg = err.Error()
			}
			mu <- struct{}{}
			return
		}
		fired := len(run.Obs) > 0
		for j, o := range run.Obs {
			if c.Steps[j].Fault.Kind != "none" && !o.Fired {
				fired = false
			}
			leftover := "clean"
			if len(o.Leftover) > 0 {
				leftover = "temp-left"
			}
			ending := o.Ending
			if c.Steps[j].Fault.Then != nil {
				ending = "two-faults " + ending
			}
			r.Outcome(fmt.Sprintf("%s target=%s %s", ending, o.Target, leftover))
		}
		allNone := true
		for _, s := range c.Steps {
			if s.Fault.Kind != "none" {
				allNone = false
			}
		}
		if !fired && !allNone {
			<-mu
			notFired++
			mu <- struct{}{}
		}
		r.Case(c.key(), fired && !allNone)
		if run.Violation != "" {
			r.Violate(c.key(), run.Violation, c, func() bool {
				again, err := runC27(c)
				return err == nil && again.Violation != ""
			})
		}
		// Single-write two-fault closure: the write survived an injected error and went on to
		// reach further hook points (a retry, a fallback, a cleanup through a hooked wrapper).
		// Every one of them gets a second fault - a crash before it and a failure of it - in a
		// fresh execution of the same case. (On an implementation that gives up after the first
		// error the list is empty and nothing is added.)
		if level == 0 && len(c.Steps) == 1 && c.Steps[0].Fault.Kind == "error" && c.Steps[0].Fault.Then == nil && len(run.Obs) == 1 {
			for q, op := range run.Obs[0].Later {
				for _, second := range []secondFault{{q, op, "crash", 0}, {q, op, "error", int(syscall.EIO)}} {
					second := second
					f := c.Steps[0].Fault
					f.Then = &second
					<-mu
					followUps++
					mu <- struct{}{}
					process(c27case{Old: c.Old, Steps: []writeStep{{c.Steps[0].API, c.Steps[0].New, f}}}, 1)
				}
			}
		}
	}
	vr.Parallel(len(cases), func(i int) {
		if time.Now().After(deadline) {
			<-mu
			skipped++
			mu <- struct{}{}
			return
		}
		process(cases[i], 0)
	})
	r.Set("two_fault_followup_cases", followUps)
	if infraMsg != "" {
		t.Fatalf("%s", infraMsg)
	}
	r.Set("fault_not_fired", notFired)
	if skipped > 0 {
		r.NotExhaustive(fmt.Sprintf("time budget: %d of %d cases not executed", skipped, len(cases)))
	}
}
