//go:build verif

// Package procs holds the E-proc checks: C27 (atomic replacement of persistent
// files under process crashes and failures), C28 (daemon lock, model +
// conformance on real processes) and C35 (closing an agent stream terminates
// the agent). The test binary re-executes itself (TestChildMain) as the child
// processes; the parent drives them step by step.
package procs

import (
	"bufio"
	"encoding/json"
	"fmt"
	"os"
	"os/exec"
	"strconv"
	"strings"
	"syscall"
	"testing"
	"time"
)

const (
	// childRoleEnv selects the role of a re-executed test binary.
	childRoleEnv = "VERIF_CHILD"
	// childSpecEnv carries the JSON specification for the role.
	childSpecEnv = "VERIF_CHILD_SPEC"
)

// TestChildMain is the entry point of every child process. It never returns
// to the testing framework: every role ends in os.Exit so that nothing but the
// role's own protocol is written to standard output.
func TestChildMain(t *testing.T) {
	role := os.Getenv(childRoleEnv)
	if role == "" {
		t.Skip("only meaningful in a re-executed child process")
	}
	switch role {
	case "locker":
		lockerChild()
	case "writer":
		writerChild()
	case "agent":
		agentChild()
	case "grandchild":
		grandchildMain()
	}
	fmt.Fprintln(os.Stderr, "unknown child role", role)
	os.Exit(3)
}

// selfExe is the path of the running test binary.
func selfExe() string {
	if p, err := os.Executable(); err == nil {
		return p
	}
	return os.Args[0]
}

// childCommand builds the command for a child with the given role and spec.
// extraEnv entries override inherited ones.
func childCommand(role string, spec interface{}, extraEnv ...string) *exec.Cmd {
	cmd := exec.Command(selfExe(), "-test.run=^TestChildMain$")
	data, _ := json.Marshal(spec)
	drop := map[string]bool{childRoleEnv: true, childSpecEnv: true}
	for _, e := range extraEnv {
		drop[strings.SplitN(e, "=", 2)[0]] = true
	}
	for _, e := range os.Environ() {
		if !drop[strings.SplitN(e, "=", 2)[0]] {
			cmd.Env = append(cmd.Env, e)
		}
	}
	cmd.Env = append(cmd.Env, childRoleEnv+"="+role, childSpecEnv+"="+string(data))
	cmd.Env = append(cmd.Env, extraEnv...)
	return cmd
}

// childSpec decodes the child's specification.
func childSpec(into interface{}) {
	if err := json.Unmarshal([]byte(os.Getenv(childSpecEnv)), into); err != nil {
		fmt.Fprintln(os.Stderr, "bad child spec:", err)
		os.Exit(3)
	}
}

// procIdentity identifies one process incarnation independently of PID reuse:
// the PID plus the kernel's start time of that PID (field 22 of /proc/pid/stat).
type procIdentity struct {
	Pid   int
	Start string
}

// procStat reads state, parent PID and start time of a PID; ok is false when
// the PID does not exist (ESRCH equivalent).
func procStat(pid int) (state string, ppid int, start string, ok bool) {
	data, err := os.ReadFile("/proc/" + strconv.Itoa(pid) + "/stat")
	if err != nil {
		return "", 0, "", false
	}
	s := string(data)
	// The command name is parenthesised and may contain anything: cut after the last ')'.
	i := strings.LastIndexByte(s, ')')
	if i < 0 {
		return "", 0, "", false
	}
	f := strings.Fields(s[i+1:])
	// f[0]=state(3) f[1]=ppid(4) ... starttime is field 22 => f[19].
	if len(f) < 20 {
		return "", 0, "", false
	}
	ppid, _ = strconv.Atoi(f[1])
	return f[0], ppid, f[19], true
}

// identify captures the identity of a live process.
func identify(pid int) (procIdentity, bool) {
	_, _, start, ok := procStat(pid)
	return procIdentity{pid, start}, ok
}

// livenessOf classifies a process incarnation: "gone" (no such PID, or the PID
// now names a different incarnation), "zombie" (exited, not yet reaped) or
// "alive:<state>".
func livenessOf(id procIdentity) string {
	// kill(pid, 0) is the probe named by the design; /proc disambiguates zombies and PID reuse.
	if err := syscall.Kill(id.Pid, 0); err == syscall.ESRCH {
		return "gone"
	}
	state, _, start, ok := procStat(id.Pid)
	if !ok || start != id.Start {
		return "gone"
	}
	if state == "Z" || state == "X" {
		return "zombie"
	}
	return "alive:" + state
}

// lineReader reads protocol lines with a watchdog (a child that never answers
// is an infrastructure problem, not a verdict).
type lineReader struct {
	lines chan string
}

func newLineReader(r *bufio.Reader) *lineReader {
	lr := &lineReader{lines: make(chan string, 16)}
	go func() {
		defer close(lr.lines)
		for {
			s, err := r.ReadString('\n')
			if s != "" {
				lr.lines <- strings.TrimRight(s, "\n")
			}
			if err != nil {
				return
			}
		}
	}()
	return lr
}

// next returns the next line; ok is false at EOF; timedOut when the watchdog expired.
func (lr *lineReader) next(d time.Duration) (line string, ok, timedOut bool) {
	timer := time.NewTimer(d)
	defer timer.Stop()
	select {
	case s, ok := <-lr.lines:
		return s, ok, false
	case <-timer.C:
		return "", false, true
	}
}
