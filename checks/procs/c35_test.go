//go:build verif

package procs

import (
	"bytes"
	"encoding/json"
	"fmt"
	"io"
	"os"
	"os/signal"
	"strconv"
	"strings"
	"sync"
	"syscall"
	"testing"
	"time"
	"unsafe"

	"github.com/mutagen-io/mutagen/pkg/agent/transport"

	"verif/internal/vr"
)

// ---------------------------------------------------------------------------
// Fake agent (child) and the process it may leave behind (grandchild).
// ---------------------------------------------------------------------------

// agentProgram is the behaviour program of a fake agent.
type agentProgram struct {
	// Mode: "immediate" exits on its own right after starting; "eof" exits when its
	// standard input closes; "eof-ignoreterm" does the same but ignores SIGTERM meanwhile (so
	// a slow exit can land inside the SIGTERM stage); "term" ignores input closure and exits only on SIGTERM;
	// "never" ignores input closure and SIGTERM and never exits voluntarily.
	Mode string
	// Grandchild: a further process inherits the agent's standard output and error and
	// keeps them open after the agent is gone (the situation of golang/go#23019).
	Grandchild bool
	// DieDelayMs: how long the agent dawdles between its trigger and its exit.
	DieDelayMs int
	// ExitCode: the status of a voluntary exit (0 = clean exit: Wait yields a nil error).
	ExitCode int
	// IgnoreStdin: the agent never reads its standard input (a hung agent / wedged transport):
	// whatever is written to the stream piles up in the pipe. Only meaningful for modes that do
	// not wait for input closure ("term", "never").
	IgnoreStdin bool
}

// agentSafetyLifetime bounds the life of agents and grandchildren if the parent
// disappears (no stray processes); far above the watchdog.
const agentSafetyLifetime = 400 * time.Second

func agentChild() {
	var prog agentProgram
	childSpec(&prog)
	time.AfterFunc(agentSafetyLifetime, func() { os.Exit(4) })
	term := make(chan os.Signal, 1)
	switch prog.Mode {
	case "term":
		signal.Notify(term, syscall.SIGTERM)
	case "never", "eof-ignoreterm":
		signal.Ignore(syscall.SIGTERM)
	}
	gpid := 0
	if prog.Grandchild {
		g := childCommand("grandchild", nil)
		g.Stdout, g.Stderr = os.Stdout, os.Stderr
		if err := g.Start(); err != nil {
			fmt.Println("error grandchild", err)
			os.Exit(5)
		}
		gpid = g.Process.Pid
	}
	// Handshake: from here on the signal dispositions are in place.
	fmt.Printf("ready %d %d\n", os.Getpid(), gpid)
	delay := time.Duration(prog.DieDelayMs) * time.Millisecond
	switch prog.Mode {
	case "immediate":
		time.Sleep(delay)
		os.Exit(prog.ExitCode)
	case "eof", "eof-ignoreterm":
		io.Copy(io.Discard, os.Stdin)
		time.Sleep(delay)
		os.Exit(prog.ExitCode)
	case "term":
		if !prog.IgnoreStdin {
			go io.Copy(io.Discard, os.Stdin)
		}
		<-term
		time.Sleep(delay)
		os.Exit(prog.ExitCode)
	default:
		if !prog.IgnoreStdin {
			go io.Copy(io.Discard, os.Stdin)
		}
		select {}
	}
}

func grandchildMain() {
	// Holds the inherited standard output / error open; ignores SIGTERM and SIGPIPE; only
	// the harness's SIGKILL (or the safety lifetime) ends it.
	signal.Ignore(syscall.SIGTERM, syscall.SIGPIPE, syscall.SIGHUP)
	time.Sleep(agentSafetyLifetime)
	os.Exit(0)
}

// ---------------------------------------------------------------------------
// Parent side.
// ---------------------------------------------------------------------------

type c35case struct {
	Program            agentProgram
	TerminationDelayMs int  // Stream.SetTerminationDelay
	ErrorReceiver      bool // NewStream with a standard error receiver (as agent.Dial does)
	PendingRead        bool // a Read on the stream is blocked while Close runs
	// BlockedWrite: another goroutine is inside Stream.Write, blocked on the FULL standard
	// input pipe of an agent that never reads (Program.IgnoreStdin), when Close is called.
	BlockedWrite bool
	// SecondClose: a second Close on the same Stream from another goroutine, overlapping the
	// first: "" none; "before" (started just before the first); "after0" (immediately after);
	// "after<N>ms" (N milliseconds after the first was started).
	SecondClose string `json:",omitempty"`
}

func (c c35case) key() string { return vr.J(c) }

type c35obs struct {
	Ready      bool   `json:"ready"`
	CloseEnded bool   `json:"close_returned"`
	CloseErr   string `json:"close_err,omitempty"`
	After      string `json:"agent_after_close"` // gone / zombie / alive:<state>
	Waited     bool   `json:"cmd_process_state_set"`
	Second     string `json:"second_close,omitempty"` // "<err or nil> agent=<liveness at its return>"
	PipeFull   int    `json:"stdin_pipe_bytes_pending,omitempty"`
	WriteEnded bool   `json:"blocked_write_returned,omitempty"`
	WriteErr   string `json:"blocked_write_err,omitempty"`
	WriteN     int    `json:"blocked_write_n,omitempty"`
}

type syncBuffer struct {
	mu sync.Mutex
	b  bytes.Buffer
}

func (s *syncBuffer) Write(p []byte) (int, error) {
	s.mu.Lock()
	defer s.mu.Unlock()
	return s.b.Write(p)
}

// agentReadyWatchdog bounds the start-up handshake of a fake agent.
const agentReadyWatchdog = 180 * time.Second

func c35Watchdog() time.Duration {
	if s := os.Getenv("VERIF_C35_WATCHDOG_S"); s != "" {
		if n, err := strconv.Atoi(s); err == nil && n > 0 {
			return time.Duration(n) * time.Second
		}
	}
	return 120 * time.Second
}

// runC35 starts one fake agent behind a real transport.Stream, closes the
// stream and observes. violation is "" when the property held.
func runC35(c c35case) (obs c35obs, violation string, err error) {
	watchdog := c35Watchdog()
	started := time.Now()
	cmd := childCommand("agent", c.Program)
	// Exactly how mutagen's transports start agent processes.
	cmd.SysProcAttr = transport.ProcessAttributes()
	var receiver io.Writer
	if c.ErrorReceiver {
		receiver = &syncBuffer{}
	}
	stream, err := transport.NewStream(cmd, receiver)
	if err != nil {
		return obs, "", &infraError{"NewStream: " + err.Error()}
	}
	stream.SetTerminationDelay(time.Duration(c.TerminationDelayMs) * time.Millisecond)
	if err := cmd.Start(); err != nil {
		return obs, "", &infraError{"start: " + err.Error()}
	}
	agentPid := cmd.Process.Pid
	gpid := 0
	// Whatever happens, leave no process behind.
	var cleanupOnce sync.Once
	cleanup := func() {
		// Once only: after the grandchild has been reaped its PID may name somebody else.
		cleanupOnce.Do(func() {
			cmd.Process.Kill()
			if gpid > 0 {
				syscall.Kill(gpid, syscall.SIGKILL)
				// The test process is a child subreaper, so the orphan becomes ours to reap as
				// soon as the agent is dead (ECHILD until then).
				var ws syscall.WaitStatus
				for i := 0; i < 2000; i++ {
					p, werr := syscall.Wait4(gpid, &ws, syscall.WNOHANG, nil)
					if p == gpid {
						break
					}
					if werr == syscall.ECHILD {
						if _, _, _, exists := procStat(gpid); !exists {
							break
						}
					}
					time.Sleep(5 * time.Millisecond)
				}
			}
		})
	}
	defer cleanup()

	// Read the handshake line through the stream.
	readyCh := make(chan string, 1)
	go func() {
		var line []byte
		one := make([]byte, 1)
		for {
			n, rerr := stream.Read(one)
			if n == 1 {
				if one[0] == '\n' {
					readyCh <- string(line)
					return
				}
				line = append(line, one[0])
			}
			if rerr != nil {
				readyCh <- "error " + rerr.Error()
				return
			}
		}
	}()
	var ready string
	select {
	case ready = <-readyCh:
	case <-time.After(agentReadyWatchdog):
		// Start-up of the fake agent is harness business: its (generous, fixed) limit is
		// independent of the Close watchdog.
		return obs, "", &infraError{"agent did not report ready within " + agentReadyWatchdog.String()}
	}
	f := strings.Fields(ready)
	if len(f) != 3 || f[0] != "ready" {
		return obs, "", &infraError{"bad agent handshake: " + ready}
	}
	if p, _ := strconv.Atoi(f[1]); p != agentPid {
		return obs, "", &infraError{"agent reports another pid"}
	}
	gpid, _ = strconv.Atoi(f[2])
	obs.Ready = true
	// The deadline for "Close returns" is scaled to the load of the machine: the documented
	// bound of Close is termination delay + 1 s + 1 s + kill; the watchdog is far above it and
	// additionally grows with how long this agent took to start (a loaded machine).
	if extra := 5 * time.Since(started); extra < 2*time.Minute {
		watchdog += extra
	} else {
		watchdog += 2 * time.Minute
	}
	id, ok := identify(agentPid)
	if !ok {
		return obs, "", &infraError{"cannot identify the agent process"}
	}
	if c.Program.Mode == "immediate" {
		// Make "exits on its own" precede Close when the stream does not wait for it itself:
		// wait (not an oracle, just sequencing) until the agent is a zombie.
		if c.TerminationDelayMs == 0 {
			for i := 0; i < 6000 && livenessOf(id) != "zombie"; i++ {
				time.Sleep(5 * time.Millisecond)
			}
		}
	}
	if c.PendingRead {
		go func() {
			buf := make([]byte, 16)
			for {
				if _, rerr := stream.Read(buf); rerr != nil {
					return
				}
			}
		}()
		// Let the reader block (sequencing only).
		time.Sleep(20 * time.Millisecond)
	}

	type writeResult struct {
		n   int
		err error
	}
	var writeDone chan writeResult
	if c.BlockedWrite {
		// One Write of 1 MiB to an agent that never reads: the pipe (64 KiB by default) fills up
		// and the call stays in flight. Sequencing (not an oracle): Close is called once the
		// pipe is observed full, i.e. the writer cannot make progress any more.
		writeDone = make(chan writeResult, 1)
		go func() {
			n, werr := stream.Write(make([]byte, 1<<20))
			writeDone <- writeResult{n, werr}
		}()
		pending, perr := waitPipeFull(agentPid, agentReadyWatchdog)
		if perr != nil {
			return obs, "", &infraError{"blocked-write setup: " + perr.Error()}
		}
		obs.PipeFull = pending
		select {
		case wr := <-writeDone:
			return obs, "", &infraError{fmt.Sprintf("the 1 MiB write to a non-reading agent returned early (%d, %v)", wr.n, wr.err)}
		default:
		}
	}

	// Every Close call is judged on its own: "Closing the stream to an agent process always
	// returns, and the process has exited by then" - the liveness of the agent is read in the
	// closing goroutine itself, immediately after its Close returned.
	type closeResult struct {
		err   error
		after string
	}
	closer := func(ch chan closeResult) {
		cerr := stream.Close()
		ch <- closeResult{cerr, livenessOf(id)}
	}
	closed := make(chan closeResult, 1)
	var closed2 chan closeResult
	switch {
	case c.SecondClose == "":
		go closer(closed)
	case c.SecondClose == "before":
		closed2 = make(chan closeResult, 1)
		go closer(closed2)
		go closer(closed)
	default:
		closed2 = make(chan closeResult, 1)
		var ms int
		fmt.Sscanf(c.SecondClose, "after%d", &ms)
		go closer(closed)
		go func() {
			time.Sleep(time.Duration(ms) * time.Millisecond) // sequencing only
			closer(closed2)
		}()
	}
	expiry := time.After(watchdog)
	hung := func(which string) (c35obs, string, error) {
		// "Closing the stream to an agent process always returns".
		obs.After = livenessOf(id)
		cleanup()
		select {
		case <-closed:
		case <-time.After(5 * time.Second):
		}
		return obs, fmt.Sprintf("%sClose did not return within the %v watchdog (agent %s)", which, watchdog, obs.After), nil
	}
	var first closeResult
	select {
	case first = <-closed:
		obs.CloseEnded = true
		if first.err != nil {
			obs.CloseErr = first.err.Error()
		}
	case <-expiry:
		return hung("")
	}
	var second *closeResult
	if closed2 != nil {
		select {
		case res := <-closed2:
			second = &res
			obs.Second = fmt.Sprintf("%v agent=%s", res.err, res.after)
		case <-expiry:
			return hung("the second, overlapping ")
		}
	}
	// "and the process has exited by then".
	obs.After = first.after
	obs.Waited = cmd.ProcessState != nil
	if strings.HasPrefix(first.after, "alive") {
		return obs, fmt.Sprintf("Close returned (%v) but the agent process is still running (%s)", first.err, first.after), nil
	}
	if second != nil && strings.HasPrefix(second.after, "alive") {
		return obs, fmt.Sprintf("the second, overlapping Close (%s) returned (%v) but the agent process is still running (%s)", c.SecondClose, second.err, second.after), nil
	}
	if c.BlockedWrite {
		// Stream: "It guarantees that its Close method unblocks pending Read and Write calls."
		// The agent is gone, so the write cannot have completed: it must return with an error.
		select {
		case wr := <-writeDone:
			obs.WriteEnded, obs.WriteN = true, wr.n
			if wr.err != nil {
				obs.WriteErr = wr.err.Error()
			} else {
				return obs, fmt.Sprintf("the Write that was blocked when Close was called returned success (%d bytes) although the agent never read and is gone", wr.n), nil
			}
		case <-time.After(watchdog):
			return obs, fmt.Sprintf("Close returned but the Write blocked on the agent's full input pipe was not unblocked within %v", watchdog), nil
		}
	}
	return obs, "", nil
}

// waitPipeFull waits until the standard input pipe of process pid holds as many unread
// bytes as it can (FIONREAD == F_GETPIPE_SZ on the read end, reached through /proc) and
// returns that number. The extra descriptor is closed before returning.
func waitPipeFull(pid int, limit time.Duration) (int, error) {
	fd, err := syscall.Open(fmt.Sprintf("/proc/%d/fd/0", pid), syscall.O_RDONLY|syscall.O_NONBLOCK, 0)
	if err != nil {
		return 0, err
	}
	defer syscall.Close(fd)
	const fGetPipeSize = 1032 // F_GETPIPE_SZ
	capacity, _, e := syscall.Syscall(syscall.SYS_FCNTL, uintptr(fd), fGetPipeSize, 0)
	if e != 0 {
		return 0, e
	}
	deadline := time.Now().Add(limit)
	for {
		var pending int32
		if _, _, e := syscall.Syscall(syscall.SYS_IOCTL, uintptr(fd), syscall.TIOCINQ, uintptr(unsafe.Pointer(&pending))); e != 0 {
			return 0, e
		}
		if int(pending) >= int(capacity) {
			return int(pending), nil
		}
		if time.Now().After(deadline) {
			return int(pending), fmt.Errorf("pipe holds %d of %d bytes after %v", pending, capacity, limit)
		}
		time.Sleep(2 * time.Millisecond)
	}
}

func becomeSubreaper() error {
	const prSetChildSubreaper = 36
	_, _, e := syscall.RawSyscall(syscall.SYS_PRCTL, prSetChildSubreaper, 1, 0)
	if e != 0 {
		return e
	}
	return nil
}

func TestC35(t *testing.T) {
	r := vr.New(t, "C35", "exploration")
	defer r.Finish()
	if err := becomeSubreaper(); err != nil {
		t.Logf("not a child subreaper (%v): orphaned grandchildren are killed but reaped by init", err)
	}
	if raw := vr.ReplayCase(); raw != nil {
		var c c35case
		if err := json.Unmarshal(raw, &c); err != nil {
			t.Fatalf("INFRA: bad replay case: %v", err)
		}
		obs, what, err := runC35(c)
		if err != nil {
			t.Fatalf("%v", err)
		}
		t.Logf("case %s observation %s verdict %q", c.key(), vr.J(obs), what)
		r.Case(c.key(), true)
		if what != "" {
			r.Violate(c.key(), what, c, nil)
		}
		return
	}

	modes := []string{"eof", "eof-ignoreterm", "term", "never", "immediate"}
	// Voluntary exits with a clean status (Wait yields nil) and with a failure status.
	exitCodes := []int{0, 7}
	// 1300 ms: the agent is still dawdling when the 1 s stage after its trigger ends, so its exit
	// (clean or not) arrives inside the NEXT escalation stage (e.g. a slow exit after stdin EOF
	// lands in the SIGTERM window).
	dieDelays := []int{0, 300, 1300}
	termDelays := []int{0, 300}
	pendingReads := []bool{false}
	secondCloses := []string{"before", "after0", "after250ms"}
	if vr.Thorough() {
		// Dawdling longer than one (1 s) or two escalation stages; a termination delay longer than the dawdling.
		dieDelays = []int{0, 300, 1300, 2300}
		termDelays = []int{0, 300, 1500}
		pendingReads = []bool{false, true}
		secondCloses = []string{"before", "after0", "after250ms", "after1200ms", "after2100ms"}
	}
	var cases []c35case
	for _, mode := range modes {
		for _, code := range exitCodes {
			if mode == "never" && code != exitCodes[0] {
				continue // never exits voluntarily: the status dimension does not apply
			}
			for _, g := range []bool{false, true} {
				for _, dd := range dieDelays {
					if mode == "never" && dd != dieDelays[0] {
						continue // nor does dawdling
					}
					for _, td := range termDelays {
						for _, er := range []bool{false, true} {
							for _, pr := range pendingReads {
								cases = append(cases, c35case{agentProgram{mode, g, dd, code, false}, td, er, pr, false, ""})
								// A Write blocked on the full input pipe of an agent that never reads, crossed
								// with every behaviour that can coexist with it (the agent must not be waiting
								// for input closure) and the other dimensions.
								if (mode == "term" || mode == "never") && dd <= 300 {
									cases = append(cases, c35case{agentProgram{mode, g, dd, code, true}, td, er, pr, true, ""})
								}
								// Two overlapping Close calls, for agents that take time to die (they dawdle,
								// ignore the requests, or the stream itself waits a termination delay).
								slow := mode == "never" || dd == 300 || (vr.Thorough() && dd > 300)
								if slow && !pr && (vr.Thorough() || (!g && er)) {
									for _, sc := range secondCloses {
										cases = append(cases, c35case{agentProgram{mode, g, dd, code, false}, td, er, pr, false, sc})
									}
								}
							}
						}
					}
				}
			}
		}
	}
	r.Rule(fmt.Sprintf("every fake agent program: termination behaviour %v x status of its voluntary exit %v x grandchild keeping stdout/stderr open {no,yes} x dawdling before exit %v ms, behind a real transport.Stream with termination delay %v ms, "+
		"stderr receiver {nil,buffer}, pending Read %v, plus (for the SIGTERM-only and ignore-everything agents, which then never read their input) a concurrent 1 MiB Write blocked on the full stdin pipe at the moment Close is called, plus (for agents that take time to die) a second, overlapping Close from another goroutine started %v the first - every Close call that returns is judged; all combinations, each one real process tree. Non-trivial = the agent was alive and ready when Close was called or exited on its own under a non-zero "+
		"termination delay (i.e. every executed case); distinct by the combination", modes, exitCodes, dieDelays, termDelays, pendingReads, secondCloses))
	r.Assume("real time and real OS scheduling: the behaviour alphabet is enumerated completely, the interleaving of agent and Close is whatever the OS produces",
		fmt.Sprintf("'always returns' is judged with a %v watchdog; nothing else about latency is asserted", c35Watchdog()),
		"only the agent process itself is required to be gone (the property and stream.go both exclude its descendants)",
		"an exited-but-unreaped (zombie) agent would count as exited; it is recorded as outcome 'zombie'")
	for _, i := range []int{0, len(cases) / 3, 2 * len(cases) / 3, len(cases) - 1} {
		r.Sample(cases[i])
	}

	type result struct {
		obs  c35obs
		what string
		err  error
	}
	results := make([]result, len(cases))
	// The cases mostly sleep; run them concurrently in bounded batches.
	sem := make(chan struct{}, 96)
	var wg sync.WaitGroup
	for i := range cases {
		wg.Add(1)
		sem <- struct{}{}
		go func(i int) {
			defer wg.Done()
			defer func() { <-sem }()
			o, w, e := runC35(cases[i])
			results[i] = result{o, w, e}
		}(i)
	}
	wg.Wait()

	var violating []int
	for i, res := range results {
		if res.err != nil {
			t.Fatalf("%v (case %s)", res.err, cases[i].key())
		}
		r.Case(cases[i].key(), res.obs.Ready)
		class := cases[i].Program.Mode + ": close-returned agent=" + res.obs.After
		if !res.obs.CloseEnded {
			class = cases[i].Program.Mode + ": close-hung agent=" + res.obs.After
		} else if res.obs.CloseErr != "" {
			class += " wait-error=" + res.obs.CloseErr
		} else {
			class += " wait-error=nil"
		}
		if cases[i].SecondClose != "" {
			cls := "returned-nil"
			switch {
			case res.obs.Second == "":
				cls = "hung"
			case strings.Contains(res.obs.Second, "already called"):
				cls = "error:wait-already-called"
			case strings.Contains(res.obs.Second, "no child"):
				cls = "error:ECHILD"
			case !strings.HasPrefix(res.obs.Second, "<nil>"):
				cls = "error:" + strings.SplitN(res.obs.Second, " agent=", 2)[0]
			}
			class += " second-close=" + cls
		}
		if cases[i].BlockedWrite {
			switch {
			case !res.obs.WriteEnded:
				class += " blocked-write=still-blocked"
			case strings.Contains(res.obs.WriteErr, "closed"):
				class += " blocked-write=error:closed"
			case strings.Contains(res.obs.WriteErr, "broken pipe"):
				class += " blocked-write=error:EPIPE"
			default:
				class += " blocked-write=error:other"
			}
		}
		r.Outcome(class)
		if res.what != "" {
			violating = append(violating, i)
		}
	}
	// Confirm violations 5/5 (vr calls rerun five times): the five re-executions of one case
	// run concurrently on first demand and the cases are confirmed concurrently too, all
	// through the same bound on simultaneous process trees as the first pass (an unbounded
	// burst starves the agents and the machine). At most maxConfirmed violating cases, spread
	// evenly over the violating list, are confirmed and reported; the others are only counted.
	const maxConfirmed = 24
	r.Set("violating_cases_first_pass", int64(len(violating)))
	if len(violating) > maxConfirmed {
		var picked []int
		for k := 0; k < maxConfirmed; k++ {
			picked = append(picked, violating[k*len(violating)/maxConfirmed])
		}
		r.Set("violating_cases_not_confirmed", int64(len(violating)-len(picked)))
		violating = picked
	}
	var vwg sync.WaitGroup
	for _, i := range violating {
		vwg.Add(1)
		go func(i int) {
			defer vwg.Done()
			c := cases[i]
			var once sync.Once
			again := make([]bool, 5)
			next := 0
			r.Violate(c.key(), results[i].what, c, func() bool {
				once.Do(func() {
					var g sync.WaitGroup
					for k := range again {
						g.Add(1)
						go func(k int) {
							defer g.Done()
							sem <- struct{}{}
							defer func() { <-sem }()
							_, w, e := runC35(c)
							again[k] = e == nil && w != ""
						}(k)
					}
					g.Wait()
				})
				v := again[next]
				next++
				return v
			})
		}(i)
	}
	vwg.Wait()
}
