//go:build verif

package procs

import (
	"bufio"
	"encoding/json"
	"fmt"
	"io"
	"os"
	"os/exec"
	"path/filepath"
	"runtime"
	"runtime/debug"
	"sort"
	"strconv"
	"strings"
	"sync/atomic"
	"syscall"
	"testing"
	"time"

	"github.com/mutagen-io/mutagen/pkg/daemon"
	"github.com/mutagen-io/mutagen/pkg/filesystem"

	"verif/internal/vr"
)

// ---------------------------------------------------------------------------
// Child side: a process that acquires / releases the real daemon lock on command.
// ---------------------------------------------------------------------------

type lockerSpec struct {
	Slot    int
	Journal string
}

type lockerAck struct {
	OK  bool   `json:"ok"`
	Err string `json:"err,omitempty"`
	N   int    `json:"n"` // Lock objects currently un-released in this process
}

// lockerChild serves commands from standard input, one per line, one
// acknowledgement line per command: "acquire", "release" (newest Lock object),
// "releaseold" (oldest), "exit" (clean process exit WITHOUT releasing), "ping".
// Standard input EOF (parent gone) ends the process.
func lockerChild() {
	var spec lockerSpec
	childSpec(&spec)
	journal := func(event string) {
		// The holder journal named by the property's observe_at: appended while the lock is held.
		f, err := os.OpenFile(spec.Journal, os.O_WRONLY|os.O_APPEND|os.O_CREATE, 0o600)
		if err != nil {
			return
		}
		fmt.Fprintf(f, "%s %d %d\n", event, spec.Slot, os.Getpid())
		f.Close()
	}
	var held []*daemon.Lock
	in := bufio.NewReader(os.Stdin)
	out := json.NewEncoder(os.Stdout)
	for {
		line, err := in.ReadString('\n')
		if err != nil {
			os.Exit(0)
		}
		command := strings.TrimSpace(line)
		if strings.HasPrefix(command, "race ") {
			// A racing acquire: all racers spin until the same wall-clock instant so that
			// their fcntl calls really overlap (sequencing only; a late racer just races less).
			var at int64
			fmt.Sscanf(command, "race %d", &at)
			for time.Now().UnixNano() < at {
			}
			command = "acquire"
		}
		switch command {
		case "acquire":
			l, err := daemon.AcquireLock()
			if err != nil {
				out.Encode(lockerAck{OK: false, Err: err.Error(), N: len(held)})
				continue
			}
			held = append(held, l)
			journal("+")
			out.Encode(lockerAck{OK: true, N: len(held)})
		case "release", "releaseold":
			if len(held) == 0 {
				out.Encode(lockerAck{OK: false, Err: "harness: nothing to release"})
				continue
			}
			var l *daemon.Lock
			if command == "release" {
				l, held = held[len(held)-1], held[:len(held)-1]
			} else {
				l, held = held[0], held[1:]
			}
			journal("-")
			if err := l.Release(); err != nil {
				out.Encode(lockerAck{OK: false, Err: err.Error(), N: len(held)})
				continue
			}
			out.Encode(lockerAck{OK: true, N: len(held)})
		case "gc":
			// Run the garbage collector until everything unreachable at this point has been
			// finalized: finalizers run in queue order on one goroutine, so once a sentinel
			// allocated (and dropped) now has been finalized in each of three successive
			// rounds, every finalizer queued by an earlier cycle (e.g. the one closing an
			// unreachable *os.File) has run. No sleeps: loop on runtime.GC.
			ok := true
			for round := 0; round < 3 && ok; round++ {
				ok = flushFinalizers()
			}
			debug.FreeOSMemory()
			if !ok {
				out.Encode(lockerAck{OK: false, Err: "harness: sentinel finalizer did not run", N: len(held)})
				continue
			}
			out.Encode(lockerAck{OK: true, N: len(held)})
		case "ping":
			out.Encode(lockerAck{OK: true, N: len(held)})
		case "exit":
			os.Exit(0)
		default:
			out.Encode(lockerAck{OK: false, Err: "harness: unknown command"})
		}
	}
}

// flushFinalizers allocates a sentinel with a finalizer, drops it and collects
// until that finalizer has run.
func flushFinalizers() bool {
	type sentinel struct {
		p   *int
		pad [64]byte
	}
	done := make(chan struct{})
	func() {
		s := &sentinel{}
		runtime.SetFinalizer(s, func(*sentinel) { close(done) })
	}()
	for i := 0; i < 1000; i++ {
		runtime.GC()
		select {
		case <-done:
			return true
		default:
			runtime.Gosched()
		}
	}
	return false
}

// ---------------------------------------------------------------------------
// Model.
// ---------------------------------------------------------------------------

const (
	opAcquire    = "acquire"
	opRelease    = "release"    // release the newest un-released Lock object
	opReleaseOld = "releaseold" // release the oldest one (only when two exist)
	opKill       = "kill"       // SIGKILL + wait
	opExit       = "exit"       // clean exit without releasing
	opRespawn    = "respawn"
	// opRace: every live process without a Lock object attempts to acquire at the same
	// instant (Proc is -1). The kernel picks the winner; the model follows the observation.
	opRace = "race"
	// opGC: process Proc runs its garbage collector to completion (finalizers included).
	// A no-op on lock ownership in the model: "At any moment at most one process holds the
	// daemon lock" and a holder that neither released nor terminated keeps it.
	opGC = "gc"
)

var lockOpKinds = []string{opAcquire, opRelease, opReleaseOld, opKill, opExit, opRespawn}

type lockOp struct {
	Kind string
	Proc int
}

func (o lockOp) String() string {
	if o.Kind == opRace {
		return "race_all"
	}
	if away, holder, wait, ok := o.overlap(); ok {
		return fmt.Sprintf("acquire_%d||%s_%d@%dms", o.Proc, away, holder, wait)
	}
	return fmt.Sprintf("%s_%d", o.Kind, o.Proc)
}

// An overlap op has Kind "overlap:<away>:<holder>:<wait ms>" and Proc = the contender: the
// contender's acquire command is issued and, unless its acknowledgement arrives within the
// wait (an implementation that refuses immediately), the holder is made to go away
// (release / kill / exit) WHILE that acquire is still in flight; then both acknowledgements
// are collected. Which of the two happens first inside the implementation is not
// controlled: the model follows the observed result of the acquire, and the kernel's
// owner must agree with it.
func overlapOp(contender int, away string, holder, waitMs int) lockOp {
	return lockOp{fmt.Sprintf("overlap:%s:%d:%d", away, holder, waitMs), contender}
}

func (o lockOp) overlap() (away string, holder, waitMs int, ok bool) {
	if !strings.HasPrefix(o.Kind, "overlap:") {
		return "", 0, 0, false
	}
	f := strings.Split(o.Kind, ":")
	if len(f) != 4 {
		return "", 0, 0, false
	}
	holder, _ = strconv.Atoi(f[2])
	waitMs, _ = strconv.Atoi(f[3])
	return f[1], holder, waitMs, true
}

// racers lists the processes taking part in a race in state m.
func (m lockModel) racers() []int {
	var out []int
	for i, p := range m.P {
		if p == 0 {
			out = append(out, i)
		}
	}
	return out
}

// lockModel is the reference model. P[i] is -1 when process i is dead,
// otherwise the number of Lock objects it acquired and has not released
// (bounded by maxObjects). K is the process owning the lock in the POSIX
// record-lock sense (-1: nobody). On histories in which no process ever holds
// two Lock objects at once ("single-acquire discipline", which is what the
// property quantifies over and what the daemon does) K == i  <=>  P[i] == 1.
type lockModel struct {
	P []int8
	K int8
}

func (m lockModel) clone() lockModel {
	return lockModel{P: append([]int8(nil), m.P...), K: m.K}
}

func (m lockModel) key() string {
	var b strings.Builder
	for _, p := range m.P {
		if p < 0 {
			b.WriteByte('x')
		} else {
			b.WriteByte('0' + byte(p))
		}
	}
	fmt.Fprintf(&b, "|K=%d", m.K)
	return b.String()
}

func initialLockModel(n int) lockModel {
	return lockModel{P: make([]int8, n), K: -1}
}

// enabled lists the ops offered in state m in canonical order.
func (m lockModel) enabled(maxObjects int) []lockOp {
	var out []lockOp
	for _, k := range lockOpKinds {
		for i := range m.P {
			alive := m.P[i] >= 0
			var ok bool
			switch k {
			case opAcquire:
				ok = alive && int(m.P[i]) < maxObjects
			case opRelease:
				ok = alive && m.P[i] >= 1
			case opReleaseOld:
				ok = alive && m.P[i] >= 2
			case opKill, opExit:
				ok = alive
			case opRespawn:
				ok = !alive
			}
			if ok {
				out = append(out, lockOp{k, i})
			}
		}
	}
	if len(m.racers()) >= 2 {
		out = append(out, lockOp{opRace, -1})
	}
	return out
}

// apply performs op on the model and returns the expected result of an acquire
// (true = must succeed). For other ops the return value is true.
func (m *lockModel) apply(op lockOp) (acquireSucceeds bool) {
	i := op.Proc
	switch op.Kind {
	case opAcquire:
		// "At any moment at most one process holds the daemon lock": an acquire by
		// another process while K is set must fail. "the lock becomes available
		// again as soon as its holder releases it or terminates": with K == -1 it
		// must succeed. K == i (the owner process acquiring again through a second
		// Lock object) succeeds under per-process POSIX semantics; the property
		// text does not speak about it, the model follows POSIX.
		if m.K == -1 || int(m.K) == i {
			m.P[i]++
			m.K = int8(i)
			return true
		}
		return false
	case opRelease, opReleaseOld:
		m.P[i]--
		if int(m.K) == i {
			// POSIX: unlocking (and closing any descriptor of the file) drops the
			// process's lock whichever Lock object asked for it.
			m.K = -1
		}
	case opKill, opExit:
		m.P[i] = -1
		if int(m.K) == i {
			m.K = -1
		}
	case opRespawn:
		m.P[i] = 0
	case opRace:
		// Nondeterministic in the model (any racer may win when the lock is free): the
		// driver applies the observed winner. Exactly one must win iff nobody owns the lock.
		return m.K == -1
	}
	return true
}

// disciplined reports whether no process holds more than one Lock object.
func (m lockModel) disciplined() bool {
	for _, p := range m.P {
		if p > 1 {
			return false
		}
	}
	return true
}

// believers counts live processes with at least one un-released Lock object.
func (m lockModel) believers() int {
	n := 0
	for _, p := range m.P {
		if p >= 1 {
			n++
		}
	}
	return n
}

// ---------------------------------------------------------------------------
// Real-process driver.
// ---------------------------------------------------------------------------

const lockAckWatchdog = 120 * time.Second

type lockerProc struct {
	cmd   *exec.Cmd
	stdin io.WriteCloser
	out   *lineReader
	pid   int
}

type lockWorld struct {
	dir      string // MUTAGEN_DATA_DIRECTORY
	journal  string
	lockPath string
	procs    []*lockerProc
}

type infraError struct{ msg string }

func (e *infraError) Error() string { return "INFRA: " + e.msg }

func newLockWorld(n int) (*lockWorld, error) {
	dir, err := os.MkdirTemp("", "verif-c28-")
	if err != nil {
		return nil, &infraError{err.Error()}
	}
	w := &lockWorld{
		dir:     dir,
		journal: filepath.Join(dir, "journal"),
		// pkg/daemon/paths.go: <data directory>/daemon/daemon.lock
		lockPath: filepath.Join(dir, "data", filesystem.MutagenDaemonDirectoryName, "daemon.lock"),
		procs:    make([]*lockerProc, n),
	}
	return w, nil
}

func (w *lockWorld) spawn(i int) error {
	cmd := childCommand("locker", lockerSpec{Slot: i, Journal: w.journal},
		"MUTAGEN_DATA_DIRECTORY="+filepath.Join(w.dir, "data"))
	stdin, err := cmd.StdinPipe()
	if err != nil {
		return &infraError{err.Error()}
	}
	stdout, err := cmd.StdoutPipe()
	if err != nil {
		return &infraError{err.Error()}
	}
	if err := cmd.Start(); err != nil {
		return &infraError{"cannot start child: " + err.Error()}
	}
	p := &lockerProc{cmd: cmd, stdin: stdin, out: newLineReader(bufio.NewReader(stdout)), pid: cmd.Process.Pid}
	w.procs[i] = p
	// One round trip so that the child is known to be up before it is counted alive.
	if _, err := w.command(i, "ping"); err != nil {
		return err
	}
	return nil
}

func (w *lockWorld) command(i int, c string) (lockerAck, error) {
	if _, err := io.WriteString(w.procs[i].stdin, c+"\n"); err != nil {
		return lockerAck{}, &infraError{fmt.Sprintf("child %d write: %v", i, err)}
	}
	return w.ack(i, c)
}

// ack reads the acknowledgement of the command c sent to child i.
func (w *lockWorld) ack(i int, c string) (lockerAck, error) {
	p := w.procs[i]
	line, ok, timedOut := p.out.next(lockAckWatchdog)
	if timedOut {
		return lockerAck{}, &infraError{fmt.Sprintf("child %d did not acknowledge %q within %v", i, c, lockAckWatchdog)}
	}
	if !ok {
		return lockerAck{}, &infraError{fmt.Sprintf("child %d closed its output before acknowledging %q", i, c)}
	}
	var a lockerAck
	if err := json.Unmarshal([]byte(line), &a); err != nil {
		return lockerAck{}, &infraError{fmt.Sprintf("child %d bad ack %q", i, line)}
	}
	return a, nil
}

func (w *lockWorld) reap(i int) {
	p := w.procs[i]
	p.stdin.Close()
	p.cmd.Wait()
	w.procs[i] = nil
}

func (w *lockWorld) close() {
	for i, p := range w.procs {
		if p != nil {
			p.cmd.Process.Kill()
			w.reap(i)
		}
	}
	os.RemoveAll(w.dir)
}

// probeHolder asks the kernel, from the (non-participating) parent process,
// which PID owns a conflicting lock on the daemon lock file: 0 = nobody.
// F_GETLK acquires nothing; closing the probe descriptor only affects locks of
// the parent, which never holds one.
func (w *lockWorld) probeHolder() (int, error) {
	f, err := os.OpenFile(w.lockPath, os.O_RDWR, 0)
	if err != nil {
		if os.IsNotExist(err) {
			return 0, nil
		}
		return 0, &infraError{err.Error()}
	}
	defer f.Close()
	spec := syscall.Flock_t{Type: syscall.F_WRLCK, Whence: 0, Start: 0, Len: 0}
	for {
		err = syscall.FcntlFlock(f.Fd(), syscall.F_GETLK, &spec)
		if err != syscall.EINTR {
			break
		}
	}
	if err != nil {
		return 0, &infraError{"F_GETLK: " + err.Error()}
	}
	if spec.Type == syscall.F_UNLCK {
		return 0, nil
	}
	return int(spec.Pid), nil
}

// lockStep is the observation of one executed op.
type lockStep struct {
	Op       string `json:"op"`
	Acquired *bool  `json:"acquired,omitempty"`
	Winners  []int  `json:"race_winners,omitempty"`
	InFlight *bool  `json:"acquire_in_flight_when_holder_went_away,omitempty"`
	Err      string `json:"err,omitempty"`
	Holder   int    `json:"holder_slot"` // slot owning the kernel lock after the op (-1 nobody, -2 unknown PID)
	Model    string `json:"model"`
}

type lockRun struct {
	Steps      []lockStep
	Violation  string // first oracle failure ("" = conforms)
	Undiscipl  bool   // some process held two Lock objects at once
	Overlapped bool   // the history contains an overlap op
	TwoBelieve bool   // two live processes had un-released Lock objects at once (only possible off-discipline)
}

// runLockPath executes path on fresh real processes, in lock step with the model.
func runLockPath(n, maxObjects int, path []lockOp) (run lockRun, err error) {
	w, err := newLockWorld(n)
	if err != nil {
		return run, err
	}
	defer w.close()
	// All n processes are alive from the start in the model. A process that has not yet
	// been asked to do anything has no influence on the lock file, so it is started when its
	// first op arrives (saves process creations; the history of real calls is identical).
	started := make([]bool, n)
	m := initialLockModel(n)
	violate := func(format string, a ...interface{}) {
		if run.Violation == "" {
			run.Violation = fmt.Sprintf(format, a...)
		}
	}
	for si, op := range path {
		before := m.clone()
		expectAcquire := m.apply(op)
		step := lockStep{Op: op.String(), Model: m.key()}
		involved := []int{op.Proc}
		if op.Kind == opRace {
			involved = before.racers()
		}
		ovAway, ovHolder, ovWait, isOverlap := op.overlap()
		if isOverlap {
			involved = []int{op.Proc, ovHolder}
		}
		for _, i := range involved {
			if !started[i] {
				started[i] = true
				if err := w.spawn(i); err != nil {
					return run, err
				}
			}
		}
		if isOverlap {
			run.Overlapped = true
			contender := op.Proc
			if _, err := io.WriteString(w.procs[contender].stdin, "acquire\n"); err != nil {
				return run, &infraError{fmt.Sprintf("child %d write: %v", contender, err)}
			}
			// An implementation that refuses (or grants) at once answers within the wait; one that
			// waits for the holder is still inside AcquireLock when the wait expires.
			var ack lockerAck
			line, ok, timedOut := w.procs[contender].out.next(time.Duration(ovWait) * time.Millisecond)
			inFlight := timedOut
			step.InFlight = &inFlight
			if !timedOut {
				if !ok {
					return run, &infraError{fmt.Sprintf("child %d closed its output before acknowledging acquire", contender)}
				}
				if err := json.Unmarshal([]byte(line), &ack); err != nil {
					return run, &infraError{"bad ack " + line}
				}
			}
			// The holder goes away (possibly while the contender's acquire is in flight).
			awayOp := lockOp{ovAway, ovHolder}
			switch ovAway {
			case opRelease:
				if a, err := w.command(ovHolder, opRelease); err != nil {
					return run, err
				} else if strings.HasPrefix(a.Err, "harness:") {
					return run, &infraError{a.Err}
				}
			case opKill:
				w.procs[ovHolder].cmd.Process.Signal(syscall.SIGKILL)
				w.reap(ovHolder)
			case opExit:
				io.WriteString(w.procs[ovHolder].stdin, "exit\n")
				w.reap(ovHolder)
			}
			if inFlight {
				a, err := w.ack(contender, "acquire")
				if err != nil {
					return run, err
				}
				ack = a
			}
			got := ack.OK
			step.Acquired, step.Err = &got, ack.Err
			if !inFlight {
				// Answered before the holder was touched: an ordinary acquire against a held lock.
				// "At any moment at most one process holds the daemon lock".
				if got && before.K != -1 && int(before.K) != contender {
					violate("step %d %s: acquire SUCCEEDED while process %d holds the lock (model %s)", si, op, before.K, before.key())
				}
			}
			// Model: the holder is gone; the contender holds the lock iff it was told so (both
			// answers are legal when the two overlapped). The kernel's owner is compared below:
			// a contender that was told it acquired must really own the lock.
			if got && !inFlight && before.K != -1 {
				m.apply(lockOp{opAcquire, contender}) // refused in the model; violation already recorded
			}
			m.apply(awayOp)
			if got && (inFlight || before.K == -1) {
				m.apply(lockOp{opAcquire, contender})
			}
			step.Model = m.key()
		}
		switch op.Kind {
		case opRace:
			// All racers get the command before any acknowledgement is read.
			at := time.Now().Add(50 * time.Millisecond).UnixNano()
			for _, i := range involved {
				if _, err := io.WriteString(w.procs[i].stdin, fmt.Sprintf("race %d\n", at)); err != nil {
					return run, &infraError{fmt.Sprintf("child %d write: %v", i, err)}
				}
			}
			step.Winners = []int{}
			for _, i := range involved {
				ack, err := w.ack(i, "race")
				if err != nil {
					return run, err
				}
				if ack.OK {
					step.Winners = append(step.Winners, i)
				}
			}
			switch {
			case len(step.Winners) > 1:
				// "At any moment at most one process holds the daemon lock".
				violate("step %d %s: %d racing processes %v all acquired the lock (model %s)", si, op, len(step.Winners), step.Winners, before.key())
			case len(step.Winners) == 1 && !expectAcquire:
				violate("step %d %s: racer %d acquired the lock while process %d holds it (model %s)", si, op, step.Winners[0], before.K, before.key())
			case len(step.Winners) == 0 && expectAcquire:
				// "the lock becomes available again as soon as ...": somebody must win a race for a free lock.
				violate("step %d %s: no racer acquired the lock although nobody holds it (model %s)", si, op, before.key())
			}
			if len(step.Winners) >= 1 {
				m.P[step.Winners[0]]++
				m.K = int8(step.Winners[0])
			}
			step.Model = m.key()
		case opAcquire:
			ack, err := w.command(op.Proc, "acquire")
			if err != nil {
				return run, err
			}
			got := ack.OK
			step.Acquired, step.Err = &got, ack.Err
			switch {
			case got && !expectAcquire:
				// "At any moment at most one process holds the daemon lock".
				violate("step %d %s: acquire SUCCEEDED while process %d holds the lock (model %s)", si, op, before.K, before.key())
			case !got && expectAcquire && before.K == -1:
				// "the lock becomes available again as soon as its holder releases it or
				// terminates, including by being killed": the very next acquire must succeed.
				violate("step %d %s: acquire FAILED (%s) although nobody holds the lock (model %s)", si, op, ack.Err, before.key())
			case !got && expectAcquire:
				// Owner re-acquiring: not demanded by the property; follow what happened.
				m = before
				step.Model = m.key() + " (re-acquire by owner refused)"
			}
		case opGC:
			ack, err := w.command(op.Proc, "gc")
			if err != nil {
				return run, err
			}
			if !ack.OK {
				return run, &infraError{ack.Err}
			}
		case opRelease, opReleaseOld:
			ack, err := w.command(op.Proc, op.Kind)
			if err != nil {
				return run, err
			}
			step.Err = ack.Err
			if strings.HasPrefix(ack.Err, "harness:") {
				return run, &infraError{ack.Err}
			}
			// Release's own return value is not part of the property; availability is judged below.
		case opKill:
			w.procs[op.Proc].cmd.Process.Signal(syscall.SIGKILL)
			w.reap(op.Proc)
		case opExit:
			io.WriteString(w.procs[op.Proc].stdin, "exit\n")
			w.reap(op.Proc)
		case opRespawn:
			if err := w.spawn(op.Proc); err != nil {
				return run, err
			}
		}
		// Independent observation after every op: who owns the kernel lock now?
		pid, err := w.probeHolder()
		if err != nil {
			return run, err
		}
		step.Holder = -1
		if pid != 0 {
			step.Holder = -2
			for i, p := range w.procs {
				if p != nil && p.pid == pid {
					step.Holder = i
				}
			}
		}
		if step.Holder != int(m.K) {
			switch {
			case m.K == -1:
				violate("step %d %s: lock still owned by slot %d (pid %d) although the model says it is free (model %s)", si, op, step.Holder, pid, m.key())
			case step.Holder == -1:
				violate("step %d %s: nobody owns the lock although process %d acquired it and neither released nor terminated (model %s)", si, op, m.K, m.key())
			default:
				violate("step %d %s: lock owned by slot %d (pid %d), model says %d (model %s)", si, op, step.Holder, pid, m.K, m.key())
			}
		}
		if !m.disciplined() {
			run.Undiscipl = true
		}
		if m.believers() > 1 {
			run.TwoBelieve = true
			if !run.Undiscipl {
				violate("step %d %s: two processes hold un-released Lock objects (model %s)", si, op, m.key())
			}
		}
		run.Steps = append(run.Steps, step)
		if run.Violation != "" {
			break
		}
	}
	// Journal oracle (observe_at: "holder journal written by each process while holding
	// the lock"): on disciplined histories no '+' of one slot may lie between '+' and the
	// matching '-' / death of another.
	if run.Violation == "" && !run.Undiscipl && !run.Overlapped {
		if what := checkJournal(w.journal, path, run.Steps); what != "" {
			violate("%s", what)
		}
	}
	return run, nil
}

// checkJournal merges the children's journal with the parent's knowledge of
// deaths (a killed process cannot journal its own death) and checks exclusion.
// The parent serialises all ops, so journal order == op order.
func checkJournal(journalPath string, path []lockOp, steps []lockStep) string {
	data, _ := os.ReadFile(journalPath)
	var lines []string
	if t := strings.TrimSpace(string(data)); t != "" {
		lines = strings.Split(t, "\n")
	}
	holder := -1
	ji := 0
	next := func(wantEvent string, wantSlot int) string {
		if ji >= len(lines) {
			return fmt.Sprintf("journal: missing %q entry of slot %d", wantEvent, wantSlot)
		}
		var ev string
		var slot, pid int
		fmt.Sscanf(lines[ji], "%s %d %d", &ev, &slot, &pid)
		ji++
		if ev != wantEvent || slot != wantSlot {
			return fmt.Sprintf("journal: entry %q where %q of slot %d was expected", lines[ji-1], wantEvent, wantSlot)
		}
		return ""
	}
	for i, op := range path {
		if i >= len(steps) {
			break
		}
		switch op.Kind {
		case opAcquire:
			if steps[i].Acquired == nil || !*steps[i].Acquired {
				continue
			}
			if what := next("+", op.Proc); what != "" {
				return what
			}
			if holder != -1 && holder != op.Proc {
				return fmt.Sprintf("journal: slot %d journalled an acquisition while slot %d was between its acquisition and its release", op.Proc, holder)
			}
			holder = op.Proc
		case opRace:
			for _, winner := range steps[i].Winners {
				if what := next("+", winner); what != "" {
					return what
				}
				if holder != -1 && holder != winner {
					return fmt.Sprintf("journal: slot %d journalled an acquisition while slot %d was between its acquisition and its release", winner, holder)
				}
				holder = winner
			}
		case opRelease, opReleaseOld:
			if what := next("-", op.Proc); what != "" {
				return what
			}
			if holder == op.Proc {
				holder = -1
			}
		case opKill, opExit:
			if holder == op.Proc {
				holder = -1
			}
		}
	}
	return ""
}

// ---------------------------------------------------------------------------
// The check.
// ---------------------------------------------------------------------------

type c28case struct {
	N          int
	MaxObjects int
	Path       []lockOp
}

func pathString(p []lockOp) string {
	s := make([]string, len(p))
	for i, o := range p {
		s[i] = o.String()
	}
	return strings.Join(s, " ")
}

func TestC28(t *testing.T) {
	r := vr.New(t, "C28", "model_checking")
	defer r.Finish()
	if raw := vr.ReplayCase(); raw != nil {
		var c c28case
		if err := json.Unmarshal(raw, &c); err != nil {
			t.Fatalf("INFRA: bad replay case: %v", err)
		}
		run, err := runLockPath(c.N, c.MaxObjects, c.Path)
		if err != nil {
			t.Fatalf("%v", err)
		}
		for _, s := range run.Steps {
			t.Logf("%s", vr.J(s))
		}
		t.Logf("verdict: %q", run.Violation)
		r.Case(pathString(c.Path), true)
		r.Set("states", 1)
		r.Set("transitions", int64(len(c.Path)))
		r.Set("traces_validated_against_impl", 1)
		if run.Violation != "" {
			r.Violate(pathString(c.Path), run.Violation, c, nil)
		}
		return
	}

	type universe struct {
		n          int
		maxObjects int  // bound on un-released Lock objects per process (2 = the owner may acquire again)
		depth      int  // additionally: every enabled op sequence of exactly this length from the initial state (0 = none)
		pathsOnly  bool // the closure of this universe is part of an earlier one: only run the depth paths
	}
	// Quick: the property's own universe (3 processes, one Lock object each) and the
	// re-acquiring owner with one contender. Thorough: both dimensions together, 4 processes, and all short histories.
	universes := []universe{{3, 1, 0, false}, {2, 2, 0, false}}
	if vr.Thorough() {
		// 3-process closure first (its transitions ordered: one Lock object per process before
		// re-acquisition; it contains the two quick universes), then 4 processes, then all short histories.
		universes = []universe{{3, 2, 0, false}, {4, 1, 0, false}, {3, 1, 4, true}, {2, 2, 4, true}}
	}
	r.Rule("reference model (alive set, un-released Lock objects per process <= 2, POSIX owner) explored by BFS to closure over ops " +
		"{acquire,release,releaseold,kill,exit,respawn}_i (thorough: also gc_i, a full garbage collection with finalizers in process i) plus race_all (all idle live processes attempt at the same instant; exactly one must win iff the lock is free); EVERY model transition (state x enabled op) is executed on fresh real processes " +
		"(shortest path to the state, then the op) calling daemon.AcquireLock/Release; plus a scripted family the state abstraction collapses: for every ordered (i,j,k) and every way j goes away {release,kill,exit}: acquire_j, acquire_i refused, [gc_i], away_j, acquire_i, gc_i, acquire_k refused, j refused, release_i, acquire_k; and an overlap family: acquire_j, then acquire_i issued and (unless it answers within 100/250 ms) the holder j released/killed/exited while that acquire is in flight, both acknowledgements collected, then acquire_k, [respawn_j,] acquire_j - the model follows the observed answer of the overlapped acquire and the kernel's owner must agree;  after every op the parent reads the kernel's owner with F_GETLK. " +
		"Non-trivial = the executed history contains a race, or a successful acquire followed by a later op other than respawn (contending acquire, release, death); distinct by op sequence")
	r.Assume("Linux POSIX record locks on a local filesystem (tmpfs/ext4 under $TMPDIR); NFS and Windows LockFileEx are not exercised",
		"process scheduling is serialised by the parent (one command in flight) except in race_all, where the racers spin to a common wall-clock instant and the kernel arbitrates; which racer wins is not controlled, only that exactly one does",
		"a second AcquireLock inside the process that already owns the lock is outside the property's quantifier (it speaks of processes): the model follows POSIX per-process semantics there and such histories are counted under offdiscipline_*, not judged for 'two holders'",
		"F_GETLK from a non-participating process is trusted as the observation of the current owner")

	var deadline = vr.Deadline(4*time.Minute, 24*time.Minute) // safety net below the INDEX timeouts (10m / 30m); an idle machine needs ~10 s / a few minutes
	raceRepeats := 4
	if vr.Thorough() {
		raceRepeats = 24
	}
	var totalStates, totalTransitions, validated int64 // states of the closed models; transitions actually executed on real processes
	var capped []string
	var offDisciplineRuns, twoBelieverRuns int64
	var infra atomic.Value

	execute := func(n, maxObjects int, path []lockOp, l *vr.Local) {
		if infra.Load() != nil {
			return
		}
		run, err := runLockPath(n, maxObjects, path)
		if err != nil {
			infra.Store(err.Error() + " on path " + pathString(path))
			return
		}
		key := fmt.Sprintf("n=%d max=%d: %s", n, maxObjects, pathString(path))
		// Non-triviality: a successful acquire followed by a contending acquire, a release or a death.
		nontrivial := false
		acquired := false
		for i, s := range run.Steps {
			if (acquired && path[i].Kind != opRespawn) || path[i].Kind == opRace {
				nontrivial = true
			}
			if s.InFlight != nil {
				cls := "overlap:acquire-answered-before-holder-went-away"
				if *s.InFlight {
					cls = "overlap:acquire-in-flight-when-holder-went-away"
				}
				if s.Acquired != nil && *s.Acquired {
					cls += ":ok"
				} else {
					cls += ":refused"
				}
				l.Outcome(cls)
			}
			if (s.Acquired != nil && *s.Acquired) || len(s.Winners) > 0 {
				acquired = true
			}
		}
		l.Case(key, nontrivial)
		if len(run.Steps) > 0 {
			last := run.Steps[len(run.Steps)-1]
			lastOp := path[len(run.Steps)-1]
			class := lastOp.Kind
			if last.Winners != nil {
				class += fmt.Sprintf(":%dwinner", len(last.Winners))
			}
			if last.Acquired != nil {
				if *last.Acquired {
					class += ":ok"
				} else {
					class += ":refused"
				}
			}
			if last.Holder >= 0 {
				class += ":held"
			} else {
				class += ":free"
			}
			if run.Undiscipl {
				class += ":offdiscipline"
			}
			l.Outcome(class)
		}
		if run.Undiscipl {
			atomic.AddInt64(&offDisciplineRuns, 1)
		}
		if run.TwoBelieve {
			atomic.AddInt64(&twoBelieverRuns, 1)
		}
		if run.Violation != "" {
			c := c28case{n, maxObjects, path[:len(run.Steps)]}
			r.Violate(key, run.Violation, c, func() bool {
				again, err := runLockPath(c.N, c.MaxObjects, c.Path)
				return err == nil && again.Violation != ""
			})
			return
		}
		atomic.AddInt64(&validated, 1)
	}

	// Scripted family (histories the state abstraction collapses: the model state "i holds"
	// is reached by acquire_i alone, but a process that was REFUSED before it acquired has
	// made an extra real AcquireLock call whose leftovers a later garbage collection may
	// release). For every ordered (i, j, k) and every way the first holder goes away:
	//   acquire_j ok, acquire_i refused, [gc_i,] away_j, acquire_i ok, gc_i, acquire_k refused,
	//   j (respawned if dead) refused, release_i, acquire_k ok
	// with the kernel owner compared to the model after every op (after gc_i it must still be i).
	scripted := func() {
		const n = 3
		var paths [][]lockOp
		for i := 0; i < n; i++ {
			for j := 0; j < n; j++ {
				for k := 0; k < n; k++ {
					if i == j || j == k || i == k {
						continue
					}
					for _, away := range []string{opRelease, opKill, opExit} {
						for _, earlyGC := range []bool{false, true} {
							path := []lockOp{{opAcquire, j}, {opAcquire, i}}
							if earlyGC {
								path = append(path, lockOp{opGC, i})
							}
							path = append(path, lockOp{away, j}, lockOp{opAcquire, i}, lockOp{opGC, i}, lockOp{opAcquire, k})
							if away != opRelease {
								path = append(path, lockOp{opRespawn, j})
							}
							path = append(path, lockOp{opAcquire, j}, lockOp{opRelease, i}, lockOp{opAcquire, k})
							paths = append(paths, path)
						}
					}
				}
			}
		}
		r.Sample(map[string]interface{}{"processes": n, "max_lock_objects": 1, "scripted": pathString(paths[2])})
		var skipped int64
		vr.Parallel(len(paths), func(x int) {
			if time.Now().After(deadline) {
				atomic.AddInt64(&skipped, 1)
				return
			}
			l := r.Local()
			defer l.Flush()
			execute(n, 1, paths[x], l)
			r.Add("scripted_histories", 1)
		})
		if skipped > 0 {
			capped = append(capped, fmt.Sprintf("%d of %d scripted refused-retry-gc histories not executed", skipped, len(paths)))
		}
	}

	// Overlap family: the holder j releases / is killed / exits WHILE contender i's acquire
	// command is in flight (issued, not yet acknowledged - only an implementation that waits
	// for the holder keeps it in flight; one that answers at once degenerates to the sequential
	// history), then a third process k acquires, then j (respawned if dead) tries again. For
	// every ordered (j, i, k), every way of going away and every wait before the holder is touched.
	overlapFamily := func() {
		const n = 3
		waits := []int{100, 250}
		if vr.Thorough() {
			waits = []int{0, 50, 100, 250, 400}
		}
		var paths [][]lockOp
		for j := 0; j < n; j++ {
			for i := 0; i < n; i++ {
				for k := 0; k < n; k++ {
					if i == j || j == k || i == k {
						continue
					}
					for _, away := range []string{opRelease, opKill, opExit} {
						for _, wait := range waits {
							path := []lockOp{{opAcquire, j}, overlapOp(i, away, j, wait), {opAcquire, k}}
							if away != opRelease {
								path = append(path, lockOp{opRespawn, j})
							}
							path = append(path, lockOp{opAcquire, j})
							paths = append(paths, path)
						}
					}
				}
			}
		}
		r.Sample(map[string]interface{}{"processes": n, "max_lock_objects": 1, "scripted": pathString(paths[3])})
		var skipped int64
		vr.Parallel(len(paths), func(x int) {
			if time.Now().After(deadline) {
				atomic.AddInt64(&skipped, 1)
				return
			}
			l := r.Local()
			defer l.Flush()
			execute(n, 1, paths[x], l)
			r.Add("overlap_histories", 1)
		})
		if skipped > 0 {
			capped = append(capped, fmt.Sprintf("%d of %d overlap histories not executed", skipped, len(paths)))
		}
	}

	for ui, u := range universes {
		if ui == 1 {
			scripted()
			overlapFamily()
		}
		// BFS over the model to closure, remembering the shortest path to every state.
		type node struct {
			m    lockModel
			path []lockOp
		}
		init := initialLockModel(u.n)
		seen := map[string]bool{init.key(): true}
		frontier := []node{{init, nil}}
		var all []node
		for len(frontier) > 0 {
			cur := frontier[0]
			frontier = frontier[1:]
			all = append(all, cur)
			for _, op := range cur.m.enabled(u.maxObjects) {
				if op.Kind == opRace {
					continue // its successors are those of the racers' acquire ops
				}
				next := cur.m.clone()
				next.apply(op)
				if !seen[next.key()] {
					seen[next.key()] = true
					frontier = append(frontier, node{next, append(append([]lockOp(nil), cur.path...), op)})
				}
			}
		}
		// Every transition of the closed model is one real-process execution.
		type job struct {
			path   []lockOp
			repeat bool
		}
		var jobs []job
		for _, nd := range all {
			for _, op := range nd.m.enabled(u.maxObjects) {
				jobs = append(jobs, job{append(append([]lockOp(nil), nd.path...), op), false})
			}
		}
		// Thorough: a garbage collection in every live process of every state (no-op in the model).
		if vr.Thorough() {
			for _, nd := range all {
				for i, p := range nd.m.P {
					if p >= 0 {
						jobs = append(jobs, job{append(append([]lockOp(nil), nd.path...), lockOp{opGC, i}), false})
					}
				}
			}
		}
		// The outcome of a race is the kernel's choice: the same race transition is executed
		// several more times (same oracle; counted as evaluations, not as further transitions).
		for _, nd := range all {
			for _, op := range nd.m.enabled(u.maxObjects) {
				for k := 0; op.Kind == opRace && k < raceRepeats; k++ {
					jobs = append(jobs, job{append(append([]lockOp(nil), nd.path...), op), true})
				}
			}
		}
		// Transitions of the property's own sub-model (nobody ever has two Lock objects) first.
		offDiscipline := func(path []lockOp) bool {
			m := initialLockModel(u.n)
			for _, op := range path {
				if op.Kind != opRace {
					m.apply(op)
				}
				if !m.disciplined() {
					return true
				}
			}
			return false
		}
		sort.SliceStable(jobs, func(a, b int) bool {
			return !offDiscipline(jobs[a].path) && offDiscipline(jobs[b].path)
		})
		if u.pathsOnly {
			jobs = nil
		}
		if time.Now().After(deadline) {
			capped = append(capped, fmt.Sprintf("universe n=%d max=%d depth=%d not started", u.n, u.maxObjects, u.depth))
			continue
		}
		if !u.pathsOnly {
			totalStates += int64(len(all))
		}
		for _, j := range []int{0, len(jobs) / 3, 2 * len(jobs) / 3, len(jobs) - 1} {
			if len(jobs) == 0 {
				break
			}
			r.Sample(map[string]interface{}{"processes": u.n, "max_lock_objects": u.maxObjects, "ops": pathString(jobs[j].path)})
		}
		var skipped int64
		vr.Parallel(len(jobs), func(i int) {
			if time.Now().After(deadline) {
				atomic.AddInt64(&skipped, 1)
				return
			}
			l := r.Local()
			defer l.Flush()
			execute(u.n, u.maxObjects, jobs[i].path, l)
			if jobs[i].repeat {
				r.Add("race_repetitions", 1)
			} else {
				atomic.AddInt64(&totalTransitions, 1)
			}
		})
		if skipped > 0 {
			capped = append(capped, fmt.Sprintf("%d of %d transitions (n=%d max=%d) not executed", skipped, len(jobs), u.n, u.maxObjects))
			continue
		}

		// Thorough: every enabled op sequence of exactly u.depth ops (prefixes are judged step by step on the way).
		if u.depth > 0 {
			var paths [][]lockOp
			var rec func(m lockModel, path []lockOp)
			rec = func(m lockModel, path []lockOp) {
				if len(path) == u.depth {
					paths = append(paths, append([]lockOp(nil), path...))
					return
				}
				for _, op := range m.enabled(u.maxObjects) {
					if op.Kind == opRace && len(path)+1 < u.depth {
						continue // nondeterministic successor: only as the last op of a history
					}
					next := m.clone()
					next.apply(op)
					rec(next, append(path, op))
				}
			}
			rec(init, nil)
			r.Add("depth_paths", int64(len(paths)))
			r.Set("depth", int64(u.depth))
			var skippedPaths int64
			vr.Parallel(len(paths), func(i int) {
				if time.Now().After(deadline) {
					atomic.AddInt64(&skippedPaths, 1)
					return
				}
				l := r.Local()
				defer l.Flush()
				execute(u.n, u.maxObjects, paths[i], l)
			})
			if skippedPaths > 0 {
				capped = append(capped, fmt.Sprintf("%d of %d depth-%d paths (n=%d max=%d) not executed", skippedPaths, len(paths), u.depth, u.n, u.maxObjects))
			}
		}
	}
	if msg := infra.Load(); msg != nil {
		t.Fatalf("%v", msg)
	}
	if len(capped) > 0 {
		r.NotExhaustive("time budget: " + strings.Join(capped, "; "))
	}
	r.Set("states", totalStates)
	r.Set("transitions", totalTransitions)
	r.Set("traces_validated_against_impl", atomic.LoadInt64(&validated))
	r.Set("offdiscipline_runs", atomic.LoadInt64(&offDisciplineRuns))
	r.Set("offdiscipline_runs_with_two_processes_holding_unreleased_Lock_objects", atomic.LoadInt64(&twoBelieverRuns))
}
