//go:build verif

package statepkg

import (
	"encoding/json"
	"fmt"
	"os"
	"strings"
	"testing"
	"time"

	"github.com/mutagen-io/mutagen/pkg/state"

	"verif/internal/vr"
)

// ---------------------------------------------------------------------------
// C31 stage 1: E-bubble world over the unmodified coalescer, virtual time.
// ---------------------------------------------------------------------------

const c31Window = 10 * time.Millisecond

type c31world struct {
	c     *state.Coalescer
	start time.Time
	calls []*c30call
	last  string
	// Reference model, written from the property statement: a strobe arms (or
	// re-arms) a deadline one window after it; when the deadline passes with
	// no further strobe and no termination, exactly one signal is raised; the
	// signal stays buffered until consumed; at most one is buffered.
	deadline   time.Duration // offset from start; <0 = not armed
	buffered   bool
	terminated bool
	consumed   int
	strobes    int
	gotLast    string
	alphabet   []string // nil = full menu
}

func newC31World() world {
	return &c31world{c: state.NewCoalescer(c31Window), start: time.Now(), deadline: -1, last: "init"}
}

// newC31DeepWorld is the same world with the reduced alphabet of the deep leg:
// whole strobe / full-window-of-silence / consume cycles, so that long
// histories (a consumer idle over several complete cycles, then a consume,
// then further cycles) are reached cheaply.
func newC31DeepWorld() world {
	w := newC31World().(*c31world)
	w.alphabet = []string{"strobe", "adv-one", "consume"}
	return w
}

// newC31FineWorld has sub-window time resolution: gaps of w/8 and 7w/8 (whose
// sums also give w/4, w, 9w/8, ...), so that strobes closer together than any
// fraction of the window down to w/8, followed by a gap just short of the
// window, are enumerated with an attentive or idle consumer.
func newC31FineWorld() world {
	w := newC31World().(*c31world)
	w.alphabet = []string{"strobe", "adv-eighth", "adv-7eighths", "consume"}
	return w
}

// newC31ReplayWorld accepts every event of every leg (replay by event name).
func newC31ReplayWorld() world {
	w := newC31World().(*c31world)
	w.alphabet = []string{"strobe", "adv-eighth", "adv-half", "adv-7eighths", "adv-one", "adv-two", "consume", "terminate"}
	return w
}

func (w *c31world) menu() []string {
	if w.alphabet != nil {
		return w.alphabet
	}
	m := []string{"strobe", "adv-half", "adv-one", "adv-two", "consume"}
	if !w.terminated {
		m = append(m, "terminate")
	}
	return m
}

func (w *c31world) call(name string, f func()) {
	c := &c30call{name: name, done: make(chan struct{})}
	w.calls = append(w.calls, c)
	go func() { f(); close(c.done) }()
}

func (w *c31world) advance(d time.Duration) {
	time.Sleep(d)
	now := time.Since(w.start)
	if w.deadline >= 0 && w.deadline <= now {
		w.buffered = true
		w.deadline = -1
	}
}

func (w *c31world) do(ev string) {
	w.last = ev
	w.gotLast = ""
	switch ev {
	case "strobe":
		w.call(ev, w.c.Strobe)
		if !w.terminated {
			w.strobes++
			w.deadline = time.Since(w.start) + c31Window
		}
	case "adv-eighth":
		w.advance(c31Window / 8)
	case "adv-7eighths":
		w.advance(7 * c31Window / 8)
	case "adv-half":
		w.advance(c31Window / 2)
	case "adv-one":
		w.advance(c31Window)
	case "adv-two":
		w.advance(2 * c31Window)
	case "consume":
		select {
		case <-w.c.Signals():
			w.gotLast = "signal"
			w.consumed++
		default:
			w.gotLast = "empty"
		}
	case "terminate":
		w.call(ev, w.c.Terminate)
		w.terminated = true
		w.deadline = -1
	}
}

func (w *c31world) observe() (string, string) {
	viol := ""
	fail := func(f string, a ...interface{}) {
		if viol == "" {
			viol = fmt.Sprintf(f, a...)
		}
	}
	var hung []string
	for _, c := range w.calls {
		select {
		case <-c.done:
		default:
			// A Strobe that never returns is a strobe (and signal) lost; a
			// Terminate that never returns is not named by the statement and
			// only shows up in the observation.
			if c.name == "strobe" {
				fail("%s has not returned at quiescence", c.name)
			}
			hung = append(hung, c.name)
		}
	}
	w.calls = w.calls[:0]
	now := time.Since(w.start)
	if w.last == "consume" {
		// The consume event happened before this quiescence: compare with the
		// model as it stood before, then update the model.
		if w.buffered && w.gotLast != "signal" {
			fail("t=%v: no signal available although the last strobe was followed by a full window of silence (signal lost)", now)
		}
		if !w.buffered && w.gotLast == "signal" {
			fail("t=%v: a signal was delivered that no strobe accounts for (early or duplicate signal)", now)
		}
		w.buffered = false
	}
	n := len(w.c.Signals())
	// "At most one signal is ever buffered"
	if n > 1 {
		fail("t=%v: %d signals buffered", now, n)
	}
	// "Every strobe is followed by a delivered signal once strobes have
	// stopped for the coalescing window, unless the coalescer was terminated
	// first" / "bursts of strobes within the window produce a single signal".
	if w.buffered && n == 0 {
		fail("t=%v: no signal buffered although the last strobe was followed by a full window of silence (signal lost)", now)
	}
	if !w.buffered && n == 1 {
		fail("t=%v: a signal is buffered that no strobe accounts for (early or duplicate signal)", now)
	}
	arm := "-"
	if w.deadline >= 0 {
		arm = fmt.Sprint(w.deadline)
	}
	return fmt.Sprintf("t=%v buf=%d armed=%s term=%v hung=%v %s", now, n, arm, w.terminated, hung, w.gotLast), viol
}

func (w *c31world) close() {
	go w.c.Terminate()
}

type c31caseFile struct {
	Stage  string   `json:"stage"`
	Events []string `json:"events,omitempty"`
	VS     *vsCase  `json:"vs,omitempty"`
}

func TestC31(t *testing.T) {
	r := vr.New(t, "C31", "exploration")
	defer r.Finish()
	if raw := vr.ReplayCase(); raw != nil {
		var c c31caseFile
		json.Unmarshal(raw, &c)
		key := vr.J(c)
		if c.Stage == "vsched" {
			what := vschedReplay(t, "C31", c.VS)
			r.Case(key, true)
			if what != "" {
				r.Violate(vsKey("C31", c.VS), what, c, nil)
			}
			return
		}
		run := replayBubbleEvents(t, newC31ReplayWorld, c.Events)
		for i, o := range run.Obs {
			ev := "init"
			if i > 0 && i-1 < len(run.Events) {
				ev = run.Events[i-1]
			}
			t.Logf("%-10s -> %s", ev, o)
		}
		t.Logf("verdict: %q", run.Violation)
		r.Case(key, true)
		if run.Violation != "" {
			r.Violate("bubble:"+strings.Join(c.Events, ","), run.Violation, c, nil)
		}
		return
	}
	race := startRacePass("C31")
	defer race.join(r)
	depth := 6
	if vr.Thorough() {
		depth = 8
	}
	deadline := vr.Deadline(25*time.Second, 240*time.Second)
	if os.Getenv("VERIF_SKIP_BUBBLE") != "" { // development aid only
		depth = 1
	}
	var bubbleSamples sampleBudget
	visit := func(run *bubbleRun) {
		key := strings.Join(run.Events, ",")
		signals, coalesced := 0, false
		prevStrobe := false
		for i, o := range run.Obs {
			if strings.HasSuffix(o, " signal") {
				signals++
			}
			if i > 0 && i-1 < len(run.Events) {
				ev := run.Events[i-1]
				if ev == "strobe" && prevStrobe {
					coalesced = true
				}
				if ev == "strobe" {
					prevStrobe = true
				} else if ev == "adv-one" || ev == "adv-two" || ev == "terminate" {
					prevStrobe = false
				}
			}
		}
		// Non-trivial: a signal was actually delivered to the consumer, or a
		// burst (two strobes less than a window apart) was coalesced.
		nt := signals > 0 || coalesced
		r.Case(key, nt)
		if nt && signals > 1 && bubbleSamples.take(2) {
			r.Sample(map[string]interface{}{"stage": "bubble", "events": run.Events, "obs": run.Obs})
		}
		r.Outcome(fmt.Sprintf("bubble signals=%d burst=%v term=%v", signals, coalesced, strings.Contains(key, "terminate")))
		if run.Violation != "" {
			evs := append([]string{}, run.Events...)
			c := c31caseFile{Stage: "bubble", Events: evs}
			r.Violate("bubble:"+key, run.Violation, c, func() bool {
				return replayBubbleEvents(t, newC31ReplayWorld, evs).Violation != ""
			})
		}
	}
	// Deep leg: reduced alphabet, longer histories. (No state deduplication on
	// the reference model: two histories that agree on everything the model
	// knows may differ in hidden implementation state, which is precisely
	// what long histories are meant to expose.)
	deepDepth := 9
	if vr.Thorough() {
		deepDepth = 12
	}
	if os.Getenv("VERIF_SKIP_BUBBLE") != "" {
		deepDepth = 1
	}
	deep := exploreBubble(t, newC31DeepWorld, deepDepth, deadline, visit)
	// (the deep leg is small and runs first so that a time cap never cuts it)
	// Fine leg: sub-window gaps.
	fineDepth := 7
	if vr.Thorough() {
		fineDepth = 9
	}
	if os.Getenv("VERIF_SKIP_BUBBLE") != "" {
		fineDepth = 1
	}
	fine := exploreBubble(t, newC31FineWorld, fineDepth, deadline, visit)
	r.Set("bubble_fine_leg_depth", fineDepth)
	r.Set("bubble_fine_leg_sequences", fine.Sequences)
	if fine.Capped {
		notExhaustive(r, fmt.Sprintf("E-bubble fine leg stopped by its time budget after %d sequences of depth %d", fine.Sequences, fineDepth))
	}
	st := exploreBubble(t, newC31World, depth, deadline, visit)
	r.Set("bubble_sequences", st.Sequences+deep.Sequences+fine.Sequences)
	r.Set("bubble_events", st.Events+deep.Events+fine.Events)
	r.Set("bubble_depth", depth)
	r.Set("bubble_deep_leg_depth", deepDepth)
	r.Set("bubble_deep_leg_sequences", deep.Sequences)
	r.Set("divergent_replays", st.Divergent+deep.Divergent+fine.Divergent)
	r.Set("bubble_teardown_hangs", st.Hangs+deep.Hangs+fine.Hangs)
	if st.Capped {
		notExhaustive(r, fmt.Sprintf("E-bubble stage stopped by its time budget after %d sequences of depth %d", st.Sequences, depth))
	}
	if deep.Capped {
		notExhaustive(r, fmt.Sprintf("E-bubble deep leg stopped by its time budget after %d sequences of depth %d", deep.Sequences, deepDepth))
	}
	vs := vschedC31(t, r)
	rule := fmt.Sprintf("stage 1 (E-bubble, unmodified pkg/state, virtual time, window w=%v): every sequence of <= %d events over {strobe, advance w/2, advance w, advance 2w, non-blocking consume, terminate}; after every event the buffered-signal count is compared with a reference model of the statement. Deep leg: every sequence of <= %d events over the reduced alphabet {strobe, advance w, consume} (consumer idle over several complete cycles, then consuming). Fine leg: every sequence of <= %d events over {strobe, advance w/8, advance 7w/8, consume} (sub-window gaps: a signal while the last strobe is less than a window old, or a second signal for one burst, contradicts the model). Non-trivial = a signal reached the consumer or two strobes fell inside one window; distinct by event sequence.", c31Window, depth, deepDepth, fineDepth)
	if vs != "" {
		rule += " " + vs
	} else {
		rule += " stage 2 (E-vsched) NOT RUN: built without the rewriting overlay."
		notExhaustive(r, "interleaving dimension: only quiescence granularity (E-bubble); E-vsched overlay not in effect")
	}
	r.Rule(rule)
	r.Assume("one window length; gaps are multiples of w/2 (below, at and above the window)",
		"a strobe and the expiry of the window at the same virtual instant are not ordered by the model (gaps exactly w are explored, outcome checked at the next quiescence)")
}
