//go:build verif

// Package statepkg holds the checks for C30 (state tracker long-polls), C31
// (coalescer) and C32 (prompter registry / response mode).
//
// Every property is decided in two stages that share one TestCnn:
//
//	stage 1  E-bubble: harness-owned event sequences over the UNMODIFIED
//	         packages inside testing/synctest bubbles (this file is its engine);
//	stage 2  E-vsched: every goroutine interleaving (preemption bounded) of the
//	         REWRITTEN packages under the cooperative scheduler
//	         verif/internal/vsched (vsched_harness_test.go, only compiled when
//	         the PREBUILD overlay is in effect).
package statepkg

import (
	"fmt"
	"strings"
	"sync"
	"sync/atomic"
	"testing"
	"testing/synctest"
	"time"

	"verif/internal/vr"
)

// world is one E-bubble scenario instance. All methods run on the bubble's
// root goroutine; do() must start API calls in their own goroutines.
type world interface {
	// menu returns the events enabled in the current harness-visible state in
	// canonical order.
	menu() []string
	// do performs one event (starts a call / advances virtual time).
	do(ev string)
	// observe is called after synctest.Wait(); it returns the observation made
	// at this quiescence (returned calls, pending calls, ...) and the first
	// property violation visible in it ("" = none).
	observe() (obs string, violation string)
	// close tears everything down so that the bubble drains.
	close()
}

// bubbleRun is the record of one executed event sequence.
type bubbleRun struct {
	Events       []string `json:"events"`
	Obs          []string `json:"obs"`
	Violation    string   `json:"violation,omitempty"`
	ViolAt       int      `json:"violation_at,omitempty"`
	TeardownHang bool     `json:"teardown_hang,omitempty"`
	menus        []int    // menu size at each executed step
	idx          []int    // menu index taken at each executed step
}

// runBubble executes one event sequence given as menu indices (missing
// positions = index 0) up to depth events in a fresh bubble.
func runBubble(t *testing.T, mk func() world, choice []int, depth int) (res bubbleRun, badChoice bool) {
	res.TeardownHang = inBubble(t, func(t *testing.T) {
		w := mk()
		defer func() {
			w.close()
			synctest.Wait()
		}()
		synctest.Wait()
		if o, v := w.observe(); v != "" {
			res.Obs = append(res.Obs, o)
			res.Violation, res.ViolAt = v, 0
			return
		}
		for i := 0; i < depth; i++ {
			m := w.menu()
			if len(m) == 0 {
				return
			}
			c := 0
			if i < len(choice) {
				c = choice[i]
			}
			if c >= len(m) {
				badChoice = true
				return
			}
			res.menus = append(res.menus, len(m))
			res.idx = append(res.idx, c)
			res.Events = append(res.Events, m[c])
			w.do(m[c])
			synctest.Wait()
			o, v := w.observe()
			res.Obs = append(res.Obs, o)
			if v != "" {
				res.Violation, res.ViolAt = v, i+1
				return
			}
		}
	})
	return res, badChoice
}

// bubbleStats is what an E-bubble exploration measured.
type bubbleStats struct {
	Sequences int64 // maximal event sequences executed (each twice)
	Events    int64 // events executed in first runs
	Divergent int64 // sequences whose two executions observed different things
	Hangs     int64 // sequences after which code under test stayed blocked despite teardown
	Capped    bool
}

// exploreBubble enumerates every event sequence of length <= depth (as the
// maximal sequences; every prefix is checked on the way) by an odometer over
// menu indices, sharded on the first two choices. visit is called once per
// maximal sequence, from worker goroutines.
func exploreBubble(t *testing.T, mk func() world, depth int, deadline time.Time, visit func(run *bubbleRun)) bubbleStats {
	var st bubbleStats
	// Discover the shards: all valid 2-prefixes.
	var shards [][]int
	first, _ := runBubble(t, mk, nil, 1)
	n0 := 0
	if len(first.menus) > 0 {
		n0 = first.menus[0]
	}
	for a := 0; a < n0; a++ {
		r, _ := runBubble(t, mk, []int{a}, 2)
		if len(r.menus) < 2 || depth < 2 {
			shards = append(shards, []int{a})
			continue
		}
		for b := 0; b < r.menus[1]; b++ {
			shards = append(shards, []int{a, b})
		}
	}
	var capped atomic.Bool
	var mu sync.Mutex
	vr.Parallel(len(shards), func(si int) {
		prefix := shards[si]
		choice := append([]int{}, prefix...)
		var seqs, evs, div, hangs int64
		for {
			if time.Now().After(deadline) {
				capped.Store(true)
				break
			}
			run, bad := runBubble(t, mk, choice, depth)
			if bad {
				panic("INFRA: E-bubble menu changed between executions of the same prefix: " + fmt.Sprint(choice))
			}
			again, _ := runBubble(t, mk, choice, depth)
			seqs++
			evs += int64(len(run.Events))
			if strings.Join(run.Obs, "|") != strings.Join(again.Obs, "|") || run.Violation != again.Violation {
				div++
			}
			if run.TeardownHang {
				hangs++
			}
			visit(&run)
			// Odometer increment over the positions beyond the shard prefix.
			choice = append(choice[:0], run.idx...)
			i := len(choice) - 1
			for ; i >= len(prefix); i-- {
				if choice[i]+1 < run.menus[i] {
					choice[i]++
					choice = choice[:i+1]
					break
				}
			}
			if i < len(prefix) {
				break
			}
		}
		mu.Lock()
		st.Sequences += seqs
		st.Events += evs
		st.Divergent += div
		st.Hangs += hangs
		mu.Unlock()
	})
	st.Capped = capped.Load()
	return st
}

// capNotes collects every reason for which a run is not exhaustive (the report
// keeps a single cap_reason string).
var capNotes = map[*vr.Report][]string{}
var capMu sync.Mutex

func notExhaustive(r *vr.Report, why string) {
	capMu.Lock()
	capNotes[r] = append(capNotes[r], why)
	all := strings.Join(capNotes[r], " || ")
	capMu.Unlock()
	r.NotExhaustive(all)
}

// sampleBudget limits how many samples a stage contributes (the report keeps 6).
type sampleBudget struct{ n atomic.Int32 }

func (b *sampleBudget) take(max int32) bool { return b.n.Add(1) <= max }

// inBubble runs f in a synctest bubble. A goroutine of the code under test
// that is still blocked after the harness has torn everything down makes
// synctest panic on the calling goroutine when the bubble ends; that is
// reported as hang=true (an outcome), not as a verdict: the oracle decides at
// the quiescences before. The blocked goroutines are leaked.
func inBubble(t *testing.T, f func(t *testing.T)) (hang bool) {
	defer func() {
		if x := recover(); x != nil {
			if strings.Contains(fmt.Sprint(x), "deadlock: main bubble goroutine has exited") {
				hang = true
				return
			}
			panic(x)
		}
	}()
	synctest.Test(t, f)
	return false
}
