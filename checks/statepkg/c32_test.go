//go:build verif

package statepkg

import (
	"encoding/json"
	"errors"
	"fmt"
	"os"
	"strings"
	"sync"
	"sync/atomic"
	"testing"
	"testing/synctest"
	"time"

	"github.com/mutagen-io/mutagen/pkg/prompting"

	"verif/internal/vr"
)

// ---------------------------------------------------------------------------
// C32 stage 1: E-bubble world over the unmodified prompter registry.
// ---------------------------------------------------------------------------

var c32ids atomic.Int64

// gatePrompter records every invocation and keeps the caller inside the
// prompter until the harness releases it.
type gatePrompter struct {
	mu        sync.Mutex
	inside    int
	entered   int
	log       []string
	gates     []chan error
	overlap   string
	lateEntry string
	unregDone atomic.Bool
}

func (p *gatePrompter) enter(kind, arg string) error {
	p.mu.Lock()
	p.inside++
	p.entered++
	p.log = append(p.log, kind+"("+arg+") enter")
	// "A registered prompter is never invoked concurrently with itself"
	if p.inside > 1 && p.overlap == "" {
		p.overlap = fmt.Sprintf("%s(%s) entered while another invocation was in progress", kind, arg)
	}
	// "and is never invoked after its unregistration has returned"
	if p.unregDone.Load() && p.lateEntry == "" {
		p.lateEntry = fmt.Sprintf("%s(%s) invoked after UnregisterPrompter had returned", kind, arg)
	}
	g := make(chan error, 1)
	p.gates = append(p.gates, g)
	p.mu.Unlock()
	err := <-g
	p.mu.Lock()
	p.inside--
	p.log = append(p.log, kind+"("+arg+") exit")
	p.mu.Unlock()
	return err
}

func (p *gatePrompter) Message(m string) error { return p.enter("Message", m) }
func (p *gatePrompter) Prompt(m string) (string, error) {
	err := p.enter("Prompt", m)
	return "response to " + m, err
}

type c32call struct {
	name string
	done chan string
	res  string
	ret  bool
}

type c32world struct {
	id     string
	p      *gatePrompter
	calls  []*c32call
	unreg  *c32call
	n      int
	panics atomic.Value
}

func newC32World() world {
	w := &c32world{id: fmt.Sprintf("verif-c32-%d", c32ids.Add(1)), p: &gatePrompter{}}
	if err := prompting.RegisterPrompterWithIdentifier(w.id, w.p); err != nil {
		panic(err)
	}
	return w
}

func (w *c32world) pendingCalls() int {
	n := 0
	for _, c := range w.calls {
		if !c.ret {
			n++
		}
	}
	return n
}

func (w *c32world) menu() []string {
	var m []string
	if w.pendingCalls() < 3 {
		m = append(m, "message", "prompt")
	}
	w.p.mu.Lock()
	open := len(w.p.gates)
	w.p.mu.Unlock()
	if open > 0 {
		m = append(m, "release", "release-error")
	}
	if w.unreg == nil {
		m = append(m, "unregister")
	}
	return m
}

func (w *c32world) start(name string, f func() string) *c32call {
	c := &c32call{name: name, done: make(chan string, 1)}
	go func() {
		defer func() {
			if x := recover(); x != nil {
				w.panics.Store(fmt.Sprint(x))
				c.done <- "panic: " + fmt.Sprint(x)
			}
		}()
		c.done <- f()
	}()
	return c
}

func (w *c32world) do(ev string) {
	switch ev {
	case "message":
		w.n++
		arg := fmt.Sprintf("m%d", w.n)
		w.calls = append(w.calls, w.start("Message "+arg, func() string {
			if err := prompting.Message(w.id, arg); err != nil {
				return "error: " + err.Error()
			}
			return "ok"
		}))
	case "prompt":
		w.n++
		arg := fmt.Sprintf("p%d", w.n)
		w.calls = append(w.calls, w.start("Prompt "+arg, func() string {
			resp, err := prompting.Prompt(w.id, arg)
			if err != nil {
				return "error: " + err.Error()
			}
			if resp != "response to "+arg {
				return "WRONG RESPONSE " + resp
			}
			return "ok"
		}))
	case "release", "release-error":
		w.p.mu.Lock()
		g := w.p.gates[0]
		w.p.gates = w.p.gates[1:]
		w.p.mu.Unlock()
		if ev == "release" {
			g <- nil
		} else {
			g <- errors.New("prompter failure")
		}
	case "unregister":
		w.unreg = w.start("Unregister", func() string {
			prompting.UnregisterPrompter(w.id)
			w.p.unregDone.Store(true)
			return "returned"
		})
	}
}

func (w *c32world) observe() (string, string) {
	viol := ""
	fail := func(s string) {
		if viol == "" {
			viol = s
		}
	}
	var obs []string
	for _, c := range append(append([]*c32call{}, w.calls...), w.unreg) {
		if c == nil {
			continue
		}
		if !c.ret {
			select {
			case c.res = <-c.done:
				c.ret = true
			default:
			}
		}
		s := "pending"
		if c.ret {
			s = c.res
		}
		obs = append(obs, c.name+"="+s)
		if strings.HasPrefix(s, "panic") {
			fail(c.name + " panicked: " + s)
		}
		if strings.HasPrefix(s, "WRONG") {
			fail(c.name + ": " + s)
		}
	}
	w.p.mu.Lock()
	obs = append(obs, fmt.Sprintf("inside=%d entered=%d", w.p.inside, w.p.entered))
	if w.p.overlap != "" {
		fail(w.p.overlap)
	}
	if w.p.lateEntry != "" {
		fail(w.p.lateEntry)
	}
	if w.p.inside > 1 {
		fail(fmt.Sprintf("%d invocations of the prompter in progress at once", w.p.inside))
	}
	if w.unreg != nil && w.unreg.ret && w.p.inside > 0 {
		fail("UnregisterPrompter has returned while an invocation of the prompter is still in progress")
	}
	w.p.mu.Unlock()
	return strings.Join(obs, " "), viol
}

func (w *c32world) close() {
	// Make sure the prompter is unregistered so that queued callers drain,
	// and release everything that is (or gets) inside the prompter.
	if w.unreg == nil {
		go func() {
			defer func() { recover() }()
			prompting.UnregisterPrompter(w.id)
		}()
	}
	for i := 0; i < 8; i++ {
		synctest.Wait()
		w.p.mu.Lock()
		gs := w.p.gates
		w.p.gates = nil
		w.p.mu.Unlock()
		for _, g := range gs {
			g <- nil
		}
	}
}

// ---------------------------------------------------------------------------
// C32 response-mode leg: E-enum over near-misses of the echo suffixes.
// ---------------------------------------------------------------------------

// knownEchoSuffixes is the harness's own statement of "the known yes/no
// host-key confirmations" of OpenSSH (written out here, not read from the code
// under test): a prompt may be echoed only if it ends with one of them.
var knownEchoSuffixes = []string{
	"(yes/no)? ",
	"(yes/no): ",
	"(yes/no/[fingerprint])? ",
	"Please type 'yes', 'no' or the fingerprint: ",
}

// endsWithKnown is the oracle: byte-wise comparison from the end.
func endsWithKnown(prompt string) bool {
	for _, s := range knownEchoSuffixes {
		if len(prompt) < len(s) {
			continue
		}
		ok := true
		for i := 1; i <= len(s); i++ {
			if prompt[len(prompt)-i] != s[len(s)-i] {
				ok = false
				break
			}
		}
		if ok {
			return true
		}
	}
	return false
}

// responseModeCases enumerates every prompt of the bounded space.
func responseModeCases(visit func(prompt, how string)) {
	prefixes := []string{"", "x", "Are you sure you want to continue connecting ", "The authenticity of host 'h (1.2.3.4)' can't be established.\nED25519 key fingerprint is SHA256:abc.\nAre you sure you want to continue connecting "}
	alphabet := []byte{' ', '?', ':', ')', '(', 'x', 'Y', '\n', 0, '/', '\''}
	for _, pre := range prefixes {
		for _, s := range knownEchoSuffixes {
			visit(pre+s, "exact")
			visit(pre+strings.ToUpper(s), "uppercased")
			visit(pre+strings.TrimRight(s, " "), "trailing space trimmed")
			visit(s+pre, "suffix used as prefix")
			visit(pre+s+pre+"Password: ", "suffix in the middle")
			for i := 0; i < len(s); i++ {
				visit(pre+s[:i]+s[i+1:], fmt.Sprintf("deletion@%d", i))
				for _, a := range alphabet {
					if a != s[i] {
						visit(pre+s[:i]+string(a)+s[i+1:], fmt.Sprintf("substitution@%d", i))
					}
				}
			}
			for i := 0; i <= len(s); i++ {
				for _, a := range alphabet {
					visit(pre+s[:i]+string(a)+s[i:], fmt.Sprintf("insertion@%d", i))
				}
			}
			for i := 1; i < len(s); i++ {
				visit(pre+s[:i], fmt.Sprintf("truncated@%d", i))
				visit(s[i:], fmt.Sprintf("headless@%d", i))
			}
		}
		for _, secret := range []string{"Password: ", "password:", "user@host's password: ", "Enter passphrase for key '/home/u/.ssh/id_ed25519': ", "Verification code: ", "(user@host) Password for user@host: ", "yes/no", "", " ", "? "} {
			visit(pre+secret, "secret prompt")
		}
	}
}

type c32caseFile struct {
	Stage  string   `json:"stage"` // bubble, vsched, mode
	Events []string `json:"events,omitempty"`
	VS     *vsCase  `json:"vs,omitempty"`
	Prompt string   `json:"prompt,omitempty"`
}

func checkResponseMode(prompt string) string {
	mode := prompting.VerifDetermineResponseMode(prompt)
	want := endsWithKnown(prompt)
	// "Responses to prompts are read without echo unless the prompt is one of
	// the known yes/no host-key confirmations."
	if mode == prompting.ResponseModeEcho && !want {
		return fmt.Sprintf("prompt %q does not end with a known host-key confirmation but its response would be echoed", prompt)
	}
	if mode != prompting.ResponseModeEcho && want {
		return fmt.Sprintf("prompt %q is a known yes/no confirmation but is read in mode %d (not echoed)", prompt, mode)
	}
	if mode != prompting.ResponseModeEcho && mode != prompting.ResponseModeSecret && mode != prompting.ResponseModeMasked {
		return fmt.Sprintf("prompt %q: unknown response mode %d", prompt, mode)
	}
	return ""
}

func TestC32(t *testing.T) {
	r := vr.New(t, "C32", "exploration")
	defer r.Finish()
	if raw := vr.ReplayCase(); raw != nil {
		var c c32caseFile
		json.Unmarshal(raw, &c)
		key := vr.J(c)
		r.Case(key, true)
		switch c.Stage {
		case "vsched":
			if what := vschedReplay(t, "C32", c.VS); what != "" {
				r.Violate(vsKey("C32", c.VS), what, c, nil)
			}
		case "mode":
			what := checkResponseMode(c.Prompt)
			t.Logf("prompt %q -> mode %d; verdict %q", c.Prompt, prompting.VerifDetermineResponseMode(c.Prompt), what)
			if what != "" {
				r.Violate(fmt.Sprintf("mode:%q", c.Prompt), what, c, nil)
			}
		default:
			run := replayBubbleEvents(t, newC32World, c.Events)
			for i, o := range run.Obs {
				ev := "init"
				if i > 0 && i-1 < len(run.Events) {
					ev = run.Events[i-1]
				}
				t.Logf("%-14s -> %s", ev, o)
			}
			t.Logf("verdict: %q", run.Violation)
			if run.Violation != "" {
				r.Violate("bubble:"+strings.Join(c.Events, ","), run.Violation, c, nil)
			}
		}
		return
	}

	race := startRacePass("C32")
	defer race.join(r)

	// Response-mode leg.
	var modeCases, echoed int64
	seen := map[string]bool{}
	responseModeCases(func(prompt, how string) {
		if seen[prompt] {
			return
		}
		seen[prompt] = true
		modeCases++
		what := checkResponseMode(prompt)
		isEcho := prompting.VerifDetermineResponseMode(prompt) == prompting.ResponseModeEcho
		if isEcho {
			echoed++
		}
		// Non-trivial: a near miss (edit distance 1 or a moved suffix) or an
		// exact hit, i.e. everything but the plain secret prompts.
		r.Case(fmt.Sprintf("mode:%q", prompt), how != "secret prompt")
		cls := how
		if i := strings.Index(cls, "@"); i >= 0 {
			cls = cls[:i]
		}
		r.Outcome(fmt.Sprintf("mode %s echo=%v", cls, isEcho))
		if what != "" {
			c := c32caseFile{Stage: "mode", Prompt: prompt}
			r.Violate(fmt.Sprintf("mode:%q", prompt), what, c, func() bool { return checkResponseMode(prompt) != "" })
		}
	})
	r.Set("response_mode_prompts", modeCases)
	r.Set("response_mode_echoed", echoed)
	r.Sample(map[string]interface{}{"stage": "mode", "prompt": "x(yes/no)?", "how": "trailing space trimmed", "echo": false})

	// Registry leg, stage 1.
	depth := 6
	if vr.Thorough() {
		depth = 8
	}
	deadline := vr.Deadline(25*time.Second, 200*time.Second)
	if os.Getenv("VERIF_SKIP_BUBBLE") != "" { // development aid only
		depth = 1
	}
	var bubbleSamples sampleBudget
	st := exploreBubble(t, newC32World, depth, deadline, func(run *bubbleRun) {
		key := strings.Join(run.Events, ",")
		queued, unreg := false, false
		for _, o := range run.Obs {
			// a call queued behind an invocation in progress
			if strings.Contains(o, "inside=1") && strings.Count(o, "=pending") >= 2 {
				queued = true
			}
		}
		for _, e := range run.Events {
			if e == "unregister" {
				unreg = true
			}
		}
		r.Case("bubble:"+key, queued)
		if queued && unreg && len(run.Events) == depth && bubbleSamples.take(2) {
			r.Sample(map[string]interface{}{"stage": "bubble", "events": run.Events, "obs": run.Obs[len(run.Obs)-1]})
		}
		last := ""
		if len(run.Obs) > 0 {
			last = run.Obs[len(run.Obs)-1]
		}
		r.Outcome(fmt.Sprintf("bubble queued=%v unregistered=%v acquire-failed=%v not-found=%v", queued, unreg, strings.Contains(last, "unable to acquire"), strings.Contains(last, "not found")))
		if run.Violation != "" {
			evs := append([]string{}, run.Events...)
			c := c32caseFile{Stage: "bubble", Events: evs}
			r.Violate("bubble:"+key, run.Violation, c, func() bool {
				return replayBubbleEvents(t, newC32World, evs).Violation != ""
			})
		}
	})
	r.Set("bubble_sequences", st.Sequences)
	r.Set("bubble_events", st.Events)
	r.Set("bubble_depth", depth)
	r.Set("divergent_replays", st.Divergent)
	r.Set("bubble_teardown_hangs", st.Hangs)
	if st.Capped {
		notExhaustive(r, fmt.Sprintf("E-bubble stage stopped by its time budget after %d sequences of depth %d", st.Sequences, depth))
	}
	vs := vschedC32(t, r)
	rule := fmt.Sprintf("response mode (E-enum): every known echo suffix x 4 prefixes, exact and with every single-character deletion, substitution and insertion (11-letter alphabet) at every position, truncations, case change, moved suffix, plus plain secret prompts; oracle = byte-wise 'ends with one of the 4 known confirmations'. Registry stage 1 (E-bubble, unmodified pkg/prompting): every sequence of <= %d events over {Message, Prompt, let the invocation in progress return ok / with an error, UnregisterPrompter}, <= 3 calls outstanding, against a recording prompter that holds each invocation until released. Non-trivial = a call was queued behind an invocation in progress (registry) / the prompt is an exact hit or a near miss (mode); distinct by event sequence / prompt.", depth)
	if vs != "" {
		rule += " " + vs
	} else {
		rule += " stage 2 (E-vsched) NOT RUN: built without the rewriting overlay."
		notExhaustive(r, "interleaving dimension: only quiescence granularity (E-bubble); E-vsched overlay not in effect")
	}
	r.Rule(rule)
	r.Assume("one prompter, one registration; the prompter itself never blocks forever (the harness releases it)",
		"'known yes/no host-key confirmations' = the four OpenSSH prompt endings listed in the harness",
		"UnregisterPrompter on an unregistered identifier panics by contract and is not exercised")
}
