//go:build verif

package statepkg

// Supplementary data-race pass (never decisive): the thread programs of the
// E-vsched scenarios, run FREE (real goroutines, real sync/time/context, no
// scheduler) against the unmodified packages in a child `go test -race`
// process for a few hundred iterations. A cooperative scheduler hides data
// races, so this is reported separately in the evidence as race_pass.

import (
	"bytes"
	"context"
	"crypto/md5"
	"fmt"
	"os"
	"os/exec"
	"strings"
	"sync"
	"testing"
	"time"

	"github.com/mutagen-io/mutagen/pkg/prompting"
	"github.com/mutagen-io/mutagen/pkg/state"

	"verif/internal/vr"
)

const raceIterations = 300

func raceChild(t *testing.T) {
	if os.Getenv("VERIF_RACE_CHILD") == "" {
		t.Skip("only run as the child of the supplementary race pass")
	}
}

// TestRaceBodiesC30: notifier (2 changes) + waiter (current, then stale index)
// + canceller / terminator + the tracker's own goroutine.
func TestRaceBodiesC30(t *testing.T) {
	raceChild(t)
	for it := 0; it < raceIterations; it++ {
		tr := state.NewTracker()
		tl := state.NewTrackingLock(tr)
		ctx, cancel := context.WithCancel(context.Background())
		var wg sync.WaitGroup
		wg.Add(3)
		go func() {
			defer wg.Done()
			tr.NotifyOfChange()
			tl.Lock()
			tl.Unlock()
		}()
		go func() {
			defer wg.Done()
			i, err := tr.WaitForChange(ctx, 1)
			if err != nil {
				return
			}
			if _, err = tr.WaitForChange(ctx, i); err != nil {
				return
			}
			tr.WaitForChange(ctx, 1)
		}()
		go func() {
			defer wg.Done()
			if it%2 == 0 {
				cancel()
			} else {
				tr.Terminate()
			}
		}()
		wg.Wait()
		cancel()
		tr.Terminate()
	}
}

// TestRaceBodiesC31: two strobers + consumer + terminator, real (tiny) window.
func TestRaceBodiesC31(t *testing.T) {
	raceChild(t)
	for it := 0; it < raceIterations; it++ {
		c := state.NewCoalescer(50 * time.Microsecond)
		var wg sync.WaitGroup
		quit := make(chan struct{})
		wg.Add(2)
		go func() { defer wg.Done(); c.Strobe(); time.Sleep(25 * time.Microsecond); c.Strobe() }()
		go func() { defer wg.Done(); time.Sleep(25 * time.Microsecond); c.Strobe() }()
		done := make(chan struct{})
		go func() {
			defer close(done)
			for {
				select {
				case <-c.Signals():
				case <-quit:
					return
				}
			}
		}()
		if it%2 == 1 {
			wg.Add(1)
			go func() { defer wg.Done(); time.Sleep(50 * time.Microsecond); c.Terminate() }()
		}
		wg.Wait()
		time.Sleep(100 * time.Microsecond)
		_ = len(c.Signals())
		close(quit)
		<-done
		c.Terminate()
		c.Strobe()
	}
}

type racePrompter struct{ n int }

func (p *racePrompter) Message(string) error { p.n++; return nil } // unsynchronised on purpose: the registry must serialise
func (p *racePrompter) Prompt(s string) (string, error) {
	p.n++
	return s, nil
}

// TestRaceBodiesC32: Message, Prompt, second Message and UnregisterPrompter
// against a prompter whose methods write an unsynchronised field.
func TestRaceBodiesC32(t *testing.T) {
	raceChild(t)
	for it := 0; it < raceIterations; it++ {
		id := fmt.Sprintf("verif-race-%d", it)
		p := &racePrompter{}
		if err := prompting.RegisterPrompterWithIdentifier(id, p); err != nil {
			t.Fatal(err)
		}
		var wg sync.WaitGroup
		wg.Add(4)
		go func() { defer wg.Done(); prompting.Message(id, "m1") }()
		go func() { defer wg.Done(); prompting.Prompt(id, "p") }()
		go func() { defer wg.Done(); prompting.Message(id, "m2") }()
		go func() { defer wg.Done(); prompting.UnregisterPrompter(id) }()
		wg.Wait()
	}
}

// racePass is started at the beginning of a check and joined at its end.
type racePass struct {
	done   chan struct{}
	res    map[string]interface{}
	cancel context.CancelFunc
}

func startRacePass(prop string) *racePass {
	rp := &racePass{done: make(chan struct{}), res: map[string]interface{}{"ran": false}}
	if os.Getenv("VERIF_RACE") == "0" || os.Getenv("VERIF_REPLAY") != "" {
		rp.res["detail"] = "disabled"
		close(rp.done)
		return rp
	}
	gobin := os.Getenv("GO")
	if gobin == "" {
		gobin = "go"
	}
	ctx, cancel := context.WithTimeout(context.Background(), 6*time.Minute)
	rp.cancel = cancel
	go func() {
		defer close(rp.done)
		args := []string{"test"}
		if repo := os.Getenv("VERIF_REPO"); repo != "" && repo != "/repo" {
			// Scratch copy of the repository (bin/mutants): same go.mod as bin/check uses.
			tag := fmt.Sprintf("%x", md5.Sum([]byte(repo+"\n")))[:10]
			args = append(args, "-modfile=.work/go."+tag+".mod")
		}
		args = append(args, "-race", "-tags", "verif", "-vet=off", "-count=1", "-timeout", "5m", "-run", "^TestRaceBodies"+prop+"$", "./checks/statepkg")
		defer cancel()
		cmd := exec.CommandContext(ctx, gobin, args...)
		cmd.Dir = vr.Root()
		cmd.Env = append(os.Environ(), "VERIF_RACE_CHILD=1")
		var out bytes.Buffer
		cmd.Stdout, cmd.Stderr = &out, &out
		start := time.Now()
		err := cmd.Run()
		s := out.String()
		rp.res["wall_s"] = time.Since(start).Seconds()
		rp.res["iterations"] = raceIterations
		races := strings.Count(s, "WARNING: DATA RACE")
		rp.res["data_races_reported"] = races
		switch {
		case strings.Contains(s, "\nok ") || strings.HasPrefix(s, "ok "):
			rp.res["ran"] = true
			rp.res["detail"] = "free-running bodies under the race detector: clean"
		case races > 0:
			rp.res["ran"] = true
			rp.res["detail"] = "DATA RACE reported (supplementary finding, not a verdict): " + vr.Short(s, 1500)
		default:
			rp.res["detail"] = "race pass did not complete: " + fmt.Sprint(err) + ": " + vr.Short(s, 600)
		}
	}()
	return rp
}

// join waits for the pass (it ran concurrently with the exploration), but not
// for long: it is supplementary and must not dominate the check's wall time.
func (rp *racePass) join(r *vr.Report) {
	grace := 20 * time.Second
	if vr.Thorough() {
		grace = 120 * time.Second
	}
	select {
	case <-rp.done:
		r.Set("race_pass", rp.res)
	case <-time.After(grace):
		rp.cancel()
		r.Set("race_pass", map[string]interface{}{"ran": false, "detail": fmt.Sprintf("still building/running %v after the exploration had finished; abandoned (supplementary pass)", grace)})
	}
}
