//go:build verif && vsgen

package statepkg

// Stage 2 (E-vsched) of C30/C31/C32: the REAL sources of pkg/state and
// pkg/prompting, rewritten at check time by cmd/vrewrite into
// verif/internal/vsgen/{state,prompting} (these packages exist only inside the
// go test -overlay written by ./PREBUILD), run under the cooperative scheduler
// verif/internal/vsched. Every interleaving of the visible operations
// (mutex/cond/channel/select/timer/cancel/spawn) with at most `bound`
// preemptions or timer deviations is executed, each one twice (strict replay).

import (
	"fmt"
	"math"
	"os"
	"sort"
	"strings"
	"testing"
	"time"

	"verif/internal/vr"
	"verif/internal/vsched"
	"verif/internal/vsched/vcontext"
	"verif/internal/vsched/vsync"
	"verif/internal/vsched/vtime"
	vprompting "verif/internal/vsgen/prompting"
	vstate "verif/internal/vsgen/state"
)

const vschedAvailable = true

// vsScenario is one harness body explored on its own.
type vsScenario struct {
	name    string
	opts    vsched.Options
	workers int // 0 = vr.Workers(); 1 for code with package-level state
	mk      func() vsched.Instance
}

func vsKey(prop string, c *vsCase) string {
	return fmt.Sprintf("vsched:%s:%v", c.Scenario, c.Choices)
}

func toU8(c []int) []uint8 {
	o := make([]uint8, len(c))
	for i, v := range c {
		o[i] = uint8(v)
	}
	return o
}

func toInt(c []uint8) []int {
	o := make([]int, len(c))
	for i, v := range c {
		o[i] = int(v)
	}
	return o
}

func scenariosOf(prop string) []vsScenario {
	switch prop {
	case "C30":
		return c30Scenarios()
	case "C31":
		return c31Scenarios()
	case "C32":
		return c32Scenarios()
	}
	return nil
}

// vschedReplay re-executes one recorded schedule with a full trace.
func vschedReplay(t *testing.T, prop string, c *vsCase) string {
	for _, sc := range scenariosOf(prop) {
		if sc.name != c.Scenario {
			continue
		}
		res, j := vsched.Replay(sc.opts, toU8(c.Choices), sc.mk())
		for _, l := range res.Trace {
			t.Logf("  %s", l)
		}
		t.Logf("end=%s cost=%d blocked=%v", res.End, res.Cost, res.Blocked)
		if res.Detail != "" {
			t.Logf("detail: %s", res.Detail)
		}
		t.Logf("observations: %s", j.Obs)
		t.Logf("verdict: %q", j.Violation)
		if res.End == "replay-error" || res.End == "infra" {
			t.Fatalf("INFRA: %s: %s", res.End, res.Detail)
		}
		return j.Violation
	}
	t.Fatalf("INFRA: unknown scenario %q", c.Scenario)
	return ""
}

// exploreScenarios runs every scenario up to the preemption bound and merges
// the measurements into the report. It returns the text for the rule.
// vsTotals is what exploreScenarios measured, for legs that need extra keys.
type vsTotals struct {
	Schedules, Steps, DistinctTraces int64
	Completed                        int
}

func exploreScenarios(t *testing.T, r *vr.Report, prop string, scs []vsScenario, bound int, deadline time.Time, mkCase func(*vsCase) interface{}) string {
	s, _ := exploreScenarios2(t, r, prop, scs, bound, deadline, mkCase)
	return s
}

func exploreScenarios2(t *testing.T, r *vr.Report, prop string, scs []vsScenario, bound int, deadline time.Time, mkCase func(*vsCase) interface{}) (string, vsTotals) {
	var steps int64
	traces := map[uint64]struct{}{}
	var total, divergent, replayErrs int64
	byCost := map[int]int64{}
	ends := map[string]int64{}
	completed := bound
	maxThreads, maxPoints := 0, 0
	capped := false
	var names []string
	for _, sc := range scs {
		names = append(names, sc.name)
	}
	completed = -1
	// Iterative preemption bounding across all scenarios: every scenario at
	// bound 0, then every scenario at bound 1, ... so that a time cap always
	// leaves a completed bound that holds for all scenarios.
levels:
	for b := 0; b <= bound; b++ {
		for _, sc := range scs {
			sc := sc
			workers := sc.workers
			if workers == 0 {
				workers = vr.Workers()
			}
			samples := 0
			st := vsched.Explore(vsched.Config{
				Options: sc.opts, MaxCost: b, SkipBelow: b, Workers: workers, Deadline: deadline, New: sc.mk,
				Visit: func(choices []uint8, res *vsched.Result, j vsched.Judgement) {
					r.Case(fmt.Sprintf("vsched:%s:%x", sc.name, res.TraceHash), j.Nontrivial)
					steps += int64(res.Steps)
					traces[res.TraceHash] = struct{}{}
					r.Outcome("vsched " + j.Outcome)
					if j.Nontrivial && res.Cost == bound && samples < 1 {
						samples++
						r.Sample(map[string]interface{}{"stage": "vsched", "scenario": sc.name, "choices": compactChoices(choices), "preemptions": res.Cost, "end": res.End, "obs": j.Obs})
					}
					if j.Violation != "" {
						vc := &vsCase{Scenario: sc.name, Choices: toInt(choices)}
						full, _ := vsched.Replay(sc.opts, choices, sc.mk())
						vc.Trace = full.Trace
						// One violation per (scenario, broken clause): the first one
						// found has the fewest preemptions (iterative bounding).
						key := "vsched:" + sc.name + ":" + j.Violation
						if j.Key != "" {
							key = j.Key
						}
						unit := "preemption(s)"
						if sc.opts.DelayBounding {
							unit = "delay(s)"
						}
						r.Violate(key, fmt.Sprintf("%s [scenario %s, %d %s, schedule %s]", j.Violation, sc.name, res.Cost, unit, compactChoices(choices)), mkCase(vc), func() bool {
							_, j2 := vsched.Replay(sc.opts, choices, sc.mk())
							return j2.Violation != ""
						})
					}
				},
			})
			total += st.Schedules
			divergent += st.Divergent
			replayErrs += st.ReplayErrors
			for k, v := range st.ByCost {
				byCost[k] += v
			}
			for k, v := range st.Ends {
				ends[k] += v
			}
			if st.MaxThreads > maxThreads {
				maxThreads = st.MaxThreads
			}
			if st.MaxPoints > maxPoints {
				maxPoints = st.MaxPoints
			}
			if len(st.Infra) > 0 {
				// Replay divergence, out-of-range choices, shim misuse: never a verdict.
				t.Fatalf("INFRA: E-vsched scenario %s: %s", sc.name, strings.Join(st.Infra, "; "))
			}
			if st.Capped {
				capped = true
				break levels
			}
		}
		completed = b
	}
	r.Set("vsched_schedules", total)
	r.Set("vsched_preemption_bound_requested", bound)
	r.Set("vsched_preemption_bound_completed", completed)
	costs := map[string]int64{}
	for k, v := range byCost {
		costs[fmt.Sprint(k)] = v
	}
	r.Set("vsched_schedules_by_preemptions", costs)
	r.Set("vsched_ends", ends)
	r.Set("vsched_max_threads", maxThreads)
	r.Set("vsched_max_choice_points", maxPoints)
	r.Set("vsched_divergent_replays", divergent+replayErrs)
	r.Set("vsched_scenarios", names)
	if capped {
		notExhaustive(r, fmt.Sprintf("E-vsched stopped by its time budget: every schedule with <= %d preemption(s) was explored in every scenario, bound %d only partly", completed, bound))
	}
	r.Set("vsched_steps", steps)
	r.Set("vsched_distinct_traces", int64(len(traces)))
	tot := vsTotals{Schedules: total, Steps: steps, DistinctTraces: int64(len(traces)), Completed: completed}
	return fmt.Sprintf("stage 2 (E-vsched, real source of the package rewritten onto a cooperative scheduler): scenarios %s; every interleaving of visible operations (mutex, cond, channel, select, timer, cancel, spawn, map-iteration order, select-case choice) with <= %d preemption(s)/timer deviation(s), each schedule executed and then strictly replayed. Non-trivial = calls of different threads overlapped; distinct by the executed operation sequence (trace hash).", strings.Join(names, ", "), bound), tot
}

// ---------------------------------------------------------------------------
// Harness log: threads append events; the position in the log is the global
// order (only one thread runs at a time).
// ---------------------------------------------------------------------------

type hlog struct {
	ev []hev
}

type hev struct {
	thread string
	what   string // "start" / "end"
	call   string
	prev   uint64
	idx    uint64
	err    string
	vt     time.Duration
}

func (l *hlog) add(e hev) int { l.ev = append(l.ev, e); return len(l.ev) - 1 }

func (l *hlog) String() string {
	var b strings.Builder
	for _, e := range l.ev {
		fmt.Fprintf(&b, "%s:%s:%s", e.thread, e.call, e.what)
		if e.call == "wait" {
			fmt.Fprintf(&b, "(%d)", e.prev)
		}
		if e.what == "end" && e.call == "wait" {
			fmt.Fprintf(&b, "=%d/%s", e.idx, e.err)
		}
		if e.vt != 0 {
			fmt.Fprintf(&b, "@%v", e.vt)
		}
		b.WriteString(" ")
	}
	return b.String()
}

// ---------------------------------------------------------------------------
// C30 scenarios
// ---------------------------------------------------------------------------

func vsErrName(err error) string {
	switch err {
	case nil:
		return "ok"
	case vcontext.Canceled:
		return "canceled"
	case vstate.ErrTrackingTerminated:
		return "terminated"
	}
	return "err:" + err.Error()
}

type c30env struct {
	log hlog
	tr  *vstate.Tracker
	tl  *vstate.TrackingLock
}

func (e *c30env) wait(th string, ctx vcontext.Context, prev uint64) (uint64, error) {
	e.log.add(hev{thread: th, what: "start", call: "wait", prev: prev})
	i, err := e.tr.WaitForChange(ctx, prev)
	e.log.add(hev{thread: th, what: "end", call: "wait", prev: prev, idx: i, err: vsErrName(err)})
	return i, err
}

func (e *c30env) do(th, call string, f func()) {
	e.log.add(hev{thread: th, what: "start", call: call})
	f()
	e.log.add(hev{thread: th, what: "end", call: call})
}

// judgeC30 applies the property statement to the harness log of one execution.
// changes = calls that are state changes ("notify", "unlock").
func judgeC30(e *c30env, res *vsched.Result, expectBlocked map[string]bool) vsched.Judgement {
	j := vsched.Judgement{Obs: e.log.String() + "| end=" + res.End + " blocked=" + strings.Join(res.Blocked, ",")}
	viol := func(f string, a ...interface{}) {
		if j.Violation == "" {
			j.Violation = fmt.Sprintf(f, a...)
		}
	}
	if res.End == "panic" {
		viol("panic in the tracker: %s", firstLine(res.Detail))
	}
	if res.End == "steplimit" {
		viol("execution did not finish within the step limit (livelock)")
	}
	ev := e.log.ev
	isChange := func(c string) bool { return c == "notify" || c == "unlock" }
	termStart, cancelStart := -1, -1
	for i, x := range ev {
		if x.call == "terminate" && x.what == "start" && termStart < 0 {
			termStart = i
		}
		if x.call == "cancel" && x.what == "start" && cancelStart < 0 {
			cancelStart = i
		}
	}
	// changesCompletedBefore(i): changes whose end precedes position i and
	// precedes the start of Terminate (later ones may be no-ops).
	completedBefore := func(pos int) uint64 {
		var n uint64
		for i := 0; i < pos && i < len(ev); i++ {
			if ev[i].what == "end" && isChange(ev[i].call) && (termStart < 0 || i < termStart) {
				n++
			}
		}
		return n
	}
	startedBefore := func(pos int) uint64 {
		var n uint64
		for i := 0; i < pos && i < len(ev); i++ {
			if ev[i].what == "start" && isChange(ev[i].call) {
				n++
			}
		}
		return n
	}
	type waitIv struct {
		s, e int
		hev
	}
	var waits []waitIv
	open := map[string]int{}
	overlapped := false
	inflight := 0
	for i, x := range ev {
		if x.what == "start" {
			if inflight > 0 {
				overlapped = true
			}
			inflight++
		} else {
			inflight--
		}
		if x.call != "wait" {
			continue
		}
		if x.what == "start" {
			open[x.thread] = i
			continue
		}
		waits = append(waits, waitIv{open[x.thread], i, x})
		delete(open, x.thread)
	}
	kinds := map[string]bool{}
	for _, w := range waits {
		lo, hi := 1+completedBefore(w.s), 1+startedBefore(w.e)
		kinds[w.err] = true
		// Linearizability window of the returned index: no index from the past
		// (never backwards) and none from the future.
		if w.idx < lo {
			viol("WaitForChange(%d) returned index %d although %d change(s) had completed before it was called (index moved backwards / update missed)", w.prev, w.idx, lo-1)
		}
		if w.idx > hi {
			viol("WaitForChange(%d) returned index %d but only %d change(s) had been started", w.prev, w.idx, hi-1)
		}
		switch w.err {
		case "ok":
			// "returns after the next change ... and not before"
			if w.prev != 0 && w.idx == w.prev {
				viol("WaitForChange(%d) returned %d without error although the index had not changed", w.prev, w.idx)
			}
		case "canceled":
			if cancelStart < 0 || cancelStart > w.e {
				viol("WaitForChange(%d) returned context.Canceled before the context was cancelled", w.prev)
			}
		case "terminated":
			if termStart < 0 || termStart > w.e {
				viol("WaitForChange(%d) returned ErrTrackingTerminated before Terminate was called", w.prev)
			}
		default:
			viol("WaitForChange(%d) returned unexpected error %s", w.prev, w.err)
		}
	}
	// "Returned indices never move backwards" (real-time order).
	for _, a := range waits {
		for _, b := range waits {
			if a.e < b.s && b.idx < a.idx {
				viol("index moved backwards: %d returned, later call returned %d", a.idx, b.idx)
			}
		}
	}
	// "every state change made through the tracking lock advances the index":
	// probe pairs logged as call "probe" with idx, around an "unlock".
	var lastProbe = map[string]uint64{}
	var sawUnlock = map[string]bool{}
	for i, x := range ev {
		if x.call == "probe" && x.what == "end" {
			if sawUnlock[x.thread] && !(termStart >= 0 && termStart < i) {
				if !(x.idx > lastProbe[x.thread]) {
					viol("TrackingLock.Unlock did not advance the index (%d before Lock, %d after Unlock)", lastProbe[x.thread], x.idx)
				}
			}
			lastProbe[x.thread] = x.idx
			sawUnlock[x.thread] = false
		}
		if x.call == "unlock" && x.what == "end" {
			sawUnlock[x.thread] = true
		}
	}
	// Threads left blocked at the end.
	for th, s := range open {
		w := ev[s]
		reason := ""
		final := 1 + completedBefore(len(ev))
		switch {
		case termStart >= 0:
			reason = "Terminate was called"
		case cancelStart >= 0 && strings.HasPrefix(th, "W"):
			reason = "its context was cancelled"
		case w.prev == 0:
			reason = "previous index 0 requests an immediate read"
		case final != w.prev:
			reason = fmt.Sprintf("the index is %d after the last change", final)
		}
		if reason != "" {
			// no missed update
			viol("WaitForChange(%d) of %s never returned although %s (missed update)", w.prev, th, reason)
		}
	}
	hang := false
	for _, b := range res.Blocked {
		name := b[:strings.Index(b, "@")]
		if _, isWaiter := open[name]; isWaiter || expectBlocked[name] {
			continue
		}
		if strings.HasPrefix(name, "t") { // the tracker's own goroutine (unnamed)
			continue
		}
		hang = true
	}
	var ks []string
	for k := range kinds {
		ks = append(ks, k)
	}
	sort.Strings(ks)
	j.Outcome = fmt.Sprintf("end=%s waits=%s blockedwait=%v hang-other=%v", res.End, strings.Join(ks, "+"), len(open) > 0, hang)
	j.Nontrivial = overlapped
	return j
}

func firstLine(s string) string {
	if i := strings.Index(s, "\n"); i >= 0 {
		return s[:i]
	}
	return s
}

func c30Scenarios() []vsScenario {
	bg := vcontext.Background
	var scs []vsScenario
	// 1. Missed-update focus: two changes, a waiter that follows the index
	// until it has seen both (no third thread that could release it).
	for _, kind := range []string{"notify", "unlock"} {
		kind := kind
		scs = append(scs, vsScenario{name: "2x" + kind + "+follower", mk: func() vsched.Instance {
			e := &c30env{}
			body := func() {
				e.tr = vstate.NewTracker()
				e.tl = vstate.NewTrackingLock(e.tr)
				vsched.GoNamed("N", func() {
					for k := 0; k < 2; k++ {
						if kind == "notify" {
							e.do("N", "notify", e.tr.NotifyOfChange)
						} else {
							e.do("N", "unlock", func() { e.tl.Lock(); e.tl.Unlock() })
						}
					}
				})
				vsched.GoNamed("W", func() {
					i, _ := e.wait("W", bg(), 0)
					for i < 3 {
						n, err := e.wait("W", bg(), i)
						if err != nil || n == i {
							return
						}
						i = n
					}
				})
			}
			return vsched.Instance{Body: body, Judge: func(res *vsched.Result) vsched.Judgement { return judgeC30(e, res, nil) }}
		}})
	}
	// 2. Current and stale index, with a canceller / a terminator.
	for _, third := range []string{"cancel", "terminate"} {
		third := third
		scs = append(scs, vsScenario{name: "2xnotify+waiter+" + third, mk: func() vsched.Instance {
			e := &c30env{}
			body := func() {
				e.tr = vstate.NewTracker()
				ctx, cancel := vcontext.WithCancel(bg())
				vsched.GoNamed("N", func() {
					e.do("N", "notify", e.tr.NotifyOfChange)
					e.do("N", "notify", e.tr.NotifyOfChange)
				})
				vsched.GoNamed("W", func() {
					// the current index (1 unless a notify already ran) ...
					i, err := e.wait("W", ctx, 1)
					if err != nil {
						return
					}
					// ... then whatever is current now, and finally a stale one.
					if _, err = e.wait("W", ctx, i); err != nil {
						return
					}
					e.wait("W", ctx, 1)
				})
				vsched.GoNamed("X", func() {
					if third == "cancel" {
						e.do("X", "cancel", cancel)
					} else {
						e.do("X", "terminate", e.tr.Terminate)
					}
				})
			}
			return vsched.Instance{Body: body, Judge: func(res *vsched.Result) vsched.Judgement { return judgeC30(e, res, nil) }}
		}})
	}
	// 2b. An index that is AHEAD of the current one (kept from an earlier
	// tracker, or wrap-around) differs from it, so the wait must return
	// promptly with the current index; a notifier races with it.
	scs = append(scs, vsScenario{name: "ahead-waiter+notify", mk: func() vsched.Instance {
		e := &c30env{}
		body := func() {
			e.tr = vstate.NewTracker()
			vsched.GoNamed("N", func() { e.do("N", "notify", e.tr.NotifyOfChange) })
			vsched.GoNamed("W", func() {
				i, _ := e.wait("W", bg(), 0)
				if _, err := e.wait("W", bg(), i+1000); err != nil {
					return
				}
				e.wait("W", bg(), math.MaxUint64)
			})
		}
		return vsched.Instance{Body: body, Judge: func(res *vsched.Result) vsched.Judgement { return judgeC30(e, res, nil) }}
	}})
	// 3. Tracking lock: every Unlock advances the index, UnlockWithoutNotify
	// wakes nobody; two waiters registered at once (map iteration order).
	scs = append(scs, vsScenario{name: "trackinglock+2waiters", mk: func() vsched.Instance {
		e := &c30env{}
		body := func() {
			e.tr = vstate.NewTracker()
			e.tl = vstate.NewTrackingLock(e.tr)
			vsched.GoNamed("N", func() {
				i, _ := e.tr.WaitForChange(bg(), 0)
				e.log.add(hev{thread: "N", what: "start", call: "probe"})
				e.log.add(hev{thread: "N", what: "end", call: "probe", idx: i})
				e.do("N", "unlock", func() { e.tl.Lock(); e.tl.Unlock() })
				i, _ = e.tr.WaitForChange(bg(), 0)
				e.log.add(hev{thread: "N", what: "start", call: "probe"})
				e.log.add(hev{thread: "N", what: "end", call: "probe", idx: i})
				e.do("N", "unlock-nonotify", func() { e.tl.Lock(); e.tl.UnlockWithoutNotify() })
			})
			vsched.GoNamed("W1", func() { e.wait("W1", bg(), 1) })
			vsched.GoNamed("W2", func() { e.wait("W2", bg(), 1) })
		}
		return vsched.Instance{Body: body, Judge: func(res *vsched.Result) vsched.Judgement { return judgeC30(e, res, nil) }}
	}})
	return scs
}

func vschedC30(t *testing.T, r *vr.Report) string {
	bound := 2
	if vr.Thorough() {
		bound = 3
	}
	deadline := vr.Deadline(40*time.Second, 400*time.Second)
	return exploreScenarios(t, r, "C30", c30Scenarios(), bound, deadline, func(c *vsCase) interface{} { return c30caseFile{Stage: "vsched", VS: c} })
}

// ---------------------------------------------------------------------------
// C31 scenarios
// ---------------------------------------------------------------------------

const vsWindow = 10 * time.Millisecond

type c31env struct {
	log       hlog
	c         *vstate.Coalescer
	signals   []time.Duration // virtual receive times
	buffered  int             // len(Signals()) observed by main at the end
	maxLen    int
	termStart time.Duration
	termed    bool
}

func vnow() time.Duration { return vtime.Since(vsched.Epoch) }

func (e *c31env) strobe(th string) {
	e.log.add(hev{thread: th, what: "start", call: "strobe", vt: vnow() + 1})
	e.c.Strobe()
	e.log.add(hev{thread: th, what: "end", call: "strobe", vt: vnow() + 1})
}

// c31Scenario: strobers follow their programs (sleep, strobe, ...); an optional
// consumer thread receives signals as they come; an optional terminator
// terminates after a delay. The main thread waits for the strobers, lets 3
// windows of silence pass, then looks at the channel.
func c31Scenario(name string, programs [][]time.Duration, consumer bool, termAfter time.Duration, legacy bool) vsScenario {
	if legacy {
		name += "/legacy-timer-chan"
	}
	return vsScenario{name: name, opts: vsched.Options{LegacyTimerChan: legacy}, mk: func() vsched.Instance {
		e := &c31env{}
		body := func() {
			e.c = vstate.NewCoalescer(vsWindow)
			var wg vsync.WaitGroup
			wg.Add(len(programs))
			for pi, prog := range programs {
				th := fmt.Sprintf("S%d", pi+1)
				prog := prog
				vsched.GoNamed(th, func() {
					for _, gap := range prog {
						if gap > 0 {
							vtime.Sleep(gap)
						}
						e.strobe(th)
					}
					wg.Done()
				})
			}
			quit := vsched.NewChan[struct{}](0)
			consumed := vsched.NewChan[struct{}](0)
			if consumer {
				vsched.GoNamed("K", func() {
					defer consumed.Close()
					for {
						s := vsched.NewSelect(false)
						vsched.RecvCase(s, e.c.Signals())
						vsched.RecvCase(s, quit)
						if s.Run() == 1 {
							return
						}
						e.signals = append(e.signals, vnow())
						e.log.add(hev{thread: "K", what: "end", call: "signal", vt: vnow() + 1})
					}
				})
			}
			if termAfter >= 0 {
				wg.Add(1)
				vsched.GoNamed("T", func() {
					vtime.Sleep(termAfter)
					e.termStart, e.termed = vnow(), true
					e.log.add(hev{thread: "T", what: "start", call: "terminate", vt: vnow() + 1})
					e.c.Terminate()
					e.log.add(hev{thread: "T", what: "end", call: "terminate", vt: vnow() + 1})
					wg.Done()
				})
			}
			wg.Wait()
			vsched.SleepQuiescent(int64(3 * vsWindow))
			// "At most one signal is ever buffered"
			e.buffered = e.c.Signals().Len()
			for {
				s := vsched.NewSelect(true)
				vsched.RecvCase(s, e.c.Signals())
				if s.Run() != 0 {
					break
				}
				e.signals = append(e.signals, vnow())
				e.log.add(hev{thread: "main", what: "end", call: "signal", vt: vnow() + 1})
			}
			quit.Close()
			if consumer {
				consumed.Recv()
			}
			// Idempotent termination; Strobe afterwards must not block.
			e.c.Terminate()
			e.c.Strobe()
			e.c.Terminate()
		}
		return vsched.Instance{Body: body, Judge: func(res *vsched.Result) vsched.Judgement { return judgeC31(e, res) }}
	}}
}

// c31IdleConsumerScenario: nobody reads Signals() during two complete
// strobe-then-silence cycles; then the buffered signal is consumed and a third
// cycle follows. The last strobe must still be followed by a signal.
func c31IdleConsumerScenario(legacy bool) vsScenario {
	name := "idle-consumer-3-cycles"
	if legacy {
		name += "/legacy-timer-chan"
	}
	return vsScenario{name: name, opts: vsched.Options{LegacyTimerChan: legacy}, mk: func() vsched.Instance {
		e := &c31env{}
		body := func() {
			e.c = vstate.NewCoalescer(vsWindow)
			var wg vsync.WaitGroup
			wg.Add(1)
			vsched.GoNamed("S1", func() {
				defer wg.Done()
				e.strobe("S1")
				vtime.Sleep(2 * vsWindow)
				e.strobe("S1")
				vtime.Sleep(2 * vsWindow)
				// the consumer wakes up: drains what is buffered
				s := vsched.NewSelect(true)
				vsched.RecvCase(s, e.c.Signals())
				if s.Run() == 0 {
					e.signals = append(e.signals, vnow())
					e.log.add(hev{thread: "S1", what: "end", call: "signal", vt: vnow() + 1})
				}
				e.strobe("S1")
			})
			wg.Wait()
			vsched.SleepQuiescent(int64(3 * vsWindow))
			e.buffered = e.c.Signals().Len()
			for {
				s := vsched.NewSelect(true)
				vsched.RecvCase(s, e.c.Signals())
				if s.Run() != 0 {
					break
				}
				e.signals = append(e.signals, vnow())
				e.log.add(hev{thread: "main", what: "end", call: "signal", vt: vnow() + 1})
			}
			e.c.Terminate()
		}
		return vsched.Instance{Body: body, Judge: func(res *vsched.Result) vsched.Judgement { return judgeC31(e, res) }}
	}}
}

func judgeC31(e *c31env, res *vsched.Result) vsched.Judgement {
	j := vsched.Judgement{Obs: e.log.String() + fmt.Sprintf("| end=%s blocked=%s buffered=%d", res.End, strings.Join(res.Blocked, ","), e.buffered)}
	viol := func(f string, a ...interface{}) {
		if j.Violation == "" {
			j.Violation = fmt.Sprintf(f, a...)
		}
	}
	switch res.End {
	case "panic":
		viol("panic in the coalescer: %s", firstLine(res.Detail))
	case "steplimit":
		viol("execution did not finish within the step limit (livelock)")
	case "deadlock":
		// Every call of the scenario is bound to return: Strobe returns when the
		// run loop takes it or the coalescer is terminated, Terminate returns
		// when the loop has exited. A thread left blocked means a strobe (and
		// with it its signal) is lost for good.
		viol("a coalescer call never returned: blocked threads %v", res.Blocked)
	}
	if res.End != "done" {
		j.Outcome = "end=" + res.End
		return j
	}
	// Strobe intervals in virtual time (vt is stored +1 so that 0 is distinguishable).
	type iv struct{ s, e time.Duration }
	var strobes []iv
	open := map[string]time.Duration{}
	overl := false
	inflight := 0
	for _, x := range e.log.ev {
		if x.call != "strobe" {
			continue
		}
		if x.what == "start" {
			open[x.thread] = x.vt - 1
			if inflight > 0 {
				overl = true
			}
			inflight++
		} else {
			strobes = append(strobes, iv{open[x.thread], x.vt - 1})
			inflight--
		}
	}
	sort.Slice(strobes, func(a, b int) bool { return strobes[a].s < strobes[b].s })
	if e.buffered > 1 {
		viol("%d signals buffered at once", e.buffered)
	}
	nsig := len(e.signals)
	// Upper bound: "bursts of strobes within the window produce a single
	// signal". Two strobes are certainly in one burst when even the latest
	// possible registration of the second is less than a window after the
	// earliest possible registration of the first.
	groups := 0
	if len(strobes) > 0 {
		groups = 1
	}
	for i := 1; i < len(strobes); i++ {
		// compare with the earliest start among all earlier strobes of the group: conservative = previous strobe's start
		if strobes[i].e-strobes[i-1].s >= vsWindow {
			groups++
		}
	}
	if nsig > groups {
		viol("%d signals for %d strobe(s) in %d burst(s) (strobes at %v): a burst inside one window must produce a single signal", nsig, len(strobes), groups, strobes)
	}
	// No signal before a full window after the first strobe.
	for _, s := range e.signals {
		if len(strobes) == 0 || s < strobes[0].s+vsWindow {
			viol("signal at %v, earlier than one window after the first strobe (strobes at %v)", s, strobes)
		}
	}
	// Lower bound: "Every strobe is followed by a delivered signal once strobes
	// have stopped for the coalescing window, unless the coalescer was
	// terminated first".
	if !e.termed && len(strobes) > 0 {
		last := strobes[len(strobes)-1]
		ok := false
		for _, s := range e.signals {
			if s >= last.s+vsWindow {
				ok = true
			}
		}
		if !ok {
			viol("no signal was delivered after the last strobe (at %v) although %v of silence followed (signals at %v): signal lost", last.s, 3*vsWindow, e.signals)
		}
	}
	if e.termed {
		// Termination "first" excuses only strobes whose window had not yet
		// elapsed when Terminate was called.
		for _, st := range strobes {
			_ = st
		}
	}
	j.Outcome = fmt.Sprintf("strobes=%d groups=%d signals=%d terminated=%v", len(strobes), groups, nsig, e.termed)
	j.Nontrivial = overl || nsig > 0
	return j
}

func c31Scenarios() []vsScenario {
	w := vsWindow
	burst := func(l bool) vsScenario {
		// two strobes half a window apart + a third from another thread
		return c31Scenario("burst+consumer", [][]time.Duration{{0, w / 2}, {w / 2}}, true, -1, l)
	}
	gaps := func(l bool) vsScenario {
		// gaps below / at / above the window, nobody consuming until the end
		return c31Scenario("gaps-noconsumer", [][]time.Duration{{0, w / 2, w, 2 * w}}, false, -1, l)
	}
	edge := func(l bool) vsScenario {
		// strobes exactly when the window expires, consumer running
		return c31Scenario("edge+consumer", [][]time.Duration{{0, w}, {w}}, true, -1, l)
	}
	term := func(l bool) vsScenario {
		// termination racing with strobes and the timer
		return c31Scenario("terminate-race", [][]time.Duration{{0, w}}, true, w, l)
	}
	fine := func(l bool) vsScenario {
		// strobes w/8 apart, then one just inside the window of the second:
		// one burst, one signal, and none while strobes are still arriving
		return c31Scenario("fine-gaps+consumer", [][]time.Duration{{0, w / 8, 15 * w / 16}}, true, -1, l)
	}
	if !vr.Thorough() && os.Getenv("VERIF_REPLAY") == "" {
		// Quick: each scenario under one of the two timer-channel semantics.
		return []vsScenario{burst(false), term(false), gaps(true), edge(true), c31IdleConsumerScenario(false), fine(false)}
	}
	return []vsScenario{burst(false), gaps(false), edge(false), term(false), c31IdleConsumerScenario(false), fine(false), burst(true), gaps(true), edge(true), term(true), c31IdleConsumerScenario(true), fine(true)}
}

func vschedC31(t *testing.T, r *vr.Report) string {
	bound := 2
	if vr.Thorough() {
		bound = 3
	}
	deadline := vr.Deadline(30*time.Second, 400*time.Second)
	s := exploreScenarios(t, r, "C31", c31Scenarios(), bound, deadline, func(c *vsCase) interface{} { return c31caseFile{Stage: "vsched", VS: c} })
	return s + " Virtual time: alarms fire when no thread is enabled; 'the earliest alarm fires although threads are enabled' counts as one deviation. Timer-channel semantics: Go >= 1.23 and legacy (quick: each scenario under one of them, thorough: under both)."
}

// ---------------------------------------------------------------------------
// C32 scenarios
// ---------------------------------------------------------------------------

type vsPrompter struct {
	log       *hlog
	inside    int
	overlap   string
	late      string
	unregDone *bool
}

func (p *vsPrompter) call(kind, arg string) {
	th := vsched.Current().Name
	p.log.add(hev{thread: th, what: "start", call: kind + "(" + arg + ")"})
	// "A registered prompter is never invoked concurrently with itself"
	if p.inside > 0 && p.overlap == "" {
		p.overlap = fmt.Sprintf("prompter.%s(%s) invoked while another invocation was in progress", kind, arg)
	}
	// "and is never invoked after its unregistration has returned"
	if *p.unregDone && p.late == "" {
		p.late = fmt.Sprintf("prompter.%s(%s) invoked after UnregisterPrompter had returned", kind, arg)
	}
	p.inside++
	// The prompter takes time: other threads may run while we are inside.
	vsched.Point("prompter-1")
	vsched.Point("prompter-2")
	p.inside--
	p.log.add(hev{thread: th, what: "end", call: kind + "(" + arg + ")"})
	if *p.unregDone && p.late == "" {
		p.late = fmt.Sprintf("prompter.%s(%s) still in progress after UnregisterPrompter had returned", kind, arg)
	}
}

func (p *vsPrompter) Message(m string) error { p.call("Message", m); return nil }
func (p *vsPrompter) Prompt(m string) (string, error) {
	p.call("Prompt", m)
	return "r:" + m, nil
}

var vsPromptSeq int

func c32Scenario(name string, calls []string) vsScenario {
	return vsScenario{name: name, workers: 1, mk: func() vsched.Instance {
		log := &hlog{}
		unregDone := false
		p := &vsPrompter{log: log, unregDone: &unregDone}
		results := map[string]string{}
		vsPromptSeq++
		id := fmt.Sprintf("vs-c32-%d", vsPromptSeq)
		body := func() {
			if err := vprompting.RegisterPrompterWithIdentifier(id, p); err != nil {
				panic(err)
			}
			for i, c := range calls {
				th := fmt.Sprintf("%s%d", c, i+1)
				switch c {
				case "M":
					vsched.GoNamed(th, func() {
						if err := vprompting.Message(id, th); err != nil {
							results[th] = err.Error()
						} else {
							results[th] = "ok"
						}
					})
				case "P":
					vsched.GoNamed(th, func() {
						resp, err := vprompting.Prompt(id, th)
						switch {
						case err != nil:
							results[th] = err.Error()
						case resp != "r:"+th:
							results[th] = "WRONG RESPONSE " + resp
						default:
							results[th] = "ok"
						}
					})
				case "U":
					vsched.GoNamed(th, func() {
						vprompting.UnregisterPrompter(id)
						unregDone = true
						log.add(hev{thread: th, what: "end", call: "unregister"})
					})
				}
			}
		}
		judge := func(res *vsched.Result) vsched.Judgement {
			var rs []string
			for k, v := range results {
				rs = append(rs, k+"="+v)
			}
			sort.Strings(rs)
			j := vsched.Judgement{Obs: log.String() + "| " + strings.Join(rs, " ") + " end=" + res.End + " blocked=" + strings.Join(res.Blocked, ",")}
			viol := func(s string) {
				if j.Violation == "" {
					j.Violation = s
				}
			}
			if p.overlap != "" {
				viol(p.overlap)
			}
			if p.late != "" {
				viol(p.late)
			}
			for _, v := range rs {
				if strings.Contains(v, "WRONG RESPONSE") {
					viol("a Prompt call received the response of another invocation: " + v)
				}
			}
			// Panics and hangs are not named by the property statement; they are
			// counted as outcome classes and shown in the evidence.
			invoked := 0
			for _, x := range log.ev {
				if x.what == "start" {
					invoked++
				}
			}
			failed := 0
			for _, v := range rs {
				if !strings.HasSuffix(v, "=ok") {
					failed++
				}
			}
			j.Outcome = fmt.Sprintf("end=%s invoked=%d refused=%d", res.End, invoked, failed)
			j.Nontrivial = res.Cost > 0 && invoked > 0
			if res.End == "panic" {
				j.Outcome += " " + firstLine(res.Detail)
			}
			return j
		}
		return vsched.Instance{Body: body, Judge: judge}
	}}
}

func c32Scenarios() []vsScenario {
	return []vsScenario{
		c32Scenario("message+prompt+unregister", []string{"M", "P", "U"}),
		c32Scenario("2xmessage+prompt+unregister", []string{"M", "M", "P", "U"}),
	}
}

func vschedC32(t *testing.T, r *vr.Report) string {
	bound := 2
	if vr.Thorough() {
		bound = 3
	}
	deadline := vr.Deadline(30*time.Second, 400*time.Second)
	s := exploreScenarios(t, r, "C32", c32Scenarios(), bound, deadline, func(c *vsCase) interface{} { return c32caseFile{Stage: "vsched", VS: c} })
	return s + " The recording prompter has two scheduling points inside every invocation; the registry is package-level state, so schedules are executed one at a time."
}

// compactChoices renders a choice vector for samples: digits, with runs of
// zeros written as "0*n".
func compactChoices(c []uint8) string {
	var b strings.Builder
	for i := 0; i < len(c); {
		if c[i] == 0 {
			j := i
			for j < len(c) && c[j] == 0 {
				j++
			}
			if j-i > 3 {
				fmt.Fprintf(&b, "0*%d ", j-i)
				i = j
				continue
			}
		}
		fmt.Fprintf(&b, "%d ", c[i])
		i++
	}
	return strings.TrimSpace(b.String())
}
