//go:build verif && vsgen && vsmux

package statepkg

// E-vsched legs of C23/C24/C25: the REAL source of pkg/multiplexing, rewritten
// at check time by cmd/vrewrite into verif/internal/vsgen/multiplexing (only
// inside the overlay written by ./PREBUILD), two multiplexers on a carrier
// written against the scheduler's primitives, explored under the cooperative
// scheduler with DELAY bounding (about a dozen threads: the deterministic
// round-robin schedule plus every schedule that departs from it at most
// `bound` times; see vsched.Options.DelayBounding). These legs own the
// interleavings inside calls, including threads parked on a sync.Mutex, which
// the synctest legs in checks/mux cannot see.

import (
	"encoding/json"
	"errors"
	"fmt"
	"io"
	"net"
	"os"
	"sort"
	"strings"
	"testing"
	"time"

	"verif/internal/vr"
	"verif/internal/vsched"
	"verif/internal/vsched/vcontext"
	"verif/internal/vsched/vsync"
	"verif/internal/vsched/vtime"
	vmux "verif/internal/vsgen/multiplexing"
)

// ---------------------------------------------------------------------------
// Carrier on scheduler primitives
// ---------------------------------------------------------------------------

// vsPipe is one direction of the carrier: an unbounded byte queue. The reader
// blocks while nothing is deliverable; limit (absolute stream offset, <0 = no
// limit) lets the harness stall the carrier in the middle of a message; wgate
// makes Write block (a carrier that does not take data).
type vsPipe struct {
	m        vsched.Meta
	buf      []byte
	consumed int
	limit    int
	wgate    bool
	closed   bool
}

func (p *vsPipe) avail() int {
	n := len(p.buf)
	if p.limit >= 0 && p.limit-p.consumed < n {
		n = p.limit - p.consumed
	}
	if n < 0 {
		n = 0
	}
	return n
}

// stalledMidStream reports that bytes are in flight but withheld by the limit.
func (p *vsPipe) stalledMidStream() bool {
	return p.limit >= 0 && p.consumed == p.limit && len(p.buf) > 0
}

func (p *vsPipe) idle() bool { return len(p.buf) == 0 }

func (p *vsPipe) read(b []byte) (int, error) {
	t := vsched.CurrentThread()
	id, _ := p.m.Bind(t)
	t.Step("carrier.read", id, func() bool { return p.closed || p.avail() > 0 || len(b) == 0 })
	if p.closed {
		return 0, io.ErrClosedPipe
	}
	n := copy(b, p.buf[:p.avail()])
	p.buf = p.buf[n:]
	p.consumed += n
	return n, nil
}

func (p *vsPipe) write(b []byte) (int, error) {
	t := vsched.CurrentThread()
	id, _ := p.m.Bind(t)
	t.Step("carrier.write", id, func() bool { return p.closed || !p.wgate })
	if p.closed {
		return 0, io.ErrClosedPipe
	}
	p.buf = append(p.buf, b...)
	return len(b), nil
}

// vsCarrier implements multiplexing.Carrier for one end.
type vsCarrier struct {
	in, out *vsPipe
}

func (c *vsCarrier) Read(b []byte) (int, error) { return c.in.read(b) }
func (c *vsCarrier) ReadByte() (byte, error) {
	var b [1]byte
	if _, err := c.in.read(b[:]); err != nil {
		return 0, err
	}
	return b[0], nil
}
func (c *vsCarrier) Discard(n int) (int, error) {
	done := 0
	for done < n {
		k, err := c.in.read(make([]byte, n-done))
		done += k
		if err != nil {
			return done, err
		}
	}
	return done, nil
}
func (c *vsCarrier) Write(b []byte) (int, error) { return c.out.write(b) }
func (c *vsCarrier) Close() error {
	t := vsched.CurrentThread()
	id, _ := c.in.m.Bind(t)
	t.Step("carrier.close", id, nil)
	c.in.closed, c.out.closed = true, true
	return nil
}

// ---------------------------------------------------------------------------
// World
// ---------------------------------------------------------------------------

type vsCall struct {
	name   string
	kind   string // read, write, open, accept, close, closewrite, rdl, wdl
	side   string
	n      int
	err    error
	data   string
	start  time.Duration
	end    time.Duration
	done   bool
	began  bool
	seqEnd int
}

type muxWorld struct {
	ab, ba *vsPipe // A->B, B->A
	a, b   *vmux.Multiplexer
	calls  []*vsCall
	seq    int
	notes  []string
	obs    []string // verdict-relevant facts recorded by main at the observation point
	viol   string
	key    string
}

func muxConfig(buffers int) *vmux.Configuration {
	return &vmux.Configuration{StreamReceiveWindow: 2, WriteBufferCount: buffers, AcceptBacklog: 1}
}

func newMuxWorld(buffers int) *muxWorld {
	w := &muxWorld{ab: &vsPipe{limit: -1}, ba: &vsPipe{limit: -1}}
	w.a = vmux.Multiplex(&vsCarrier{in: w.ba, out: w.ab}, false, muxConfig(buffers))
	w.b = vmux.Multiplex(&vsCarrier{in: w.ab, out: w.ba}, true, muxConfig(buffers))
	return w
}

// call records one API call made by the running thread.
func (w *muxWorld) call(name, kind, side string, f func() (int, error)) *vsCall {
	c := &vsCall{name: name, kind: kind, side: side, began: true, start: vnow()}
	w.calls = append(w.calls, c)
	c.n, c.err = f()
	c.done, c.end = true, vnow()
	w.seq++
	c.seqEnd = w.seq
	return c
}

func (w *muxWorld) fail(key, what string) {
	if w.viol == "" {
		w.viol, w.key = what, key
	}
}

func muxErr(err error) string {
	switch {
	case err == nil:
		return "ok"
	case err == io.EOF:
		return "EOF"
	case errors.Is(err, os.ErrDeadlineExceeded):
		return "deadline"
	case err == vmux.ErrMultiplexerClosed:
		return "mux-closed"
	case err == vmux.ErrStreamRejected:
		return "rejected"
	case err == vmux.ErrWriteClosed:
		return "write-closed"
	case err == vcontext.Canceled:
		return "canceled"
	case errors.Is(err, net.ErrClosed):
		return "closed"
	}
	return "err:" + err.Error()
}

func (w *muxWorld) render() string {
	var b strings.Builder
	for _, c := range w.calls {
		if c.done {
			fmt.Fprintf(&b, "%s=%d/%s", c.name, c.n, muxErr(c.err))
			if c.kind == "read" && c.n > 0 {
				fmt.Fprintf(&b, "%q", c.data)
			}
			fmt.Fprintf(&b, "@%d ", c.seqEnd)
		} else {
			fmt.Fprintf(&b, "%s=pending ", c.name)
		}
	}
	b.WriteString("| " + strings.Join(w.obs, " "))
	return b.String()
}

// establish opens one stream from A and accepts it on B (main thread + one
// acceptor thread).
func (w *muxWorld) establish(tag string) (sa, sb *vmux.Stream) {
	got := vsched.NewChan[*vmux.Stream](1)
	vsched.GoNamed("acc"+tag, func() {
		var s *vmux.Stream
		w.call("B.accept"+tag, "accept", "B", func() (int, error) {
			var err error
			s, err = w.b.AcceptStream(vcontext.Background())
			return 0, err
		})
		got.Send(s)
	})
	w.call("A.open"+tag, "open", "A", func() (int, error) {
		var err error
		sa, err = w.a.OpenStream(vcontext.Background())
		return 0, err
	})
	sb = got.Recv()
	return sa, sb
}

// shutdown releases the carrier and closes both multiplexers so that every
// thread can finish.
func (w *muxWorld) shutdown() {
	w.ab.limit, w.ba.limit = -1, -1
	w.ab.wgate, w.ba.wgate = false, false
	w.a.Close()
	w.b.Close()
}

func internalErr(m *vmux.Multiplexer) string {
	if err := m.InternalError(); err != nil {
		return err.Error()
	}
	return ""
}

func muxClosed(m *vmux.Multiplexer) bool {
	s := vsched.NewSelect(true)
	vsched.RecvCase(s, m.Closed())
	return s.Run() == 0
}

// judgeMux turns the world into a judgement. prop selects which recorded
// verdicts count (a scenario may notice facts of another property, which are
// shown in the observation only).
func judgeMux(w *muxWorld, res *vsched.Result, harnessThreads []string) vsched.Judgement {
	j := vsched.Judgement{Obs: w.render() + " end=" + res.End + " blocked=" + strings.Join(res.Blocked, ",")}
	switch res.End {
	case "panic":
		if w.viol == "" {
			w.viol, w.key = "panic in the multiplexer: "+firstLine(res.Detail), "panic|"+firstLine(res.Detail)
		}
	case "steplimit":
		if w.viol == "" {
			w.viol, w.key = "execution did not finish within the step limit (livelock)", "livelock"
		}
	case "deadlock":
		// After shutdown() (both multiplexers closed, carrier released) every
		// harness call must have returned: "Every blocked read, write, open or
		// accept returns once ... the multiplexer is closed".
		var hung []string
		for _, c := range w.calls {
			if !c.done && (c.kind == "read" || c.kind == "write" || c.kind == "open" || c.kind == "accept") {
				hung = append(hung, c.name)
			}
		}
		if len(hung) > 0 && w.viol == "" && strings.Contains(strings.Join(w.obs, " "), "shutdown") {
			w.viol, w.key = fmt.Sprintf("%v still blocked although both multiplexers are closed", hung), "blocked-after-mux-closed:"+strings.Join(hung, ",")
		}
	}
	j.Violation, j.Key = w.viol, w.key
	pend := 0
	overl := false
	for _, c := range w.calls {
		if !c.done {
			pend++
		}
	}
	for i, c := range w.calls {
		for _, d := range w.calls[i+1:] {
			if c.done && d.done && d.seqEnd < c.seqEnd {
				overl = true
			}
		}
	}
	kinds := map[string]bool{}
	for _, c := range w.calls {
		if c.done {
			kinds[c.kind+":"+muxErr(c.err)] = true
		}
	}
	var ks []string
	for k := range kinds {
		if !strings.Contains(k, "err:") {
			ks = append(ks, k)
		}
	}
	sort.Strings(ks)
	j.Outcome = fmt.Sprintf("end=%s pending=%d %s", res.End, pend, strings.Join(ks, ","))
	j.Nontrivial = overl || res.Cost > 0
	return j
}

// ---------------------------------------------------------------------------
// C23: ordered, loss-free delivery
// ---------------------------------------------------------------------------

func c23Scenario() vsScenario {
	return vsScenario{name: "c23:3-bytes-2-writes+closewrite/1-and-0-byte-reads", opts: vsched.Options{DelayBounding: true, MaxSteps: 20000}, mk: func() vsched.Instance {
		var w *muxWorld
		body := func() {
			w = newMuxWorld(1)
			sa, sb := w.establish("")
			if sa == nil || sb == nil {
				w.fail("establish", "stream could not be established")
				w.shutdown()
				return
			}
			var wg vsync.WaitGroup
			wg.Add(2)
			sent := "abc"
			vsched.GoNamed("Wr", func() {
				defer wg.Done()
				c1 := w.call("A1.write(a)", "write", "A", func() (int, error) { return sa.Write([]byte("a")) })
				c2 := w.call("A1.write(bc)", "write", "A", func() (int, error) { return sa.Write([]byte("bc")) })
				if c1.n != 1 || c1.err != nil || c2.n != 2 || c2.err != nil {
					w.fail("write-result", fmt.Sprintf("Write reported %d/%s and %d/%s for 1 and 2 bytes on an open stream", c1.n, muxErr(c1.err), c2.n, muxErr(c2.err)))
				}
				w.call("A1.closewrite", "closewrite", "A", func() (int, error) { return 0, sa.CloseWrite() })
			})
			got := ""
			vsched.GoNamed("Rd", func() {
				defer wg.Done()
				for i := 0; i < 10; i++ {
					z := w.call(fmt.Sprintf("B1.read0#%d", i), "read", "B", func() (int, error) { return sb.Read(nil) })
					if z.n != 0 {
						w.fail("zero-read-count", fmt.Sprintf("zero-length Read returned %d bytes", z.n))
					}
					var b [1]byte
					c := w.call(fmt.Sprintf("B1.read1#%d", i), "read", "B", func() (int, error) { return sb.Read(b[:]) })
					if c.n > 0 {
						c.data = string(b[:c.n])
						got += c.data
						// "arrive ... in order and without loss/duplication"
						if !strings.HasPrefix(sent, got) {
							w.fail("wrong-bytes", fmt.Sprintf("read %q, which is not a prefix of what was written (%q)", got, sent))
						}
					}
					if c.err != nil {
						if c.err != io.EOF {
							w.fail("read-error", "Read failed with "+muxErr(c.err)+" on an open stream")
						} else if got != sent {
							// "EOF only after all data"
							w.fail("early-eof", fmt.Sprintf("EOF after %q although %q was written before CloseWrite", got, sent))
						}
						return
					}
				}
				w.fail("no-eof", "no EOF after 10 reads")
			})
			wg.Wait()
			w.obs = append(w.obs, "got="+got, "shutdown")
			w.shutdown()
		}
		judge := func(res *vsched.Result) vsched.Judgement {
			if res.End == "deadlock" && w.viol == "" {
				// Nothing is in flight (deadlock = nothing can move): a reader
				// that is still blocked has lost bytes or the end of stream.
				for _, c := range w.calls {
					if !c.done && c.kind == "read" {
						w.fail("lost-bytes", fmt.Sprintf("%s is blocked although everything the peer wrote was delivered (in flight: %d/%d bytes)", c.name, len(w.ab.buf), len(w.ba.buf)))
					}
					if !c.done && c.kind == "write" {
						w.fail("write-stalled", fmt.Sprintf("%s never completed although the reader keeps reading", c.name))
					}
				}
			}
			return judgeMux(w, res, nil)
		}
		return vsched.Instance{Body: body, Judge: judge}
	}}
}

// ---------------------------------------------------------------------------
// C24: conforming use never makes a multiplexer record an internal error
// ---------------------------------------------------------------------------

func c24Scenario() vsScenario {
	return vsScenario{name: "c24:opens-beyond-backlog+cancelled-open+zero-length-io", opts: vsched.Options{DelayBounding: true, MaxSteps: 20000}, mk: func() vsched.Instance {
		var w *muxWorld
		body := func() {
			w = newMuxWorld(2)
			ctx, cancel := vcontext.WithCancel(vcontext.Background())
			var first vsync.WaitGroup
			var all vsync.WaitGroup
			first.Add(2)
			all.Add(4)
			opener := func(name string, c vcontext.Context, gate *vsync.WaitGroup) {
				vsched.GoNamed(name, func() {
					defer all.Done()
					var s *vmux.Stream
					w.call("A.open:"+name, "open", "A", func() (int, error) {
						var err error
						s, err = w.a.OpenStream(c)
						return 0, err
					})
					if gate != nil {
						gate.Done()
					}
					if s != nil {
						w.call("A.write0:"+name, "write", "A", func() (int, error) { return s.Write(nil) })
						w.call("A.close:"+name, "close", "A", func() (int, error) { return 0, s.Close() })
					}
				})
			}
			opener("O1", vcontext.Background(), nil)
			opener("O2", vcontext.Background(), nil)
			opener("O3", ctx, &first)
			vsched.GoNamed("X", func() { cancel() })
			vsched.GoNamed("Acc", func() {
				defer all.Done()
				defer first.Done()
				var s *vmux.Stream
				w.call("B.accept", "accept", "B", func() (int, error) {
					var err error
					s, err = w.b.AcceptStream(vcontext.Background())
					return 0, err
				})
				if s != nil {
					w.call("B.read0", "read", "B", func() (int, error) { return s.Read(nil) })
					w.call("B.write0", "write", "B", func() (int, error) { return s.Write(nil) })
					w.call("B.close", "close", "B", func() (int, error) { return 0, s.Close() })
				}
			})
			first.Wait()
			// Let everything in flight settle, then look at both sides.
			vsched.SleepQuiescent(int64(time.Second))
			ea, eb := internalErr(w.a), internalErr(w.b)
			ca, cb := muxClosed(w.a), muxClosed(w.b)
			w.obs = append(w.obs, fmt.Sprintf("A.err=%q B.err=%q A.closed=%v B.closed=%v", ea, eb, ca, cb))
			// "neither side ever closes with an internal error". When one side
			// tears down, the other sees the carrier close: the verdict names the
			// side whose error is not merely that consequence.
			consequence := func(e string) bool { return strings.Contains(e, "closed pipe") }
			type sideErr struct {
				name, err string
				closed    bool
			}
			sides := []sideErr{{"A", ea, ca}, {"B", eb, cb}}
			sort.SliceStable(sides, func(i, j int) bool { return !consequence(sides[i].err) && consequence(sides[j].err) })
			for _, s := range sides {
				if s.err != "" || s.closed {
					w.fail("internal-error:"+s.err+"|concurrent-open+cancel+read(0)+write(0)+close", fmt.Sprintf("multiplexer %s tore down (closed=%v) with internal error %q although its peer was used as documented (A.err=%q B.err=%q)", s.name, s.closed, s.err, ea, eb))
				}
			}
			w.obs = append(w.obs, "shutdown")
			w.shutdown()
			all.Wait()
		}
		return vsched.Instance{Body: body, Judge: func(res *vsched.Result) vsched.Judgement { return judgeMux(w, res, nil) }}
	}}
}

// ---------------------------------------------------------------------------
// C25: no hangs, no head-of-line blocking
// ---------------------------------------------------------------------------

const midMessage = "@carrier-stalled-mid-data-message"

// c25Stalled: the carrier A->B delivers the first data message ("a") and the
// header of the second but withholds its payload; B's reader goroutine is then
// parked inside the payload read. A Read on that stream, then Close (variant
// "close") or a read deadline (variant "deadline").
func c25Stalled(variant string) vsScenario {
	return vsScenario{name: "c25:carrier-stalled-mid-data-message+read+" + variant, opts: vsched.Options{DelayBounding: true, MaxSteps: 20000}, mk: func() vsched.Instance {
		var w *muxWorld
		body := func() {
			w = newMuxWorld(1)
			// A->B carries: open (3 bytes), data "a" (5 bytes), data "b" (4 header bytes + 1 payload byte).
			w.ab.limit = 3 + 5 + 4
			sa, sb := w.establish("")
			if sa == nil || sb == nil {
				w.fail("establish", "stream could not be established")
				w.shutdown()
				return
			}
			vsched.GoNamed("Wr", func() {
				w.call("A1.write(a)", "write", "A", func() (int, error) { return sa.Write([]byte("a")) })
				w.call("A1.write(b)", "write", "A", func() (int, error) { return sa.Write([]byte("b")) })
			})
			var rd, cl *vsCall
			closeCalled := false
			vsched.GoNamed("Rd", func() {
				// Start once the carrier has stalled (virtual time only passes at
				// quiescence): B's reader goroutine is then inside the payload read.
				vtime.Sleep(100 * time.Millisecond)
				if variant == "deadline" {
					w.call("B1.rdl(+1s)", "rdl", "B", func() (int, error) { return 0, sb.SetReadDeadline(vtime.Now().Add(time.Second)) })
				}
				var b [1]byte
				rd = &vsCall{name: "B1.read(1)", kind: "read", side: "B", began: true, start: vnow()}
				w.calls = append(w.calls, rd)
				rd.n, rd.err = sb.Read(b[:])
				rd.data = string(b[:rd.n])
				rd.done, rd.end = true, vnow()
				w.seq++
				rd.seqEnd = w.seq
			})
			if variant == "close" {
				vsched.GoNamed("Cl", func() {
					vtime.Sleep(500 * time.Millisecond)
					closeCalled = true
					cl = w.call("B1.close", "close", "B", func() (int, error) { return 0, sb.Close() })
				})
			}
			// Quiescence well after the close / the deadline.
			vsched.SleepQuiescent(int64(3 * time.Second))
			suffix := ""
			if w.ab.stalledMidStream() {
				suffix = midMessage
			}
			w.obs = append(w.obs, fmt.Sprintf("t=%v stalled=%v closeCalled=%v", vnow(), suffix != "", closeCalled))
			if rd != nil && !rd.done {
				switch variant {
				case "close":
					if closeCalled {
						// "Every blocked read ... returns once ... its stream ... is closed"
						w.fail("blocked-after-close:read"+suffix+"|close+read(+)+write(+)", "B1.read(1) is still blocked although Close was called on the stream")
					}
				case "deadline":
					// "returns once its deadline passes"
					w.fail("blocked-after-deadline:read"+suffix+"|rdl(+1s)+read(+)+write(+)", "B1.read(1) is still blocked although its read deadline (+1s) has passed")
				}
			}
			_ = cl
			w.obs = append(w.obs, "shutdown")
			w.shutdown()
		}
		return vsched.Instance{Body: body, Judge: func(res *vsched.Result) vsched.Judgement { return judgeMux(w, res, nil) }}
	}}
}

// c25WriteDeadlineZeroWindow: the peer's window is full; a Write with a
// deadline must return when the deadline passes, and once the deadline is
// cleared and the peer has read, a later Write must go through.
func c25WriteDeadlineZeroWindow() vsScenario {
	return vsScenario{name: "c25:write-deadline-while-window-zero", opts: vsched.Options{DelayBounding: true, MaxSteps: 20000}, mk: func() vsched.Instance {
		var w *muxWorld
		body := func() {
			w = newMuxWorld(1)
			sa, sb := w.establish("")
			if sa == nil || sb == nil {
				w.fail("establish", "stream could not be established")
				w.shutdown()
				return
			}
			goRead := vsched.NewChan[struct{}](0)
			var last *vsCall
			vsched.GoNamed("Wr", func() {
				w.call("A1.write(ab)", "write", "A", func() (int, error) { return sa.Write([]byte("ab")) })
				w.call("A1.wdl(+1s)", "wdl", "A", func() (int, error) { return 0, sa.SetWriteDeadline(vtime.Now().Add(time.Second)) })
				c := w.call("A1.write(c)", "write", "A", func() (int, error) { return sa.Write([]byte("c")) })
				if c.err == nil || !errors.Is(c.err, os.ErrDeadlineExceeded) || c.n != 0 {
					w.fail("write-past-zero-window", fmt.Sprintf("Write with a full peer window returned %d/%s, want 0/deadline", c.n, muxErr(c.err)))
				}
				if c.end < time.Second {
					w.fail("write-deadline-early", fmt.Sprintf("Write returned a deadline error at t=%v, before its deadline (1s)", c.end))
				}
				w.call("A1.wdl(clear)", "wdl", "A", func() (int, error) { return 0, sa.SetWriteDeadline(time.Time{}) })
				goRead.Close()
				last = w.call("A1.write(c)#2", "write", "A", func() (int, error) { return sa.Write([]byte("c")) })
			})
			got := ""
			vsched.GoNamed("Rd", func() {
				goRead.Recv()
				for i := 0; i < 3; i++ {
					var b [1]byte
					c := w.call(fmt.Sprintf("B1.read1#%d", i), "read", "B", func() (int, error) { return sb.Read(b[:]) })
					c.data = string(b[:c.n])
					got += c.data
					if c.err != nil {
						return
					}
				}
			})
			vsched.SleepQuiescent(int64(5 * time.Second))
			w.obs = append(w.obs, fmt.Sprintf("t=%v got=%q", vnow(), got))
			for _, c := range w.calls {
				if c.done || !c.began {
					continue
				}
				switch {
				case c.name == "A1.write(c)":
					w.fail("blocked-after-deadline:write|wdl(+1s)+write(+)", "A1.write(c) is still blocked although its write deadline (+1s) has passed")
				case c.name == "A1.write(c)#2":
					w.fail("write-stalled-with-window|read(+)+wdl(+1s)+wdl(clear)+write(+)", "A1.write(c)#2 is blocked although nothing is in flight, no deadline is set and the peer has read everything")
				case c.kind == "read" && last != nil && last.done:
					w.fail("lost-bytes|read(+)+wdl(+1s)+wdl(clear)+write(+)", c.name+" is blocked although the peer's write was reported and delivered")
				}
			}
			if last != nil && last.done && got != "abc" && w.viol == "" {
				w.fail("lost-bytes|read(+)+wdl(+1s)+wdl(clear)+write(+)", fmt.Sprintf("read %q, written \"abc\"", got))
			}
			w.obs = append(w.obs, "shutdown")
			w.shutdown()
		}
		return vsched.Instance{Body: body, Judge: func(res *vsched.Result) vsched.Judgement { return judgeMux(w, res, nil) }}
	}}
}

// c25DeadlineWhileWaitingForBuffer: the only write buffer is stuck in a
// carrier that does not take data; a Write that already holds send window
// waits for a buffer; SetWriteDeadline(past) from another thread makes it
// return; after the deadline is cleared and the carrier flows again, the next
// Write must complete (the window is still there).
func c25DeadlineWhileWaitingForBuffer() vsScenario {
	return vsScenario{name: "c25:write-deadline-set-while-waiting-for-write-buffer", opts: vsched.Options{DelayBounding: true, MaxSteps: 20000}, mk: func() vsched.Instance {
		var w *muxWorld
		body := func() {
			w = newMuxWorld(1)
			sa, sb := w.establish("")
			if sa == nil || sb == nil {
				w.fail("establish", "stream could not be established")
				w.shutdown()
				return
			}
			_ = sb
			// Settle the establishment traffic, then stall A's outgoing carrier.
			vsched.SleepQuiescent(int64(time.Millisecond))
			w.ab.wgate = true
			again := vsched.NewChan[struct{}](0)
			vsched.GoNamed("Wr", func() {
				w.call("A1.write(a)", "write", "A", func() (int, error) { return sa.Write([]byte("a")) })
				c := w.call("A1.write(b)", "write", "A", func() (int, error) { return sa.Write([]byte("b")) })
				if c.err != nil && !errors.Is(c.err, os.ErrDeadlineExceeded) {
					w.fail("write-error", "Write failed with "+muxErr(c.err))
				}
				again.Recv()
				if c.err != nil {
					w.call("A1.write(b)#2", "write", "A", func() (int, error) { return sa.Write([]byte("b")) })
				}
			})
			vsched.GoNamed("Dl", func() {
				vtime.Sleep(time.Second)
				w.call("A1.wdl(past)", "wdl", "A", func() (int, error) { return 0, sa.SetWriteDeadline(vtime.Now().Add(-time.Second)) })
				vtime.Sleep(time.Second)
				w.call("A1.wdl(clear)", "wdl", "A", func() (int, error) { return 0, sa.SetWriteDeadline(time.Time{}) })
				w.ab.wgate = false
				again.Close()
			})
			vsched.SleepQuiescent(int64(10 * time.Second))
			w.obs = append(w.obs, fmt.Sprintf("t=%v inflight=%d", vnow(), len(w.ab.buf)))
			for _, c := range w.calls {
				if c.done || !c.began {
					continue
				}
				switch c.name {
				case "A1.write(b)":
					w.fail("blocked-after-deadline:write|wdl(past)+write(+)", "A1.write(b) is still blocked although its write deadline (past) was set")
				case "A1.write(b)#2":
					// 1 byte reported + 1 offered - 0 read <= window 2
					w.fail("write-stalled-with-window|wdl(clear)+wdl(past)+write(+)", "A1.write(b)#2 is blocked although nothing is in flight, no deadline is set and the peer's window has room (1 reported + 1 offered <= 2)")
				}
			}
			w.obs = append(w.obs, "shutdown")
			w.shutdown()
		}
		return vsched.Instance{Body: body, Judge: func(res *vsched.Result) vsched.Judgement { return judgeMux(w, res, nil) }}
	}}
}

// c25HeadOfLine: stream 1's reader never reads (its window fills and a third
// write stays blocked, legitimately); data on stream 2 must still flow.
func c25HeadOfLine() vsScenario {
	return vsScenario{name: "c25:head-of-line", opts: vsched.Options{DelayBounding: true, MaxSteps: 30000}, mk: func() vsched.Instance {
		var w *muxWorld
		body := func() {
			w = newMuxWorld(1)
			s1a, s1b := w.establish("1")
			s2a, s2b := w.establish("2")
			if s1a == nil || s1b == nil || s2a == nil || s2b == nil {
				w.fail("establish", "streams could not be established")
				w.shutdown()
				return
			}
			vsched.GoNamed("W1", func() {
				w.call("A1.write(ab)", "write", "A", func() (int, error) { return s1a.Write([]byte("ab")) })
				w.call("A1.write(c)", "write", "A", func() (int, error) { return s1a.Write([]byte("c")) }) // blocks: window full, nobody reads
			})
			var w2, r2 *vsCall
			vsched.GoNamed("W2", func() {
				vtime.Sleep(time.Second) // after stream 1 is stuck
				w2 = w.call("A2.write(x)", "write", "A", func() (int, error) { return s2a.Write([]byte("x")) })
			})
			vsched.GoNamed("R2", func() {
				var b [1]byte
				r2 = &vsCall{name: "B2.read(1)", kind: "read", side: "B", began: true, start: vnow()}
				w.calls = append(w.calls, r2)
				r2.n, r2.err = s2b.Read(b[:])
				r2.data = string(b[:r2.n])
				r2.done, r2.end = true, vnow()
				w.seq++
				r2.seqEnd = w.seq
			})
			vsched.SleepQuiescent(int64(5 * time.Second))
			w.obs = append(w.obs, fmt.Sprintf("t=%v", vnow()))
			// "A stream whose reader stops consuming never prevents data from
			// flowing on other streams."
			if w2 == nil || !w2.done {
				w.fail("head-of-line:write|read(+)+write(+)", "A2.write(x) is blocked while stream 1 sits unread: stream 2's window is empty and nothing is in flight")
			} else if r2 == nil || !r2.done {
				w.fail("head-of-line:read|read(+)+write(+)", "B2.read(1) is blocked although A2.write(x) was reported, while stream 1 has unread data and no reader")
			} else if r2.data != "x" || r2.err != nil || w2.n != 1 || w2.err != nil {
				w.fail("head-of-line:wrong-result|read(+)+write(+)", fmt.Sprintf("stream 2: write %d/%s read %q/%s", w2.n, muxErr(w2.err), r2.data, muxErr(r2.err)))
			}
			w.obs = append(w.obs, "shutdown")
			w.shutdown()
		}
		return vsched.Instance{Body: body, Judge: func(res *vsched.Result) vsched.Judgement { return judgeMux(w, res, nil) }}
	}}
}

// ---------------------------------------------------------------------------
// Tests
// ---------------------------------------------------------------------------

type muxCaseFile struct {
	Stage string  `json:"stage"`
	VS    *vsCase `json:"vs"`
}

func muxScenarios(prop string) []vsScenario {
	switch prop {
	case "C23":
		return []vsScenario{c23Scenario()}
	case "C24":
		return []vsScenario{c24Scenario()}
	case "C25":
		return []vsScenario{c25Stalled("close"), c25Stalled("deadline"), c25WriteDeadlineZeroWindow(), c25DeadlineWhileWaitingForBuffer(), c25HeadOfLine()}
	}
	return nil
}

func runMuxLeg(t *testing.T, prop string, what string) {
	r := vr.New(t, prop, "model_checking")
	defer r.Finish()
	scs := muxScenarios(prop)
	if raw := vr.ReplayCase(); raw != nil {
		var c muxCaseFile
		json.Unmarshal(raw, &c)
		r.Case(vr.J(c), true)
		for _, sc := range scs {
			if c.VS == nil || sc.name != c.VS.Scenario {
				continue
			}
			res, j := vsched.Replay(sc.opts, toU8(c.VS.Choices), sc.mk())
			for _, l := range res.Trace {
				t.Logf("  %s", l)
			}
			t.Logf("end=%s deviations=%d blocked=%v", res.End, res.Cost, res.Blocked)
			t.Logf("observations: %s", j.Obs)
			t.Logf("verdict: %q key %q", j.Violation, j.Key)
			if res.End == "replay-error" || res.End == "infra" {
				t.Fatalf("INFRA: %s: %s", res.End, res.Detail)
			}
			if j.Violation != "" {
				r.Violate(j.Key, j.Violation, c, nil)
			}
			return
		}
		t.Fatalf("INFRA: unknown scenario in replay file")
	}
	// Delay bound 1 always completes in seconds; bound 2 (3 thorough) as far
	// as the time budget allows (the evidence states the completed bound).
	bound := 2
	if vr.Thorough() {
		bound = 3
	}
	if s := os.Getenv("VERIF_VSCHED_BOUND"); s != "" {
		fmt.Sscan(s, &bound)
	}
	deadline := vr.Deadline(45*time.Second, 420*time.Second)
	rule, tot := exploreScenarios2(t, r, prop, scs, bound, deadline, func(c *vsCase) interface{} { return muxCaseFile{Stage: "vsched", VS: c} })
	// model_checking keys: states = distinct executed operation sequences,
	// transitions = scheduling steps, traces = schedules run on the real code.
	r.Set("states", tot.DistinctTraces)
	r.Set("transitions", tot.Steps)
	r.Set("traces_validated_against_impl", tot.Schedules)
	rule = strings.Replace(rule, "stage 2 (E-vsched,", "E-vsched leg (", 1)
	rule = strings.Replace(rule, "preemption(s)/timer deviation(s)", "DELAYS (delay bounding: default = deterministic round-robin scheduler; running the i-th other thread costs i, any non-default select case/partner/map order or an early timer costs 1)", 1)
	r.Rule(rule + " " + what)
	r.Assume("two multiplexers, window 2, 1-2 write buffers, accept backlog 1, heartbeats off, carrier = in-memory byte queue on scheduler primitives (may stall mid-message / refuse writes)",
		"delay-bounded: schedules further than the bound from the round-robin schedule are not explored; sequentially consistent memory; scheduler shims are a trusted model of sync/channels/timers",
		"fixed small thread programs per scenario (see scenario names)")
}

func TestC23Vsched(t *testing.T) {
	runMuxLeg(t, "C23", "Oracle: bytes read on B are, in order, a prefix of the bytes A's Write calls reported; EOF only after all of them; zero-length reads return 0; no reader or writer left blocked with nothing in flight.")
}

func TestC24Vsched(t *testing.T) {
	runMuxLeg(t, "C24", "Oracle: after opens beyond the backlog, a cancelled open, zero-length reads/writes and closes have settled, both multiplexers have InternalError()==nil and an open Closed() channel.")
}

func TestC25Vsched(t *testing.T) {
	runMuxLeg(t, "C25", "Oracle at a quiescent observation point (virtual time, after close/deadline): no Read/Write pending whose stream was closed or whose deadline passed; no Write pending that fits the peer's window with nothing in flight; stream 2 flows while stream 1 is unread; after both multiplexers are closed every call has returned. Threads parked on a (shimmed) sync.Mutex are ordinary blocked threads here.")
}
