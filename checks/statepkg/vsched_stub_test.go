//go:build verif && !vsgen

package statepkg

// This file is replaced (through the go test -overlay written by ./PREBUILD)
// by an empty file when the rewritten copies of pkg/state and pkg/prompting
// are available; then vsched_harness_test.go provides these functions.

import (
	"testing"

	"verif/internal/vr"
)

// vschedAvailable reports whether the E-vsched stage is compiled in.
const vschedAvailable = false

func vschedC30(t *testing.T, r *vr.Report) string { return "" }
func vschedC31(t *testing.T, r *vr.Report) string { return "" }
func vschedC32(t *testing.T, r *vr.Report) string { return "" }

func vschedReplay(t *testing.T, prop string, c *vsCase) string {
	t.Fatalf("INFRA: this replay case needs the E-vsched overlay (run through bin/check, which executes checks/statepkg/PREBUILD)")
	return ""
}

func vsKey(prop string, c *vsCase) string { return "" }
