//go:build verif

package statepkg

import (
	"context"
	"encoding/json"
	"fmt"
	"math"
	"os"
	"strings"
	"testing"
	"testing/synctest"
	"time"

	"github.com/mutagen-io/mutagen/pkg/state"

	"verif/internal/vr"
)

// ---------------------------------------------------------------------------
// C30 stage 1: E-bubble world over the unmodified pkg/state tracker.
// ---------------------------------------------------------------------------

type c30res struct {
	idx uint64
	err error
}

type c30wait struct {
	id       int
	class    string // "cur", "stale", "zero", "term" (started after termination)
	prev     uint64
	cancel   context.CancelFunc
	out      chan c30res
	returned bool
	res      c30res
	age      int // quiescences survived while pending
}

type c30call struct {
	name string
	done chan struct{}
}

type c30world struct {
	tr         *state.Tracker
	tl         *state.TrackingLock
	waits      []*c30wait
	calls      []*c30call
	cur        uint64 // index read by the probe at the last quiescence
	terminated bool
	last       string   // last event
	lastArg    *c30wait // wait started or cancelled by the last event
	maxSeen    uint64
	nextID     int
	// per-sequence statistics for the non-triviality rule
	pendingCompleted int
	kinds            map[string]bool
	// ahead enables the wait(ahead) events; only (when non-nil) restricts the menu.
	ahead bool
	only  map[string]bool
}

func newC30World() world {
	w := &c30world{tr: state.NewTracker(), kinds: map[string]bool{}}
	w.tl = state.NewTrackingLock(w.tr)
	w.last = "init"
	return w
}

func (w *c30world) pending() []*c30wait {
	var p []*c30wait
	for _, x := range w.waits {
		if !x.returned {
			p = append(p, x)
		}
	}
	return p
}

func (w *c30world) menu() []string {
	m := []string{"notify", "unlock", "unlock-nonotify"}
	np := len(w.pending())
	if np < 2 {
		m = append(m, "wait-cur")
		if w.cur > 1 {
			m = append(m, "wait-stale")
		}
		m = append(m, "wait-0")
		if w.ahead {
			m = append(m, "wait-ahead1", "wait-ahead1000", "wait-max")
		}
	}
	if np >= 1 {
		m = append(m, "cancel-oldest")
	}
	if np >= 2 {
		m = append(m, "cancel-newest")
	}
	if !w.terminated {
		m = append(m, "terminate")
	}
	if w.only != nil {
		f := m[:0]
		for _, e := range m {
			if w.only[e] {
				f = append(f, e)
			}
		}
		m = f
	}
	return m
}

// newC30AheadWorld is the leg for indices that DIFFER from the current one by
// being numerically ahead of it (an index kept from an earlier tracker, or
// after wrap-around): reduced alphabet so that depth stays cheap.
func newC30AheadWorld() world {
	w := newC30World().(*c30world)
	w.ahead = true
	w.only = map[string]bool{"notify": true, "wait-cur": true, "wait-ahead1": true, "wait-ahead1000": true, "wait-max": true, "cancel-oldest": true, "terminate": true}
	return w
}

// newC30ReplayWorld accepts every event of every leg (replay by event name).
func newC30ReplayWorld() world {
	w := newC30World().(*c30world)
	w.ahead = true
	return w
}

func (w *c30world) call(name string, f func()) {
	c := &c30call{name: name, done: make(chan struct{})}
	w.calls = append(w.calls, c)
	go func() { f(); close(c.done) }()
}

func (w *c30world) startWait(class string, prev uint64) {
	ctx, cancel := context.WithCancel(context.Background())
	x := &c30wait{id: w.nextID, class: class, prev: prev, cancel: cancel, out: make(chan c30res, 1)}
	if w.terminated {
		x.class = "term"
	}
	w.nextID++
	w.waits = append(w.waits, x)
	w.lastArg = x
	go func() {
		i, err := w.tr.WaitForChange(ctx, prev)
		x.out <- c30res{i, err}
	}()
}

func (w *c30world) do(ev string) {
	w.last, w.lastArg = ev, nil
	switch ev {
	case "notify":
		w.call(ev, w.tr.NotifyOfChange)
	case "unlock":
		w.call(ev, func() { w.tl.Lock(); w.tl.Unlock() })
	case "unlock-nonotify":
		w.call(ev, func() { w.tl.Lock(); w.tl.UnlockWithoutNotify() })
	case "wait-cur":
		w.startWait("cur", w.cur)
	case "wait-stale":
		w.startWait("stale", w.cur-1)
	case "wait-0":
		w.startWait("zero", 0)
	case "wait-ahead1":
		w.startWait("ahead", w.cur+1)
	case "wait-ahead1000":
		w.startWait("ahead", w.cur+1000)
	case "wait-max":
		w.startWait("ahead", math.MaxUint64)
	case "cancel-oldest":
		p := w.pending()
		w.lastArg = p[0]
		p[0].cancel()
	case "cancel-newest":
		p := w.pending()
		w.lastArg = p[len(p)-1]
		p[len(p)-1].cancel()
	case "terminate":
		w.call(ev, w.tr.Terminate)
	default:
		panic("unknown event " + ev)
	}
}

func errName(err error) string {
	switch err {
	case nil:
		return "ok"
	case context.Canceled:
		return "canceled"
	case state.ErrTrackingTerminated:
		return "terminated"
	}
	return "err:" + err.Error()
}

// observe applies the C30 oracle at one quiescence.
func (w *c30world) observe() (string, string) {
	var obs []string
	viol := ""
	fail := func(f string, a ...interface{}) {
		if viol == "" {
			viol = fmt.Sprintf(f, a...)
		}
	}
	// Calls other than waits never block at quiescence (a hang of
	// Notify/Unlock/Terminate would starve every waiter).
	for _, c := range w.calls {
		select {
		case <-c.done:
		default:
			fail("%s has not returned at quiescence", c.name)
		}
	}
	w.calls = w.calls[:0]
	// Probe: an immediate read (previous index 0) of the current index.
	before := w.cur
	probe := make(chan c30res, 1)
	go func() { i, err := w.tr.WaitForChange(context.Background(), 0); probe <- c30res{i, err} }()
	synctest.Wait()
	var after uint64
	select {
	case p := <-probe:
		after = p.idx
		obs = append(obs, fmt.Sprintf("idx=%d/%s", p.idx, errName(p.err)))
	default:
		fail("immediate read (previous index 0) blocked")
		return strings.Join(obs, " "), viol
	}
	// "Returned indices never move backwards"
	if after < before {
		fail("index moved backwards: %d after %d", after, before)
	}
	if after == 0 {
		fail("index 0 returned (0 is reserved for immediate reads)")
	}
	// "every state change made through the tracking lock advances the index"
	if w.last == "unlock" && !w.terminated && !(after > before) {
		fail("TrackingLock.Unlock did not advance the index: %d -> %d", before, after)
	}
	if w.last == "terminate" {
		w.terminated = true
	}
	changed := (w.last == "notify" || w.last == "unlock") && !w.terminated
	for _, x := range w.waits {
		if x.returned {
			continue
		}
		select {
		case x.res = <-x.out:
			x.returned = true
		default:
		}
		fresh := x == w.lastArg && strings.HasPrefix(w.last, "wait-")
		cancelled := x == w.lastArg && strings.HasPrefix(w.last, "cancel-")
		st := "pending"
		if x.returned {
			st = fmt.Sprintf("%d/%s", x.res.idx, errName(x.res.err))
			w.kinds[x.class+":"+errName(x.res.err)] = true
			if x.age > 0 {
				w.pendingCompleted++
			}
		}
		obs = append(obs, fmt.Sprintf("w%d(%s,%d)=%s", x.id, x.class, x.prev, st))
		if x.returned {
			// Every returned index lies between the reads before and after.
			if x.res.idx < before || x.res.idx > after {
				fail("wait %d returned index %d outside [%d,%d]", x.id, x.res.idx, before, after)
			}
			if x.res.idx < w.maxSeen {
				fail("wait %d returned index %d after %d had been returned", x.id, x.res.idx, w.maxSeen)
			}
		}
		switch {
		case fresh && x.class == "term":
			if !x.returned || x.res.err != state.ErrTrackingTerminated {
				fail("wait started after termination: %s (want prompt ErrTrackingTerminated)", st)
			}
		case fresh && x.class == "zero":
			if !x.returned || x.res.err != nil {
				fail("wait with previous index 0: %s (want prompt return of the current index)", st)
			}
		case fresh && x.class == "stale":
			// "returns promptly if the state has already changed"
			if !x.returned || x.res.err != nil || x.res.idx == x.prev {
				fail("wait with stale index %d (current %d): %s (want prompt return of a newer index)", x.prev, before, st)
			}
		case fresh && x.class == "ahead":
			// "returns promptly if the state has already changed": the index
			// differs from the current one, in whichever direction.
			if !x.returned || x.res.err != nil || x.res.idx == x.prev {
				fail("wait with index %d, which differs from the current index %d: %s (want prompt return of the current index)", x.prev, before, st)
			}
		case fresh && x.class == "cur":
			// "otherwise returns after the next change ..." and not before.
			if x.returned {
				fail("wait with the current index %d returned %s without any change", x.prev, st)
			}
		case cancelled:
			if !x.returned || x.res.err != context.Canceled {
				fail("wait %d after cancellation: %s (want context.Canceled)", x.id, st)
			}
		case w.last == "terminate":
			if !x.returned || x.res.err != state.ErrTrackingTerminated {
				fail("pending wait %d after Terminate: %s (want ErrTrackingTerminated)", x.id, st)
			}
		case changed:
			// no missed update
			if !x.returned || x.res.err != nil || x.res.idx == x.prev {
				fail("pending wait %d (index %d) after %s: %s (want return with a newer index)", x.id, x.prev, w.last, st)
			}
		default:
			if x.returned {
				fail("pending wait %d returned %s after %s, which is no change/termination/cancellation of it", x.id, st, w.last)
			}
		}
		if !x.returned {
			x.age++
		}
	}
	for _, x := range w.waits {
		if x.returned && x.res.idx > w.maxSeen {
			w.maxSeen = x.res.idx
		}
	}
	if after > w.maxSeen {
		w.maxSeen = after
	}
	w.cur = after
	return strings.Join(obs, " "), viol
}

func (w *c30world) close() {
	for _, x := range w.pending() {
		x.cancel()
	}
	go w.tr.Terminate()
}

// c30caseFile is the replay artefact of either stage.
type c30caseFile struct {
	Stage  string   `json:"stage"` // "bubble" or "vsched"
	Events []string `json:"events,omitempty"`
	VS     *vsCase  `json:"vs,omitempty"`
}

// vsCase identifies one E-vsched execution: scenario name + choice vector.
type vsCase struct {
	Scenario string   `json:"scenario"`
	Choices  []int    `json:"choices"`
	Trace    []string `json:"trace,omitempty"`
}

// replayBubbleEvents re-executes a recorded event sequence by name.
func replayBubbleEvents(t *testing.T, mk func() world, events []string) bubbleRun {
	var res bubbleRun
	res.TeardownHang = inBubble(t, func(t *testing.T) {
		w := mk()
		defer func() { w.close(); synctest.Wait() }()
		synctest.Wait()
		if o, v := w.observe(); v != "" {
			res.Obs = append(res.Obs, o)
			res.Violation = v
			return
		}
		for i, ev := range events {
			ok := false
			for _, m := range w.menu() {
				if m == ev {
					ok = true
				}
			}
			if !ok {
				res.Violation = ""
				res.Obs = append(res.Obs, "event "+ev+" not enabled")
				return
			}
			res.Events = append(res.Events, ev)
			w.do(ev)
			synctest.Wait()
			o, v := w.observe()
			res.Obs = append(res.Obs, o)
			if v != "" {
				res.Violation, res.ViolAt = v, i+1
				return
			}
		}
	})
	return res
}

func TestC30(t *testing.T) {
	r := vr.New(t, "C30", "exploration")
	defer r.Finish()
	if raw := vr.ReplayCase(); raw != nil {
		var c c30caseFile
		json.Unmarshal(raw, &c)
		key := vr.J(c)
		if c.Stage == "vsched" {
			what := vschedReplay(t, "C30", c.VS)
			r.Case(key, true)
			if what != "" {
				r.Violate(vsKey("C30", c.VS), what, c, nil)
			}
			return
		}
		run := replayBubbleEvents(t, newC30ReplayWorld, c.Events)
		for i, o := range run.Obs {
			ev := "init"
			if i > 0 && i-1 < len(run.Events) {
				ev = run.Events[i-1]
			}
			t.Logf("%-16s -> %s", ev, o)
		}
		t.Logf("verdict: %q", run.Violation)
		r.Case(key, true)
		if run.Violation != "" {
			r.Violate("bubble:"+strings.Join(c.Events, ","), run.Violation, c, nil)
		}
		return
	}

	race := startRacePass("C30")
	defer race.join(r)
	depth := 6
	if vr.Thorough() {
		depth = 7
	}
	deadline := vr.Deadline(25*time.Second, 150*time.Second)
	if os.Getenv("VERIF_SKIP_BUBBLE") != "" { // development aid only
		depth = 1
	}
	var bubbleSamples sampleBudget
	visit := func(run *bubbleRun) {
		key := strings.Join(run.Events, ",")
		nt := false
		for _, o := range run.Obs {
			if strings.Contains(o, "=pending") {
				nt = true
			}
		}
		r.Case(key, nt)
		if len(run.Events) == depth && nt && strings.Contains(key, "terminate") && bubbleSamples.take(2) {
			r.Sample(map[string]interface{}{"stage": "bubble", "events": run.Events, "obs": run.Obs})
		}
		classes := map[string]bool{}
		for _, o := range run.Obs {
			for _, f := range strings.Fields(o) {
				if i := strings.Index(f, ")="); i > 0 && strings.HasPrefix(f, "w") {
					cl := f[strings.Index(f, "(")+1 : strings.Index(f, ",")]
					resu := f[i+2:]
					if j := strings.Index(resu, "/"); j >= 0 {
						resu = resu[j+1:]
					}
					classes[cl+":"+resu] = true
				}
			}
		}
		for c := range classes {
			r.Outcome("bubble " + c)
		}
		if run.Violation != "" {
			evs := append([]string{}, run.Events...)
			c := c30caseFile{Stage: "bubble", Events: evs}
			r.Violate("bubble:"+key, run.Violation, c, func() bool {
				return replayBubbleEvents(t, newC30ReplayWorld, evs).Violation != ""
			})
		}
	}
	// Ahead leg first (small): waits whose index is ahead of the current one.
	aheadDepth := 5
	if vr.Thorough() {
		aheadDepth = 6
	}
	if os.Getenv("VERIF_SKIP_BUBBLE") != "" {
		aheadDepth = 1
	}
	ah := exploreBubble(t, newC30AheadWorld, aheadDepth, deadline, visit)
	st := exploreBubble(t, newC30World, depth, deadline, visit)
	r.Set("bubble_sequences", st.Sequences+ah.Sequences)
	r.Set("bubble_events", st.Events+ah.Events)
	r.Set("bubble_depth", depth)
	r.Set("bubble_ahead_leg_depth", aheadDepth)
	r.Set("bubble_ahead_leg_sequences", ah.Sequences)
	r.Set("divergent_replays", st.Divergent+ah.Divergent)
	r.Set("bubble_teardown_hangs", st.Hangs+ah.Hangs)
	if ah.Capped {
		notExhaustive(r, fmt.Sprintf("E-bubble ahead leg stopped by its time budget after %d sequences of depth %d", ah.Sequences, aheadDepth))
	}
	if st.Capped {
		notExhaustive(r, fmt.Sprintf("E-bubble stage stopped by its time budget after %d sequences of depth %d", st.Sequences, depth))
	}

	// Stage 2: interleavings inside the calls, on the rewritten package.
	vs := vschedC30(t, r)
	rule := fmt.Sprintf("stage 1 (E-bubble, unmodified pkg/state): every sequence of <= %d harness events over {notify, TrackingLock unlock with/without notify, wait(current), wait(stale), wait(0), cancel oldest/newest pending wait, terminate}, <= 2 waits pending, each event followed by quiescence (synctest.Wait) and an immediate-read probe; each sequence executed twice. Ahead leg: every sequence of <= %d events over {notify, wait(current), wait(current+1), wait(current+1000), wait(MaxUint64), cancel, terminate}: a wait whose index differs from the current one in EITHER direction must return promptly. Non-trivial = at some quiescence a wait was pending; distinct by event sequence.", depth, aheadDepth)
	if vs != "" {
		rule += " " + vs
	} else {
		rule += " stage 2 (E-vsched) NOT RUN: the test binary was built without the rewriting overlay, so preemptions inside a call were not explored."
		notExhaustive(r, "interleaving dimension: only API-call starts/completions at quiescence granularity (E-bubble); E-vsched overlay not in effect")
	}
	r.Rule(rule)
	r.Assume("one tracker, at most 2 waits pending at a time, at most "+fmt.Sprint(depth)+" events (stage 1)",
		"index overflow (2^64 notifications) is outside the bound",
		"after Terminate, Unlock/NotifyOfChange are not required to advance the index (the tracker documents them as no-ops)")
}
