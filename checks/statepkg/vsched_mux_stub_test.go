//go:build verif && !vsmux

package statepkg

// Replaced by an empty file through the overlay written by ./PREBUILD for
// C23-C25; then vsched_mux_test.go provides these tests.

import "testing"

func muxLegNeedsOverlay(t *testing.T) {
	t.Fatalf("INFRA: the E-vsched legs of C23-C25 need the rewriting overlay (run through bin/check, which executes checks/statepkg/PREBUILD)")
}

func TestC23Vsched(t *testing.T) { muxLegNeedsOverlay(t) }
func TestC24Vsched(t *testing.T) { muxLegNeedsOverlay(t) }
func TestC25Vsched(t *testing.T) { muxLegNeedsOverlay(t) }
