//go:build verif

package session

import (
	"context"
	"encoding/json"
	"fmt"
	"os"
	"path/filepath"
	"sort"
	"strings"
	"testing"
	"testing/synctest"
	"time"

	"github.com/mutagen-io/mutagen/pkg/synchronization"
	"github.com/mutagen-io/mutagen/pkg/synchronization/core"

	"verif/internal/vr"
)

// ---------------------------------------------------------------------------
// C11: root deletion, root type change and one-sided emptying halt the session.
//
// Core leg: every (ancestor, alpha, beta) triple of small root shapes x every
// synchronization mode is put through the REAL controller: the session is
// created over scripted endpoints whose first scan returns the ancestor on
// both sides (cycle 1 makes it the ancestor) and whose second scan returns
// (alpha, beta); what the controller then does (status, Stage/Transition calls
// and their arguments) is judged by an oracle written from the property text.
//
// Session leg: real sessions over two real local roots (force-poll); histories
// of external edits, root deletions, root replacement by a file, root
// emptying, flush, virtual-time advance and pause/resume.
// ---------------------------------------------------------------------------

var c11Modes = map[string]core.SynchronizationMode{
	"two-way-safe":     core.SynchronizationMode_SynchronizationModeTwoWaySafe,
	"two-way-resolved": core.SynchronizationMode_SynchronizationModeTwoWayResolved,
	"one-way-safe":     core.SynchronizationMode_SynchronizationModeOneWaySafe,
	"one-way-replica":  core.SynchronizationMode_SynchronizationModeOneWayReplica,
}

var c11ModeOrder = []string{"two-way-safe", "two-way-resolved", "one-way-safe", "one-way-replica"}

// propagates reports whether changes made on side x flow to the other side in
// the given mode (one-way modes only carry alpha's changes to beta).
func c11Propagates(mode, x string) bool {
	if strings.HasPrefix(mode, "two-way") {
		return true
	}
	return x == "alpha"
}

// ---- shapes ----

type c11Shape struct {
	Name string
	E    *core.Entry
}

func c11File(content string) *core.Entry {
	return &core.Entry{Kind: core.EntryKind_File, Digest: sha1Of(content)}
}

// c11Shapes generates the root-shape universe: absent root, file roots, a
// symbolic-link root, and directory roots over names a,b,c whose entries are
// absent / file "1" / file "2". Quick keeps the directories with only "1"
// files plus two modified ones; thorough takes all 27.
func c11Shapes(thorough bool) []c11Shape {
	out := []c11Shape{
		{"nil", nil},
		{"F1", c11File("1")},
		{"F2", c11File("2")},
		{"L", &core.Entry{Kind: core.EntryKind_SymbolicLink, Target: "x"}},
	}
	names := []string{"a", "b", "c"}
	var rec func(i int, cur map[string]string)
	rec = func(i int, cur map[string]string) {
		if i == len(names) {
			modified := 0
			for _, v := range cur {
				if v == "2" {
					modified++
				}
			}
			if !thorough && modified > 0 {
				// quick: only D{a2} and D{a2,b1}
				if !(cur["a"] == "2" && cur["c"] == "" && (cur["b"] == "" || cur["b"] == "1")) {
					return
				}
			}
			e := &core.Entry{Kind: core.EntryKind_Directory}
			var parts []string
			for _, n := range names {
				if v := cur[n]; v != "" {
					if e.Contents == nil {
						e.Contents = map[string]*core.Entry{}
					}
					e.Contents[n] = c11File(v)
					parts = append(parts, n+v)
				}
			}
			out = append(out, c11Shape{"D{" + strings.Join(parts, ",") + "}", e})
			return
		}
		for _, v := range []string{"", "1", "2"} {
			next := map[string]string{}
			for k, x := range cur {
				next[k] = x
			}
			if v != "" {
				next[names[i]] = v
			}
			rec(i+1, next)
		}
	}
	rec(0, map[string]string{})
	return out
}

func c11Kind(e *core.Entry) string {
	if e == nil {
		return "nil"
	}
	switch e.Kind {
	case core.EntryKind_Directory:
		return "dir"
	case core.EntryKind_File:
		return "file"
	case core.EntryKind_SymbolicLink:
		return "link"
	}
	return e.Kind.String()
}

func c11Same(x, y *core.Entry) bool { return flatEqual(flatEntry(x), flatEntry(y)) }

// ---- core leg ----

type c11CoreCase struct {
	Leg   string `json:"leg"` // "core"
	A     string `json:"ancestor"`
	Alpha string `json:"alpha"`
	Beta  string `json:"beta"`
	Mode  string `json:"mode"`
}

func (c c11CoreCase) key() string { return "core:" + c.Mode + ":" + c.A + "|" + c.Alpha + "|" + c.Beta }

type c11Verdict struct {
	Infra      string
	Viol       string // "" or clause name
	What       string
	Nontrivial bool
	Outcome    string
	Obs        []string
}

// c11Observed is what the controller did in the decisive cycle.
type c11Observed struct {
	Status synchronization.Status
	Trans  map[string][]*core.Change // per side: the transitions handed to Transition (nil if none)
	Staged map[string]bool           // per side: Stage was called
}

// c11CoreOracle judges one triple. It is written from the property text:
//
//	"A session never propagates the deletion of a synchronization root, a
//	 change of a root's type, or the emptying of a root that previously held at
//	 least two entries on only one side. It stops in a halted state, changes
//	 neither endpoint ..."
func c11CoreOracle(A, alpha, beta *core.Entry, mode string, o c11Observed) (clause, what string, nontrivial bool, class string) {
	sides := map[string]*core.Entry{"alpha": alpha, "beta": beta}
	anyCall := len(o.Trans["alpha"]) > 0 || len(o.Trans["beta"]) > 0 || o.Staged["alpha"] || o.Staged["beta"]
	fail := func(c, w string) {
		if clause == "" {
			clause, what = c, w
		}
	}
	var classes []string
	for _, pair := range [][2]string{{"alpha", "beta"}, {"beta", "alpha"}} {
		xn, yn := pair[0], pair[1]
		X, Y := sides[xn], sides[yn]
		ty := o.Trans[yn]
		pure := c11Same(Y, A) && c11Propagates(mode, xn)
		// (1) deletion of a synchronization root: the root existed when last
		// synchronized (A != nil), X's is gone, Y's is still there.
		if A != nil && X == nil && Y != nil {
			nontrivial = true
			classes = append(classes, "deleted-"+xn)
			for _, ch := range ty {
				if ch.Path == "" && ch.New == nil {
					fail("propagated-root-deletion", fmt.Sprintf("%s's root was deleted and the controller asked %s to delete its root (%s)", xn, yn, summarizeChanges(ty)))
				}
			}
			if pure {
				classes = append(classes, "must-halt")
				if o.Status != synchronization.Status_HaltedOnRootDeletion {
					fail("not-halted", fmt.Sprintf("%s's root was deleted, %s is unchanged since the last synchronization, yet the status is %v instead of halted on root deletion", xn, yn, o.Status))
				}
			}
		}
		// (2) change of a root's type: X's root kind differs from the kind
		// that was synchronized.
		if A != nil && X != nil && c11Kind(X) != c11Kind(A) {
			nontrivial = true
			classes = append(classes, "retyped-"+xn)
			if Y != nil {
				for _, ch := range ty {
					if ch.Path == "" && ch.New != nil && c11Kind(ch.New) != c11Kind(Y) {
						fail("propagated-root-type-change", fmt.Sprintf("%s's root changed from %s to %s and the controller asked %s to replace its %s root by a %s (%s)",
							xn, c11Kind(A), c11Kind(X), yn, c11Kind(Y), c11Kind(ch.New), summarizeChanges(ty)))
					}
				}
			}
			if pure {
				classes = append(classes, "must-halt")
				if o.Status != synchronization.Status_HaltedOnRootTypeChange {
					fail("not-halted", fmt.Sprintf("%s's root changed type (%s to %s), %s is unchanged since the last synchronization, yet the status is %v instead of halted on root type change",
						xn, c11Kind(A), c11Kind(X), yn, o.Status))
				}
			}
		}
		// (3) one-sided emptying of a root that held at least two entries.
		if c11Kind(A) == "dir" && len(A.Contents) >= 2 && c11Kind(X) == "dir" && len(X.Contents) == 0 && c11Kind(Y) == "dir" && len(Y.Contents) > 0 {
			nontrivial = true
			classes = append(classes, "emptied-"+xn)
			if len(ty) > 0 || o.Staged[yn] {
				fail("propagated-emptying", fmt.Sprintf("%s's root (previously %d entries) was emptied on one side only and the controller changed %s (%s)", xn, len(A.Contents), yn, summarizeChanges(ty)))
			}
			if pure {
				classes = append(classes, "must-halt")
				if o.Status != synchronization.Status_HaltedOnRootEmptied {
					fail("not-halted", fmt.Sprintf("%s's root (previously %d entries) was emptied, %s is unchanged, yet the status is %v instead of halted on root emptied", xn, len(A.Contents), yn, o.Status))
				}
			}
		}
	}
	// "It stops in a halted state, changes neither endpoint".
	if isHalted(o.Status) && anyCall {
		fail("halted-but-changed", fmt.Sprintf("status %v but the same cycle staged/transitioned (alpha: %s; beta: %s)", o.Status, summarizeChanges(o.Trans["alpha"]), summarizeChanges(o.Trans["beta"])))
	}
	sort.Strings(classes)
	class = o.Status.String() + ":" + strings.Join(classes, "+")
	return
}

// runC11Core executes one triple in a fresh bubble against the real controller.
func runC11Core(t *testing.T, base string, c c11CoreCase, shapes map[string]*core.Entry, verbose func(string, ...any)) *c11Verdict {
	v := &c11Verdict{}
	A, alpha, beta := shapes[c.A], shapes[c.Alpha], shapes[c.Beta]
	synctest.Test(t, func(t *testing.T) {
		w, err := newSessWorld(base, c11Modes[c.Mode], verbose)
		if err != nil {
			v.Infra = err.Error()
			return
		}
		defer func() {
			w.teardown()
			if w.infra != "" && v.Infra == "" {
				v.Infra = w.infra
			}
		}()
		w.script["alpha"] = &scriptedSide{scans: []*core.Entry{A, alpha}, poke: make(chan struct{}, 1)}
		w.script["beta"] = &scriptedSide{scans: []*core.Entry{A, beta}, poke: make(chan struct{}, 1)}
		if err := w.newManager(); err != nil {
			v.Infra = err.Error()
			return
		}
		call := w.create(false)
		synctest.Wait()
		w.collect()
		if !call.returned || call.Err != nil {
			v.Infra = fmt.Sprintf("create: returned=%v err=%v", call.returned, call.Err)
			return
		}
		st, err := w.state()
		if err != nil || st == nil {
			v.Infra = fmt.Sprintf("list: %v", err)
			return
		}
		if st.SuccessfulCycles != 1 || st.Status != synchronization.Status_Watching {
			v.Infra = fmt.Sprintf("priming cycle: cycles=%d status=%v lastError=%q", st.SuccessfulCycles, st.Status, st.LastError)
			return
		}
		mark := w.curSeq()
		// Decisive cycle: make alpha's Poll return; both sides now scan as (alpha, beta).
		w.script["alpha"].poke <- struct{}{}
		synctest.Wait()
		st, err = w.state()
		if err != nil || st == nil {
			v.Infra = fmt.Sprintf("list: %v", err)
			return
		}
		obs := c11Observed{Status: st.Status, Trans: map[string][]*core.Change{}, Staged: map[string]bool{}}
		w.mu.Lock()
		for side, lists := range w.transArgs {
			for _, l := range lists {
				if l.seq > mark {
					obs.Trans[side] = append(obs.Trans[side], l.changes...)
				}
			}
		}
		w.mu.Unlock()
		for _, e := range w.journalSince(mark) {
			if e.Op == "Stage" && e.Phase == "begin" {
				obs.Staged[e.Side] = true
			}
		}
		clause, what, nt, class := c11CoreOracle(A, alpha, beta, c.Mode, obs)
		v.Viol, v.What, v.Nontrivial, v.Outcome = clause, what, nt, class
		if verbose != nil {
			verbose("core %s: status=%v alphaT=[%s] betaT=[%s] verdict=%q %s", c.key(), st.Status, summarizeChanges(obs.Trans["alpha"]), summarizeChanges(obs.Trans["beta"]), clause, what)
		}
	})
	return v
}

// ---- session leg ----

type c11SessCase struct {
	Leg    string   `json:"leg"` // "session"
	Mode   string   `json:"mode"`
	Events []string `json:"events"`
}

func (c c11SessCase) key() string { return "session:" + c.Mode + ":" + strings.Join(c.Events, ",") }

var c11SessEvents = []string{
	"edit.alpha", "edit.beta", "delroot.alpha", "delroot.beta", "fileroot.alpha", "fileroot.beta",
	"empty.alpha", "empty.beta", "flush", "adv2s", "pauseresume",
}

type c11Offence struct {
	side, kind string
	synced     bool // the roots were equal and the session idle right before it
}

type c11Sess struct {
	w                 *sessWorld
	mode              string
	v                 *c11Verdict
	rootKind          map[string]string // harness model: "dir" | "file" | "absent"
	offended          map[string]bool
	frozen            map[string]map[string]string // per side: the tree the harness left (checked once the other side offended)
	offences          []c11Offence
	editsAfterOffence bool
	void              bool // content was put back into an emptied root: the "other side untouched" bookkeeping no longer applies
	nedit             int
	tags              map[string]bool
}

func (s *c11Sess) root(side string) string {
	if side == "alpha" {
		return s.w.alphaRoot
	}
	return s.w.betaRoot
}

func other(side string) string {
	if side == "alpha" {
		return "beta"
	}
	return "alpha"
}

func (s *c11Sess) obs(format string, args ...any) {
	line := fmt.Sprintf("@%v ", s.w.now()) + fmt.Sprintf(format, args...)
	s.v.Obs = append(s.v.Obs, line)
	s.w.logf("%s", line)
}

func (s *c11Sess) violate(clause, what string) {
	if s.v.Viol == "" {
		s.v.Viol, s.v.What = clause, what
		s.obs("VIOLATION[%s] %s", clause, what)
	}
}

func (s *c11Sess) enabled() []string {
	var out []string
	for _, ev := range c11SessEvents {
		op, side, _ := strings.Cut(ev, ".")
		ok := true
		switch op {
		case "edit":
			ok = s.rootKind[side] == "dir"
		case "delroot":
			ok = s.rootKind[side] != "absent"
		case "fileroot":
			ok = s.rootKind[side] == "dir"
		case "empty":
			ok = s.rootKind[side] == "dir" && len(flatDisk(s.root(side))) > 1
		case "flush":
			ok = len(s.w.pending()) == 0
		}
		if ok {
			out = append(out, ev)
		}
	}
	return out
}

func (s *c11Sess) status() synchronization.Status {
	st, err := s.w.state()
	if err != nil || st == nil {
		s.v.Infra = fmt.Sprintf("list: %v", err)
		return synchronization.Status_Disconnected
	}
	return st.Status
}

func (s *c11Sess) offend(side, kind string) {
	st := s.status()
	synced := flatEqual(flatDisk(s.w.alphaRoot), flatDisk(s.w.betaRoot)) && st == synchronization.Status_Watching && len(s.w.pending()) == 0
	if len(s.offences) > 0 {
		s.editsAfterOffence = true
	}
	s.offences = append(s.offences, c11Offence{side, kind, synced})
	s.v.Nontrivial = true
	s.tags[kind] = true
	y := other(side)
	if !s.offended[side] && !s.offended[y] && !s.void {
		// From now on the session must leave y exactly as the harness leaves it.
		s.frozen[y] = flatDisk(s.root(y))
	}
	s.offended[side] = true
	delete(s.frozen, side)
}

func (s *c11Sess) do(ev string) {
	op, side, _ := strings.Cut(ev, ".")
	w := s.w
	switch op {
	case "edit":
		s.nedit++
		p := filepath.Join(s.root(side), "a")
		os.WriteFile(p, []byte(fmt.Sprintf("edit-%d-%s", s.nedit, side)), 0o600)
		w.st.stamp(p)
		if len(s.offences) > 0 {
			s.editsAfterOffence = true
		}
		if s.offended[side] {
			// The user put content back into a root he had emptied: that root is
			// no longer "emptied on one side", ordinary synchronization may
			// resume (after the halt, if any, is lifted) and the harness stops
			// demanding that the other side stays untouched.
			s.frozen = map[string]map[string]string{}
			s.void = true
		}
		if s.frozen[side] != nil {
			s.frozen[side] = flatDisk(s.root(side))
		}
	case "delroot":
		s.offend(side, "delroot")
		os.RemoveAll(s.root(side))
		s.rootKind[side] = "absent"
	case "fileroot":
		s.offend(side, "fileroot")
		os.RemoveAll(s.root(side))
		os.WriteFile(s.root(side), []byte("now a file"), 0o600)
		w.st.stamp(s.root(side))
		s.rootKind[side] = "file"
	case "empty":
		s.offend(side, "empty")
		entries, _ := os.ReadDir(s.root(side))
		for _, e := range entries {
			os.RemoveAll(filepath.Join(s.root(side), e.Name()))
		}
		w.st.stamp(s.root(side))
	case "flush":
		w.call("flush", func() error { return w.mgr.Flush(context.Background(), w.sel(), "", false) })
	case "adv2s":
		time.Sleep(2 * time.Second)
	case "pauseresume":
		w.call("pause", func() error { return w.mgr.Pause(context.Background(), w.sel(), "") })
		synctest.Wait()
		w.collect()
		w.call("resume", func() error { return w.mgr.Resume(context.Background(), w.sel(), "") })
	default:
		s.v.Infra = "unknown event " + ev
	}
	if op != "adv2s" {
		s.obs("%s", ev)
	}
}

// check runs the invariants that must hold at every quiescent point.
func (s *c11Sess) check() synchronization.Status {
	for _, c := range s.w.collect() {
		s.obs("%s returned %s", c.Name, errString(c.Err))
	}
	st := s.status()
	// "never propagates ...", "changes neither endpoint": once one side has
	// suffered a root deletion / type change / emptying and the other has not,
	// the other side's tree stays exactly as the harness left it.
	for side, want := range s.frozen {
		if s.offended[side] {
			continue
		}
		if got := flatDisk(s.root(side)); !flatEqual(got, want) {
			s.violate("endpoint-changed", fmt.Sprintf("after %v on %s the session changed %s: it was [%s], now [%s] (status %v)",
				s.offenceList(), other(side), side, flatString(want), flatString(got), st))
		}
	}
	// A halted session has shut its endpoints down in the cycle that halted:
	// no Stage/Transition after the last Scan began.
	if isHalted(st) {
		j := s.w.journalSince(0)
		last := -1
		for i, e := range j {
			if e.Op == "Scan" && e.Phase == "begin" {
				last = i
			}
		}
		for i := last + 1; last >= 0 && i < len(j); i++ {
			if j[i].Op == "Stage" || j[i].Op == "Transition" || j[i].Op == "Supply" {
				s.violate("halted-but-changed", fmt.Sprintf("status %v, yet the journal shows %s after the offending scan", st, j[i]))
			}
		}
	}
	return st
}

func (s *c11Sess) offenceList() string {
	var parts []string
	for _, o := range s.offences {
		parts = append(parts, o.kind+"."+o.side)
	}
	return strings.Join(parts, ",")
}

// closing: let the session react, then demand what the property demands.
func (s *c11Sess) closing() {
	if s.v.Viol != "" || s.v.Infra != "" {
		return
	}
	time.Sleep(3 * time.Second)
	synctest.Wait()
	st := s.check()
	s.obs("closing status %v", st)
	// "It stops in a halted state": demanded when exactly one offence was
	// committed on a side whose changes propagate, on a fully synchronized and
	// idle session, and nothing else was edited since - then the other side is
	// unchanged since the last synchronization and propagation is the only
	// alternative to halting.
	if len(s.offences) == 1 && s.offences[0].synced && !s.editsAfterOffence && c11Propagates(s.mode, s.offences[0].side) {
		s.tags["must-halt"] = true
		want := map[string]synchronization.Status{
			"delroot":  synchronization.Status_HaltedOnRootDeletion,
			"fileroot": synchronization.Status_HaltedOnRootTypeChange,
			"empty":    synchronization.Status_HaltedOnRootEmptied,
		}[s.offences[0].kind]
		if st != want {
			s.violate("not-halted", fmt.Sprintf("after %s.%s on a synchronized session (mode %s) the status is %v, not %v", s.offences[0].kind, s.offences[0].side, s.mode, st, want))
			return
		}
	}
	if s.v.Viol != "" || !isHalted(st) {
		return
	}
	// "stays halted until the user intervenes": ten virtual minutes and a
	// flush attempt later it is still halted, nothing was scanned, staged or
	// transitioned, and both roots are as they were.
	s.tags["halted"] = true
	mark := s.w.curSeq()
	ra, rb := flatDisk(s.w.alphaRoot), flatDisk(s.w.betaRoot)
	time.Sleep(10 * time.Minute)
	synctest.Wait()
	w := s.w
	fl := w.call("flush", func() error { return w.mgr.Flush(context.Background(), w.sel(), "", false) })
	synctest.Wait()
	w.collect()
	if fl.returned && fl.Err == nil {
		s.violate("left-halted-state", "a waiting flush on the halted session returned success (a synchronization cycle completed)")
	}
	time.Sleep(5 * time.Second)
	synctest.Wait()
	if st2 := s.status(); st2 != st {
		s.violate("left-halted-state", fmt.Sprintf("halted with %v, but after 10 virtual minutes and a flush attempt the status is %v", st, st2))
	}
	for _, e := range s.w.journalSince(mark) {
		if e.Op != "Shutdown" {
			s.violate("left-halted-state", fmt.Sprintf("endpoint activity while halted: %s", e))
			break
		}
	}
	if !flatEqual(ra, flatDisk(s.w.alphaRoot)) || !flatEqual(rb, flatDisk(s.w.betaRoot)) {
		s.violate("endpoint-changed", fmt.Sprintf("a root changed while the session was halted: alpha [%s] -> [%s], beta [%s] -> [%s]",
			flatString(ra), flatString(flatDisk(s.w.alphaRoot)), flatString(rb), flatString(flatDisk(s.w.betaRoot))))
	}
}

// runC11Sess executes one history in a fresh bubble; it returns the verdict and
// the events enabled after the history.
func runC11Sess(t *testing.T, base string, c c11SessCase, verbose func(string, ...any)) (*c11Verdict, []string) {
	v := &c11Verdict{}
	var enabled []string
	synctest.Test(t, func(t *testing.T) {
		w, err := newSessWorld(base, c11Modes[c.Mode], verbose)
		if err != nil {
			v.Infra = err.Error()
			return
		}
		defer func() {
			w.teardown()
			if w.infra != "" && v.Infra == "" {
				v.Infra = w.infra
			}
		}()
		for _, root := range []string{w.alphaRoot, w.betaRoot} {
			for name, content := range map[string]string{"a": "A-initial", "b": "B-initial"} {
				p := filepath.Join(root, name)
				os.WriteFile(p, []byte(content), 0o600)
				w.st.stamp(p)
			}
			w.st.stamp(root)
		}
		if err := w.newManager(); err != nil {
			v.Infra = err.Error()
			return
		}
		call := w.create(false)
		synctest.Wait()
		w.collect()
		if !call.returned || call.Err != nil {
			v.Infra = fmt.Sprintf("create: returned=%v err=%v", call.returned, call.Err)
			return
		}
		s := &c11Sess{w: w, mode: c.Mode, v: v,
			rootKind: map[string]string{"alpha": "dir", "beta": "dir"},
			offended: map[string]bool{}, frozen: map[string]map[string]string{}, tags: map[string]bool{}}
		if st, err := w.state(); err != nil || st == nil || st.SuccessfulCycles < 1 || st.Status != synchronization.Status_Watching {
			v.Infra = fmt.Sprintf("priming cycle did not complete: %v %v", st, err)
			return
		}
		for _, ev := range c.Events {
			ok := false
			for _, e := range s.enabled() {
				if e == ev {
					ok = true
				}
			}
			if !ok {
				v.Infra = "event not enabled: " + ev
				return
			}
			w.logf("--- event %s", ev)
			s.do(ev)
			synctest.Wait()
			st := s.check()
			s.obs("after %s: status %v alpha[%s] beta[%s]", ev, st, flatString(flatDisk(w.alphaRoot)), flatString(flatDisk(w.betaRoot)))
			if v.Infra != "" || v.Viol != "" {
				return
			}
		}
		enabled = s.enabled()
		s.closing()
		tags := []string{}
		for k := range s.tags {
			tags = append(tags, k)
		}
		sort.Strings(tags)
		v.Outcome = strings.Join(tags, "+")
		if v.Outcome == "" {
			v.Outcome = "benign"
		}
	})
	return v, enabled
}

// ---- workers ----

func c11ShapeMap(thorough bool) (map[string]*core.Entry, []string) {
	m := map[string]*core.Entry{}
	var names []string
	for _, s := range c11Shapes(thorough) {
		m[s.Name] = s.E
		names = append(names, s.Name)
	}
	return m, names
}

func init() {
	workerFuncs["C11/core"] = c11CoreWorker
	workerFuncs["C11/session"] = c11SessWorker
	workerFuncs["C11/replay"] = c11ReplayWorker
}

func c11CoreWorker(t *testing.T, job *swJob, out *swOutput) {
	base := scratchDir(t)
	shapes, names := c11ShapeMap(job.Thorough)
	idx := 0
	for _, mode := range c11ModeOrder {
		for _, a := range names {
			for _, al := range names {
				for _, be := range names {
					idx++
					if idx%job.Shards != job.Shard {
						continue
					}
					if time.Now().Unix() > job.Deadline {
						out.Capped = true
						return
					}
					c := c11CoreCase{"core", a, al, be, mode}
					v := runC11Core(t, base, c, shapes, nil)
					out.Executions++
					if v.Infra != "" {
						out.Infra = c.key() + ": " + v.Infra
						return
					}
					out.addCase(c.key(), v.Nontrivial, v.Outcome)
					if v.Viol != "" {
						out.violate(v.Viol+"|"+c.key(), v.What, c)
					}
				}
			}
		}
	}
}

func c11SessWorker(t *testing.T, job *swJob, out *swOutput) {
	base := scratchDir(t)
	depth := 3
	if job.Thorough {
		depth = 4
	}
	modes := []string{"two-way-safe", "one-way-replica"}
	if job.Thorough {
		modes = c11ModeOrder
	}
	visit := func(c c11SessCase) []string {
		v, enabled := runC11Sess(t, base, c, nil)
		v2, _ := runC11Sess(t, base, c, nil)
		out.Executions += 2
		out.Histories++
		if v.Infra != "" {
			out.Infra = c.key() + ": " + v.Infra
			return nil
		}
		if strings.Join(v.Obs, "\n") != strings.Join(v2.Obs, "\n") || v.Viol != v2.Viol {
			out.noteDivergence(c.key(), v.Obs, v2.Obs)
		}
		if len(c.Events) > out.MaxDepth {
			out.MaxDepth = len(c.Events)
		}
		out.addCase(c.key(), v.Nontrivial, v.Outcome)
		if v.Viol != "" {
			out.violate(v.Viol+"|"+c.key(), v.What, c)
			return nil
		}
		return enabled
	}
	var dfs func(c c11SessCase)
	dfs = func(c c11SessCase) {
		if out.Infra != "" {
			return
		}
		if time.Now().Unix() > job.Deadline {
			out.Capped = true
			return
		}
		enabled := visit(c)
		if len(c.Events) >= depth {
			return
		}
		for _, ev := range enabled {
			dfs(c11SessCase{"session", c.Mode, append(append([]string{}, c.Events...), ev)})
		}
	}
	// Shards: (mode, first event) pairs, dealt round-robin; shard 0 also visits
	// the empty histories.
	idx := 0
	for _, mode := range modes {
		if job.Shard == 0 {
			visit(c11SessCase{"session", mode, nil})
		}
		for _, ev := range c11SessEvents {
			idx++
			if idx%job.Shards != job.Shard {
				continue
			}
			dfs(c11SessCase{"session", mode, []string{ev}})
		}
	}
}

// c11ReplayWorker re-runs one recorded case (used for the 5x stability re-runs).
func c11ReplayWorker(t *testing.T, job *swJob, out *swOutput) {
	key, v := c11RunRaw(t, scratchDir(t), job.Replay, nil)
	if v.Infra != "" {
		out.Infra = v.Infra
		return
	}
	out.addCase(key, v.Nontrivial, v.Outcome)
	if v.Viol != "" {
		out.violate(v.Viol+"|"+key, v.What, json.RawMessage(job.Replay))
	}
}

// c11RunRaw decodes a case of either leg and runs it once.
func c11RunRaw(t *testing.T, base string, raw json.RawMessage, verbose func(string, ...any)) (string, *c11Verdict) {
	var probe struct {
		Leg string `json:"leg"`
	}
	json.Unmarshal(raw, &probe)
	if probe.Leg == "core" {
		var c c11CoreCase
		json.Unmarshal(raw, &c)
		shapes, _ := c11ShapeMap(true)
		return c.key(), runC11Core(t, base, c, shapes, verbose)
	}
	var c c11SessCase
	json.Unmarshal(raw, &c)
	v, _ := runC11Sess(t, base, c, verbose)
	return c.key(), v
}

func TestC11(t *testing.T) {
	r := vr.New(t, "C11", "exploration")
	defer r.Finish()
	tuneGC()
	if raw := vr.ReplayCase(); raw != nil {
		key, v := c11RunRaw(t, scratchDir(t), raw, t.Logf)
		t.Logf("replay %s: infra=%q verdict=%q %s", key, v.Infra, v.Viol, v.What)
		if v.Infra != "" {
			t.Fatalf("INFRA: %s", v.Infra)
		}
		r.Case(key, v.Nontrivial)
		if v.Viol != "" {
			var c any
			json.Unmarshal(raw, &c)
			r.Violate(v.Viol+"|"+key, v.What, c, nil)
		}
		return
	}
	shapes := c11Shapes(vr.Thorough())
	depth, modes := 3, 2
	if vr.Thorough() {
		depth, modes = 4, 4
	}
	r.Rule(fmt.Sprintf("core leg: every (ancestor, alpha, beta) in a universe of %d root shapes (absent, file x2, symlink, directories over a,b,c) x 4 synchronization modes, run through the real controller over scripted endpoints (priming cycle makes the ancestor; decisive cycle sees alpha,beta); session leg: every history of <= %d events over %v on real sessions with two real local roots (force-poll), %d modes, each history replayed twice in fresh bubbles; non-trivial = the triple / history contains a root deletion, a root type change or a one-sided emptying; distinct by (leg, mode, shapes | events)",
		len(shapes), depth, c11SessEvents, modes))
	r.Assume("core leg: endpoints are scripted (scan results given, transitions always succeed); the decision logic exercised is the controller's own",
		"halting is demanded only where the offended side's changes propagate in the mode and the other side is unchanged since the last synchronization; everywhere the controller must not hand the other endpoint a root deletion / root type change / (emptying) any change",
		"session leg: local endpoints, force-poll 1 s, probe mode assume; 'stays halted' is checked across 10 virtual minutes and one waiting flush, not across user edits of the roots",
		"granularity: harness events at quiescence only")
	dir := scratchDir(t)
	deadline := scaledDeadline(50*time.Second, 9*time.Minute).Unix()
	n := vr.Workers()
	var jobs []swJob
	for i := 0; i < n; i++ {
		jobs = append(jobs, swJob{Prop: "C11", Leg: "core", Shard: i, Shards: n, Thorough: vr.Thorough(), Deadline: deadline})
	}
	for i := 0; i < n; i++ {
		jobs = append(jobs, swJob{Prop: "C11", Leg: "session", Shard: i, Shards: n, Thorough: vr.Thorough(), Deadline: deadline})
	}
	outs := runWorkers(t, dir, jobs, 20*time.Minute)
	rerun := func(v swViolation) bool {
		// The workers have exited: the parent may run bubbles of its own now.
		key, vv := c11RunRaw(t, dir, v.Case, nil)
		return vv.Infra == "" && vv.Viol+"|"+key == v.Key
	}
	tot := mergeWorkers(r, outs, rerun)
	logOutcomes(t, tot.Outcomes)
	for _, n := range tot.Notes {
		t.Log(n)
	}
	r.Set("executions", tot.Executions)
	r.Set("distinct_histories", tot.Histories)
	r.Set("depth_reached", tot.MaxDepth)
	r.Set("depth_bound", depth)
	r.Set("divergent_replays", tot.Divergent)
	r.Set("core_shapes", len(shapes))
	r.Set("core_triples_x_modes", len(shapes)*len(shapes)*len(shapes)*4)
	if tot.Capped {
		r.NotExhaustive("wall budget reached before the enumeration finished")
	} else if tot.Divergent > 0 {
		r.NotExhaustive(fmt.Sprintf("%d histories gave different observations on their second replay", tot.Divergent))
	}
	r.Sample(c11CoreCase{"core", "D{a1,b1}", "D{}", "D{a1,b1}", "two-way-safe"})
	r.Sample(c11CoreCase{"core", "D{a1}", "nil", "D{a1}", "one-way-replica"})
	r.Sample(c11SessCase{"session", "two-way-safe", []string{"edit.alpha", "adv2s", "empty.beta"}})
}
