//go:build verif

package session

import (
	"context"
	"errors"
	"fmt"
	"os"
	"path/filepath"
	"strings"
	"sync"
	"testing/synctest"
	"time"

	"github.com/mutagen-io/mutagen/pkg/filesystem/behavior"
	"github.com/mutagen-io/mutagen/pkg/logging"
	"github.com/mutagen-io/mutagen/pkg/selection"
	"github.com/mutagen-io/mutagen/pkg/synchronization"
	"github.com/mutagen-io/mutagen/pkg/synchronization/core"
	"github.com/mutagen-io/mutagen/pkg/synchronization/endpoint/local"
	"github.com/mutagen-io/mutagen/pkg/synchronization/rsync"
	urlpkg "github.com/mutagen-io/mutagen/pkg/url"
)

// ---------------------------------------------------------------------------
// Session world shared by C11 and C29: the real synchronization.Manager and
// controller, connected through a journalling protocol handler either to real
// local endpoints on two temporary roots (force-poll, 1 s interval) or to
// scripted endpoints (C11 core leg). One world lives inside one bubble; the
// handler reaches it through curWorld (one world at a time per process - the
// explorations that use it are sharded over worker processes because
// MUTAGEN_DATA_DIRECTORY is process-global).
// ---------------------------------------------------------------------------

var curWorld *sessWorld

// jEntry is one journal line: an endpoint call beginning or ending.
type jEntry struct {
	Seq   int           // global order (shared with API call/return marks)
	Epoch int           // harness step (quiescence-to-quiescence interval) in which the entry was recorded
	At    time.Duration // virtual time since world creation
	Side  string        // "alpha" | "beta"
	Inst  int           // which endpoint instance of that side (reconnects create new ones)
	Op    string        // Poll Scan Stage Supply Transition Shutdown
	Phase string        // "begin" | "end"
	Arg   string        // call detail (full flag, transition summary, ...)
}

func (e jEntry) String() string {
	return fmt.Sprintf("#%d @%v %s[%d].%s %s %s", e.Seq, e.At, e.Side, e.Inst, e.Op, e.Phase, e.Arg)
}

// apiCall is one Manager API call started by the harness in its own goroutine.
type apiCall struct {
	Name     string
	CallSeq  int
	RetSeq   int // 0 while pending
	RetEpoch int // harness step in which the call returned
	CallAt   time.Duration
	RetAt    time.Duration
	Err      error
	done     chan error
	returned bool
}

type sessWorld struct {
	data      string
	alphaRoot string
	betaRoot  string
	cfg       *synchronization.Configuration
	mgr       *synchronization.Manager
	sid       string
	t0        time.Time
	st        stamper
	verbose   func(format string, args ...any)

	mu      sync.Mutex
	epoch   int // harness step counter: incremented by the harness before every event, i.e. only at quiescence
	seq     int
	journal []jEntry
	inst    map[string]int
	calls   []*apiCall

	// Gates: a call whose "side.Op" is armed blocks (after its begin entry)
	// until the harness closes the channel.
	gateArmed map[string]bool
	// betaDown makes every Connect to beta fail (C29 "down"/"up" events);
	// restartPaused records a paused flag that a manager restart changed.
	betaDown      bool
	restartPaused string
	gateHeld  map[string]chan struct{}

	// Arguments of every Transition call, per side (for oracles that need
	// more than the journal's summary).
	transArgs map[string][]transArg

	// Scripted endpoints (C11 core leg): per side, the snapshots successive
	// Scan calls return, and the channel that makes Poll return.
	script map[string]*scriptedSide

	infra string
}

type transArg struct {
	seq     int
	changes []*core.Change
}

type scriptedSide struct {
	scans []*core.Entry // scan k returns scans[min(k, len-1)]
	nscan int
	poke  chan struct{}
}

func (w *sessWorld) now() time.Duration { return time.Since(w.t0) }

func (w *sessWorld) nextSeq() int {
	w.seq++
	return w.seq
}

func (w *sessWorld) logf(format string, args ...any) {
	if w.verbose != nil {
		w.verbose(format, args...)
	}
}

func (w *sessWorld) record(side string, inst int, op, phase, arg string) jEntry {
	w.mu.Lock()
	e := jEntry{Seq: w.nextSeq(), Epoch: w.epoch, At: w.now(), Side: side, Inst: inst, Op: op, Phase: phase, Arg: arg}
	w.journal = append(w.journal, e)
	w.mu.Unlock()
	w.logf("    journal %s", e)
	return e
}

// nextEpoch starts a new harness step. Sequence numbers of entries recorded by
// different goroutines inside one step may race with each other; step numbers
// cannot, because the harness only moves on at quiescence.
func (w *sessWorld) nextEpoch() {
	w.mu.Lock()
	w.epoch++
	w.mu.Unlock()
}

// journalSince returns a copy of the journal entries with Seq > seq.
func (w *sessWorld) journalSince(seq int) []jEntry {
	w.mu.Lock()
	defer w.mu.Unlock()
	var out []jEntry
	for _, e := range w.journal {
		if e.Seq > seq {
			out = append(out, e)
		}
	}
	return out
}

func (w *sessWorld) curSeq() int {
	w.mu.Lock()
	defer w.mu.Unlock()
	return w.seq
}

// gate blocks the calling endpoint method if the harness armed "side.Op".
func (w *sessWorld) gate(side, op string) {
	key := side + "." + op
	w.mu.Lock()
	if !w.gateArmed[key] {
		w.mu.Unlock()
		return
	}
	delete(w.gateArmed, key) // one shot
	ch := make(chan struct{})
	w.gateHeld[key] = ch
	w.mu.Unlock()
	w.logf("    gate %s holds", key)
	<-ch
}

// heldGates lists the gates currently holding a call.
func (w *sessWorld) heldGates() []string {
	w.mu.Lock()
	defer w.mu.Unlock()
	var out []string
	for k := range w.gateHeld {
		out = append(out, k)
	}
	return out
}

func (w *sessWorld) releaseGates() {
	w.mu.Lock()
	for k, ch := range w.gateHeld {
		close(ch)
		delete(w.gateHeld, k)
	}
	w.gateArmed = map[string]bool{}
	w.mu.Unlock()
}

// ---- journalling endpoint wrapper ----

type jEndpoint struct {
	w     *sessWorld
	side  string
	inst  int
	inner synchronization.Endpoint
}

func summarizeChanges(cs []*core.Change) string {
	var parts []string
	for _, c := range cs {
		p := c.Path
		if p == "" {
			p = "."
		}
		parts = append(parts, fmt.Sprintf("%s:%s->%s", p, kindOf(c.Old), kindOf(c.New)))
	}
	return strings.Join(parts, " ")
}

func kindOf(e *core.Entry) string {
	if e == nil {
		return "nil"
	}
	switch e.Kind {
	case core.EntryKind_Directory:
		return fmt.Sprintf("dir(%d)", len(e.Contents))
	case core.EntryKind_File:
		return "file"
	case core.EntryKind_SymbolicLink:
		return "link"
	}
	return e.Kind.String()
}

func (e *jEndpoint) Poll(ctx context.Context) error {
	e.w.record(e.side, e.inst, "Poll", "begin", "")
	err := e.inner.Poll(ctx)
	e.w.record(e.side, e.inst, "Poll", "end", errString(err))
	return err
}

func (e *jEndpoint) Scan(ctx context.Context, ancestor *core.Entry, full bool) (*core.Snapshot, error, bool) {
	e.w.record(e.side, e.inst, "Scan", "begin", fmt.Sprintf("full=%v", full))
	e.w.gate(e.side, "Scan")
	s, err, again := e.inner.Scan(ctx, ancestor, full)
	arg := errString(err)
	if err == nil {
		arg = "root=" + kindOf(s.Content)
	}
	e.w.record(e.side, e.inst, "Scan", "end", arg)
	return s, err, again
}

func (e *jEndpoint) Stage(paths []string, digests [][]byte) ([]string, []*rsync.Signature, rsync.Receiver, error) {
	e.w.record(e.side, e.inst, "Stage", "begin", strings.Join(paths, " "))
	e.w.gate(e.side, "Stage")
	p, s, r, err := e.inner.Stage(paths, digests)
	e.w.record(e.side, e.inst, "Stage", "end", errString(err))
	return p, s, r, err
}

func (e *jEndpoint) Supply(paths []string, signatures []*rsync.Signature, receiver rsync.Receiver) error {
	e.w.record(e.side, e.inst, "Supply", "begin", strings.Join(paths, " "))
	err := e.inner.Supply(paths, signatures, receiver)
	e.w.record(e.side, e.inst, "Supply", "end", errString(err))
	return err
}

func (e *jEndpoint) Transition(ctx context.Context, transitions []*core.Change) ([]*core.Entry, []*core.Problem, bool, error) {
	b := e.w.record(e.side, e.inst, "Transition", "begin", summarizeChanges(transitions))
	e.w.mu.Lock()
	e.w.transArgs[e.side] = append(e.w.transArgs[e.side], transArg{b.Seq, transitions})
	e.w.mu.Unlock()
	e.w.gate(e.side, "Transition")
	r, p, m, err := e.inner.Transition(ctx, transitions)
	e.w.record(e.side, e.inst, "Transition", "end", fmt.Sprintf("problems=%d %s", len(p), errString(err)))
	return r, p, m, err
}

func (e *jEndpoint) Shutdown() error {
	e.w.record(e.side, e.inst, "Shutdown", "begin", "")
	err := e.inner.Shutdown()
	e.w.record(e.side, e.inst, "Shutdown", "end", errString(err))
	return err
}

func errString(err error) string {
	if err == nil {
		return ""
	}
	return "err=" + err.Error()
}

// ---- scripted endpoint (C11 core leg) ----

type scriptedEndpoint struct {
	w    *sessWorld
	side string
	s    *scriptedSide
	// transitions received (for the oracle)
}

func (e *scriptedEndpoint) Poll(ctx context.Context) error {
	select {
	case <-ctx.Done():
	case <-e.s.poke:
	}
	return nil
}

func (e *scriptedEndpoint) Scan(ctx context.Context, _ *core.Entry, _ bool) (*core.Snapshot, error, bool) {
	k := e.s.nscan
	if k >= len(e.s.scans) {
		k = len(e.s.scans) - 1
	}
	e.s.nscan++
	content := e.s.scans[k]
	return &core.Snapshot{Content: content.Copy(core.EntryCopyBehaviorDeep), PreservesExecutability: true}, nil, false
}

func (e *scriptedEndpoint) Stage(paths []string, digests [][]byte) ([]string, []*rsync.Signature, rsync.Receiver, error) {
	// Everything is "already staged": the controller goes straight on to Transition.
	return nil, nil, nil, nil
}

func (e *scriptedEndpoint) Supply(paths []string, signatures []*rsync.Signature, receiver rsync.Receiver) error {
	return errors.New("scripted endpoint never supplies")
}

func (e *scriptedEndpoint) Transition(_ context.Context, transitions []*core.Change) ([]*core.Entry, []*core.Problem, bool, error) {
	results := make([]*core.Entry, len(transitions))
	for i, t := range transitions {
		results[i] = t.New
	}
	return results, nil, false, nil
}

func (e *scriptedEndpoint) Shutdown() error { return nil }

// ---- protocol handler ----

type jHandler struct{}

func (jHandler) Connect(
	_ context.Context,
	logger *logging.Logger,
	url *urlpkg.URL,
	_ string,
	session string,
	version synchronization.Version,
	configuration *synchronization.Configuration,
	alpha bool,
) (synchronization.Endpoint, error) {
	w := curWorld
	if w == nil {
		return nil, errors.New("harness: no world")
	}
	side := "beta"
	if alpha {
		side = "alpha"
	}
	w.mu.Lock()
	w.inst[side]++
	inst := w.inst[side]
	down := w.betaDown && !alpha
	w.mu.Unlock()
	if down {
		return nil, errors.New("harness: endpoint unreachable")
	}
	var inner synchronization.Endpoint
	if s := w.script[side]; s != nil {
		inner = &scriptedEndpoint{w: w, side: side, s: s}
	} else {
		ep, err := local.NewEndpoint(logger, url.Path, session, version, configuration, alpha)
		if err != nil {
			w.record(side, inst, "Connect", "end", errString(err))
			return nil, err
		}
		inner = ep
	}
	w.record(side, inst, "Connect", "end", "")
	return &jEndpoint{w: w, side: side, inst: inst, inner: inner}, nil
}

func init() {
	// The harness handler takes the place of the stock local protocol handler
	// (which does nothing but call local.NewEndpoint).
	synchronization.ProtocolHandlers[urlpkg.Protocol_Local] = jHandler{}
}

// ---- world lifecycle ----

// newSessWorld prepares directories and configuration; it must be called
// inside the bubble. base is an empty scratch directory owned by the caller.
func newSessWorld(base string, mode core.SynchronizationMode, verbose func(string, ...any)) (*sessWorld, error) {
	w := &sessWorld{
		data:      filepath.Join(base, "data"),
		alphaRoot: filepath.Join(base, "alpha"),
		betaRoot:  filepath.Join(base, "beta"),
		inst:      map[string]int{},
		gateArmed: map[string]bool{},
		gateHeld:  map[string]chan struct{}{},
		script:    map[string]*scriptedSide{},
		transArgs: map[string][]transArg{},
		verbose:   verbose,
	}
	for _, d := range []string{w.data, w.alphaRoot, w.betaRoot} {
		os.RemoveAll(d)
		if err := os.MkdirAll(d, 0o700); err != nil {
			return nil, err
		}
	}
	os.Setenv("MUTAGEN_DATA_DIRECTORY", w.data)
	w.cfg = &synchronization.Configuration{
		SynchronizationMode:  mode,
		WatchMode:            synchronization.WatchMode_WatchModeForcePoll,
		WatchPollingInterval: 1,
		ScanMode:             synchronization.ScanMode_ScanModeAccelerated,
		ProbeMode:            behavior.ProbeMode_ProbeModeAssume,
	}
	w.t0 = time.Now()
	curWorld = w
	return w, nil
}

func (w *sessWorld) newManager() error {
	var logger *logging.Logger
	if w.verbose != nil && os.Getenv("VERIF_SESSION_LOG") != "" {
		logger = logging.NewLogger(logging.LevelDebug, logWriter(w.verbose))
	}
	m, err := synchronization.NewManager(logger)
	if err != nil {
		return err
	}
	w.mgr = m
	return nil
}

func (w *sessWorld) sel() *selection.Selection {
	return &selection.Selection{Specifications: []string{w.sid}}
}

// call starts fn in its own goroutine as API call name and returns its record;
// after synctest.Wait() the harness calls collect() to see which calls returned.
func (w *sessWorld) call(name string, fn func() error) *apiCall {
	w.mu.Lock()
	c := &apiCall{Name: name, CallSeq: w.nextSeq(), CallAt: w.now(), done: make(chan error, 1)}
	w.calls = append(w.calls, c)
	w.mu.Unlock()
	w.logf("  call %s (#%d @%v)", name, c.CallSeq, c.CallAt)
	go func() {
		err := fn()
		w.mu.Lock()
		c.RetSeq = w.nextSeq()
		c.RetEpoch = w.epoch
		c.RetAt = w.now()
		c.Err = err
		w.mu.Unlock()
		c.done <- err
	}()
	return c
}

// collect marks the calls that have returned by now and returns the newly
// returned ones.
func (w *sessWorld) collect() []*apiCall {
	var out []*apiCall
	for _, c := range w.calls {
		if c.returned {
			continue
		}
		select {
		case <-c.done:
			c.returned = true
			out = append(out, c)
			w.logf("  return %s (#%d @%v) %s", c.Name, c.RetSeq, c.RetAt, errString(c.Err))
		default:
		}
	}
	return out
}

func (w *sessWorld) pending() []*apiCall {
	var out []*apiCall
	for _, c := range w.calls {
		if !c.returned {
			out = append(out, c)
		}
	}
	return out
}

// create issues Manager.Create and waits for quiescence; it returns the call.
func (w *sessWorld) create(paused bool) *apiCall {
	a := &urlpkg.URL{Kind: urlpkg.Kind_Synchronization, Protocol: urlpkg.Protocol_Local, Path: w.alphaRoot}
	b := &urlpkg.URL{Kind: urlpkg.Kind_Synchronization, Protocol: urlpkg.Protocol_Local, Path: w.betaRoot}
	name := "create"
	if paused {
		name = "createP"
	}
	c := w.call(name, func() error {
		id, err := w.mgr.Create(context.Background(), a, b, w.cfg,
			&synchronization.Configuration{}, &synchronization.Configuration{}, "s", nil, paused, "")
		if err == nil {
			w.mu.Lock()
			w.sid = id
			w.mu.Unlock()
		}
		return err
	})
	return c
}

// state returns the session's state via Manager.List (nil if not listed).
func (w *sessWorld) state() (*synchronization.State, error) {
	if w.mgr == nil {
		return nil, errors.New("no manager")
	}
	_, states, err := w.mgr.List(context.Background(), &selection.Selection{All: true}, 0)
	if err != nil {
		return nil, err
	}
	if len(states) == 0 {
		return nil, nil
	}
	if len(states) > 1 {
		return nil, fmt.Errorf("%d sessions listed", len(states))
	}
	return states[0], nil
}

// teardown releases everything so that the bubble can drain.
func (w *sessWorld) teardown() {
	w.releaseGates()
	for _, s := range w.script {
		select {
		case s.poke <- struct{}{}:
		default:
		}
	}
	synctest.Wait()
	if w.mgr != nil {
		done := make(chan struct{})
		m := w.mgr
		go func() { m.Shutdown(); close(done) }()
		synctest.Wait()
		select {
		case <-done:
		default:
			w.infra = "manager shutdown did not return at quiescence"
		}
	}
	synctest.Wait()
	w.collect()
	curWorld = nil
}

func isHalted(s synchronization.Status) bool {
	return s == synchronization.Status_HaltedOnRootEmptied ||
		s == synchronization.Status_HaltedOnRootDeletion ||
		s == synchronization.Status_HaltedOnRootTypeChange
}
