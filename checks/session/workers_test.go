//go:build verif

package session

import (
	"bytes"
	"encoding/json"
	"fmt"
	"os"
	"os/exec"
	"path/filepath"
	"sync"
	"testing"
	"time"

	"verif/internal/vr"
)

// ---------------------------------------------------------------------------
// Worker processes. The Manager-based explorations (C11, C29) need their own
// MUTAGEN_DATA_DIRECTORY per execution, and that variable is process-global,
// so the parent test re-executes the test binary once per shard
// (-test.run=^TestSessionWorker$ with the job in VERIF_SESSION_JOB); every
// worker explores its shard sequentially and writes one JSON result file.
// ---------------------------------------------------------------------------

type swJob struct {
	Prop     string            `json:"prop"`
	Leg      string            `json:"leg"`
	Shard    int               `json:"shard"`
	Shards   int               `json:"shards"`
	Thorough bool              `json:"thorough"`
	Out      string            `json:"out"`
	Deadline int64             `json:"deadline_unix"`
	Params   map[string]string `json:"params,omitempty"`
	Replay   json.RawMessage   `json:"replay,omitempty"` // run exactly this case and report its verdict
}

type swViolation struct {
	Key  string          `json:"key"`
	What string          `json:"what"`
	Case json.RawMessage `json:"case"`
}

type swOutput struct {
	Evaluations int64             `json:"evaluations"`
	Keys        []string          `json:"keys"` // keys of non-trivial cases
	Outcomes    map[string]int64  `json:"outcomes"`
	Violations  []swViolation     `json:"violations"`
	Executions  int64             `json:"executions"`
	Histories   int64             `json:"histories"`
	Divergent   int64             `json:"divergent"`
	MaxDepth    int               `json:"max_depth"`
	Capped      bool              `json:"capped"`
	Infra       string            `json:"infra"`
	Extra       map[string]int64  `json:"extra"`
	Samples     []json.RawMessage `json:"samples"`
	Notes       []string          `json:"notes"` // free-text diagnostics (first divergent replays, ...)
}

func newSwOutput() *swOutput {
	return &swOutput{Outcomes: map[string]int64{}, Extra: map[string]int64{}}
}

func (o *swOutput) addCase(key string, nontrivial bool, outcome string) {
	o.Evaluations++
	if nontrivial {
		o.Keys = append(o.Keys, key)
	}
	if outcome != "" {
		o.Outcomes[outcome]++
	}
}

func (o *swOutput) violate(key, what string, c any) {
	for _, v := range o.Violations {
		if v.Key == key {
			return
		}
	}
	if len(o.Violations) >= 50 {
		o.Extra["violations_truncated"]++
		return
	}
	raw, _ := json.Marshal(c)
	o.Violations = append(o.Violations, swViolation{key, what, raw})
}

// workerFuncs maps "prop/leg" to the function a worker process runs.
var workerFuncs = map[string]func(t *testing.T, job *swJob, out *swOutput){}

// TestSessionWorker is the entry point of worker processes; it does nothing
// when run directly.
func TestSessionWorker(t *testing.T) {
	raw := os.Getenv("VERIF_SESSION_JOB")
	if raw == "" {
		t.Skip("worker entry point (only meaningful when spawned by TestC11/TestC29)")
	}
	var job swJob
	if err := json.Unmarshal([]byte(raw), &job); err != nil {
		t.Fatalf("INFRA: bad job: %v", err)
	}
	tuneGC()
	fn := workerFuncs[job.Prop+"/"+job.Leg]
	if fn == nil {
		t.Fatalf("INFRA: no worker function for %s/%s", job.Prop, job.Leg)
	}
	out := newSwOutput()
	fn(t, &job, out)
	data, err := json.Marshal(out)
	if err != nil {
		t.Fatalf("INFRA: result does not marshal: %v", err)
	}
	if err := os.WriteFile(job.Out, data, 0o600); err != nil {
		t.Fatalf("INFRA: cannot write result: %v", err)
	}
}

// runWorker runs one job in a child process and returns its output.
func runWorker(dir string, job swJob, timeout time.Duration) (*swOutput, error) {
	job.Out = filepath.Join(dir, fmt.Sprintf("out-%s-%s-%d.json", job.Prop, job.Leg, job.Shard))
	os.Remove(job.Out)
	raw, _ := json.Marshal(job)
	cmd := exec.Command(os.Args[0], "-test.run=^TestSessionWorker$", "-test.count=1",
		fmt.Sprintf("-test.timeout=%s", timeout))
	cmd.Env = append(os.Environ(), "VERIF_SESSION_JOB="+string(raw), "VERIF_REPLAY=")
	var buf bytes.Buffer
	cmd.Stdout = &buf
	cmd.Stderr = &buf
	err := cmd.Run()
	data, rerr := os.ReadFile(job.Out)
	if rerr != nil {
		tail := buf.String()
		if len(tail) > 3000 {
			tail = tail[len(tail)-3000:]
		}
		return nil, fmt.Errorf("worker %s/%s shard %d produced no result (exit: %v); output tail:\n%s", job.Prop, job.Leg, job.Shard, err, tail)
	}
	out := newSwOutput()
	if jerr := json.Unmarshal(data, out); jerr != nil {
		return nil, fmt.Errorf("worker result does not parse: %v", jerr)
	}
	os.Remove(job.Out)
	return out, nil
}

// runWorkers runs the jobs on up to vr.Workers() concurrent processes.
func runWorkers(t *testing.T, dir string, jobs []swJob, timeout time.Duration) []*swOutput {
	outs := make([]*swOutput, len(jobs))
	errs := make([]error, len(jobs))
	q := &workQueue{n: len(jobs)}
	var wg sync.WaitGroup
	for g := 0; g < vr.Workers() && g < len(jobs); g++ {
		wg.Add(1)
		go func() {
			defer wg.Done()
			for {
				i, ok := q.take()
				if !ok {
					return
				}
				outs[i], errs[i] = runWorker(dir, jobs[i], timeout)
			}
		}()
	}
	wg.Wait()
	for i, err := range errs {
		if err != nil {
			t.Fatalf("INFRA: %v", err)
		}
		if outs[i].Infra != "" {
			t.Fatalf("INFRA: worker %s/%s shard %d: %s", jobs[i].Prop, jobs[i].Leg, jobs[i].Shard, outs[i].Infra)
		}
	}
	return outs
}

// mergeWorkers folds worker outputs into the report. rerun(case) re-executes a
// violating case in a fresh worker process and reports whether it violates
// again with the same key.
func mergeWorkers(r *vr.Report, outs []*swOutput, rerun func(v swViolation) bool) (tot swOutput) {
	tot = *newSwOutput()
	for _, o := range outs {
		l := r.Local()
		for _, k := range o.Keys {
			l.Case(k, true)
		}
		for i := int64(len(o.Keys)); i < o.Evaluations; i++ {
			l.Case("", false)
		}
		for k, n := range o.Outcomes {
			tot.Outcomes[k] += n
			for i := int64(0); i < n; i++ {
				l.Outcome(k)
			}
		}
		l.Flush()
		tot.Executions += o.Executions
		tot.Histories += o.Histories
		tot.Divergent += o.Divergent
		if o.MaxDepth > tot.MaxDepth {
			tot.MaxDepth = o.MaxDepth
		}
		tot.Capped = tot.Capped || o.Capped
		for k, v := range o.Extra {
			tot.Extra[k] += v
		}
		for _, n := range o.Notes {
			if len(tot.Notes) < 12 {
				tot.Notes = append(tot.Notes, n)
			}
		}
		for _, s := range o.Samples {
			if len(tot.Samples) < 3 {
				tot.Samples = append(tot.Samples, s)
			}
		}
		for _, v := range o.Violations {
			v := v
			var c any
			json.Unmarshal(v.Case, &c)
			r.Violate(v.Key, v.What, c, func() bool { return rerun(v) })
		}
	}
	return tot
}

// noteDivergence records (for the log) how two replays of one history differed.
func (o *swOutput) noteDivergence(key string, a, b []string) {
	o.Divergent++
	if len(o.Notes) >= 2 {
		return
	}
	for i := 0; i < len(a) || i < len(b); i++ {
		var x, y string
		if i < len(a) {
			x = a[i]
		}
		if i < len(b) {
			y = b[i]
		}
		if x != y {
			o.Notes = append(o.Notes, fmt.Sprintf("divergent replay of %s at observation %d:\n   first:  %s\n   second: %s", key, i, x, y))
			return
		}
	}
	o.Notes = append(o.Notes, "divergent replay of "+key+": verdicts differ")
}
