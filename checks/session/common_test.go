//go:build verif

// Package session holds the E-bubble checks C42 (poll-based watching), C11
// (root deletion / type change / one-sided emptying halt) and C29 (session
// lifecycle). Every execution is one testing/synctest bubble that runs the
// unmodified mutagen code on real temporary directories with virtual time.
package session

import (
	"crypto/sha1"
	"fmt"
	"os"
	"path/filepath"
	"runtime"
	"runtime/debug"
	"sort"
	"strings"
	"sync"
	"testing"
	"time"

	"github.com/mutagen-io/mutagen/pkg/filesystem"
	"github.com/mutagen-io/mutagen/pkg/synchronization/core"

	"verif/internal/vr"
)

// mtimeBase is the epoch from which the harness draws the distinct, strictly
// increasing modification times it stamps on everything it edits externally
// (DESIGN 2.2: "every content change alters size/mtime/identity" holds by
// construction). It is far from both the real clock and the bubble clock.
var mtimeBase = time.Date(2010, 1, 1, 0, 0, 0, 0, time.UTC)

// stamper hands out distinct increasing mtimes.
type stamper struct{ n int }

func (s *stamper) stamp(path string) {
	s.n++
	ts := mtimeBase.Add(time.Duration(s.n) * time.Second)
	// Lchtimes is not in the standard library; paths stamped here are never links.
	_ = os.Chtimes(path, ts, ts)
}

// flatDisk walks root with lstat (independently of mutagen's scanner) and
// returns path -> description ("dir", "file:<sha1 hex>[:x]", "link:<target>").
// Names carrying mutagen's temporary prefix are skipped, exactly as the
// property texts exclude them. A missing root yields {"": "absent"}.
func flatDisk(root string) map[string]string {
	out := map[string]string{}
	info, err := os.Lstat(root)
	if err != nil {
		out[""] = "absent"
		return out
	}
	var walk func(abs, rel string, info os.FileInfo)
	walk = func(abs, rel string, info os.FileInfo) {
		switch {
		case info.Mode()&os.ModeSymlink != 0:
			target, _ := os.Readlink(abs)
			out[rel] = "link:" + target
		case info.IsDir():
			out[rel] = "dir"
			entries, _ := os.ReadDir(abs)
			for _, e := range entries {
				if strings.HasPrefix(e.Name(), filesystem.TemporaryNamePrefix) {
					continue
				}
				ci, err := os.Lstat(filepath.Join(abs, e.Name()))
				if err != nil {
					continue
				}
				child := e.Name()
				if rel != "" {
					child = rel + "/" + e.Name()
				}
				walk(filepath.Join(abs, e.Name()), child, ci)
			}
		case info.Mode().IsRegular():
			data, _ := os.ReadFile(abs)
			d := fmt.Sprintf("file:%x", sha1.Sum(data))
			if info.Mode()&0o100 != 0 {
				d += ":x"
			}
			out[rel] = d
		default:
			out[rel] = "other"
		}
	}
	walk(root, "", info)
	return out
}

// flatEntry renders a mutagen entry tree in the same vocabulary as flatDisk.
func flatEntry(e *core.Entry) map[string]string {
	out := map[string]string{}
	if e == nil {
		out[""] = "absent"
		return out
	}
	var walk func(e *core.Entry, rel string)
	walk = func(e *core.Entry, rel string) {
		switch e.Kind {
		case core.EntryKind_Directory:
			out[rel] = "dir"
			for name, c := range e.Contents {
				child := name
				if rel != "" {
					child = rel + "/" + name
				}
				walk(c, child)
			}
		case core.EntryKind_File:
			d := fmt.Sprintf("file:%x", e.Digest)
			if e.Executable {
				d += ":x"
			}
			out[rel] = d
		case core.EntryKind_SymbolicLink:
			out[rel] = "link:" + e.Target
		default:
			out[rel] = "kind:" + e.Kind.String()
		}
	}
	walk(e, "")
	return out
}

// flatString renders a flat map canonically (sorted), for keys and messages.
func flatString(m map[string]string) string {
	keys := make([]string, 0, len(m))
	for k := range m {
		keys = append(keys, k)
	}
	sort.Strings(keys)
	var b strings.Builder
	for i, k := range keys {
		if i > 0 {
			b.WriteByte(' ')
		}
		v := m[k]
		if strings.HasPrefix(v, "file:") && len(v) >= 45 {
			v = v[:13] + v[45:] // 8 hex digits of the digest are enough to read
		}
		if k == "" {
			k = "."
		}
		b.WriteString(k + "=" + v)
	}
	return b.String()
}

func flatEqual(a, b map[string]string) bool {
	if len(a) != len(b) {
		return false
	}
	for k, v := range a {
		if b[k] != v {
			return false
		}
	}
	return true
}

// sha1Of is the digest mutagen's version-1 sessions use for file content.
func sha1Of(data string) []byte {
	h := sha1.Sum([]byte(data))
	return h[:]
}

// parallelSubtests runs fn(workerT, workerIndex) on n parallel subtests (each
// worker needs its own *testing.T because synctest.Test wants one) and returns
// when all have finished.
func parallelSubtests(t *testing.T, n int, fn func(t *testing.T, w int)) {
	t.Run("workers", func(t *testing.T) {
		for w := 0; w < n; w++ {
			w := w
			t.Run(fmt.Sprintf("w%d", w), func(t *testing.T) {
				t.Parallel()
				fn(t, w)
			})
		}
	})
}

// workQueue hands out indices [0,n) to concurrent workers in order.
type workQueue struct {
	mu   sync.Mutex
	next int
	n    int
}

func (q *workQueue) take() (int, bool) {
	q.mu.Lock()
	defer q.mu.Unlock()
	if q.next >= q.n {
		return 0, false
	}
	i := q.next
	q.next++
	return i, true
}

// scratchDir returns a fresh scratch directory that is removed when the test
// ends. The explorations create and delete hundreds of thousands of small
// files, so the memory-backed /dev/shm is preferred when it exists; otherwise
// (or when VERIF_SCRATCH=tmp) the usual t.TempDir() is used.
func scratchDir(t *testing.T) string {
	if os.Getenv("VERIF_SCRATCH") != "tmp" {
		removeStaleScratch()
		if d, err := os.MkdirTemp("/dev/shm", "verif-session-"); err == nil {
			t.Cleanup(func() { os.RemoveAll(d) })
			return d
		}
	}
	return t.TempDir()
}

// removeStaleScratch deletes scratch directories that a killed run (timeout,
// SIGKILL) left behind in /dev/shm; anything older than three hours cannot
// belong to a live check.
func removeStaleScratch() {
	entries, err := os.ReadDir("/dev/shm")
	if err != nil {
		return
	}
	for _, e := range entries {
		if !strings.HasPrefix(e.Name(), "verif-session-") {
			continue
		}
		if info, err := e.Info(); err == nil && time.Since(info.ModTime()) > 3*time.Hour {
			os.RemoveAll(filepath.Join("/dev/shm", e.Name()))
		}
	}
}

// tuneGC trades memory for time: every core.Scan allocates two 1024-entry
// maps, and with the default GC pacing a third of the CPU went into clearing
// and returning that memory.
func tuneGC() { debug.SetGCPercent(800) }

// scaledDeadline is vr.Deadline made robust against a loaded machine: the
// budgets are sized for an idle 16-core box, and when the 1-minute load average
// exceeds the number of CPUs the same enumeration simply needs proportionally
// longer, so the budget is stretched by load/CPUs (never beyond what the INDEX
// timeouts of 10 min / 30 min leave room for). An explicit VERIF_BUDGET_S is
// taken as is. This only decides how much is explored before the run reports
// exhaustive=false; it is never part of an oracle.
func scaledDeadline(quick, thorough time.Duration) time.Time {
	d := time.Until(vr.Deadline(quick, thorough))
	if os.Getenv("VERIF_BUDGET_S") != "" {
		return time.Now().Add(d)
	}
	limit := 7 * time.Minute
	if vr.Thorough() {
		limit = 22 * time.Minute
	}
	if data, err := os.ReadFile("/proc/loadavg"); err == nil {
		var load float64
		if _, err := fmt.Sscan(string(data), &load); err == nil {
			if scale := load / float64(runtime.NumCPU()); scale > 1 {
				d = time.Duration(float64(d) * scale)
			}
		}
	}
	if d > limit {
		d = limit
	}
	return time.Now().Add(d)
}

// workers is the number of in-process worker subtests.
func workers() int { return vr.Workers() }

// logOutcomes writes the outcome classes with their counts to the test log
// (the vacuity guard a reader looks at).
func logOutcomes(t *testing.T, m map[string]int64) {
	keys := make([]string, 0, len(m))
	for k := range m {
		keys = append(keys, k)
	}
	sort.Strings(keys)
	for _, k := range keys {
		t.Logf("outcome %8d  %s", m[k], k)
	}
}
