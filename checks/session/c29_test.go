//go:build verif

package session

import (
	"context"
	"encoding/json"
	"fmt"
	"os"
	"path/filepath"
	"sort"
	"strings"
	"testing"
	"testing/synctest"
	"time"

	"github.com/mutagen-io/mutagen/pkg/encoding"
	"github.com/mutagen-io/mutagen/pkg/selection"
	"github.com/mutagen-io/mutagen/pkg/synchronization"
	"github.com/mutagen-io/mutagen/pkg/synchronization/core"

	"verif/internal/vr"
)

// ---------------------------------------------------------------------------
// C29: session lifecycle commands take effect exactly as documented.
// Real Manager + controller, real local endpoints behind the journalling /
// gating wrapper of sessworld_test.go. Harness events: pause, resume, flushW
// (waiting), flushN (not waiting), reset, terminate, restart (Manager.Shutdown
// + NewManager on the same data directory), edit (rewrite alpha/a), adv2s,
// release (open the held gate). Every API call runs in its own goroutine; one
// that has not returned at quiescence stays pending.
// ---------------------------------------------------------------------------

type c29Case struct {
	Start  string   `json:"start"` // "create" | "createP"
	Gate   string   `json:"gate"`  // "" | "beta.Transition" | "alpha.Scan" | ...: first such call is held until "release"
	Arm    string   `json:"arm"`   // "" = the gate is armed from the start (it holds the session's first cycle); "after-create" = armed once Create has returned and the first cycle is over (so that it holds a later, e.g. flush-triggered, cycle); "event" = armed by the harness event "arm"
	Events []string `json:"events"`
}

func (c c29Case) key() string {
	g := c.Gate
	if c.Arm != "" {
		g += "@" + c.Arm
	}
	return c.Start + "/" + g + ":" + strings.Join(c.Events, ",")
}

var c29Events = []string{"pause", "resume", "flushW", "flushN", "reset", "terminate", "restart", "edit", "adv2s", "arm", "release", "down", "up"}

type c29Verdict struct {
	Infra      string
	Viol       string
	What       string
	Nontrivial bool
	Outcome    string
	Obs        []string
}

type c29Flush struct {
	call    *apiCall
	editNo  int // alpha/a's edit number when the flush was requested
	checked bool
}

type c29Reset struct {
	call    *apiCall
	files   map[string][]string // per side: file paths present when reset was requested
	checked bool
}

type c29Sess struct {
	w          *sessWorld
	c          c29Case
	v          *c29Verdict
	nedit      int
	tags       map[string]bool
	flushes    []*c29Flush
	resets     []*c29Reset
	terminated bool // a Terminate call has returned nil
	armed      bool // the "arm" event has been used
	down       bool // beta is unreachable ("down" without a later "up")
	flaps      int  // "down" events used
}

func (s *c29Sess) obs(format string, args ...any) {
	line := fmt.Sprintf("@%v ", s.w.now()) + fmt.Sprintf(format, args...)
	s.v.Obs = append(s.v.Obs, line)
	s.w.logf("%s", line)
}

func (s *c29Sess) violate(clause, what string) {
	if s.v.Viol == "" {
		s.v.Viol, s.v.What = clause, what
		s.obs("VIOLATION[%s] %s", clause, what)
	}
}

func (s *c29Sess) enabled() []string {
	held := len(s.w.heldGates()) > 0
	// A pending pause / resume / reset / terminate / restart sits inside the
	// controller holding its lifecycle lock (a sync.Mutex). Any further API
	// call would block on that mutex, which testing/synctest does not treat as
	// durably blocked (quiescence would never be reached), so while such a call
	// is pending only non-API events are offered. A pending waiting flush holds
	// no lock and does not restrict anything.
	lockHeld, npend := false, 0
	for _, p := range s.w.pending() {
		npend++
		if p.Name != "flushW" {
			lockHeld = true
		}
	}
	var out []string
	for _, ev := range c29Events {
		switch ev {
		case "release":
			if !held {
				continue
			}
		case "arm":
			if s.c.Arm != "event" || s.armed {
				continue
			}
		case "edit", "adv2s":
		case "down":
			// At most one outage per history, starting at any point.
			if s.down || s.flaps >= 1 {
				continue
			}
		case "up":
			if !s.down {
				continue
			}
		case "restart":
			if lockHeld || npend >= 2 {
				continue
			}
		default: // session API calls
			if lockHeld || npend >= 2 || s.terminated {
				continue
			}
		}
		out = append(out, ev)
	}
	return out
}

func (s *c29Sess) mgr() *synchronization.Manager {
	s.w.mu.Lock()
	defer s.w.mu.Unlock()
	return s.w.mgr
}

func (s *c29Sess) do(ev string) {
	w := s.w
	m := s.mgr()
	sel := w.sel()
	bg := context.Background()
	switch ev {
	case "pause":
		w.call("pause", func() error { return m.Pause(bg, sel, "") })
	case "resume":
		w.call("resume", func() error { return m.Resume(bg, sel, "") })
	case "flushW":
		c := w.call("flushW", func() error { return m.Flush(bg, sel, "", false) })
		s.flushes = append(s.flushes, &c29Flush{call: c, editNo: s.nedit})
	case "flushN":
		w.call("flushN", func() error { return m.Flush(bg, sel, "", true) })
	case "reset":
		files := map[string][]string{}
		for side, root := range map[string]string{"alpha": w.alphaRoot, "beta": w.betaRoot} {
			for p, d := range flatDisk(root) {
				if strings.HasPrefix(d, "file:") {
					files[side] = append(files[side], p)
				}
			}
			sort.Strings(files[side])
		}
		c := w.call("reset", func() error { return m.Reset(bg, sel, "") })
		s.resets = append(s.resets, &c29Reset{call: c, files: files})
	case "terminate":
		w.call("terminate", func() error { return m.Terminate(bg, sel, "") })
	case "restart":
		w.call("restart", func() error {
			all := &selection.Selection{All: true}
			_, before, errBefore := m.List(bg, all, 0)
			m.Shutdown()
			nm, err := synchronization.NewManager(nil)
			if err != nil {
				return err
			}
			if _, after, errAfter := nm.List(bg, all, 0); errBefore == nil && errAfter == nil && len(before) == 1 && len(after) == 1 &&
				before[0].Session.Paused != after[0].Session.Paused {
				w.mu.Lock()
				w.restartPaused = fmt.Sprintf("the manager listed paused=%v before Shutdown and the restarted manager lists paused=%v", before[0].Session.Paused, after[0].Session.Paused)
				w.mu.Unlock()
			}
			w.mu.Lock()
			w.mgr = nm
			w.mu.Unlock()
			return nil
		})
	case "edit":
		s.nedit++
		p := filepath.Join(w.alphaRoot, "a")
		os.WriteFile(p, []byte(fmt.Sprintf("edit-%04d", s.nedit)), 0o600)
		w.st.stamp(p)
	case "adv2s":
		time.Sleep(2 * time.Second)
	case "down", "up":
		s.down = ev == "down"
		if s.down {
			s.flaps++
		}
		w.mu.Lock()
		w.betaDown = s.down
		w.mu.Unlock()
	case "release":
		w.releaseGates()
	case "arm":
		s.armed = true
		w.mu.Lock()
		w.gateArmed[s.c.Gate] = true
		w.mu.Unlock()
	default:
		s.v.Infra = "unknown event " + ev
	}
	if ev != "adv2s" {
		s.obs("%s", ev)
	}
}

// editNoOf reads the edit number out of a root's file a (-1 if absent, 0 for
// the initial content).
func editNoOf(root string) int {
	data, err := os.ReadFile(filepath.Join(root, "a"))
	if err != nil {
		return -1
	}
	var n int
	if _, err := fmt.Sscanf(string(data), "edit-%d", &n); err != nil {
		return -1
	}
	return n
}

// c29ErrClass renders an API error for the observation log. When the session
// stops synchronizing while a flush is being submitted, controller.flush picks
// among several ready select cases, so the same failure is worded "before flush
// request could be sent" or "while waiting for flush response" at the whim of
// Go's select; the two wordings are folded into one observation.
func c29ErrClass(err error) string {
	if err == nil {
		return ""
	}
	msg := err.Error()
	for _, tail := range []string{" before flush request could be sent", " while waiting for flush response"} {
		msg = strings.ReplaceAll(msg, tail, " (around the flush request)")
	}
	// Likewise "failed" (synchronizing closed) and "terminated" (done closed)
	// are both ready when the loop has just been cancelled.
	msg = strings.ReplaceAll(msg, "synchronization terminated", "synchronization failed")
	return "err=" + msg
}

type c29Item struct {
	seq  int
	kind string // "j" journal entry | "call" | "ret"
	j    jEntry
	c    *apiCall
}

func isWork(op string) bool {
	return op == "Scan" || op == "Stage" || op == "Supply" || op == "Transition"
}

// check evaluates the whole timeline (journal entries and API call/return
// marks in their global order) against the clauses of the property.
func (s *c29Sess) check() {
	w := s.w
	for _, c := range w.collect() {
		s.obs("%s returned %s", c.Name, c29ErrClass(c.Err))
	}
	w.mu.Lock()
	var items []c29Item
	for _, e := range w.journal {
		items = append(items, c29Item{seq: e.Seq, kind: "j", j: e})
	}
	for _, c := range w.calls {
		items = append(items, c29Item{seq: c.CallSeq, kind: "call", c: c})
		if c.RetSeq != 0 {
			items = append(items, c29Item{seq: c.RetSeq, kind: "ret", c: c})
		}
	}
	w.mu.Unlock()
	sort.Slice(items, func(i, j int) bool { return items[i].seq < items[j].seq })

	// Clause 1: "After pausing returns, a session performs no scanning,
	// staging or transitions until it is resumed" (and a session created
	// paused starts out that way). A Resume that is outstanding when Pause
	// returns may legitimately take effect afterwards, so the session only
	// counts as paused while no Resume is outstanding; Reset re-resumes only a
	// session it found running, so it never lifts a pause.
	// Clause 4: "terminating removes the session's persisted state so it never
	// runs again": no work after Terminate has returned.
	paused, pausedBy := false, ""
	terminated := false
	resumesOutstanding := 0
	resetWhilePaused := map[*apiCall]bool{} // resets requested on a paused session
	for _, it := range items {
		switch it.kind {
		case "call":
			if it.c.Name == "resume" {
				resumesOutstanding++
				paused = false
			}
			if it.c.Name == "reset" && paused {
				resetWhilePaused[it.c] = true
			}
		case "ret":
			switch {
			case it.c.Name == "resume":
				resumesOutstanding--
			case (it.c.Name == "pause" || it.c.Name == "createP") && it.c.Err == nil && resumesOutstanding == 0:
				paused, pausedBy = true, fmt.Sprintf("%s (returned #%d @%v)", it.c.Name, it.c.RetSeq, it.c.RetAt)
				s.tags["paused"] = true
				s.v.Nontrivial = true
			case it.c.Name == "terminate" && it.c.Err == nil:
				terminated = true
				s.tags["terminated"] = true
				s.v.Nontrivial = true
			case it.c.Name == "restart" && it.c.Err == nil:
				s.tags["restarted"] = true
				if paused {
					s.tags["restarted-while-paused"] = true
				}
			}
		case "j":
			if !isWork(it.j.Op) {
				continue
			}
			if terminated {
				s.violate("ran-after-terminate", fmt.Sprintf("Terminate had returned, yet the journal shows %s", it.j))
			} else if paused {
				s.violate("worked-while-paused", fmt.Sprintf("after %s and before any resume the journal shows %s", pausedBy, it.j))
			}
		}
	}
	s.terminated = terminated

	// Clause 3: "A flush that waits returns success only after a complete
	// cycle that started after the request".
	for _, f := range s.flushes {
		c := f.call
		if !c.returned || f.checked {
			continue
		}
		f.checked = true
		if c.Err != nil {
			s.tags["flushW-error"] = true
			continue
		}
		s.tags["flushW-success"] = true
		s.v.Nontrivial = true
		scanned := map[string]bool{}
		for _, it := range items {
			if it.kind == "j" && it.j.Op == "Scan" && it.j.Phase == "begin" && it.seq > c.CallSeq && it.seq < c.RetSeq {
				scanned[it.j.Side] = true
			}
		}
		if !scanned["alpha"] || !scanned["beta"] {
			s.violate("flush-without-fresh-cycle", fmt.Sprintf("waiting flush requested at #%d returned success at #%d but no scan of both endpoints began in between (alpha %v, beta %v)",
				c.CallSeq, c.RetSeq, scanned["alpha"], scanned["beta"]))
		}
		// Its visible consequence: what alpha/a held when the flush was
		// requested (or something newer) is now on beta. This is demanded only
		// when the cycle's own transition on beta reported no problem: a cycle
		// whose transition was cancelled (pause during the cycle) or otherwise
		// reported problems is still a complete cycle, and the statement asks for
		// no more than that. (And only while history is intact: after a reset,
		// differing contents on the two sides are a conflict that two-way-safe
		// rightly leaves alone.)
		resetBefore := false
		for _, r := range s.resets {
			if r.call.CallSeq < c.RetSeq {
				resetBefore = true
			}
		}
		problems := false
		for _, it := range items {
			if it.kind == "j" && it.j.Side == "beta" && it.j.Op == "Transition" && it.j.Phase == "end" && it.seq > c.CallSeq && it.seq < c.RetSeq &&
				!strings.HasPrefix(it.j.Arg, "problems=0 ") {
				problems = true
			}
		}
		if problems {
			s.tags["flushW-success-with-transition-problems"] = true
		}
		if got := editNoOf(w.betaRoot); got < f.editNo && !resetBefore && !problems {
			s.violate("flush-did-not-synchronize", fmt.Sprintf("waiting flush requested when alpha/a was edit %d returned success, but beta/a is edit %d", f.editNo, got))
		}
	}
	// The cycle must be complete: nothing of the flush's own cycle may still
	// follow the return. Judged only where the order is a real happens-before:
	// the flush's cycle is the one whose scans began first after the request
	// (entries of one synchronization loop are sequential, so the journal
	// order delimits cycles soundly); one of its Stage/Supply/Transition
	// entries recorded in a LATER harness step than the one in which the flush
	// returned happened after the return. Inside one step the return mark and
	// the loop's next entries are recorded by different goroutines and their
	// sequence numbers race, so they are not compared.
	for _, f := range s.flushes {
		c := f.call
		if !c.returned || c.Err != nil {
			continue
		}
		scanBegins := 0
		for _, it := range items {
			if it.kind != "j" || it.seq < c.CallSeq {
				continue
			}
			if it.j.Op == "Connect" && scanBegins > 0 {
				break // a new loop: the flush's cycle is over
			}
			if it.j.Op == "Scan" && it.j.Phase == "begin" {
				scanBegins++
				if scanBegins > 2 {
					break // the next cycle
				}
			}
			if scanBegins > 0 && (it.j.Op == "Stage" || it.j.Op == "Supply" || it.j.Op == "Transition") && it.j.Epoch > c.RetEpoch {
				s.violate("flush-before-cycle-complete", fmt.Sprintf("waiting flush returned success (#%d, step %d) while its cycle was still working: %s (step %d)", c.RetSeq, c.RetEpoch, it.j, it.j.Epoch))
				break
			}
		}
	}

	if s.v.Viol != "" {
		return
	}
	// State-based clauses need a manager that answers.
	m := s.mgr()
	restartPending := false
	for _, p := range w.pending() {
		if p.Name == "restart" {
			restartPending = true
		}
	}
	var states []*synchronization.State
	listed := false
	if !restartPending {
		if _, st, err := m.List(context.Background(), &selection.Selection{All: true}, 0); err == nil {
			states, listed = st, true
		}
	}
	w.mu.Lock()
	changed := w.restartPaused
	w.mu.Unlock()
	if changed != "" {
		// Clause 2 in both directions: a restart neither loses nor invents a pause.
		s.violate("paused-state-changed-by-restart", changed)
	}
	if listed {
		// Clause 2: "its paused state survives a daemon restart" - whenever the
		// session counts as paused, what the (possibly new) manager lists is paused.
		if paused && !terminated {
			if len(states) != 1 || !states[0].Session.Paused {
				s.violate("pause-lost", fmt.Sprintf("session counts as paused since %s but the manager lists %d session(s), paused=%v", pausedBy, len(states), len(states) == 1 && states[0].Session.Paused))
			}
		}
		// Clause 4, persisted state.
		if terminated {
			if len(states) != 0 {
				s.violate("terminated-still-listed", fmt.Sprintf("Terminate returned success but %d session(s) are listed", len(states)))
			}
		}
	}
	if terminated && w.sid != "" {
		for _, p := range []string{filepath.Join(w.data, "sessions", w.sid), filepath.Join(w.data, "archives", w.sid)} {
			if _, err := os.Lstat(p); err == nil {
				s.violate("terminated-state-remains", "Terminate returned success but "+p+" still exists")
			}
		}
	}
	// Clause 5: "a reset clears history without losing either root's content".
	for _, r := range s.resets {
		if !r.call.returned || r.call.Err != nil {
			continue
		}
		s.tags["reset-success"] = true
		s.v.Nontrivial = true
		for side, root := range map[string]string{"alpha": w.alphaRoot, "beta": w.betaRoot} {
			now := flatDisk(root)
			for _, p := range r.files[side] {
				if !strings.HasPrefix(now[p], "file:") {
					s.violate("reset-lost-content", fmt.Sprintf("%s/%s existed when the reset was requested and is gone (now: %s)", side, p, flatString(now)))
				}
			}
		}
		if !r.checked && paused && resetWhilePaused[r.call] && !terminated && w.sid != "" {
			// History cleared: observable while the session stays paused.
			r.checked = true
			archive := &core.Archive{}
			if err := encoding.LoadAndUnmarshalProtobuf(filepath.Join(w.data, "archives", w.sid), archive); err != nil {
				s.violate("reset-history", "after a successful reset of the paused session the archive does not load: "+err.Error())
			} else if archive.Content != nil {
				s.violate("reset-history", "after a successful reset of the paused session the archive still holds an ancestor: "+flatString(flatEntry(archive.Content)))
			} else {
				s.tags["reset-cleared-paused"] = true
			}
		}
	}
}

// runC29 executes one history in a fresh bubble.
func runC29(t *testing.T, base string, c c29Case, verbose func(string, ...any)) (*c29Verdict, []string) {
	v := &c29Verdict{}
	var enabled []string
	synctest.Test(t, func(t *testing.T) {
		w, err := newSessWorld(base, core.SynchronizationMode_SynchronizationModeTwoWaySafe, verbose)
		if err != nil {
			v.Infra = err.Error()
			return
		}
		defer func() {
			w.teardown()
			if w.infra != "" && v.Infra == "" {
				v.Infra = w.infra
			}
		}()
		p := filepath.Join(w.alphaRoot, "a")
		os.WriteFile(p, []byte("edit-0000"), 0o600)
		w.st.stamp(p)
		w.st.stamp(w.alphaRoot)
		w.st.stamp(w.betaRoot)
		if c.Gate != "" && c.Arm == "" {
			w.gateArmed[c.Gate] = true
		}
		if err := w.newManager(); err != nil {
			v.Infra = err.Error()
			return
		}
		s := &c29Sess{w: w, c: c, v: v, tags: map[string]bool{}}
		call := w.create(c.Start == "createP")
		synctest.Wait()
		s.check()
		if !call.returned || call.Err != nil {
			v.Infra = fmt.Sprintf("create: returned=%v err=%v", call.returned, call.Err)
			return
		}
		if c.Gate != "" && c.Arm == "after-create" {
			w.mu.Lock()
			w.gateArmed[c.Gate] = true
			w.mu.Unlock()
		}
		for _, ev := range c.Events {
			ok := false
			for _, e := range s.enabled() {
				if e == ev {
					ok = true
				}
			}
			if !ok {
				v.Infra = "event not enabled: " + ev
				return
			}
			w.logf("--- event %s", ev)
			w.nextEpoch()
			s.do(ev)
			synctest.Wait()
			s.check()
			var pend []string
			for _, pc := range w.pending() {
				pend = append(pend, pc.Name)
			}
			s.obs("after %s: pending=%v held=%v alpha/a=%d beta/a=%d", ev, pend, w.heldGates(), editNoOf(w.alphaRoot), editNoOf(w.betaRoot))
			if len(pend) > 0 {
				s.tags["pending-call"] = true
			}
			if len(w.heldGates()) > 0 {
				s.tags["gate-held"] = true
			}
			if v.Infra != "" || v.Viol != "" {
				return
			}
		}
		enabled = s.enabled()
		// Closing: open the gate, let everything settle, let two polling
		// intervals pass, and look again.
		w.nextEpoch()
		w.releaseGates()
		synctest.Wait()
		s.check()
		if v.Viol == "" {
			w.nextEpoch()
			time.Sleep(3 * time.Second)
			synctest.Wait()
			s.check()
		}
		tags := []string{}
		for k := range s.tags {
			tags = append(tags, k)
		}
		sort.Strings(tags)
		v.Outcome = strings.Join(tags, "+")
		if v.Outcome == "" {
			v.Outcome = "plain"
		}
	})
	return v, enabled
}

// ---- workers ----

func init() {
	workerFuncs["C29/explore"] = c29Worker
	workerFuncs["C29/replay"] = func(t *testing.T, job *swJob, out *swOutput) {
		var c c29Case
		json.Unmarshal(job.Replay, &c)
		v, _ := runC29(t, scratchDir(t), c, nil)
		if v.Infra != "" {
			out.Infra = v.Infra
			return
		}
		out.addCase(c.key(), v.Nontrivial, v.Outcome)
		if v.Viol != "" {
			out.violate(v.Viol+"|"+c.key(), v.What, c)
		}
	}
}

type c29Scenario struct{ Start, Gate, Arm string }

func c29Scenarios(thorough bool) []c29Scenario {
	// The scenario in which overlapping flushes meet a held flush-triggered
	// cycle comes first so that a budget cut never loses it.
	out := []c29Scenario{{"create", "alpha.Scan", "after-create"}, {"create", "beta.Transition", "after-create"}, {"create", "", ""}, {"create", "beta.Transition", ""}, {"createP", "", ""}}
	if thorough {
		out = append(out, c29Scenario{"create", "alpha.Scan", ""},
			c29Scenario{"create", "beta.Transition", "event"},
			c29Scenario{"createP", "beta.Transition", ""}, c29Scenario{"createP", "alpha.Scan", ""})
	}
	return out
}

func c29Depth(thorough bool) int {
	if thorough {
		return 5
	}
	return 4
}

func c29Worker(t *testing.T, job *swJob, out *swOutput) {
	base := scratchDir(t)
	depth := c29Depth(job.Thorough)
	visit := func(c c29Case) []string {
		v, enabled := runC29(t, base, c, nil)
		v2, _ := runC29(t, base, c, nil)
		out.Executions += 2
		out.Histories++
		if v.Infra != "" {
			out.Infra = c.key() + ": " + v.Infra
			return nil
		}
		if strings.Join(v.Obs, "\n") != strings.Join(v2.Obs, "\n") || v.Viol != v2.Viol {
			out.noteDivergence(c.key(), v.Obs, v2.Obs)
		}
		if len(c.Events) > out.MaxDepth {
			out.MaxDepth = len(c.Events)
		}
		out.addCase(c.key(), v.Nontrivial, v.Outcome)
		if v.Viol != "" {
			out.violate(v.Viol+"|"+c.key(), v.What, c)
			return nil
		}
		return enabled
	}
	var dfs func(c c29Case)
	dfs = func(c c29Case) {
		if out.Infra != "" {
			return
		}
		if time.Now().Unix() > job.Deadline {
			out.Capped = true
			return
		}
		enabled := visit(c)
		if len(c.Events) >= depth {
			return
		}
		for _, ev := range enabled {
			dfs(c29Case{c.Start, c.Gate, c.Arm, append(append([]string{}, c.Events...), ev)})
		}
	}
	// Shards: (scenario, first event, second event), dealt round-robin; the
	// shorter histories are visited by shard 0.
	idx := 0
	for _, sc := range c29Scenarios(job.Thorough) {
		root := c29Case{sc.Start, sc.Gate, sc.Arm, nil}
		if job.Shard == 0 {
			visit(root)
		}
		for _, e1 := range c29Events {
			c1 := c29Case{sc.Start, sc.Gate, sc.Arm, []string{e1}}
			for _, e2 := range c29Events {
				idx++
				if idx%job.Shards != job.Shard {
					continue
				}
				// Validity of the prefix is established by running it.
				if !c29Valid(t, base, c1, e2, out) {
					continue
				}
				dfs(c29Case{sc.Start, sc.Gate, sc.Arm, []string{e1, e2}})
			}
		}
		if job.Shard == 0 {
			for _, e1 := range c29Events {
				c1 := c29Case{sc.Start, sc.Gate, sc.Arm, []string{e1}}
				if c29Valid(t, base, root, e1, out) {
					visit(c1)
				}
			}
		}
	}
}

// c29Valid reports whether event ev is enabled after history c (c itself
// must be valid or the answer is false).
func c29Valid(t *testing.T, base string, c c29Case, ev string, out *swOutput) bool {
	if len(c.Events) > 0 {
		if !c29Valid(t, base, c29Case{c.Start, c.Gate, c.Arm, c.Events[:len(c.Events)-1]}, c.Events[len(c.Events)-1], out) {
			return false
		}
	}
	v, enabled := runC29(t, base, c, nil)
	out.Executions++
	if v.Infra != "" || v.Viol != "" {
		return false
	}
	for _, e := range enabled {
		if e == ev {
			return true
		}
	}
	return false
}

func TestC29(t *testing.T) {
	r := vr.New(t, "C29", "exploration")
	defer r.Finish()
	tuneGC()
	if raw := vr.ReplayCase(); raw != nil {
		var c c29Case
		if err := json.Unmarshal(raw, &c); err != nil {
			t.Fatalf("INFRA: bad replay case: %v", err)
		}
		v, _ := runC29(t, scratchDir(t), c, t.Logf)
		t.Logf("replay %s: infra=%q verdict=%q %s", c.key(), v.Infra, v.Viol, v.What)
		if v.Infra != "" {
			t.Fatalf("INFRA: %s", v.Infra)
		}
		r.Case(c.key(), v.Nontrivial)
		if v.Viol != "" {
			r.Violate(v.Viol+"|"+c.key(), v.What, c, nil)
		}
		return
	}
	depth := c29Depth(vr.Thorough())
	scen := c29Scenarios(vr.Thorough())
	r.Rule(fmt.Sprintf("every sequence of <= %d harness events over %v (no API call while a pause/resume/reset/terminate/restart is pending - it would block on a sync.Mutex, which synctest cannot see as quiescent -, at most two calls pending, after a successful terminate only restart/edit/adv2s) for each scenario %v (how the session is created; which endpoint call, if any, is held at a gate until 'release'); each history is replayed twice from scratch in fresh bubbles; non-trivial = a pause / createP / waiting flush / terminate / reset returned success in the history; distinct by (scenario, event list)",
		depth, c29Events, scen))
	r.Assume("real Manager/controller and real local endpoints (force-poll 1 s, two-way-safe) behind a journalling wrapper; alpha holds one file that 'edit' rewrites",
		"a session counts as paused from the return of Pause (or of a paused Create) until the next Resume call; a Resume already outstanding when Pause returns may take effect afterwards",
		"'complete cycle that started after the request' is read as: both endpoints began a scan between request and return, no staging/transition of that cycle follows the return, and alpha's content at request time is on beta",
		"granularity: harness events at quiescence only; interleavings inside one quiescence step are not owned (divergent_replays counts observed differences; the two wordings controller.flush's select can give the same failure are folded into one observation)")
	dir := scratchDir(t)
	deadline := scaledDeadline(50*time.Second, 9*time.Minute).Unix()
	n := vr.Workers()
	var jobs []swJob
	for i := 0; i < n; i++ {
		jobs = append(jobs, swJob{Prop: "C29", Leg: "explore", Shard: i, Shards: n, Thorough: vr.Thorough(), Deadline: deadline})
	}
	outs := runWorkers(t, dir, jobs, 20*time.Minute)
	rerun := func(v swViolation) bool {
		var c c29Case
		json.Unmarshal(v.Case, &c)
		vv, _ := runC29(t, dir, c, nil)
		return vv.Infra == "" && vv.Viol+"|"+c.key() == v.Key
	}
	tot := mergeWorkers(r, outs, rerun)
	logOutcomes(t, tot.Outcomes)
	for _, n := range tot.Notes {
		t.Log(n)
	}
	r.Set("executions", tot.Executions)
	r.Set("distinct_histories", tot.Histories)
	r.Set("depth_reached", tot.MaxDepth)
	r.Set("depth_bound", depth)
	r.Set("divergent_replays", tot.Divergent)
	r.Set("scenarios", len(scen))
	if tot.Capped {
		r.NotExhaustive("wall budget reached before the enumeration finished")
	} else if tot.Divergent > 0 {
		r.NotExhaustive(fmt.Sprintf("%d histories gave different observations on their second replay", tot.Divergent))
	}
	r.Sample(c29Case{"create", "beta.Transition", "", []string{"pause", "release", "adv2s"}})
	r.Sample(c29Case{"create", "alpha.Scan", "after-create", []string{"flushN", "flushW", "release"}})
	r.Sample(c29Case{"createP", "", "", []string{"reset", "restart", "resume"}})
}
