//go:build verif

package session

import (
	"context"
	"encoding/json"
	"fmt"
	"os"
	"path/filepath"
	"sort"
	"strings"
	"sync"
	"sync/atomic"
	"testing"
	"testing/synctest"
	"time"

	"github.com/mutagen-io/mutagen/pkg/filesystem/behavior"
	"github.com/mutagen-io/mutagen/pkg/logging"
	"github.com/mutagen-io/mutagen/pkg/synchronization"
	"github.com/mutagen-io/mutagen/pkg/synchronization/core"
	"github.com/mutagen-io/mutagen/pkg/synchronization/endpoint/local"
	"github.com/mutagen-io/mutagen/pkg/synchronization/rsync"
	"github.com/mutagen-io/mutagen/pkg/verifhook"

	"verif/internal/vr"
)

// ---------------------------------------------------------------------------
// C42: poll-based watching never serves a stale snapshot and always notices
// changes. One execution = one bubble around one real local endpoint
// (force-poll, 1 s interval, accelerated scanning) driven the way the
// controller drives it (at most one call outstanding; Transition only after a
// Scan), plus external edits and virtual-time advances owned by the harness.
// ---------------------------------------------------------------------------

const (
	c42Interval = time.Second           // configured polling interval
	c42Window   = 20 * time.Millisecond // the endpoint's poll-signal coalescing window (documented constant)
	// c42Bound is "one polling interval + coalescing window" with one extra
	// window of slack so that the oracle never demands more than the property.
	c42Bound = c42Interval + 2*c42Window

	c42TPath   = "t"       // path the harness' transitions create / delete
	c42T2Path  = "t2"      // second path of the two-change transitions of the "gate" variant
	c42GPath   = "g"       // path the external edits create / modify / delete
	c42Content = "payload" // content of file t
)

// c42Case is the replayable description of one execution.
type c42Case struct {
	Kind   string   `json:"kind"`   // what transitions create: "file" or "dir" at path t; "gate": directories t and t2 in one call, held between the two changes until "release"; "root": the synchronization root itself is absent at the start and is created (as a directory holding a file, or as a file) and removed externally - no transitions; "pop": t is a directory populated with x and y, and the external edit "extchild" adds an unknown child t/z (so that a removal can succeed only partly); "macro": like "dir" but with the controller's habits as single events (sync = Scan+Transition, await = Poll+30 ms) and the environment event "outage" (the root is replaced by a symbolic link for one polling interval, so that a polling scan fails, and then restored)
	Events []string `json:"events"` // scan scanfull trans release poll cancel adv30 adv1s extedit extrev
}

func (c c42Case) key() string { return c.Kind + ":" + strings.Join(c.Events, ",") }

// c42Result is what one execution yields.
type c42Result struct {
	Obs        []string // observation log (event, virtual time, outcome)
	Enabled    []string // events enabled after the last event
	Invalid    bool     // an event of the case was not enabled (only possible while minimising)
	Infra      string   // harness-level failure (never a verdict)
	Clause     string   // "" | "stale" | "lost"
	What       string
	Nontrivial bool
	Tags       map[string]bool
}

type c42Env struct {
	base string // per-worker scratch directory
	sid  string // per-worker session identifier (names cache/staging files in the data directory)
	data string // MUTAGEN_DATA_DIRECTORY
	log  func(format string, args ...any)
}

type c42World struct {
	env  *c42Env
	kind string
	root string
	src  string
	ep   synchronization.Endpoint
	st   stamper
	t0   time.Time

	// The consumer's (controller's) knowledge.
	haveScan      bool                   // some Scan has returned
	kts           map[string]*core.Entry // what the consumer believes is at the transition paths
	canTransition bool                   // a Scan returned since the last Transition (endpoint contract)

	// A Transition held at the hook-layer gate (variant "gate").
	gate         *c42Gate
	transPending bool
	dead         bool // the endpoint returned an error: no further calls allowed
	transCh      chan c42TransRet
	transBefore  map[string]string
	transWant    map[string]string

	// Outstanding Poll.
	polling       bool
	pollCancel    context.CancelFunc
	pollRes       chan error
	pollCancelled bool

	// Last transition.
	lt *c42Transition

	// External path g: 0 absent, 1 short content, 2 longer content.
	gstate int

	// Notification obligation (second sentence of the property).
	belief            map[string]string // B: what the consumer believes the root holds (last Scan result, updated by transition results)
	notifiedSinceScan bool              // a change notification was delivered after the last Scan/Transition return
	differing         bool              // the disk differs from B
	diffSince         time.Time         // since when (restarted whenever the disk or B changes)
	diffWhat          string
	lastPair          string
	lastEvent         string

	res *c42Result
}

type c42TransRet struct {
	results  []*core.Entry
	problems []*core.Problem
	missing  bool
	err      error
}

// c42Gate lets the harness hold a Transition between its two changes: the
// verifhook handler blocks the mkdirat/unlinkat of t2 on ch while armed.
type c42Gate struct {
	armed atomic.Bool
	ch    chan struct{}
}

// c42Gates maps a root directory to its world's gate (the hook handler is
// process-global; worlds of different workers run concurrently).
var c42Gates sync.Map

func c42Hook(op string, fd int, name string) error {
	if name != c42T2Path || (op != "mkdirat" && op != "unlinkat") {
		return nil
	}
	dir, err := os.Readlink(fmt.Sprintf("/proc/self/fd/%d", fd))
	if err != nil {
		return nil
	}
	if g, ok := c42Gates.Load(dir); ok {
		gate := g.(*c42Gate)
		if gate.armed.CompareAndSwap(true, false) {
			<-gate.ch
		}
	}
	return nil
}

type c42Transition struct {
	want     map[string]string // per transition path: what the disk holds there afterwards ("" = nothing)
	changed  bool              // the disk differs before/after the call (measured by the harness' own walk)
	reversed bool              // an external reversal has been applied
	touched  bool              // t was modified externally after the transition
	at       time.Duration
}

func (w *c42World) now() time.Duration { return time.Since(w.t0) }

func (w *c42World) obs(format string, args ...any) {
	line := fmt.Sprintf("@%v ", w.now()) + fmt.Sprintf(format, args...)
	w.res.Obs = append(w.res.Obs, line)
	if w.env.log != nil {
		w.env.log("%s", line)
	}
}

func (w *c42World) tag(s string) { w.res.Tags[s] = true }

func (w *c42World) violate(clause, what string) {
	if w.res.Clause == "" {
		w.res.Clause, w.res.What = clause, what
		w.obs("VIOLATION[%s] %s", clause, what)
	}
}

// targetEntry is the entry transitions create at t.
func (w *c42World) targetEntry() *core.Entry {
	if w.kind != "file" {
		return &core.Entry{Kind: core.EntryKind_Directory}
	}
	return &core.Entry{Kind: core.EntryKind_File, Digest: sha1Of(c42Content)}
}

func (w *c42World) targetFlat() string {
	if w.kind != "file" {
		return "dir"
	}
	return fmt.Sprintf("file:%x", sha1Of(c42Content))
}

// tpaths are the paths one Transition call changes.
func (w *c42World) tpaths() []string {
	if w.kind == "gate" {
		return []string{c42TPath, c42T2Path}
	}
	return []string{c42TPath}
}

func newC42World(env *c42Env, kind string, res *c42Result, logger *logging.Logger) (*c42World, error) {
	w := &c42World{env: env, kind: kind, res: res, kts: map[string]*core.Entry{}}
	w.root = filepath.Join(env.base, "root")
	w.src = filepath.Join(env.base, "src")
	os.RemoveAll(w.root)
	os.RemoveAll(w.src)
	if kind != "root" { // variant "root" starts with the synchronization root absent
		if err := os.MkdirAll(w.root, 0o700); err != nil {
			return nil, err
		}
	}
	if err := os.MkdirAll(w.src, 0o700); err != nil {
		return nil, err
	}
	// The "other endpoint": a directory holding the file content that gets staged.
	if err := os.WriteFile(filepath.Join(w.src, c42TPath), []byte(c42Content), 0o600); err != nil {
		return nil, err
	}
	if kind == "pop" {
		td := filepath.Join(w.root, c42TPath)
		os.Mkdir(td, 0o700)
		for name, content := range map[string]string{"x": "1", "y": "22"} {
			os.WriteFile(filepath.Join(td, name), []byte(content), 0o600)
			w.st.stamp(filepath.Join(td, name))
		}
		w.st.stamp(td)
		w.st.stamp(w.root)
	}
	w.cleanData()
	cfg := &synchronization.Configuration{
		SynchronizationMode:  core.SynchronizationMode_SynchronizationModeTwoWaySafe,
		WatchMode:            synchronization.WatchMode_WatchModeForcePoll,
		WatchPollingInterval: uint32(c42Interval / time.Second),
		ScanMode:             synchronization.ScanMode_ScanModeAccelerated,
		ProbeMode:            behavior.ProbeMode_ProbeModeAssume,
	}
	ep, err := local.NewEndpoint(logger, w.root, env.sid, synchronization.Version_Version1, cfg, false)
	if err != nil {
		return nil, err
	}
	w.ep = ep
	w.t0 = time.Now()
	if kind == "gate" {
		w.gate = &c42Gate{}
		real, err := filepath.EvalSymlinks(w.root)
		if err != nil {
			return nil, err
		}
		c42Gates.Store(real, w.gate)
	}
	return w, nil
}

// cleanData removes what the endpoint persists in the data directory so that
// the next execution of this worker starts from nothing.
func (w *c42World) cleanData() {
	os.Remove(filepath.Join(w.env.data, "caches", w.env.sid+"_beta"))
	os.RemoveAll(filepath.Join(w.env.data, "staging", w.env.sid+"-beta"))
}

// childAddable: (variant "pop") t is a directory on disk without a child z.
func (w *c42World) childAddable() bool {
	if w.kind != "pop" {
		return false
	}
	d := flatDisk(w.root)
	_, hasZ := d[c42TPath+"/z"]
	return d[c42TPath] == "dir" && !hasZ
}

// rootEdits lists the external root-level edits possible now (variant "root").
func (w *c42World) rootEdits() []string {
	if _, err := os.Lstat(w.root); err != nil {
		return []string{"mkroot", "fileroot"}
	}
	return []string{"rmroot"}
}

func (w *c42World) enabled() []string {
	rev := w.lt != nil && w.lt.changed && !w.lt.reversed && !w.lt.touched
	var out []string
	if w.kind == "root" {
		// No transitions: only the consumer's Scan/Poll, time, and the outside
		// world creating / removing the root.
		if w.polling {
			out = append(out, "adv30", "adv1s")
			out = append(out, w.rootEdits()...)
			return w.dropRepeatedShortAdvance(append(out, "cancel"))
		}
		out = append(out, "scan", "scanfull")
		if !w.notifiedSinceScan {
			out = append(out, "poll")
		}
		out = append(out, "adv30", "adv1s")
		return w.dropRepeatedShortAdvance(append(out, w.rootEdits()...))
	}
	if w.dead {
		return nil
	}
	if w.transPending {
		// The one outstanding call is the held Transition: only time, the
		// outside world and the gate can move.
		return w.dropRepeatedShortAdvance([]string{"release", "adv30", "adv1s", "extedit"})
	}
	if w.polling {
		out = append(out, "adv30", "adv1s", "extedit")
		if w.childAddable() {
			out = append(out, "extchild")
		}
		if rev {
			out = append(out, "extrev")
		}
		if w.kind == "macro" {
			out = append(out, "outage")
		}
		return w.dropRepeatedShortAdvance(append(out, "cancel"))
	}
	if w.kind == "macro" {
		// The consumer behaves like the controller: a cycle is Scan followed by
		// Transition ("sync") or Scan alone; waiting is Poll plus the coalescing
		// window ("await").
		out = append(out, "sync", "scan", "scanfull")
		if !w.notifiedSinceScan {
			out = append(out, "await")
		}
		out = append(out, "adv1s", "extedit")
		if rev {
			out = append(out, "extrev")
		}
		return append(out, "outage")
	}
	out = append(out, "scan", "scanfull")
	if w.haveScan && w.canTransition {
		out = append(out, "trans")
	}
	if !w.notifiedSinceScan {
		// Like the controller, the consumer scans after every notification
		// before it polls again.
		out = append(out, "poll")
	}
	out = append(out, "adv30", "adv1s", "extedit")
	if w.childAddable() {
		out = append(out, "extchild")
	}
	if rev {
		out = append(out, "extrev")
	}
	return w.dropRepeatedShortAdvance(out)
}

// dropRepeatedShortAdvance removes adv30 directly after adv30: two short
// advances in a row order no differently against ticks and coalescing timers
// than one.
func (w *c42World) dropRepeatedShortAdvance(in []string) []string {
	if w.lastEvent != "adv30" {
		return in
	}
	out := in[:0]
	for _, e := range in {
		if e != "adv30" {
			out = append(out, e)
		}
	}
	return out
}

func (w *c42World) do(ev string) {
	switch ev {
	case "adv30":
		time.Sleep(30 * time.Millisecond)
	case "adv1s":
		time.Sleep(c42Interval)
	case "scan", "scanfull":
		w.doScan(ev == "scanfull")
	case "trans":
		w.startTransition()
	case "sync":
		w.doScan(false)
		if w.res.Infra == "" && w.res.Clause == "" {
			w.startTransition()
		}
	case "await":
		w.startPoll()
		synctest.Wait()
		w.observe()
		if w.polling {
			time.Sleep(30 * time.Millisecond)
		}
	case "release":
		close(w.gate.ch)
		synctest.Wait()
		select {
		case ret := <-w.transCh:
			w.finishTransition(ret)
		default:
			w.res.Infra = "released Transition did not return at quiescence"
		}
	case "poll":
		w.startPoll()
	case "cancel":
		w.pollCancelled = true
		w.pollCancel()
	case "extedit":
		p := filepath.Join(w.root, c42GPath)
		switch w.gstate {
		case 0:
			os.WriteFile(p, []byte("1"), 0o600)
			w.st.stamp(p)
			w.gstate = 1
		case 1:
			os.WriteFile(p, []byte("22"), 0o600)
			w.st.stamp(p)
			w.gstate = 2
		default:
			os.Remove(p)
			w.gstate = 0
		}
		w.st.stamp(w.root)
		w.tag("ext")
		w.obs("extedit g -> state %d", w.gstate)
	case "outage":
		// The root cannot be scanned for one polling interval: it is moved aside
		// and a symbolic link put in its place (the endpoint refuses to open a
		// symlinked root, so the polling scan that falls into the interval
		// fails), then everything is put back exactly as it was. No consumer
		// call happens meanwhile.
		aside := w.root + ".aside"
		os.Rename(w.root, aside)
		os.Symlink(aside, w.root)
		time.Sleep(c42Interval + 30*time.Millisecond)
		synctest.Wait()
		os.Remove(w.root)
		os.Rename(aside, w.root)
		w.tag("outage")
		w.obs("outage: root was a symbolic link for %v", c42Interval+30*time.Millisecond)
	case "mkroot":
		os.Mkdir(w.root, 0o700)
		p := filepath.Join(w.root, c42GPath)
		os.WriteFile(p, []byte("1"), 0o600)
		w.st.stamp(p)
		w.st.stamp(w.root)
		w.tag("ext")
		w.tag("root-created-dir")
		w.obs("mkroot (directory with file g)")
	case "fileroot":
		os.WriteFile(w.root, []byte("root is a file"), 0o600)
		w.st.stamp(w.root)
		w.tag("ext")
		w.tag("root-created-file")
		w.obs("fileroot")
	case "rmroot":
		os.RemoveAll(w.root)
		w.tag("ext")
		w.tag("root-removed")
		w.obs("rmroot")
	case "extchild":
		p := filepath.Join(w.root, c42TPath, "z")
		os.WriteFile(p, []byte("unknown"), 0o600)
		w.st.stamp(p)
		w.st.stamp(filepath.Join(w.root, c42TPath))
		if w.lt != nil {
			w.lt.touched = true // the transition path was modified externally after the transition
		}
		w.tag("ext")
		w.tag("unknown-child")
		w.obs("extchild t/z")
	case "extrev":
		for _, name := range w.tpaths() {
			p := filepath.Join(w.root, name)
			if w.lt.want[name] != "" {
				os.Remove(p)
			} else if w.kind != "file" {
				os.Mkdir(p, 0o700)
				if w.kind == "pop" {
					for child, content := range map[string]string{"x": "1", "y": "22"} {
						os.WriteFile(filepath.Join(p, child), []byte(content), 0o600)
						w.st.stamp(filepath.Join(p, child))
					}
				}
				w.st.stamp(p)
			} else {
				os.WriteFile(p, []byte(c42Content), 0o600)
				w.st.stamp(p)
			}
		}
		w.st.stamp(w.root)
		w.lt.reversed, w.lt.touched = true, true
		w.tag("reversal")
		w.obs("extrev of transition(%v)", w.lt.want)
	default:
		w.res.Infra = "unknown event " + ev
	}
}

func (w *c42World) startPoll() {
	ctx, cancel := context.WithCancel(context.Background())
	w.pollCancel = cancel
	w.pollRes = make(chan error, 1)
	w.pollCancelled = false
	w.polling = true
	ep := w.ep
	res := w.pollRes
	go func() { res <- ep.Poll(ctx) }()
}

type c42ScanRet struct {
	snap  *core.Snapshot
	err   error
	again bool
}

func (w *c42World) doScan(full bool) {
	ch := make(chan c42ScanRet, 1)
	ep := w.ep
	go func() {
		s, err, again := ep.Scan(context.Background(), nil, full)
		ch <- c42ScanRet{s, err, again}
	}()
	synctest.Wait()
	var ret c42ScanRet
	select {
	case ret = <-ch:
	default:
		w.res.Infra = "Scan did not return at quiescence"
		return
	}
	if ret.err != nil {
		w.res.Infra = "Scan error: " + ret.err.Error()
		return
	}
	got := flatEntry(ret.snap.Content)
	disk := flatDisk(w.root)
	w.obs("scan(full=%v) -> %s", full, flatString(got))
	w.haveScan, w.canTransition = true, true
	w.kts = map[string]*core.Entry{}
	if c := ret.snap.Content; c != nil && c.Kind == core.EntryKind_Directory {
		for _, name := range w.tpaths() {
			w.kts[name] = c.Contents[name]
		}
	}
	// First sentence: "a scan after a transition that changed the disk never
	// returns the snapshot from before that transition" - judged at the
	// transition's paths, as long as nobody else has touched them since.
	if w.lt != nil && w.lt.changed && !w.lt.touched {
		w.res.Nontrivial = true
		w.tag("scan-after-transition")
		for _, name := range w.tpaths() {
			// The returned snapshot is compared with the harness' own walk of the
			// disk at the transitioned path (and everything below it).
			sub := func(m map[string]string) map[string]string {
				out := map[string]string{}
				for k, v := range m {
					if k == name || strings.HasPrefix(k, name+"/") {
						out[k] = v
					}
				}
				return out
			}
			if g, d := sub(got), sub(disk); !flatEqual(g, d) {
				w.violate("stale", fmt.Sprintf("Scan(full=%v) at %v after the transition at %v that changed the disk at %s does not reflect it: snapshot has [%s] there, the disk has [%s]",
					full, w.now(), w.lt.at, name, flatString(g), flatString(d)))
			}
		}
	}
	w.belief = got
	w.notifiedSinceScan = false
	if !flatEqual(got, disk) {
		w.tag("scan-behind-disk")
	}
}

// startTransition issues one Transition call that toggles every transition
// path (after staging, for the file variant). In the gate variant the call is
// held between its two changes and stays pending until "release".
func (w *c42World) startTransition() {
	var changes []*core.Change
	w.transWant = map[string]string{}
	staged := false
	for _, name := range w.tpaths() {
		old := w.kts[name]
		var neu *core.Entry
		if old == nil {
			neu = w.targetEntry()
			w.transWant[name] = w.targetFlat()
			staged = staged || neu.Kind == core.EntryKind_File
		} else {
			w.transWant[name] = ""
		}
		changes = append(changes, &core.Change{Path: name, Old: old, New: neu})
	}
	w.transBefore = flatDisk(w.root)
	ch := make(chan c42TransRet, 1)
	w.transCh = ch
	if w.gate != nil {
		w.gate.ch = make(chan struct{})
		w.gate.armed.Store(true)
	}
	ep, src := w.ep, w.src
	go func() {
		if staged {
			neu := changes[0].New
			paths, sigs, receiver, err := ep.Stage([]string{c42TPath}, [][]byte{neu.Digest})
			if err != nil {
				ch <- c42TransRet{err: fmt.Errorf("stage: %w", err)}
				return
			}
			if len(paths) > 0 {
				if err := rsync.Transmit(src, paths, sigs, receiver); err != nil {
					ch <- c42TransRet{err: fmt.Errorf("transmit: %w", err)}
					return
				}
			}
		}
		r, p, m, err := ep.Transition(context.Background(), changes)
		ch <- c42TransRet{r, p, m, err}
	}()
	synctest.Wait()
	select {
	case ret := <-ch:
		if w.gate != nil {
			w.gate.armed.Store(false)
		}
		w.finishTransition(ret)
	default:
		if w.gate == nil {
			w.res.Infra = "Transition did not return at quiescence"
			return
		}
		w.transPending = true
		w.tag("transition-held")
		w.obs("transition %v held at the gate; disk now %s", w.transWant, flatString(flatDisk(w.root)))
	}
}

func (w *c42World) finishTransition(ret c42TransRet) {
	w.transPending = false
	if ret.err != nil && strings.Contains(ret.err.Error(), "removing more entries than exist") {
		// The endpoint checks the transition against the entry count of its
		// LATEST scan, which may be a poll scan newer than the snapshot the
		// consumer planned from (content vanished externally in between). It
		// then refuses the call with an error, after which the Endpoint
		// contract forbids further use: the history ends here. Not a matter of
		// this property.
		w.dead = true
		w.tag("endpoint-refused-transition")
		w.obs("transition %v refused: %v", w.transWant, ret.err)
		return
	}
	if ret.err != nil {
		w.res.Infra = "Transition error: " + ret.err.Error()
		return
	}
	after := flatDisk(w.root)
	w.canTransition = false
	// The consumer folds the transition results into what it believes (as the
	// controller folds them into the ancestor).
	nb := map[string]string{}
	for k, v := range w.belief {
		nb[k] = v
	}
	for i, name := range w.tpaths() {
		w.kts[name] = ret.results[i]
		for k := range nb {
			if k == name || strings.HasPrefix(k, name+"/") {
				delete(nb, k)
			}
		}
		if ret.results[i] != nil {
			for k, v := range flatEntry(ret.results[i]) {
				if k == "" {
					nb[name] = v
				} else {
					nb[name+"/"+k] = v
				}
			}
		}
	}
	w.belief = nb
	w.notifiedSinceScan = false
	w.lt = &c42Transition{want: w.transWant, changed: !flatEqual(w.transBefore, after), at: w.now()}
	if w.lt.changed {
		w.tag("changing-transition")
	} else {
		w.tag("noop-transition")
	}
	w.obs("transition %v: changed=%v problems=%d", w.transWant, w.lt.changed, len(ret.problems))
}

// observe collects a Poll return, if any, after quiescence.
func (w *c42World) observe() {
	if !w.polling {
		return
	}
	select {
	case err := <-w.pollRes:
		w.polling = false
		w.pollCancel()
		if err != nil {
			w.res.Infra = "Poll error: " + err.Error()
			return
		}
		if w.pollCancelled {
			w.obs("poll returned (cancelled)")
			return
		}
		w.obs("poll returned (notification)")
		w.tag("notification")
		if w.differing {
			w.tag("notified-while-differing")
		}
		w.notifiedSinceScan = true
	default:
	}
}

// reassess is called after every event: it compares the disk (the harness'
// own lstat walk) with the consumer's belief B and restarts the clock whenever
// either of them changed.
func (w *c42World) reassess(ev string) {
	w.lastEvent = ev
	if !w.haveScan {
		return // the consumer has no belief before its first Scan
	}
	d, b := flatString(flatDisk(w.root)), flatString(w.belief)
	if pair := d + " | " + b; pair != w.lastPair {
		w.lastPair = pair
		w.diffSince = time.Now()
		w.diffWhat = fmt.Sprintf("since %v (after %q) the disk is [%s] while the consumer was told [%s]", w.now(), ev, d, b)
	}
	w.differing = d != b
	if w.differing && !w.notifiedSinceScan {
		w.res.Nontrivial = true
		w.tag("owed")
	}
}

// checkDeadline is the second sentence of the property: "every on-disk
// modification outside temporary files eventually produces a change
// notification within a polling interval, even when the modification reverses
// a change synchronization just made". Stated on what the consumer can see:
// while the disk differs from what the consumer was last told (Scan result plus
// transition results) and no notification has been delivered since it was told,
// a pending Poll must return within interval + window of virtual time counted
// from the last change of the disk or of the belief. (A modification that is
// undone before any poll could sample it, or that a Scan has already reported,
// owes nothing - no poll-based watcher could do more.)
func (w *c42World) checkDeadline() {
	if w.haveScan && w.differing && !w.notifiedSinceScan && w.polling && time.Since(w.diffSince) > c42Bound {
		w.violate("lost", fmt.Sprintf("%s; no change notification within %v of virtual time: at %v the Poll is still pending",
			w.diffWhat, c42Bound, w.now()))
	}
}

// closing discharges an outstanding obligation at the end of a history: a Poll
// (the pending one, or a fresh one that may pick up a buffered signal) must
// return no later than c42Bound after the disk/belief last changed.
func (w *c42World) closing() {
	if w.dead {
		return
	}
	if w.transPending && w.res.Infra == "" {
		w.do("release")
		w.reassess("release")
	}
	if !w.haveScan || !w.differing || w.notifiedSinceScan || w.res.Clause != "" || w.res.Infra != "" {
		return
	}
	w.tag("closing")
	if !w.polling {
		w.startPoll()
		synctest.Wait()
		w.observe()
	}
	if !w.notifiedSinceScan {
		if rest := c42Bound - time.Since(w.diffSince); rest > 0 {
			time.Sleep(rest)
		}
		time.Sleep(time.Millisecond)
		synctest.Wait()
		w.observe()
	}
	if w.notifiedSinceScan {
		w.tag("closing-notified")
	}
	w.checkDeadline()
}

// finalScan ends every history the way a consumer may at any time: cancel the
// outstanding Poll, if any, and Scan - so that the first sentence of the
// property is also judged for histories that stop right after a transition.
func (w *c42World) finalScan() {
	if w.res.Clause != "" || w.res.Infra != "" || w.transPending || w.dead {
		return
	}
	if w.lt == nil || !w.lt.changed || w.lt.touched {
		return
	}
	if w.polling {
		w.pollCancelled = true
		w.pollCancel()
		synctest.Wait()
		w.observe()
	}
	if !w.polling {
		w.tag("final-scan")
		w.doScan(false)
	}
}

func (w *c42World) shutdown() {
	if w.transPending {
		close(w.gate.ch)
		synctest.Wait()
		w.transPending = false
	}
	if w.gate != nil {
		if real, err := filepath.EvalSymlinks(w.root); err == nil {
			c42Gates.Delete(real)
		}
	}
	if w.polling {
		w.pollCancel()
		synctest.Wait()
		select {
		case <-w.pollRes:
		default:
		}
		w.polling = false
	}
	if w.ep != nil {
		w.ep.Shutdown()
	}
	synctest.Wait()
	w.cleanData()
}

// runC42 executes one case in a fresh bubble.
func runC42(t *testing.T, env *c42Env, c c42Case) *c42Result {
	res := &c42Result{Tags: map[string]bool{}}
	var logger *logging.Logger
	if env.log != nil {
		logger = logging.NewLogger(logging.LevelDebug, logWriter(env.log))
	}
	synctest.Test(t, func(t *testing.T) {
		w, err := newC42World(env, c.Kind, res, logger)
		if err != nil {
			res.Infra = "setup: " + err.Error()
			return
		}
		defer w.shutdown()
		synctest.Wait() // the watcher's baseline scan has happened
		for _, ev := range c.Events {
			ok := false
			for _, e := range w.enabled() {
				if e == ev {
					ok = true
				}
			}
			if !ok {
				res.Invalid = true
				return
			}
			if env.log != nil {
				env.log("--- event %s", ev)
			}
			w.do(ev)
			synctest.Wait()
			w.observe()
			w.reassess(ev)
			w.checkDeadline()
			if res.Infra != "" || res.Clause != "" {
				return
			}
		}
		res.Enabled = w.enabled()
		w.closing()
		w.finalScan()
	})
	return res
}

type logWriter func(format string, args ...any)

func (l logWriter) Write(p []byte) (int, error) {
	l("    log: %s", strings.TrimRight(string(p), "\n"))
	return len(p), nil
}

func (r *c42Result) outcome() string {
	tags := make([]string, 0, len(r.Tags))
	for k := range r.Tags {
		tags = append(tags, k)
	}
	sort.Strings(tags)
	if r.Clause != "" {
		tags = append(tags, "VIOLATION-"+r.Clause)
	}
	if len(tags) == 0 {
		return "quiet"
	}
	return strings.Join(tags, "+")
}

// isSubsequence reports whether pat is a subsequence of h.
func isSubsequence(pat, h []string) bool {
	i := 0
	for _, e := range h {
		if i < len(pat) && pat[i] == e {
			i++
		}
	}
	return i == len(pat)
}

// c42Rank orders events for the canonical form of a minimal violating history.
// c42EventNames is the event alphabet (index = compact encoding).
var c42EventNames = []string{"scan", "scanfull", "trans", "release", "poll", "cancel", "adv30", "adv1s", "extedit", "extrev", "sync", "await", "extchild", "mkroot", "fileroot", "rmroot", "outage"}

var c42Rank = map[string]int{"scan": 0, "scanfull": 1, "trans": 2, "sync": 2, "release": 3, "adv30": 4, "adv1s": 5, "poll": 6, "await": 6, "cancel": 7, "extedit": 8, "extchild": 8, "mkroot": 8, "fileroot": 8, "rmroot": 8, "outage": 8, "extrev": 9}

// minimiseC42 reduces a violating case to a canonical 1-minimal one: (1) greedy
// delta debugging - remove single events while the case stays a valid history
// violating the same clause; (2) replace events by simpler ones (scanfull by
// scan, adv1s by adv30) and swap adjacent events into rank order, again only
// while it still violates. It returns the plain ddmin result too (a
// subsequence of the input, used to recognise further instances cheaply).
func minimiseC42(t *testing.T, env *c42Env, c c42Case, clause string, runs *int64) (ddmin, canonical c42Case) {
	still := func(events []string) bool {
		r := runC42(t, env, c42Case{c.Kind, events})
		atomic.AddInt64(runs, 1)
		return !r.Invalid && r.Infra == "" && r.Clause == clause
	}
	cur := append([]string{}, c.Events...)
	for changed := true; changed; {
		changed = false
		for i := 0; i < len(cur); i++ {
			cand := append(append([]string{}, cur[:i]...), cur[i+1:]...)
			if still(cand) {
				cur = cand
				changed = true
				i--
			}
		}
		// Some events only make sense in pairs (poll ... cancel): try pairs too.
		for i := 0; i < len(cur) && !changed; i++ {
			for j := i + 1; j < len(cur) && !changed; j++ {
				cand := append([]string{}, cur[:i]...)
				cand = append(cand, cur[i+1:j]...)
				cand = append(cand, cur[j+1:]...)
				if still(cand) {
					cur = cand
					changed = true
				}
			}
		}
	}
	ddmin = c42Case{c.Kind, append([]string{}, cur...)}
	simpler := map[string]string{"scanfull": "scan", "adv1s": "adv30"}
	for changed := true; changed; {
		changed = false
		for i := range cur {
			if s, ok := simpler[cur[i]]; ok {
				cand := append([]string{}, cur...)
				cand[i] = s
				if still(cand) {
					cur, changed = cand, true
				}
			}
		}
		for i := 0; i+1 < len(cur); i++ {
			if c42Rank[cur[i]] > c42Rank[cur[i+1]] {
				cand := append([]string{}, cur...)
				cand[i], cand[i+1] = cand[i+1], cand[i]
				if still(cand) {
					cur, changed = cand, true
				}
			}
		}
	}
	canonical = c42Case{c.Kind, cur}
	// A history without transitions does not depend on the transition kind.
	uses := false
	for _, e := range cur {
		if e == "trans" || e == "extrev" || e == "release" || e == "sync" || e == "await" || e == "extchild" || e == "mkroot" || e == "fileroot" || e == "rmroot" || e == "outage" {
			uses = true
		}
	}
	if !uses && c.Kind != "dir" {
		if r := runC42(t, env, c42Case{"dir", cur}); !r.Invalid && r.Infra == "" && r.Clause == clause {
			canonical.Kind = "dir"
		}
	}
	return ddmin, canonical
}

func TestC42(t *testing.T) {
	r := vr.New(t, "C42", "exploration")
	defer r.Finish()

	tuneGC()
	verifhook.Set(c42Hook)
	defer verifhook.Set(nil)
	data := scratchDir(t)
	os.Setenv("MUTAGEN_DATA_DIRECTORY", data)
	mkenv := func(t *testing.T, name string) *c42Env {
		return &c42Env{base: scratchDir(t), sid: "c42" + name, data: data}
	}

	if raw := vr.ReplayCase(); raw != nil {
		var c c42Case
		if err := json.Unmarshal(raw, &c); err != nil {
			t.Fatalf("INFRA: bad replay case: %v", err)
		}
		env := mkenv(t, "replay")
		env.log = t.Logf
		res := runC42(t, env, c)
		t.Logf("replay %s: invalid=%v infra=%q clause=%q what=%s", c.key(), res.Invalid, res.Infra, res.Clause, res.What)
		r.Case(c.key(), res.Nontrivial)
		if res.Infra != "" || res.Invalid {
			t.Fatalf("INFRA: replay did not run: invalid=%v %s", res.Invalid, res.Infra)
		}
		if res.Clause != "" {
			r.Violate(res.Clause+"|"+c.key(), res.What, c, nil)
		}
		return
	}

	// Depth bounds per transition kind (DESIGN: 6 quick / 8 thorough; the
	// file variant costs a staging round per transition and adds nothing to the
	// watch logic, so it runs one level shallower in the quick tier; depth 8 does
	// not fit the 10 min thorough budget, 7 does).
	depthOf := map[string]int{"macro": 5, "root": 5, "pop": 5, "dir": 6, "file": 5, "gate": 5}
	if vr.Thorough() {
		depthOf = map[string]int{"macro": 7, "root": 7, "pop": 7, "dir": 7, "file": 7, "gate": 7}
	}
	if s := os.Getenv("VERIF_C42_DEPTH"); s != "" { // for measuring tree sizes only
		var d int
		fmt.Sscan(s, &d)
		depthOf = map[string]int{"macro": d, "root": d, "pop": d, "dir": d, "file": d, "gate": d}
	}
	depth := depthOf["dir"]
	kinds := []string{"macro", "root", "pop", "dir", "file", "gate"}
	deadline := scaledDeadline(55*time.Second, 9*time.Minute)
	r.Rule(fmt.Sprintf("every sequence of <= %d harness events (scan, scanfull, trans[create/delete t after staging], poll, cancel, adv30ms, adv1s, extedit[g: create/modify/delete], extrev[exact external reversal of the last transition]) that respects the Endpoint contract (one call outstanding, Transition only after a Scan), for t a directory (depth %d), t a file (depth %d), and a two-change transition (directories t and t2) held by a hook-layer gate between its two changes until a release event so that poll scans land inside it (depth %d), plus a controller-shaped variant whose events are whole habits (sync = Scan then Transition, await = Poll then 30 ms, plus an outage event during which the root is a symbolic link for one polling interval so that a polling scan fails; depth %d, so it reaches much longer raw histories), and a variant whose target directory is populated (x, y) and can receive an unknown child t/z externally (event extchild) between Scan and Transition, so that its removal succeeds only partly (depth %d), and a variant without transitions in which the synchronization root itself starts absent and is created externally as a directory with a file (mkroot) or as a file (fileroot) and removed again (rmroot) (depth %d); histories are visited level by level (all variants of length d before any of length d+1); each history is a fresh bubble replayed from scratch; non-trivial = a Scan was judged after a disk-changing transition, or an external modification created a notification obligation; distinct by (kind, event list)", depth, depthOf["dir"], depthOf["file"], depthOf["gate"], depthOf["macro"], depthOf["pop"], depthOf["root"]))
	r.Assume("real local endpoint, force-poll, 1 s interval, accelerated scanning, probe mode assume, staging in the data directory",
		"granularity: harness events happen only at quiescence (synctest.Wait); interleavings inside one quiescence step and Go select choice are not owned (divergent_replays counts observed differences)",
		"second sentence judged on what the consumer can see: while the disk differs from what the consumer was last told (Scan result + transition results) and no notification was delivered since it was told, a Poll must return within interval + 2 x coalescing window of virtual time from the last change of disk or belief; modifications undone before a poll could sample them, or already reported by a Scan, owe nothing",
		"the consumer follows the controller protocol: after a notification it scans before polling again",
		"the gate variant holds the Transition at one point only (before the mkdirat/unlinkat of its second change)")

	var (
		executions, histories, divergent, violating, minRuns int64
		maxDepth                                             int64
		capped                                               atomic.Bool
		mu                                                   sync.Mutex
		minimal                                              []c42Case // minimal violating cases found so far
		minimalClause                                        []string
	)

	report := func(t *testing.T, env *c42Env, c c42Case, res *c42Result) {
		atomic.AddInt64(&violating, 1)
		mu.Lock()
		for i, m := range minimal {
			if m.Kind == c.Kind && minimalClause[i] == res.Clause && isSubsequence(m.Events, c.Events) {
				mu.Unlock()
				return
			}
		}
		mu.Unlock()
		dd, m := minimiseC42(t, env, c, res.Clause, &minRuns)
		mres := runC42(t, env, m)
		mu.Lock()
		minimal = append(minimal, dd)
		minimalClause = append(minimalClause, res.Clause)
		mu.Unlock()
		key := res.Clause + "|" + m.key()
		renv := *env
		r.Violate(key, mres.What, m, func() bool {
			rr := runC42(t, &renv, m)
			return rr.Clause == res.Clause && rr.Infra == "" && !rr.Invalid
		})
	}

	// visit runs one history (twice: the second run only to detect divergent
	// replays) and returns the events enabled after it, or nil when the
	// subtree must not be extended.
	visit := func(t *testing.T, env *c42Env, c c42Case) []string {
		res := runC42(t, env, c)
		res2 := runC42(t, env, c)
		atomic.AddInt64(&executions, 2)
		atomic.AddInt64(&histories, 1)
		if res.Infra != "" || res.Invalid {
			t.Fatalf("INFRA: history %s: invalid=%v %s", c.key(), res.Invalid, res.Infra)
		}
		if strings.Join(res.Obs, "\n") != strings.Join(res2.Obs, "\n") || res.Clause != res2.Clause {
			atomic.AddInt64(&divergent, 1)
		}
		for d := int64(len(c.Events)); ; {
			old := atomic.LoadInt64(&maxDepth)
			if d <= old || atomic.CompareAndSwapInt64(&maxDepth, old, d) {
				break
			}
		}
		r.Case(c.key(), res.Nontrivial)
		r.Outcome(res.outcome())
		if res.Clause != "" {
			report(t, env, c, res)
			return nil // minimal-by-prefix: do not extend a violating history
		}
		return res.Enabled
	}

	// Level-synchronous exploration: all histories of length d (of every kind)
	// are visited - in parallel, each from scratch - before any of length d+1,
	// so that a wall budget can only ever cut the deepest level and shallow
	// histories of all variants are always covered. The frontier is kept in a
	// compact form (kind index + event indices).
	type compact struct {
		kind   uint8
		events []uint8
	}
	evIndex := map[string]uint8{}
	for i, e := range c42EventNames {
		evIndex[e] = uint8(i)
	}
	expand := func(n compact) c42Case {
		c := c42Case{Kind: kinds[n.kind]}
		for _, e := range n.events {
			c.Events = append(c.Events, c42EventNames[e])
		}
		return c
	}
	var frontier []compact
	for k := range kinds {
		frontier = append(frontier, compact{kind: uint8(k)})
	}
	completeDepth := -1
	for d := 0; len(frontier) > 0; d++ {
		children := make([][]compact, len(frontier))
		q := &workQueue{n: len(frontier)}
		parallelSubtests(t, workers(), func(t *testing.T, w int) {
			env := mkenv(t, fmt.Sprintf("d%dw%d", d, w))
			for {
				i, ok := q.take()
				if !ok {
					return
				}
				if time.Now().After(deadline) {
					capped.Store(true)
					return
				}
				n := frontier[i]
				c := expand(n)
				enabled := visit(t, env, c)
				if len(n.events) >= depthOf[c.Kind] {
					continue
				}
				for _, ev := range enabled {
					child := compact{kind: n.kind, events: make([]uint8, len(n.events)+1)}
					copy(child.events, n.events)
					child.events[len(n.events)] = evIndex[ev]
					children[i] = append(children[i], child)
				}
			}
		})
		if capped.Load() {
			break
		}
		completeDepth = d
		frontier = frontier[:0]
		for _, cs := range children {
			frontier = append(frontier, cs...)
		}
	}

	r.Set("executions", executions+minRuns)
	r.Set("distinct_histories", histories)
	r.Set("depth_reached", maxDepth)
	r.Set("depth_bound", depthOf)
	r.Set("divergent_replays", divergent)
	r.Set("violating_histories", violating)
	r.Set("complete_depth", completeDepth)
	if capped.Load() {
		r.NotExhaustive(fmt.Sprintf("wall budget reached: every history of length <= %d (all variants) was visited, length %d only partly (bounds %v)", completeDepth, completeDepth+1, depthOf))
	} else if divergent > 0 {
		r.NotExhaustive(fmt.Sprintf("%d histories gave different observations on their second replay (scheduling not owned below quiescence granularity)", divergent))
	}
	r.Sample(c42Case{"dir", []string{"scan", "trans", "adv30", "scan", "extrev", "poll"}})
	r.Sample(c42Case{"file", []string{"poll", "extedit", "adv1s", "scan", "trans", "scan"}})
}
