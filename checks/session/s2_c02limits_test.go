//go:build verif

package session

import (
	"context"
	"encoding/json"
	"fmt"
	"os"
	"path/filepath"
	"strings"
	"testing"
	"testing/synctest"
	"time"

	"github.com/mutagen-io/mutagen/pkg/synchronization"
	urlpkg "github.com/mutagen-io/mutagen/pkg/url"

	"verif/internal/vr"
)

// ---------------------------------------------------------------------------
// C02, history leg with per-endpoint entry limits (TestC02HistoryLimits).
//
// Same machinery as the history legs of hist_test.go (one execution = one
// bubble with the real Manager/controller and two real local endpoints on two
// real roots, no-watch, every cycle an explicit waiting Flush; the harness keeps
// its own record of what it wrote and of where the two roots last agreed), but
// the sessions are created with a maximum entry count in the alpha- and/or
// beta-specific configuration, and the edit alphabet creates directories that
// hold 0..2 files. An endpoint whose limit would be exceeded by a planned
// change REFUSES the whole transition (reports a problem, touches nothing);
// what it then reports as "result" is folded into the ancestor by the
// controller, so a wrong report poisons the NEXT cycle's reconciliation. The
// oracle is exactly the protected-side oracle of TestC02History (hRun.survive,
// hIdentity): nothing about limits is demanded, only that protected content
// survives every cycle.
// ---------------------------------------------------------------------------

// lCase is the replayable description of one execution.
type lCase struct {
	Prop     string     `json:"prop"`
	Leg      string     `json:"leg"`
	Mode     string     `json:"mode"`
	Base     string     `json:"base"`      // "a" (file a=1 on both roots) | "empty"
	AlphaMax uint64     `json:"alpha_max"` // 0 = unlimited
	BetaMax  uint64     `json:"beta_max"`  // 0 = unlimited
	Groups   [][]string `json:"groups"`    // edits like "alpha:mkd2", "beta:rm a"
}

func (c lCase) key() string {
	var gs []string
	for _, g := range c.Groups {
		gs = append(gs, strings.Join(g, ","))
	}
	return fmt.Sprintf("limits:%s:%s:amax=%d:bmax=%d:%s", c.Mode, c.Base, c.AlphaMax, c.BetaMax, strings.Join(gs, " | "))
}

// lAbs is the abstract view of one root: file a, directory d holding files x, y.
type lAbs struct {
	A string // "", "1", "2"
	D bool
	X string // d/x: "", "1", "2"
	Y string // d/y: "", "1"
}

// count is the number of entries mutagen counts for the root (the root
// directory itself included).
func (s lAbs) count() uint64 {
	n := uint64(1)
	if s.A != "" {
		n++
	}
	if s.D {
		n++
		if s.X != "" {
			n++
		}
		if s.Y != "" {
			n++
		}
	}
	return n
}

func lAbsOf(root string) lAbs {
	var s lAbs
	read := func(p string) string {
		data, err := os.ReadFile(filepath.Join(root, p))
		if err != nil {
			return ""
		}
		return string(data)
	}
	s.A = read("a")
	if info, err := os.Lstat(filepath.Join(root, "d")); err == nil && info.IsDir() {
		s.D = true
		s.X = read("d/x")
		s.Y = read("d/y")
	}
	return s
}

// The per-root edit alphabet: create / modify / delete a file, create a
// directory holding 0, 1 or 2 files, create or modify a file in it, delete it.
var lOps = []string{"a=1", "a=2", "rm a", "mkd0", "mkd1", "mkd2", "d/x=1", "d/x=2", "rm d"}

func lOpApply(s lAbs, op string) lAbs {
	switch op {
	case "a=1":
		s.A = "1"
	case "a=2":
		s.A = "2"
	case "rm a":
		s.A = ""
	case "mkd0":
		s.D = true
	case "mkd1":
		s.D, s.X = true, "1"
	case "mkd2":
		s.D, s.X, s.Y = true, "1", "1"
	case "d/x=1":
		s.X = "1"
	case "d/x=2":
		s.X = "2"
	case "rm d":
		s.D, s.X, s.Y = false, "", ""
	}
	return s
}

// lOpEnabled: the edit applies in state s and does not push the root beyond
// its OWN limit (a root over its limit makes every scan fail, the session then
// retries for ever without synchronizing anything: outside this leg).
func lOpEnabled(s lAbs, op string, max uint64) bool {
	ok := false
	switch op {
	case "a=1":
		ok = s.A != "1"
	case "a=2":
		ok = s.A != "2"
	case "rm a":
		ok = s.A != ""
	case "mkd0", "mkd1", "mkd2":
		ok = !s.D
	case "d/x=1":
		ok = s.D && s.X != "1"
	case "d/x=2":
		ok = s.D && s.X != "2"
	case "rm d":
		ok = s.D
	}
	if !ok {
		return false
	}
	return max == 0 || lOpApply(s, op).count() <= max
}

func lOpName(op string) string {
	if op == "a=1" || op == "a=2" || op == "rm a" {
		return "a"
	}
	return "d"
}

// lGroups lists every edit group of 1..maxEdits (<= 2) edits applicable in the
// given state, canonically: edits on different roots commute (alpha's first);
// two edits of one root on different top-level names are taken a-first unless
// only the other order is possible under the root's limit.
func lGroups(st [2]lAbs, max [2]uint64, maxEdits int) [][]string {
	var out [][]string
	for si, side := range hSides {
		for _, op := range lOps {
			if lOpEnabled(st[si], op, max[si]) {
				out = append(out, []string{side + ":" + op})
			}
		}
	}
	if maxEdits < 2 {
		return out
	}
	seq := func(s lAbs, m uint64, op1, op2 string) bool {
		return lOpEnabled(s, op1, m) && lOpEnabled(lOpApply(s, op1), op2, m)
	}
	for si, side := range hSides {
		for _, op1 := range lOps {
			if !lOpEnabled(st[si], op1, max[si]) {
				continue
			}
			for _, op2 := range lOps {
				if !seq(st[si], max[si], op1, op2) {
					continue
				}
				if lOpName(op1) != lOpName(op2) && lOpName(op1) == "d" && seq(st[si], max[si], op2, op1) {
					continue // the a-first order stands for both
				}
				out = append(out, []string{side + ":" + op1, side + ":" + op2})
			}
			if si == 0 {
				for _, op2 := range lOps {
					if lOpEnabled(st[1], op2, max[1]) {
						out = append(out, []string{"alpha:" + op1, "beta:" + op2})
					}
				}
			}
		}
	}
	return out
}

// lEdit applies one external edit and records it in the hRun bookkeeping
// (pending writes per root) exactly as hRun.edit does for its alphabet.
func lEdit(h *hRun, ev string, max [2]uint64) {
	sideName, op, _ := strings.Cut(ev, ":")
	side := 0
	if sideName == "beta" {
		side = 1
	}
	root := h.roots[side]
	if !lOpEnabled(lAbsOf(root), op, max[side]) {
		h.v.Infra = "edit not applicable: " + ev
		return
	}
	st := &h.w.st
	write := func(p, content string) {
		h.nwrite++
		full := filepath.Join(root, p)
		os.WriteFile(full, []byte(content), 0o600)
		st.stamp(full)
		st.stamp(filepath.Dir(full))
	}
	mkd := func() {
		os.Mkdir(filepath.Join(root, "d"), 0o700)
		st.stamp(filepath.Join(root, "d"))
		st.stamp(root)
	}
	switch op {
	case "a=1", "a=2":
		write("a", op[2:])
		h.record(side, "a")
	case "rm a":
		os.Remove(filepath.Join(root, "a"))
		st.stamp(root)
		h.pending[side]["a"] = hWrite{}
	case "mkd0":
		mkd()
		h.record(side, "d")
	case "mkd1":
		mkd()
		write("d/x", "1")
		h.record(side, "d")
		h.record(side, "d/x")
	case "mkd2":
		mkd()
		write("d/x", "1")
		write("d/y", "1")
		h.record(side, "d")
		h.record(side, "d/x")
		h.record(side, "d/y")
	case "d/x=1", "d/x=2":
		write("d/x", op[4:])
		h.record(side, "d/x")
	case "rm d":
		os.RemoveAll(filepath.Join(root, "d"))
		st.stamp(root)
		h.dropUnder(side, "d")
		h.pending[side]["d"] = hWrite{}
	}
	h.obs("edit %s", ev)
}

// lSettle is hRun.settle plus the agreement record for d/y (settle keeps it
// for a, d and d/x only).
func lSettle(h *hRun) {
	h.settle()
	fa, fb := hFlat(h.roots[0]), hFlat(h.roots[1])
	if fa["d/y"] == fb["d/y"] && fa["d"] == fb["d"] {
		h.agreed["d/y"] = fa["d/y"]
	}
}

// lCreate is sessWorld.create with endpoint-specific maximum entry counts.
func lCreate(w *sessWorld, alphaMax, betaMax uint64) *apiCall {
	a := &urlpkg.URL{Kind: urlpkg.Kind_Synchronization, Protocol: urlpkg.Protocol_Local, Path: w.alphaRoot}
	b := &urlpkg.URL{Kind: urlpkg.Kind_Synchronization, Protocol: urlpkg.Protocol_Local, Path: w.betaRoot}
	return w.call("create", func() error {
		id, err := w.mgr.Create(context.Background(), a, b, w.cfg,
			&synchronization.Configuration{MaximumEntryCount: alphaMax},
			&synchronization.Configuration{MaximumEntryCount: betaMax},
			"s", nil, false, "")
		if err == nil {
			w.mu.Lock()
			w.sid = id
			w.mu.Unlock()
		}
		return err
	})
}

// lIdle is the number of flush-driven cycles run after the last edit group.
const lIdle = 2

// runLimHist executes one history in a fresh bubble and returns the verdict
// and the abstract state of the two roots afterwards.
func runLimHist(t *testing.T, base string, c lCase, verbose func(string, ...any)) (*hVerdict, [2]lAbs) {
	v := &hVerdict{Tags: map[string]bool{}}
	var after [2]lAbs
	max := [2]uint64{c.AlphaMax, c.BetaMax}
	synctest.Test(t, func(t *testing.T) {
		w, err := newSessWorld(base, c11Modes[c.Mode], verbose)
		if err != nil {
			v.Infra = err.Error()
			return
		}
		defer func() {
			w.teardown()
			if w.infra != "" && v.Infra == "" {
				v.Infra = w.infra
			}
		}()
		w.cfg.WatchMode = synchronization.WatchMode_WatchModeNoWatch
		w.cfg.WatchPollingInterval = 0
		h := &hRun{w: w, c: hCase{Prop: "C02", Mode: c.Mode, Base: c.Base, Groups: c.Groups}, v: v, roots: [2]string{w.alphaRoot, w.betaRoot}}
		h.pending[0], h.pending[1] = map[string]hWrite{}, map[string]hWrite{}
		h.agreed = map[string]string{}
		if c.Base == "a" {
			for _, root := range h.roots {
				os.WriteFile(filepath.Join(root, "a"), []byte("1"), 0o600)
				w.st.stamp(filepath.Join(root, "a"))
				w.st.stamp(root)
			}
		}
		if err := w.newManager(); err != nil {
			v.Infra = err.Error()
			return
		}
		call := lCreate(w, c.AlphaMax, c.BetaMax)
		synctest.Wait()
		w.collect()
		if !call.returned || call.Err != nil {
			v.Infra = fmt.Sprintf("create: returned=%v err=%v", call.returned, call.Err)
			return
		}
		if cy := h.cycle(""); v.Infra != "" || !cy.ok {
			if v.Infra == "" {
				v.Infra = fmt.Sprintf("priming cycle failed: %v", cy.err)
			}
			return
		}
		lSettle(h)
		oneWay := strings.HasPrefix(c.Mode, "one-way")
		// judge applies C02's clauses to one completed cycle (the same calls as
		// the C02 branch of runHist's judge; two-way-safe, where both sides are
		// protected, is the control borrowed from C01).
		judge := func(cy *hCycle, alphaBefore map[string]string) {
			if oneWay {
				// "In one-way modes the source (alpha) endpoint is never modified"
				v.Nontrivial = true
				if now := hIdentity(h.roots[0]); !flatEqual(alphaBefore, now) {
					h.violate("alpha-modified", fmt.Sprintf("one-way cycle changed alpha: before [%s] after [%s]", flatString(alphaBefore), flatString(now)))
				}
				if cy.work["alpha"] > 0 {
					h.violate("alpha-modified", fmt.Sprintf("one-way cycle issued %d Stage/Transition call(s) to alpha", cy.work["alpha"]))
				}
			}
			switch c.Mode {
			case "one-way-safe":
				// "One-way-safe never deletes or overwrites beta content that was
				// created or modified since the last synchronization"
				h.survive(1, false, "lost-beta-modification")
			case "two-way-resolved":
				// "two-way-resolved never deletes or overwrites alpha content that
				// was created or modified since then"
				h.survive(0, false, "lost-alpha-modification")
			case "two-way-safe":
				h.survive(0, false, "lost-alpha-modification")
				h.survive(1, false, "lost-beta-modification")
			}
			if len(cy.conflicts) > 0 {
				v.Tags["conflict-listed"] = true
			}
			for side := 0; side < 2; side++ {
				if len(cy.problems[side]) > 0 {
					v.Tags["refused:"+hSides[side]] = true
					if len(h.pending[1-side]) > 0 {
						v.Tags["refused-while-other-side-has-unsynchronized-writes"] = true
					}
				}
			}
			if cy.work["alpha"]+cy.work["beta"] > 0 {
				v.Tags["propagated"] = true
			}
		}
		var last *hCycle
		for _, g := range c.Groups {
			for _, ev := range g {
				lEdit(h, ev, max)
				if v.Infra != "" {
					return
				}
			}
			alphaBefore := hIdentity(h.roots[0])
			cy := h.cycle("")
			if v.Infra != "" {
				return
			}
			judge(cy, alphaBefore)
			last = cy
			if !cy.ok {
				// The cycle failed (staging beyond the limit is a hard error,
				// or a safety halt): nothing more is demanded of this history.
				v.Halted = true
				if isHalted(cy.status) {
					v.Tags["halted:"+cy.status.String()] = true
				} else {
					v.Tags["cycle-failed"] = true
				}
				break
			}
			lSettle(h)
			if v.Viol != "" {
				return
			}
		}
		// The state in which a further edit group would be applied (the idle
		// cycles below belong to this history only).
		after = [2]lAbs{lAbsOf(h.roots[0]), lAbsOf(h.roots[1])}
		// Idle cycles after the last edit: a wrong record made by the last
		// cycle shows in the next one.
		if last != nil && last.ok && v.Viol == "" {
			for i := 0; i < lIdle && v.Viol == "" && v.Infra == ""; i++ {
				alphaBefore := hIdentity(h.roots[0])
				cy := h.cycle("")
				if v.Infra != "" {
					return
				}
				if !cy.ok {
					v.Halted = true
					v.Tags["idle-cycle-failed"] = true
					break
				}
				judge(cy, alphaBefore)
				lSettle(h)
			}
		}
	})
	return v, after
}

// ---- enumeration ----

type lBounds struct {
	groups, perGroup, total int
	limits                  []uint64 // the finite limit values tried (0 = unlimited is always tried)
}

func lBoundsFor(thorough bool) lBounds {
	if thorough {
		return lBounds{groups: 3, perGroup: 2, total: 4, limits: []uint64{2, 3, 4, 5}}
	}
	return lBounds{groups: 2, perGroup: 2, total: 3, limits: []uint64{2, 3, 4}}
}

var lModes = []string{"two-way-resolved", "one-way-safe", "two-way-safe"}

// lConfigs lists the (alpha limit, beta limit) pairs tried for a mode: no
// limit at all (control), each limit on beta alone, on alpha alone (two-way
// modes only: a one-way alpha never receives anything), and on both.
func lConfigs(mode string, b lBounds, thorough bool) [][2]uint64 {
	out := [][2]uint64{{0, 0}}
	for _, k := range b.limits {
		out = append(out, [2]uint64{0, k})
	}
	if strings.HasPrefix(mode, "two-way") {
		for _, k := range b.limits {
			out = append(out, [2]uint64{k, 0})
		}
	}
	if thorough {
		for _, k := range b.limits {
			out = append(out, [2]uint64{k, k})
		}
	} else {
		out = append(out, [2]uint64{4, 4})
	}
	return out
}

type lNode struct {
	c     lCase
	st    [2]lAbs
	edits int
}

func lWorker(t *testing.T, job *swJob, out *swOutput) {
	base := scratchDir(t)
	b := lBoundsFor(job.Thorough)
	visit := func(c lCase) (*hVerdict, [2]lAbs) {
		v, after := runLimHist(t, base, c, nil)
		out.Executions++
		out.Histories++
		if v.Infra != "" {
			out.Infra = c.key() + ": " + v.Infra
			return v, after
		}
		if len(c.Groups) > out.MaxDepth {
			out.MaxDepth = len(c.Groups)
		}
		out.addCase(c.key(), v.Nontrivial, hOutcome(v))
		if v.Tags["refused:alpha"] || v.Tags["refused:beta"] {
			out.Extra["histories_with_a_refused_transition"]++
			if v.Tags["refused-while-other-side-has-unsynchronized-writes"] {
				out.Extra["histories_refused_with_unsynchronized_writes_pending"]++
			}
		}
		if v.Tags["cycle-failed"] {
			out.Extra["histories_ended_by_a_failed_cycle"]++
		}
		if v.Viol != "" {
			out.violate(v.Viol+"|"+c.key(), v.What, c)
		}
		return v, after
	}
	// Breadth first over ALL (mode, limits, base) combinations: every history
	// of g groups is run before any history of g+1 groups, so that a capped run
	// still covers every combination at the shallow depths. Shards: the
	// one-group histories are dealt round-robin; each worker extends its own.
	var frontier []lNode
	for _, mode := range lModes {
		for _, cfg := range lConfigs(mode, b, job.Thorough) {
			for _, baseKind := range []string{"a", "empty"} {
				var st [2]lAbs
				if baseKind == "a" {
					st = [2]lAbs{{A: "1"}, {A: "1"}}
				}
				frontier = append(frontier, lNode{lCase{Prop: "C02", Leg: "limits", Mode: mode, Base: baseKind, AlphaMax: cfg[0], BetaMax: cfg[1]}, st, 0})
			}
		}
	}
	idx := 0
	for depth := 1; depth <= b.groups && len(frontier) > 0; depth++ {
		var next []lNode
		for _, n := range frontier {
			room := b.total - n.edits
			if room <= 0 {
				continue
			}
			per := b.perGroup
			if per > room {
				per = room
			}
			for _, g := range lGroups(n.st, [2]uint64{n.c.AlphaMax, n.c.BetaMax}, per) {
				if depth == 1 {
					idx++
					if idx%job.Shards != job.Shard {
						continue
					}
				}
				if out.Infra != "" {
					return
				}
				if time.Now().Unix() > job.Deadline {
					out.Capped = true
					return
				}
				nc := n.c
				nc.Groups = append(append([][]string{}, n.c.Groups...), g)
				v, after := visit(nc)
				if v.Infra != "" || v.Viol != "" || v.Halted {
					continue
				}
				next = append(next, lNode{nc, after, n.edits + len(g)})
			}
		}
		frontier = next
	}
}

func init() {
	workerFuncs["C02/limits"] = lWorker
}

// TestC02HistoryLimits: see the header comment of this file.
func TestC02HistoryLimits(t *testing.T) {
	r := vr.New(t, "C02", "exploration")
	defer r.Finish()
	tuneGC()
	if raw := vr.ReplayCase(); raw != nil {
		var c lCase
		if err := json.Unmarshal(raw, &c); err != nil {
			t.Fatalf("INFRA: bad replay case: %v", err)
		}
		v, _ := runLimHist(t, scratchDir(t), c, t.Logf)
		t.Logf("replay %s: infra=%q verdict=%q %s", c.key(), v.Infra, v.Viol, v.What)
		if v.Infra != "" {
			t.Fatalf("INFRA: %s", v.Infra)
		}
		r.Case(c.key(), v.Nontrivial)
		if v.Viol != "" {
			r.Violate(v.Viol+"|"+c.key(), v.What, c, nil)
		}
		return
	}
	b := lBoundsFor(vr.Thorough())
	r.Rule(fmt.Sprintf("entry-limit history leg: every history of <= %d edit groups, <= %d edits per group, <= %d edits in all, each group followed by one cycle (waiting Flush) and the last by %d more, over the per-root edits %v (mkdN = create directory d holding N files; an edit that would push a root beyond its own limit is not enabled; edits on different roots / on different top-level names of one root are taken in one canonical order), from base 'a' (file a on both roots) and an empty base, under modes %v, with maximum entry counts (alpha, beta) from {unlimited} x {unlimited, %v} and the converse (two-way modes) plus %s, on real sessions with two real local roots (no-watch); breadth first over all combinations; non-trivial = a protected write existed when a cycle was judged (one-way modes: always, alpha is compared); distinct by (mode, base, limits, groups)",
		b.groups, b.perGroup, b.total, lIdle, lOps, lModes, b.limits, map[bool]string{true: "(k, k) for each finite k", false: "(4, 4)"}[vr.Thorough()]))
	r.Assume("entry-limit history leg oracle (the same as the history leg's): one-way modes: an lstat walk of alpha (bytes, inode, mode, mtime) is identical before and after every cycle and alpha receives no Stage/Transition call; one-way-safe: what the harness created or modified on beta since the roots last agreed at that path (and at all its parents) is still there with the harness' bytes after every cycle; two-way-resolved: likewise on alpha; two-way-safe (control, C01's clause): likewise on both roots",
		"nothing is demanded about the limits themselves (C41) nor about what a refused transition reports (C05): only that protected content survives the cycles that follow a refusal",
		"the user never pushes a root beyond that root's own limit (every scan would fail and nothing would be synchronized); a cycle whose waiting flush fails (staging beyond the limit is a hard error) ends the history",
		"within this alphabet a transition refused for the limit consists of creations only (one new directory, its files and possibly file a), so the known finding of the controller leg (archive entry recorded from a refused report equals later protected content) is out of reach here")
	dir := scratchDir(t)
	deadline := scaledDeadline(45*time.Second, 9*time.Minute).Unix()
	n := vr.Workers()
	var jobs []swJob
	for i := 0; i < n; i++ {
		jobs = append(jobs, swJob{Prop: "C02", Leg: "limits", Shard: i, Shards: n, Thorough: vr.Thorough(), Deadline: deadline})
	}
	outs := runWorkers(t, dir, jobs, 40*time.Minute)
	rerun := func(v swViolation) bool {
		var c lCase
		json.Unmarshal(v.Case, &c)
		vv, _ := runLimHist(t, dir, c, nil)
		return vv.Infra == "" && vv.Viol+"|"+c.key() == v.Key
	}
	tot := mergeWorkers(r, outs, rerun)
	logOutcomes(t, tot.Outcomes)
	r.Set("limits_history_executions", tot.Executions)
	r.Set("limits_history_groups_reached", tot.MaxDepth)
	r.Set("limits_history_bounds", fmt.Sprintf("groups:%d perGroup:%d total:%d limits:%v idle:%d", b.groups, b.perGroup, b.total, b.limits, lIdle))
	for k, v := range tot.Extra {
		r.Set("limits_"+k, v)
	}
	if tot.Capped {
		r.NotExhaustive("entry-limit history leg: wall budget reached before the enumeration finished")
	}
	r.Sample(lCase{Prop: "C02", Leg: "limits", Mode: "two-way-resolved", Base: "a", BetaMax: 4, Groups: [][]string{{"alpha:mkd2"}}})
	r.Sample(lCase{Prop: "C02", Leg: "limits", Mode: "one-way-safe", Base: "empty", BetaMax: 3, Groups: [][]string{{"alpha:mkd1", "beta:a=2"}, {"alpha:d/x=2"}}})
}
