//go:build verif

package session

import (
	"context"
	"encoding/json"
	"fmt"
	"os"
	"path/filepath"
	"sort"
	"strings"
	"syscall"
	"testing"
	"testing/synctest"
	"time"

	"github.com/mutagen-io/mutagen/pkg/synchronization"

	"verif/internal/vr"
)

// ---------------------------------------------------------------------------
// Real-disk multi-cycle history legs of C01, C02, C03 and C04.
//
// One execution = one bubble: the real Manager/controller with two real local
// endpoints (no-watch mode; every cycle is an explicit waiting Flush) on two
// real roots. A history is a list of edit groups; every group is a few external
// edits on alpha and/or beta followed by one cycle. All histories up to the
// bound are enumerated (no sampling). The harness keeps its own record of what
// it wrote and of what the two roots last agreed on - independent of mutagen's
// archive - and judges every cycle from the property statements.
// ---------------------------------------------------------------------------

// hCase is the replayable description of one execution.
type hCase struct {
	Prop   string     `json:"prop"`
	Mode   string     `json:"mode"`
	Base   string     `json:"base"`   // "populated" (a=1, d/x=1 on both roots) | "empty"
	Groups [][]string `json:"groups"` // edits like "alpha:a=2", "beta:rm d"
}

func (c hCase) key() string {
	var gs []string
	for _, g := range c.Groups {
		gs = append(gs, strings.Join(g, ","))
	}
	return "history:" + c.Mode + ":" + c.Base + ":" + strings.Join(gs, " | ")
}

// hAbs is the harness' abstract view of one root, enough to decide which
// edits apply.
type hAbs struct {
	A    string // "", "1", "2", "dir", "link"
	D    string // "", "dir", "file"
	X    string // d/x: "", "1", "2"
	Ign  bool   // d/ign.tmp exists
	Fifo bool   // d/p exists
}

func hAbsOf(root string) hAbs {
	var s hAbs
	d := flatDisk(root)
	content := func(p string) string {
		data, _ := os.ReadFile(filepath.Join(root, p))
		return string(data)
	}
	switch {
	case d["a"] == "dir":
		s.A = "dir"
	case strings.HasPrefix(d["a"], "link:"):
		s.A = "link"
	case strings.HasPrefix(d["a"], "file:"):
		s.A = content("a")
	}
	switch {
	case d["d"] == "dir":
		s.D = "dir"
		if strings.HasPrefix(d["d/x"], "file:") {
			s.X = content("d/x")
		}
		_, s.Ign = d["d/ign.tmp"]
		_, s.Fifo = d["d/p"]
	case strings.HasPrefix(d["d"], "file:"):
		s.D = "file"
	}
	return s
}

var hOps = []string{"a=1", "a=2", "rm a", "a->dir", "a->link", "mkdir d", "d/x=1", "d/x=2", "rm d", "d->file", "d/ign", "d/fifo"}

func hOpEnabled(s hAbs, op string) bool {
	switch op {
	case "a=1":
		return s.A == "" || s.A == "2" || s.A == "link"
	case "a=2":
		return s.A == "" || s.A == "1" || s.A == "link"
	case "rm a":
		return s.A != ""
	case "a->dir":
		return s.A == "1" || s.A == "2"
	case "a->link":
		return s.A == "1" || s.A == "2" || s.A == ""
	case "mkdir d":
		return s.D == ""
	case "d/x=1":
		return s.D == "dir" && s.X != "1"
	case "d/x=2":
		return s.D == "dir" && s.X != "2"
	case "rm d":
		return s.D != ""
	case "d->file":
		return s.D == "dir"
	case "d/ign":
		return s.D == "dir" && !s.Ign
	case "d/fifo":
		return s.D == "dir" && !s.Fifo
	}
	return false
}

func hOpApply(s hAbs, op string) hAbs {
	switch op {
	case "a=1":
		s.A = "1"
	case "a=2":
		s.A = "2"
	case "rm a":
		s.A = ""
	case "a->dir":
		s.A = "dir"
	case "a->link":
		s.A = "link"
	case "mkdir d":
		s.D = "dir"
	case "d/x=1":
		s.X = "1"
	case "d/x=2":
		s.X = "2"
	case "rm d":
		s.D, s.X, s.Ign, s.Fifo = "", "", false, false
	case "d->file":
		s.D, s.X, s.Ign, s.Fifo = "file", "", false, false
	case "d/ign":
		s.Ign = true
	case "d/fifo":
		s.Fifo = true
	}
	return s
}

func hOpName(op string) string { // top-level name an op touches
	if strings.HasPrefix(op, "a") || op == "rm a" {
		return "a"
	}
	return "d"
}

// hGroups lists every edit group of 1..maxEdits (<= 2) edits applicable in the
// given state, in canonical form: edits on different roots commute (alpha's
// first), and so do edits of one root on different top-level names (a's first).
func hGroups(st [2]hAbs, maxEdits int) [][]string {
	sides := []string{"alpha", "beta"}
	var out [][]string
	for si, side := range sides {
		for _, op := range hOps {
			if hOpEnabled(st[si], op) {
				out = append(out, []string{side + ":" + op})
			}
		}
	}
	if maxEdits < 2 {
		return out
	}
	for si, side := range sides {
		for _, op1 := range hOps {
			if !hOpEnabled(st[si], op1) {
				continue
			}
			// same root
			after := hOpApply(st[si], op1)
			for _, op2 := range hOps {
				if !hOpEnabled(after, op2) {
					continue
				}
				if hOpName(op1) != hOpName(op2) {
					// Independent edits: keep only the order (a-op, d-op), and only
					// if the second one was already possible before the first.
					if hOpName(op1) != "a" || !hOpEnabled(st[si], op2) {
						continue
					}
				}
				out = append(out, []string{side + ":" + op1, side + ":" + op2})
			}
			// other root (alpha first)
			if si == 0 {
				for _, op2 := range hOps {
					if hOpEnabled(st[1], op2) {
						out = append(out, []string{"alpha:" + op1, "beta:" + op2})
					}
				}
			}
		}
	}
	return out
}

// ---- per-execution state ----

type hWrite struct {
	desc      string // what the harness left at the path ("file:<sha1>", "dir", "fifo"; "" = deleted)
	untracked bool   // ignored file or FIFO: never synchronized
	late      bool   // created while the cycle's Transition was held at the gate (after its scan)
	ino       uint64
}

type hVerdict struct {
	Infra      string
	Viol       string
	What       string
	Nontrivial bool
	Tags       map[string]bool
	After      [2]hAbs
	Halted     bool
	Obs        []string
}

type hRun struct {
	w       *sessWorld
	c       hCase
	v       *hVerdict
	roots   [2]string
	pending [2]map[string]hWrite // per root: what the harness did at a path since the two roots last agreed there
	agreed  map[string]string    // per path: what both roots held when they last agreed there ("" = nothing)
	nwrite  int
}

var hSides = []string{"alpha", "beta"}

func (h *hRun) obs(format string, args ...any) {
	line := fmt.Sprintf(format, args...)
	h.v.Obs = append(h.v.Obs, line)
	h.w.logf("%s", line)
}

func (h *hRun) violate(clause, what string) {
	if h.v.Viol == "" {
		h.v.Viol, h.v.What = clause, what
		h.obs("VIOLATION[%s] %s", clause, what)
	}
}

func inoOf(path string) uint64 {
	info, err := os.Lstat(path)
	if err != nil {
		return 0
	}
	if st, ok := info.Sys().(*syscall.Stat_t); ok {
		return st.Ino
	}
	return 0
}

// hFlat is flatDisk with FIFOs named as such.
func hFlat(root string) map[string]string {
	m := flatDisk(root)
	for p, d := range m {
		if d == "other" {
			if info, err := os.Lstat(filepath.Join(root, p)); err == nil && info.Mode()&os.ModeNamedPipe != 0 {
				m[p] = "fifo"
			}
		}
	}
	return m
}

// hIdentity is an lstat walk that also records inode numbers and permission
// bits: two equal identities mean nothing under the root was touched.
func hIdentity(root string) map[string]string {
	m := hFlat(root)
	out := map[string]string{}
	for p, d := range m {
		full := filepath.Join(root, p)
		info, err := os.Lstat(full)
		if err != nil {
			out[p] = d
			continue
		}
		out[p] = fmt.Sprintf("%s ino=%d mode=%o mtime=%d", d, inoOf(full), info.Mode().Perm(), info.ModTime().UnixNano())
	}
	return out
}

func isUntrackedPath(p string) bool {
	return strings.HasSuffix(p, ".tmp") || p == "d/p"
}

func (h *hRun) dropUnder(side int, prefix string) {
	for p := range h.pending[side] {
		if strings.HasPrefix(p, prefix+"/") {
			delete(h.pending[side], p)
		}
	}
}

func (h *hRun) record(side int, p string) {
	full := filepath.Join(h.roots[side], p)
	desc := hFlat(h.roots[side])[p]
	h.pending[side][p] = hWrite{desc: desc, untracked: isUntrackedPath(p), ino: inoOf(full)}
}

// edit applies one external edit and records it.
func (h *hRun) edit(ev string) {
	sideName, op, _ := strings.Cut(ev, ":")
	side := 0
	if sideName == "beta" {
		side = 1
	}
	root := h.roots[side]
	if !hOpEnabled(hAbsOf(root), op) {
		h.v.Infra = "edit not applicable: " + ev
		return
	}
	st := &h.w.st
	write := func(p, content string) {
		h.nwrite++
		full := filepath.Join(root, p)
		os.WriteFile(full, []byte(content), 0o600)
		st.stamp(full)
		st.stamp(filepath.Dir(full))
	}
	switch op {
	case "a=1", "a=2":
		os.Remove(filepath.Join(root, "a")) // it may be a symbolic link
		write("a", op[2:])
		h.record(side, "a")
	case "a->link":
		os.Remove(filepath.Join(root, "a"))
		os.Symlink("d/x", filepath.Join(root, "a")) // a portable, in-root target
		st.stamp(root)
		h.record(side, "a")
	case "rm a":
		os.RemoveAll(filepath.Join(root, "a"))
		st.stamp(root)
		h.dropUnder(side, "a")
		h.pending[side]["a"] = hWrite{}
	case "a->dir":
		os.RemoveAll(filepath.Join(root, "a"))
		os.Mkdir(filepath.Join(root, "a"), 0o700)
		st.stamp(filepath.Join(root, "a"))
		st.stamp(root)
		h.record(side, "a")
	case "mkdir d":
		os.Mkdir(filepath.Join(root, "d"), 0o700)
		st.stamp(filepath.Join(root, "d"))
		st.stamp(root)
		h.record(side, "d")
	case "d/x=1", "d/x=2":
		write("d/x", op[4:])
		h.record(side, "d/x")
	case "rm d":
		os.RemoveAll(filepath.Join(root, "d"))
		st.stamp(root)
		h.dropUnder(side, "d")
		h.pending[side]["d"] = hWrite{}
	case "d->file":
		os.RemoveAll(filepath.Join(root, "d"))
		h.dropUnder(side, "d")
		write("d", "1")
		h.record(side, "d")
	case "d/ign":
		write("d/ign.tmp", "ignored content")
		h.record(side, "d/ign.tmp")
	case "d/fifo":
		full := filepath.Join(root, "d/p")
		syscall.Mkfifo(full, 0o600)
		st.stamp(filepath.Join(root, "d"))
		h.record(side, "d/p")
	}
	h.obs("edit %s", ev)
}

type hCycle struct {
	ok        bool // the waiting flush returned success
	err       error
	work      map[string]int // per side: Stage + Transition calls during the cycle
	conflicts []string       // conflict roots listed afterwards
	problems  [2][]string    // transition problem paths listed afterwards, per side
	status    synchronization.Status
}

// cycle runs one waiting Flush and collects what the session reports. If late
// is non-empty ("late:<side>:<op>"), that side's Transition is held at the
// gate, the edit is applied while it is held (i.e. after the cycle's scan), and
// the gate is opened again.
func (h *hRun) cycle(late string) *hCycle {
	w := h.w
	c := &hCycle{work: map[string]int{}}
	gateKey := ""
	if late != "" {
		parts := strings.SplitN(late, ":", 3)
		gateKey = parts[1] + ".Transition"
		w.mu.Lock()
		w.gateArmed[gateKey] = true
		w.mu.Unlock()
	}
	call := w.call("flush", func() error { return w.mgr.Flush(context.Background(), w.sel(), "", false) })
	synctest.Wait()
	if late != "" {
		if len(w.heldGates()) > 0 {
			parts := strings.SplitN(late, ":", 3)
			side := 0
			if parts[1] == "beta" {
				side = 1
			}
			if hOpEnabled(hAbsOf(h.roots[side]), parts[2]) {
				h.edit(parts[1] + ":" + parts[2])
				p := map[string]string{"d/ign": "d/ign.tmp", "d/fifo": "d/p"}[parts[2]]
				wr := h.pending[side][p]
				wr.late = true
				h.pending[side][p] = wr
				h.v.Tags["late-edit-inside-transition"] = true
			} else {
				h.v.Tags["late-edit-not-applicable"] = true
			}
		} else {
			h.v.Tags["late-edit-no-transition"] = true
		}
		w.releaseGates()
		synctest.Wait()
	}
	w.collect()
	if !call.returned {
		h.v.Infra = "waiting flush did not return at quiescence"
		return c
	}
	c.err = call.Err
	c.ok = call.Err == nil
	for _, e := range w.journalSince(call.CallSeq) {
		if e.Phase == "begin" && (e.Op == "Stage" || e.Op == "Transition") {
			c.work[e.Side]++
		}
	}
	st, err := w.state()
	if err != nil || st == nil {
		h.v.Infra = fmt.Sprintf("list: %v", err)
		return c
	}
	c.status = st.Status
	for _, cf := range st.Conflicts {
		c.conflicts = append(c.conflicts, cf.Root)
	}
	for _, p := range st.AlphaState.TransitionProblems {
		c.problems[0] = append(c.problems[0], p.Path)
	}
	for _, p := range st.BetaState.TransitionProblems {
		c.problems[1] = append(c.problems[1], p.Path)
	}
	h.obs("cycle: ok=%v status=%v work=%v conflicts=%v problems=%v alpha[%s] beta[%s]", c.ok, c.status, c.work, c.conflicts, c.problems,
		flatString(hFlat(h.roots[0])), flatString(hFlat(h.roots[1])))
	return c
}

func related(p, q string) bool {
	return p == q || p == "" || q == "" || strings.HasPrefix(p, q+"/") || strings.HasPrefix(q, p+"/")
}

func covered(paths []string, q string) bool {
	for _, p := range paths {
		if related(p, q) {
			return true
		}
	}
	return false
}

func parentOf(p string) (string, bool) {
	i := strings.LastIndex(p, "/")
	if i < 0 {
		return "", false
	}
	return p[:i], true
}

// settle updates the harness' record after a completed cycle: wherever both
// roots now hold the same thing at a path AND at every parent directory of it,
// the path counts as agreed (synchronized) and earlier writes there are no
// longer "since the last synchronization". Untracked paths never agree.
func (h *hRun) settle() {
	fa, fb := hFlat(h.roots[0]), hFlat(h.roots[1])
	agrees := func(p string) bool {
		for q := p; ; {
			if fa[q] != fb[q] { // absent on both sides compares equal ("" == "")
				return false
			}
			parent, ok := parentOf(q)
			if !ok {
				return true
			}
			q = parent
		}
	}
	for side := 0; side < 2; side++ {
		for p, wr := range h.pending[side] {
			if !wr.untracked && agrees(p) {
				delete(h.pending[side], p)
			}
		}
	}
	for _, p := range []string{"a", "d", "d/x"} {
		if agrees(p) {
			h.agreed[p] = fa[p]
		}
	}
}

// modified reports whether a recorded harness write left something different
// from what the roots last agreed on at that path: rewriting the synchronized
// bytes is not a modification ("unchanged since the last successful
// synchronization" is a statement about content).
func (h *hRun) modified(p string, wr hWrite) bool {
	if wr.untracked {
		return true
	}
	return wr.desc != h.agreed[p]
}

// survive is the core of C01 / C02 / C03: what the harness wrote on a
// protected root since the roots last agreed there is still there, same bytes
// (and, for untracked objects, same inode).
func (h *hRun) survive(side int, onlyUntracked bool, clause string) {
	now := hFlat(h.roots[side])
	for p, wr := range h.pending[side] {
		if wr.desc == "" || (onlyUntracked && !wr.untracked) || !h.modified(p, wr) {
			continue
		}
		h.v.Nontrivial = true
		if now[p] != wr.desc {
			h.violate(clause, fmt.Sprintf("%s/%s was %s when the harness last wrote it (not synchronized since) and is %q after the cycle", hSides[side], p, wr.desc, now[p]))
			return
		}
		if wr.untracked && inoOf(filepath.Join(h.roots[side], p)) != wr.ino {
			h.violate(clause, fmt.Sprintf("%s/%s (untracked) was replaced: inode %d became %d", hSides[side], p, wr.ino, inoOf(filepath.Join(h.roots[side], p))))
			return
		}
	}
}

// conflictsDemanded is C01's second sentence: "When both endpoints created or
// modified content at overlapping paths, the disagreement is reported as a
// conflict". Overlap with disagreement = the same path with different results,
// or one side put a non-directory where the other side wrote underneath.
func (h *hRun) conflictsDemanded(cy *hCycle) {
	for pa, wa := range h.pending[0] {
		if wa.desc == "" || wa.untracked || !h.modified(pa, wa) {
			continue
		}
		for pb, wb := range h.pending[1] {
			if wb.desc == "" || wb.untracked || !h.modified(pb, wb) {
				continue
			}
			q := ""
			switch {
			case pa == pb && wa.desc != wb.desc:
				q = pa
			case strings.HasPrefix(pb, pa+"/") && wa.desc != "dir":
				q = pa
			case strings.HasPrefix(pa, pb+"/") && wb.desc != "dir":
				q = pb
			default:
				continue
			}
			h.v.Tags["conflict-demanded"] = true
			if !covered(cy.conflicts, q) {
				h.violate("conflict-not-reported", fmt.Sprintf("alpha wrote %s at %q and beta wrote %s at %q since they last agreed there, but no listed conflict covers %q (conflicts: %v)", wa.desc, pa, wb.desc, pb, q, cy.conflicts))
				return
			}
		}
	}
}

// reportDemanded is C03's second sentence: untracked content sits under a
// directory that the other side deleted or replaced, and that side's changes
// propagate in this mode: "a conflict is reported instead and the content
// stays on disk".
func (h *hRun) reportDemanded(cy *hCycle) {
	for x := 0; x < 2; x++ {
		y := 1 - x
		if !c11Propagates(h.c.Mode, hSides[y]) {
			continue
		}
		for p, wr := range h.pending[x] {
			if !wr.untracked || wr.desc == "" || wr.late {
				continue // (an object created after the scan cannot have been planned around)
			}
			holder, ok := parentOf(p)
			if !ok {
				continue
			}
			wy, edited := h.pending[y][holder]
			if !edited || wy.desc == "dir" {
				continue
			}
			// Only when nothing tracked changed on x's side of the holder: then
			// y's deletion/replacement is what would propagate (if x changed
			// tracked content there too, the modes resolve the disagreement in
			// ways that may not need to touch the holder at all).
			xChanged := false
			for p2, w2 := range h.pending[x] {
				if !w2.untracked && related(p2, holder) && (w2.desc == "" || h.modified(p2, w2)) {
					xChanged = true
				}
			}
			if xChanged {
				continue
			}
			h.v.Tags["report-demanded"] = true
			if !covered(cy.conflicts, holder) {
				h.violate("untracked-in-the-way-without-conflict", fmt.Sprintf("%s holds untracked %s, %s %s %q, and the cycle listed no conflict there (conflicts %v, transition problems %v)",
					hSides[x], p, hSides[y], map[bool]string{true: "deleted", false: "replaced"}[wy.desc == ""], holder, cy.conflicts, cy.problems))
				return
			}
		}
	}
}

// runHist executes one history in a fresh bubble.
func runHist(t *testing.T, base string, c hCase, verbose func(string, ...any)) *hVerdict {
	v := &hVerdict{Tags: map[string]bool{}}
	synctest.Test(t, func(t *testing.T) {
		w, err := newSessWorld(base, c11Modes[c.Mode], verbose)
		if err != nil {
			v.Infra = err.Error()
			return
		}
		defer func() {
			w.teardown()
			if w.infra != "" && v.Infra == "" {
				v.Infra = w.infra
			}
		}()
		w.cfg.WatchMode = synchronization.WatchMode_WatchModeNoWatch
		w.cfg.WatchPollingInterval = 0
		w.cfg.Ignores = []string{"*.tmp"}
		h := &hRun{w: w, c: c, v: v, roots: [2]string{w.alphaRoot, w.betaRoot}}
		h.pending[0], h.pending[1] = map[string]hWrite{}, map[string]hWrite{}
		h.agreed = map[string]string{}
		if c.Base == "populated" {
			for _, root := range h.roots {
				os.WriteFile(filepath.Join(root, "a"), []byte("1"), 0o600)
				os.Mkdir(filepath.Join(root, "d"), 0o700)
				os.WriteFile(filepath.Join(root, "d", "x"), []byte("1"), 0o600)
				for _, p := range []string{"a", "d/x", "d", ""} {
					w.st.stamp(filepath.Join(root, p))
				}
			}
		}
		if err := w.newManager(); err != nil {
			v.Infra = err.Error()
			return
		}
		call := w.create(false)
		synctest.Wait()
		w.collect()
		if !call.returned || call.Err != nil {
			v.Infra = fmt.Sprintf("create: returned=%v err=%v", call.returned, call.Err)
			return
		}
		if cy := h.cycle(""); v.Infra != "" || !cy.ok {
			if v.Infra == "" {
				v.Infra = fmt.Sprintf("priming cycle failed: %v", cy.err)
			}
			return
		}
		h.settle()
		oneWay := strings.HasPrefix(c.Mode, "one-way")
		// judge applies the per-cycle clauses of the property.
		judge := func(cy *hCycle, alphaBefore map[string]string, first bool) {
			switch c.Prop {
			case "C01":
				// "a synchronization cycle never deletes or overwrites content on
				// either endpoint unless that content is unchanged since the last
				// successful synchronization"
				h.survive(0, false, "lost-alpha-modification")
				h.survive(1, false, "lost-beta-modification")
				if cy.ok {
					h.conflictsDemanded(cy)
				}
			case "C02":
				if oneWay {
					// "In one-way modes the source (alpha) endpoint is never modified"
					v.Nontrivial = true
					if now := hIdentity(h.roots[0]); !flatEqual(alphaBefore, now) {
						h.violate("alpha-modified", fmt.Sprintf("one-way cycle changed alpha: before [%s] after [%s]", flatString(alphaBefore), flatString(now)))
					}
					if cy.work["alpha"] > 0 {
						h.violate("alpha-modified", fmt.Sprintf("one-way cycle issued %d Stage/Transition call(s) to alpha", cy.work["alpha"]))
					}
				}
				if c.Mode == "one-way-safe" {
					h.survive(1, false, "lost-beta-modification")
				}
				if c.Mode == "two-way-resolved" {
					h.survive(0, false, "lost-alpha-modification")
				}
			case "C03":
				// "never deletes, replaces or moves aside filesystem content that it does not track"
				h.survive(0, true, "untracked-content-lost")
				h.survive(1, true, "untracked-content-lost")
				// (Also when the cycle failed without a safety halt: an error is
				// not "a conflict is reported instead".)
				if first && (cy.ok || !isHalted(cy.status)) {
					h.reportDemanded(cy)
				}
			}
			if len(cy.conflicts) > 0 {
				v.Tags["conflict-listed"] = true
			}
			if len(cy.problems[0])+len(cy.problems[1]) > 0 {
				v.Tags["problem-listed"] = true
			}
			if cy.work["alpha"]+cy.work["beta"] > 0 {
				v.Tags["propagated"] = true
			}
		}
		var last *hCycle
		for _, g := range c.Groups {
			late := ""
			for _, ev := range g {
				if strings.HasPrefix(ev, "late:") {
					late = ev
					continue
				}
				h.edit(ev)
				if v.Infra != "" {
					return
				}
			}
			alphaBefore := hIdentity(h.roots[0])
			cy := h.cycle(late)
			if v.Infra != "" {
				return
			}
			judge(cy, alphaBefore, true)
			last = cy
			if !cy.ok {
				// The session halted (root emptied / deleted / retyped) or failed:
				// nothing more is demanded of this history here.
				v.Halted = true
				v.Tags["halted-or-failed:"+cy.status.String()] = true
				break
			}
			h.settle()
			if v.Viol != "" {
				return
			}
		}
		// Quiescent flushes after the last edit.
		if last != nil && last.ok && v.Viol == "" {
			var tail []*hCycle
			for i := 0; i < 2 && v.Viol == "" && v.Infra == ""; i++ {
				alphaBefore := hIdentity(h.roots[0])
				cy := h.cycle("")
				if !cy.ok {
					v.Halted = true
					break
				}
				judge(cy, alphaBefore, false)
				h.settle()
				tail = append(tail, cy)
			}
			if c.Prop == "C04" && len(tail) == 2 && v.Viol == "" && v.Infra == "" {
				h.fixpoint(last, tail)
			}
		}
		v.After = [2]hAbs{hAbsOf(h.roots[0]), hAbsOf(h.roots[1])}
	})
	return v
}

// fixpoint is C04: "If every change planned by a cycle is applied exactly, the
// next cycle ... plans no further changes" and "in two-way modes ... both
// endpoints hold identical synchronizable content everywhere except under
// reported conflicts and paths that are untracked or problematic on one side".
func (h *hRun) fixpoint(first *hCycle, tail []*hCycle) {
	all := append([]*hCycle{first}, tail...)
	for _, cy := range all {
		if len(cy.problems[0])+len(cy.problems[1]) > 0 {
			// Some change was not applied exactly: the premise does not hold.
			h.v.Tags["fixpoint-premise-fails"] = true
			return
		}
	}
	h.v.Nontrivial = true
	h.v.Tags["fixpoint-checked"] = true
	for i, cy := range tail {
		if n := cy.work["alpha"] + cy.work["beta"]; n > 0 {
			h.violate("not-a-fixpoint", fmt.Sprintf("quiescent cycle %d after the last edit still issued %d Stage/Transition call(s) (%v) although no problem was reported", i+2, n, cy.work))
			return
		}
	}
	if strings.HasPrefix(h.c.Mode, "two-way") {
		fa, fb := hFlat(h.roots[0]), hFlat(h.roots[1])
		conflicts := tail[len(tail)-1].conflicts
		paths := map[string]bool{}
		for p := range fa {
			paths[p] = true
		}
		for p := range fb {
			paths[p] = true
		}
		for p := range paths {
			if fa[p] == fb[p] || covered(conflicts, p) {
				continue
			}
			// Untracked on a side (or below something untracked): exempt.
			exempt := false
			for q := p; ; {
				if isUntrackedPath(q) || fa[q] == "fifo" || fb[q] == "fifo" {
					exempt = true
				}
				parent, ok := parentOf(q)
				if !ok {
					break
				}
				q = parent
			}
			if exempt {
				continue
			}
			h.violate("not-converged", fmt.Sprintf("after quiescent cycles alpha has %q and beta has %q at %q, which is under no listed conflict (%v) and not untracked", fa[p], fb[p], p, conflicts))
			return
		}
	}
}

// ---- enumeration ----

type hBounds struct{ groups, perGroup, total int }

func hBoundsFor(thorough bool) hBounds {
	if thorough {
		return hBounds{groups: 3, perGroup: 2, total: 4}
	}
	return hBounds{groups: 2, perGroup: 2, total: 3}
}

var hModesFor = map[string][]string{
	"C01": {"two-way-safe"},
	"C02": {"one-way-safe", "one-way-replica", "two-way-resolved"},
	"C03": c11ModeOrder,
	"C04": c11ModeOrder,
}

func hOutcome(v *hVerdict) string {
	tags := make([]string, 0, len(v.Tags))
	for k := range v.Tags {
		tags = append(tags, k)
	}
	sort.Strings(tags)
	if len(tags) == 0 {
		return "quiet"
	}
	return strings.Join(tags, "+")
}

func hWorker(t *testing.T, job *swJob, out *swOutput) {
	base := scratchDir(t)
	b := hBoundsFor(job.Thorough)
	prop := job.Prop
	var rec func(c hCase, edits int, st [2]hAbs)
	var lateVariants func(c hCase, edits int, st [2]hAbs)
	visit := func(c hCase) *hVerdict {
		v := runHist(t, base, c, nil)
		out.Executions++
		out.Histories++
		if v.Infra != "" {
			out.Infra = c.key() + ": " + v.Infra
			return v
		}
		if len(c.Groups) > out.MaxDepth {
			out.MaxDepth = len(c.Groups)
		}
		out.addCase(c.key(), v.Nontrivial, hOutcome(v))
		if v.Viol != "" {
			out.violate(v.Viol+"|"+c.key(), v.What, c)
		}
		return v
	}
	rec = func(c hCase, edits int, st [2]hAbs) {
		if len(c.Groups) >= b.groups {
			return
		}
		room := b.total - edits
		if room <= 0 {
			return
		}
		per := b.perGroup
		if per > room {
			per = room
		}
		groups := hGroups(st, per)
		// Shallow first: all one-more-group histories, then their extensions.
		type next struct {
			c  hCase
			st [2]hAbs
			n  int
		}
		var nexts []next
		for _, g := range groups {
			if out.Infra != "" {
				return
			}
			if time.Now().Unix() > job.Deadline {
				out.Capped = true
				return
			}
			nc := hCase{prop, c.Mode, c.Base, append(append([][]string{}, c.Groups...), g)}
			v := visit(nc)
			if v.Infra != "" || v.Viol != "" {
				continue
			}
			lateVariants(nc, edits+len(g), st)
			if v.Halted {
				continue
			}
			nexts = append(nexts, next{nc, v.After, edits + len(g)})
		}
		for _, n := range nexts {
			rec(n.c, n.n, n.st)
		}
	}
	// lateVariants (C03 only): the same group with one more edit - an ignored
	// file or a FIFO created in d while that root's Transition is held at the
	// gate, i.e. after the cycle's scan. Terminal (never extended).
	lateVariants = func(c hCase, edits int, st [2]hAbs) {
		if prop != "C03" || edits+1 > b.total {
			return
		}
		g := c.Groups[len(c.Groups)-1]
		after := st
		for _, ev := range g {
			sideName, op, _ := strings.Cut(ev, ":")
			si := 0
			if sideName == "beta" {
				si = 1
			}
			after[si] = hOpApply(after[si], op)
		}
		for si, side := range hSides {
			for _, op := range []string{"d/ign", "d/fifo"} {
				if !hOpEnabled(after[si], op) {
					continue
				}
				if out.Infra != "" || time.Now().Unix() > job.Deadline {
					return
				}
				ng := append(append([]string{}, g...), "late:"+side+":"+op)
				visit(hCase{prop, c.Mode, c.Base, append(append([][]string{}, c.Groups[:len(c.Groups)-1]...), ng)})
			}
		}
	}
	// Shards: (mode, base, first group) dealt round-robin.
	idx := 0
	for _, mode := range hModesFor[prop] {
		for _, baseKind := range []string{"populated", "empty"} {
			var st [2]hAbs
			if baseKind == "populated" {
				st = [2]hAbs{{A: "1", D: "dir", X: "1"}, {A: "1", D: "dir", X: "1"}}
			}
			root := hCase{prop, mode, baseKind, nil}
			per := b.perGroup
			if per > b.total {
				per = b.total
			}
			for _, g := range hGroups(st, per) {
				idx++
				if idx%job.Shards != job.Shard {
					continue
				}
				if out.Infra != "" {
					return
				}
				if time.Now().Unix() > job.Deadline {
					out.Capped = true
					return
				}
				nc := hCase{prop, mode, baseKind, [][]string{g}}
				v := visit(nc)
				if v.Infra != "" || v.Viol != "" {
					continue
				}
				lateVariants(nc, len(g), st)
				if v.Halted {
					continue
				}
				rec(nc, len(g), v.After)
			}
			_ = root
		}
	}
}

func init() {
	for _, p := range []string{"C01", "C02", "C03", "C04"} {
		workerFuncs[p+"/history"] = hWorker
	}
}

var hText = map[string]string{
	"C01": "what the harness created or modified on either root since the roots last agreed at that path (and at all its parents) is still there with the harness' bytes after every cycle; where both roots were written at the same path with different results, or one put a non-directory where the other wrote underneath, the session lists a conflict covering the path",
	"C02": "one-way modes: an lstat walk of alpha (bytes, inode, mode, mtime) is identical before and after every cycle and alpha receives no Stage/Transition call; one-way-safe: what the harness wrote on beta since the last agreement survives; two-way-resolved: what it wrote on alpha survives",
	"C03": "every ignored file and FIFO the harness created still exists with the same inode and bytes after every cycle in every mode; when the other root deleted or replaced the directory holding it and that root's changes propagate, the first cycle afterwards lists a conflict or a transition problem there",
	"C04": "after the last edit three cycles are run; unless a transition problem was reported, the last two issue no Stage/Transition call, and in two-way modes both roots are equal (lstat walk) except under listed conflicts and untracked paths",
}

func hTest(t *testing.T, prop string) {
	r := vr.New(t, prop, "exploration")
	defer r.Finish()
	tuneGC()
	if raw := vr.ReplayCase(); raw != nil {
		var c hCase
		if err := json.Unmarshal(raw, &c); err != nil {
			t.Fatalf("INFRA: bad replay case: %v", err)
		}
		c.Prop = prop
		v := runHist(t, scratchDir(t), c, t.Logf)
		t.Logf("replay %s: infra=%q verdict=%q %s", c.key(), v.Infra, v.Viol, v.What)
		if v.Infra != "" {
			t.Fatalf("INFRA: %s", v.Infra)
		}
		r.Case(c.key(), v.Nontrivial)
		if v.Viol != "" {
			r.Violate(v.Viol+"|"+c.key(), v.What, c, nil)
		}
		return
	}
	b := hBoundsFor(vr.Thorough())
	r.Rule(fmt.Sprintf("history leg: every history of <= %d edit groups, <= %d edits per group, <= %d edits in all, each group followed by one cycle (waiting Flush) and the last by two more, over the per-root edits %v (edits on different roots / on different top-level names of one root are taken in one canonical order), from a populated (a, d/x on both roots) and an empty base, under modes %v, on real sessions with two real local roots (no-watch, *.tmp ignored); non-trivial = the property's clause was actually exercised (a protected write existed / an untracked object existed / the fixpoint premise held); distinct by (mode, base, groups)",
		b.groups, b.perGroup, b.total, hOps, hModesFor[prop]))
	r.Assume("history-leg oracle: "+hText[prop],
		"the harness keeps its own record of what it wrote and of where the two roots last agreed; mutagen's archive is never consulted",
		"real Manager/controller and local endpoints in a testing/synctest bubble; each history is run once from scratch (violations are re-run 5 times)",
		"a cycle whose waiting flush fails (session halted for safety) ends the history")
	dir := scratchDir(t)
	deadline := scaledDeadline(50*time.Second, 9*time.Minute).Unix()
	n := vr.Workers()
	var jobs []swJob
	for i := 0; i < n; i++ {
		jobs = append(jobs, swJob{Prop: prop, Leg: "history", Shard: i, Shards: n, Thorough: vr.Thorough(), Deadline: deadline})
	}
	outs := runWorkers(t, dir, jobs, 40*time.Minute)
	rerun := func(v swViolation) bool {
		var c hCase
		json.Unmarshal(v.Case, &c)
		vv := runHist(t, dir, c, nil)
		return vv.Infra == "" && vv.Viol+"|"+c.key() == v.Key
	}
	tot := mergeWorkers(r, outs, rerun)
	logOutcomes(t, tot.Outcomes)
	r.Set("history_executions", tot.Executions)
	r.Set("history_distinct_histories", tot.Histories)
	r.Set("history_groups_reached", tot.MaxDepth)
	r.Set("history_bounds", fmt.Sprintf("%+v", b))
	if tot.Capped {
		r.NotExhaustive("history leg: wall budget reached before the enumeration finished")
	}
	r.Sample(hCase{prop, hModesFor[prop][0], "populated", [][]string{{"alpha:a=2", "beta:a->dir"}, {"beta:rm d"}}})
	r.Sample(hCase{prop, hModesFor[prop][0], "populated", [][]string{{"alpha:d/ign", "beta:rm d"}}})
}

func TestC01History(t *testing.T) { hTest(t, "C01") }
func TestC02History(t *testing.T) { hTest(t, "C02") }
func TestC03History(t *testing.T) { hTest(t, "C03") }
func TestC04History(t *testing.T) { hTest(t, "C04") }
