//go:build verif

package ignores

import (
	"encoding/json"
	"fmt"
	"path/filepath"
	"sort"
	"strings"
	"sync/atomic"
	"testing"

	"github.com/mutagen-io/mutagen/pkg/synchronization/core/ignore"
	mutagenignore "github.com/mutagen-io/mutagen/pkg/synchronization/core/ignore/mutagen"

	"verif/internal/vr"
)

// ---------------------------------------------------------------------------
// Reference semantics for Mutagen-style ignores, written from the property
// statement (and the documented grammar), without doublestar.

// refPattern is one parsed pattern of the reference.
type refPattern struct {
	negated  bool     // leading '!'
	anchored bool     // "leading-slash or slash-containing patterns are anchored at the root"
	dirOnly  bool     // "trailing-slash patterns match only directories"
	comps    []string // pattern components ('/'-separated, anchoring and trailing slash removed)
}

func refParse(p string) refPattern {
	var r refPattern
	if strings.HasPrefix(p, "!") {
		r.negated = true
		p = p[1:]
	}
	if strings.HasSuffix(p, "/") {
		r.dirOnly = true
		p = strings.TrimSuffix(p, "/")
	}
	if strings.HasPrefix(p, "/") {
		r.anchored = true
		p = p[1:]
	}
	if strings.Contains(p, "/") {
		r.anchored = true
	}
	r.comps = strings.Split(p, "/")
	return r
}

// refComp matches one path component against one pattern component:
// '*' = any run of characters, '?' = exactly one character, '[...]' = one
// character of the class ('!' or '^' first negates, 'x-y' is a range),
// anything else is literal. Components never contain '/'.
func refComp(pat, name string) bool {
	if pat == "" {
		return name == ""
	}
	switch pat[0] {
	case '*':
		for k := 0; k <= len(name); k++ {
			if refComp(pat[1:], name[k:]) {
				return true
			}
		}
		return false
	case '?':
		return name != "" && refComp(pat[1:], name[1:])
	case '[':
		end := strings.IndexByte(pat, ']')
		if end < 0 || name == "" {
			return false
		}
		class := pat[1:end]
		neg := false
		if class != "" && (class[0] == '!' || class[0] == '^') {
			neg = true
			class = class[1:]
		}
		in := false
		for i := 0; i < len(class); i++ {
			if i+2 < len(class) && class[i+1] == '-' {
				if class[i] <= name[0] && name[0] <= class[i+2] {
					in = true
				}
				i += 2
			} else if class[i] == name[0] {
				in = true
			}
		}
		return in != neg && refComp(pat[end+1:], name[1:])
	default:
		return name != "" && name[0] == pat[0] && refComp(pat[1:], name[1:])
	}
}

// refGlob matches path components against pattern components where a "**"
// component "spans directory levels": it stands for zero or more whole
// components.
func refGlob(pat, path []string) bool {
	if len(pat) == 0 {
		return len(path) == 0
	}
	if pat[0] == "**" {
		for k := 0; k <= len(path); k++ {
			if refGlob(pat[1:], path[k:]) {
				return true
			}
		}
		return false
	}
	return len(path) > 0 && refComp(pat[0], path[0]) && refGlob(pat[1:], path[1:])
}

func (r refPattern) matches(path string, dir bool) bool {
	if r.dirOnly && !dir {
		return false
	}
	pc := strings.Split(path, "/")
	if r.anchored {
		return refGlob(r.comps, pc)
	}
	// "Patterns without a slash match the final component anywhere".
	return refGlob(r.comps, pc[len(pc)-1:])
}

var refVCSNames = map[string]bool{".git": true, ".svn": true, ".hg": true, ".bzr": true, "_darcs": true}

// refVerdict is the reference's decision for one path.
type refVerdict struct {
	ignored  bool
	matching int  // how many patterns match the path
	last     int  // index of the last matching pattern (-1 if none)
	vcs      bool // decided by the version-control rule
}

// refIgnored: "a path is ignored exactly when the last pattern matching it is
// a non-negated one"; "version-control directories are excluded when that
// option is on".
func refIgnored(pats []refPattern, path string, dir bool, vcs bool) refVerdict {
	v := refVerdict{last: -1}
	for i, p := range pats {
		if p.matches(path, dir) {
			v.matching++
			v.last = i
		}
	}
	v.ignored = v.last >= 0 && !pats[v.last].negated
	if vcs && dir {
		base := path[strings.LastIndexByte(path, '/')+1:]
		if refVCSNames[base] {
			v.vcs = true
			v.ignored = true
		}
	}
	return v
}

// ---------------------------------------------------------------------------
// Enumeration domains.

// c14Bases are the un-negated patterns; the alphabet is every base and its
// negation. The first c14QuickBases are used in the quick tier.
var c14Bases = []string{
	"a",    // literal without slash: final component anywhere
	"*",    // star
	"?",    // single character
	"a*",   // literal + star
	"[ab]", // character class
	"/a",   // leading slash: anchored
	"a/b",  // inner slash: anchored
	"b/",   // trailing slash: directories only, anywhere
	"/a/",  // anchored + directories only
	"**/b", // ** spanning leading levels
	"a/**", // ** spanning trailing levels
	".git", // VCS name as an ordinary pattern
	// thorough tier additions
	"*/b",    // star as a whole inner component (anchored by the slash)
	"a/**/b", // ** in the middle
	"[!a]",   // negated class
	"a?",     // literal + ?
	"**",     // bare **
	"/a/b/",  // anchored two-level directory-only
	"?b",     // ? + literal
	"b/**/",  // trailing ** directory-only
}

const c14QuickBases = 12

func c14Alphabet(thorough bool) []string {
	n := c14QuickBases
	if thorough {
		n = len(c14Bases)
	}
	var out []string
	for _, b := range c14Bases[:n] {
		out = append(out, b, "!"+b)
	}
	return out
}

// c14Trees are the on-disk trees of the scan leg; together they put a file, a
// directory and a link behind the names a, b, ab, c, .git at up to three levels.
var c14Trees = []*tree{
	mk("m1",
		"a/", "a/a", "a/b/", "a/b/a", "a/b/c", "a/b/b/", "a/b/b/a", "a/ab", "a/.git/", "a/.git/a",
		"b/", "b/a/", "b/a/b", "b/b->a", "ab", "c/", ".git/", ".git/a", ".git/b/", ".git/b/c"),
	mk("m2",
		"a", "b/", "b/a", "b/b/", "b/b/b", "b/b/ab/", "b/.git", "b/c->a", "ab/", "ab/b", "ab/a/", "ab/a/b/", "c->b", ".git",
		".svn/", ".svn/b", "_darcs/", "_darcs/a/", "_darcs/a/b"),
}

// c14Paths is the path set of the ignorer leg: every path of the scan trees
// plus a few that exist in neither; each is evaluated as a file and as a
// directory.
func c14Paths() []string {
	set := map[string]bool{}
	for _, t := range c14Trees {
		for _, it := range t.Items {
			set[it.Path] = true
		}
	}
	for _, p := range []string{"c/a/b", "c/b", "ab/ab", "b/b/c/b", "a/a/a/b", ".hg", "a/.bzr"} {
		set[p] = true
	}
	var out []string
	for p := range set {
		out = append(out, p)
	}
	sort.Strings(out)
	return out
}

// c14Case is the replayable identity of one case.
type c14Case struct {
	Leg      string      `json:"leg"` // "ignorer" or "scan"
	Patterns []string    `json:"patterns"`
	VCS      bool        `json:"vcs"`
	Path     string      `json:"path,omitempty"`    // ignorer leg
	Dir      bool        `json:"dir,omitempty"`     // ignorer leg
	Tree     string      `json:"tree,omitempty"`    // scan leg
	History  *c14History `json:"history,omitempty"` // history leg (two scans with carried caches)
}

func c14Ignorer(patterns []string, vcs bool) (ignore.Ignorer, error) {
	ig, err := mutagenignore.NewIgnorer(patterns)
	if err != nil {
		return nil, err
	}
	if vcs {
		ig = ignore.IgnoreVCS(ig)
	}
	return ig, nil
}

func refParseAll(patterns []string) []refPattern {
	out := make([]refPattern, len(patterns))
	for i, p := range patterns {
		out[i] = refParse(p)
	}
	return out
}

// c14CheckIgnorer evaluates one (list, path, dir, vcs) through the real ignorer
// and the reference. what == "" means the property held.
func c14CheckIgnorer(ig ignore.Ignorer, ref []refPattern, c c14Case) (what string, v refVerdict, status ignore.IgnoreStatus) {
	v = refIgnored(ref, c.Path, c.Dir, c.VCS)
	status, cont := ig.Ignore(c.Path, c.Dir)
	got := status == ignore.IgnoreStatusIgnored
	if got != v.ignored {
		return fmt.Sprintf("Ignore(%q, dir=%v) = status %d (ignored=%v) but the last matching pattern rule says ignored=%v (matching=%d last=%d vcsRule=%v)",
			c.Path, c.Dir, status, got, v.ignored, v.matching, v.last, v.vcs), v, status
	}
	// "Nothing beneath an ignored directory is scanned": with this syntax the
	// ignorer must never ask the scanner to keep traversing ignored content.
	if cont && got {
		return fmt.Sprintf("Ignore(%q, dir=%v) asks to continue traversal below ignored content", c.Path, c.Dir), v, status
	}
	return "", v, status
}

// c14Expected is the reference's picture of a scan: path -> kind letter for
// every entry that must appear ('u' for ignored entries), computed by walking
// the model tree top-down and never descending into an ignored directory.
func c14Expected(t *tree, ref []refPattern, vcs bool) (exp map[string]byte, ignoredDirs []string) {
	exp = map[string]byte{}
	var walk func(dir string)
	walk = func(dir string) {
		for _, it := range t.kids(dir) {
			if refIgnored(ref, it.Path, it.Kind == 'd', vcs).ignored {
				exp[it.Path] = 'u'
				if it.Kind == 'd' {
					ignoredDirs = append(ignoredDirs, it.Path)
				}
				continue
			}
			exp[it.Path] = it.Kind
			if it.Kind == 'd' {
				walk(it.Path)
			}
		}
	}
	walk("")
	return exp, ignoredDirs
}

// c14CheckScan runs the real Scan on the slot's copy of the tree and compares
// with the reference picture.
func c14CheckScan(sl *slot, t *tree, c c14Case) (what string, nIgnored, nIgnoredDirs int) {
	what, nIgnored, nIgnoredDirs, _ = c14CheckScanOps(sl, t, c)
	return
}

// c14CheckScanOps additionally returns how many hooked operations were seen.
func c14CheckScanOps(sl *slot, t *tree, c c14Case) (what string, nIgnored, nIgnoredDirs, nOps int) {
	ig, err := c14Ignorer(c.Patterns, c.VCS)
	if err != nil {
		return "alphabet pattern rejected: " + err.Error(), 0, 0, 0
	}
	root := sl.roots[t.Name]
	var snapErr error
	var got map[string]byte
	ops := sl.record(root, func() {
		snap, err := scanRoot(root, ig)
		if err != nil {
			snapErr = err
			return
		}
		got = flat(snap.Content)
	})
	if snapErr != nil {
		return "scan failed: " + snapErr.Error(), 0, 0, 0
	}
	exp, ignoredDirs := c14Expected(t, refParseAll(c.Patterns), c.VCS)
	for _, k := range exp {
		if k == 'u' {
			nIgnored++
		}
	}
	nIgnoredDirs = len(ignoredDirs)
	// Entry by entry: a non-ignored entry reachable through non-ignored
	// directories is in the snapshot with its kind; an ignored entry is not
	// synchronized (untracked, or absent); "nothing beneath an ignored directory
	// is scanned or synchronized" = no snapshot path lies below one.
	var diffs []string
	for p, k := range exp {
		g, ok := got[p]
		if k == 'u' {
			if ok && g != 'u' {
				diffs = append(diffs, fmt.Sprintf("%s is ignored but the snapshot has kind %c", p, g))
			}
			continue
		}
		if !ok {
			diffs = append(diffs, fmt.Sprintf("%s (%c) is not ignored but missing from the snapshot", p, k))
		} else if g != k {
			diffs = append(diffs, fmt.Sprintf("%s (%c) is not ignored but the snapshot has kind %c", p, k, g))
		}
	}
	for p, g := range got {
		if _, ok := exp[p]; !ok {
			diffs = append(diffs, fmt.Sprintf("%s:%c appears in the snapshot although it lies beneath an ignored directory", p, g))
		}
	}
	// The same clause observed at the system-call level: no operation on
	// anything beneath an ignored directory, and the ignored directory itself
	// is never opened.
	for _, o := range ops {
		i := strings.IndexByte(o, ' ')
		op, p := o[:i], o[i+1:]
		for _, d := range ignoredDirs {
			if strings.HasPrefix(p, d+"/") || (p == d && op == "openat") {
				diffs = append(diffs, fmt.Sprintf("scan performed %s on %s, at or beneath ignored directory %s", op, p, d))
			}
		}
	}
	if len(diffs) > 0 {
		sort.Strings(diffs)
		return strings.Join(diffs, "; ") + " [snapshot: " + render(got) + "]", nIgnored, nIgnoredDirs, len(ops)
	}
	return "", nIgnored, nIgnoredDirs, len(ops)
}

func TestC14(t *testing.T) {
	r := vr.New(t, "C14", "exploration")
	defer r.Finish()

	workers := vr.Workers()
	sls := newSlots(t, c14Trees, workers)
	sls.installHook()
	defer sls.removeHook()
	treeByName := map[string]*tree{}
	for _, tr := range c14Trees {
		treeByName[tr.Name] = tr
	}

	if raw := vr.ReplayCase(); raw != nil {
		var c c14Case
		if err := json.Unmarshal(raw, &c); err != nil {
			t.Fatalf("INFRA: bad replay case: %v", err)
		}
		var what string
		if c.Leg == "history" && c.History != nil {
			var flips bool
			var err error
			what, flips, err = c14CheckHistory(filepath.Join(t.TempDir(), "h"), c)
			if err != nil {
				t.Fatalf("INFRA: %v", err)
			}
			t.Logf("replay history %s: verdict for the name flips between the scans: %v", vr.J(c), flips)
		} else if c.Leg == "scan" {
			sl := <-sls.free
			what, _, _ = c14CheckScan(sl, treeByName[c.Tree], c)
			exp, _ := c14Expected(treeByName[c.Tree], refParseAll(c.Patterns), c.VCS)
			t.Logf("replay scan %s: reference picture %s", vr.J(c), render(exp))
		} else {
			ig, err := c14Ignorer(c.Patterns, c.VCS)
			if err != nil {
				t.Fatalf("INFRA: %v", err)
			}
			var v refVerdict
			var st ignore.IgnoreStatus
			what, v, st = c14CheckIgnorer(ig, refParseAll(c.Patterns), c)
			t.Logf("replay ignorer %s: real status %d; reference %+v", vr.J(c), st, v)
		}
		t.Logf("verdict: %q", what)
		r.Case(vr.J(c), true)
		if what != "" {
			r.Violate(vr.J(c), what, c, nil)
		}
		return
	}

	thorough := vr.Thorough()
	alphabet := c14Alphabet(thorough)
	paths := c14Paths()
	maxLen := 3
	var all [][]string
	for _, li := range lists(len(alphabet), maxLen) {
		all = append(all, pick(alphabet, li))
	}
	if thorough {
		// Thorough adds every list of length 4 over the core sub-alphabet.
		for _, li := range lists(len(c14ScanCore), 4) {
			if len(li) == 4 {
				all = append(all, pick(c14ScanCore, li))
			}
		}
	}
	// Scan leg bound. Quick: every list of length <= 2 over the alphabet plus
	// every list of length 3 over c14ScanCore (the patterns that decide
	// pruning). Thorough: the same lists as the ignorer leg.
	var scanPatternLists [][]string
	if thorough {
		scanPatternLists = all
	} else {
		for _, li := range lists(len(alphabet), 2) {
			scanPatternLists = append(scanPatternLists, pick(alphabet, li))
		}
		for _, li := range lists(len(c14ScanCore), 3) {
			if len(li) == 3 {
				scanPatternLists = append(scanPatternLists, pick(c14ScanCore, li))
			}
		}
	}
	r.Rule(fmt.Sprintf("ignorer leg: every list of <= %d patterns over a %d-pattern alphabet (thorough: plus every list of 4 over the 10-pattern core; %d lists in all) x %d paths x {file,dir} x VCS option {off,on}, real mutagen.NewIgnorer(+ignore.IgnoreVCS).Ignore against an independent matcher; "+
		"scan leg: %d pattern lists x %d on-disk trees x VCS {off,on} through the real core.Scan with a recording syscall hook. "+
		"history leg: %d two-scan histories (scan 2 is given scan 1's ignore cache and digest cache; baseline nil or scan 1's snapshot with the changed path as re-check path) with a file<->directory change of a name under a directory-only rule (trailing slash, negated trailing slash, VCS rule), at the root and one level down. "+
		"non-trivial = at least one pattern matches the path (ignorer leg) / at least one entry of the tree is ignored (scan leg) / the rule's verdict for the name flips between the scans (history leg); distinct by (leg, list, path, dir, vcs | tree | history)",
		maxLen, len(alphabet), len(all), len(paths), len(scanPatternLists), len(c14Trees), len(c14HistoryCases())))
	r.Assume(
		"pattern alphabet: "+strings.Join(alphabet, " ")+"; core sub-alphabet: "+strings.Join(c14ScanCore, " "),
		"reference grammar: '*' any run within a component, '?' one character, '[..]' class, a whole-component '**' = zero or more components (so 'a/**' also matches 'a' itself); '**' inside a longer component, escapes, '{a,b}' alternation and non-clean patterns ('a//b', './a') are outside the alphabet",
		"paths have at most 4 components over the names a, b, ab, c and VCS directory names; the root path is never evaluated (Scan never asks about it)",
		"'ignored' is read off the IgnoreStatus (== Ignored); the distinction nominal/unignored is recorded as an outcome class only, the statement does not speak about it",
		"scan leg: 'not scanned' is observed as 'no hooked system call (openat, fstatat, readlinkat, read, fstat) at or beneath the ignored directory other than the parent's fstatat of the directory itself'; an ignored entry may be reported as untracked or be absent",
	)

	// Ignorer leg.
	vr.Parallel(len(all), func(i int) {
		l := r.Local()
		defer l.Flush()
		patterns := all[i]
		ref := refParseAll(patterns)
		plain, err := c14Ignorer(patterns, false)
		if err != nil {
			r.Violate("alphabet|"+strings.Join(patterns, ","), "alphabet pattern rejected: "+err.Error(), c14Case{Leg: "ignorer", Patterns: patterns}, nil)
			return
		}
		withVCS := ignore.IgnoreVCS(plain)
		for _, vcs := range []bool{false, true} {
			ig := plain
			if vcs {
				ig = withVCS
			}
			for _, p := range paths {
				for _, dir := range []bool{false, true} {
					c := c14Case{Leg: "ignorer", Patterns: patterns, VCS: vcs, Path: p, Dir: dir}
					what, v, st := c14CheckIgnorer(ig, ref, c)
					if what != "" {
						r.Violate(vr.J(c), what, c, func() bool {
							ig2, err := c14Ignorer(c.Patterns, c.VCS)
							if err != nil {
								return false
							}
							w, _, _ := c14CheckIgnorer(ig2, refParseAll(c.Patterns), c)
							return w != ""
						})
					}
					if v.matching > 0 || v.vcs {
						l.Case(fmt.Sprintf("i|%d|%s|%v|%v", i, p, dir, vcs), true)
					} else {
						l.Case("", false)
					}
					// Outcome class: how the verdict came about.
					m := v.matching
					if m > 2 {
						m = 2
					}
					cls := fmt.Sprintf("ignorer matching=%d ignored=%v status=%d", m, v.ignored, st)
					if v.vcs {
						cls = fmt.Sprintf("ignorer vcs-directory matching=%d", m)
					} else if v.matching >= 2 && v.last >= 0 {
						// Was an earlier matching pattern of the opposite sign overridden?
						over := false
						for k := 0; k < v.last; k++ {
							if ref[k].negated != ref[v.last].negated && ref[k].matches(p, dir) {
								over = true
							}
						}
						cls += fmt.Sprintf(" overrides-opposite=%v", over)
					}
					l.Outcome(cls)
				}
			}
		}
	})

	// Scan leg.
	type scanJob struct {
		patterns []string
		tree     *tree
		vcs      bool
	}
	var jobs []scanJob
	for _, pl := range scanPatternLists {
		for _, tr := range c14Trees {
			for _, vcs := range []bool{false, true} {
				jobs = append(jobs, scanJob{pl, tr, vcs})
			}
		}
	}
	var silent atomic.Int64
	sls.parallel(len(jobs), func(i int, sl *slot) {
		j := jobs[i]
		c := c14Case{Leg: "scan", Patterns: j.patterns, VCS: j.vcs, Tree: j.tree.Name}
		what, nIgn, nIgnDirs, nOps := c14CheckScanOps(sl, j.tree, c)
		r.Add("scan_hooked_syscalls_observed", int64(nOps))
		if nOps == 0 {
			silent.Add(1)
		}
		if what != "" {
			r.Violate(vr.J(c), what, c, func() bool {
				w, _, _ := c14CheckScan(sl, j.tree, c)
				return w != ""
			})
		}
		r.Case(fmt.Sprintf("s|%s|%s|%v", strings.Join(c.Patterns, ","), c.Tree, c.VCS), nIgn > 0)
		switch {
		case nIgnDirs > 0:
			r.Outcome("scan prunes >=1 ignored directory")
			r.Add("scan_cases_pruning_a_directory", 1)
		case nIgn > 0:
			r.Outcome("scan ignores only files/links")
		default:
			r.Outcome("scan ignores nothing")
		}
	})
	if n := silent.Load(); n > 0 {
		// Every scan at least opens and lists the root; a silent hook would make
		// the system-call half of the "not scanned" clause vacuous.
		t.Fatalf("INFRA: the syscall hook recorded nothing during %d scan(s)", n)
	}
	// History leg: two scans, the second given the first one's caches, with a
	// file <-> directory change of a name under a directory-only rule between.
	histories := c14HistoryCases()
	htmp := t.TempDir()
	vr.Parallel(len(histories), func(i int) {
		c := histories[i]
		what, flips, err := c14CheckHistory(filepath.Join(htmp, fmt.Sprintf("h%03d", i)), c)
		if err != nil {
			r.Violate("error|"+vr.J(c), "INFRA-like: "+err.Error(), c, nil)
			return
		}
		r.Case("h|"+vr.J(c), flips)
		r.Outcome(fmt.Sprintf("history verdict-flips=%v", flips))
		if what != "" {
			r.Violate(vr.J(c), what, c, func() bool {
				w, _, err := c14CheckHistory(filepath.Join(htmp, fmt.Sprintf("h%03dr", i)), c)
				return err == nil && w != ""
			})
		}
	})
	r.Set("history_cases", len(histories))
	r.Sample(histories[0])
	// Two hand-picked scan cases as samples (with the reference picture).
	for _, c := range []c14Case{
		{Leg: "scan", Patterns: []string{"b/", "!a/b"}, VCS: true, Tree: "m1"},
		{Leg: "scan", Patterns: []string{"*", "!b/", "/b/b"}, VCS: false, Tree: "m2"},
	} {
		exp, _ := c14Expected(treeByName[c.Tree], refParseAll(c.Patterns), c.VCS)
		r.Sample(map[string]interface{}{"case": c, "reference_picture": render(exp)})
	}
	r.Set("ignorer_lists", len(all))
	r.Set("ignorer_paths", len(paths))
	r.Set("scan_cases", len(jobs))
	r.Sample(c14Case{Leg: "ignorer", Patterns: []string{"a", "!a/b", "b/"}, VCS: true, Path: "a/b", Dir: true})
}

// c14ScanCore is the sub-alphabet whose length-3 lists the quick scan leg
// adds: the patterns that ignore, un-ignore and re-ignore directories.
var c14ScanCore = []string{"a", "!a", "b/", "!b/", "a/b", "!a/b", "**/b", "!**/b", "*", "!.git"}
