//go:build verif

package ignores

import (
	"context"
	"crypto/sha1"
	"encoding/hex"
	"encoding/json"
	"fmt"
	"os"
	"path/filepath"
	"sort"
	"strings"
	"syscall"
	"testing"

	"github.com/mutagen-io/mutagen/pkg/filesystem"
	"github.com/mutagen-io/mutagen/pkg/filesystem/behavior"
	"github.com/mutagen-io/mutagen/pkg/synchronization/core"
	"github.com/mutagen-io/mutagen/pkg/synchronization/core/ignore"
	dockerignore "github.com/mutagen-io/mutagen/pkg/synchronization/core/ignore/docker"
	mutagenignore "github.com/mutagen-io/mutagen/pkg/synchronization/core/ignore/mutagen"

	"verif/internal/vr"
)

// C03, on-disk leg with real ignorers (the property is owned by checks/recon;
// this leg adds "ignored paths ... and their descendants ... stay on disk" for
// both ignore syntaxes, with the classification of "ignored" taken from the
// independent references of C14 / C15, not from the scan).
//
// One case = (syntax, pattern list, tree, variant, ancestor, mode). Two real
// roots alpha and beta hold the same tree; they differ in ignored content only
// (every third ignored file differs in bytes, exists on alpha only, exists on
// beta only). One full cycle is run exactly as the controller runs it:
// core.Scan of both roots with the real ignorer, ReifyPhantomDirectories
// (Docker syntax), core.Reconcile, staging of the files named by
// TransitionDependencies from the other root, core.Transition on each side.
// Oracle: every file or link that the reference classifies as ignored keeps
// its inode and its bytes (link: its target) on the root it was on.

var c03Trees = []*tree{
	mk("t1", "M", "b/", "b/j", "b/k/", "b/k/c", "b/k/i", "b/k/s/", "b/k/s/n", "s/", "s/m", "s/c"),
	mk("t2", "c", "s", "b/", "b/k/", "b/k/c->i", "b/k/i", "b/k/s/", "b/k/s/c", "b/k/s/n", "b/n/", "b/n/j"),
}

var c03DockerAlphabet = []string{"b", "b/k", "b/*", "*", "**/c", "s/m", "!b/k/i", "!b/k", "!b/k/s/n", "!b/j", "!**/n", "!s"}
var c03MutagenAlphabet = []string{"b", "/b/k", "b/k/*", "c", "s/", "n", "**/s", "j", "M", "!c", "!b/k/i", "!M"}

type c03Case struct {
	Syntax   string   `json:"syntax"` // "mutagen" or "docker"
	Patterns []string `json:"patterns"`
	Tree     string   `json:"tree"`
	Variant  string   `json:"variant"`  // "same": roots differ in ignored content only; "del": alpha additionally lacks one tracked directory that holds ignored content
	Ancestor string   `json:"ancestor"` // "nil" or "sync" (the synchronizable part of the reference root's scan)
	Mode     int      `json:"mode"`     // core.SynchronizationMode 1..4
}

// c03Ignored returns the files and links of the tree that the independent
// reference classifies as ignored (including everything beneath an ignored
// directory), and, for Docker syntax, whether the list is one on which the
// known C15 divergence changes the classification (such lists are skipped:
// what mutagen "does not track" is then not what Docker ignores).
func c03Ignored(t *tree, syntax string, patterns []string) (ignored map[string]bool, diverges bool, err error) {
	ignored = map[string]bool{}
	if syntax == "mutagen" {
		exp, _ := c14Expected(t, refParseAll(patterns), false)
		for _, it := range t.Items {
			if it.Kind == 'd' {
				continue
			}
			// Present in the reference picture as itself = not ignored;
			// 'u' or absent (beneath an ignored directory) = ignored.
			if k, ok := exp[it.Path]; !ok || k == 'u' {
				ignored[it.Path] = true
			}
		}
		return ignored, false, nil
	}
	lines := refDockerignoreLines(patterns)
	ref, err := dockerWalk(t, lines)
	if err != nil {
		return nil, false, err
	}
	own, err := ownOnlyWalk(t, lines)
	if err != nil {
		return nil, false, err
	}
	if render(ref.Leaves) != render(own.Leaves) || vr.J(ref.Dirs) != vr.J(own.Dirs) {
		diverges = true
	}
	for _, it := range t.Items {
		if it.Kind != 'd' {
			if _, ok := ref.Leaves[it.Path]; !ok {
				ignored[it.Path] = true
			}
		}
	}
	return ignored, diverges, nil
}

// c03Materialize writes alpha and beta. ignoredSorted[k] differs in bytes for
// k%3==0, exists on alpha only for k%3==1, on beta only for k%3==2; links are
// always present on both. dropOnAlpha, if non-empty, is a directory that is
// not created on alpha at all.
func c03Materialize(t *tree, alpha, beta string, ignored map[string]bool, dropOnAlpha string) error {
	var names []string
	for p := range ignored {
		names = append(names, p)
	}
	sort.Strings(names)
	rank := map[string]int{}
	for k, p := range names {
		rank[p] = k
	}
	for side, root := range []string{alpha, beta} {
		if err := os.MkdirAll(root, 0o755); err != nil {
			return err
		}
		for _, it := range t.Items {
			if side == 0 && dropOnAlpha != "" && (it.Path == dropOnAlpha || strings.HasPrefix(it.Path, dropOnAlpha+"/")) {
				continue
			}
			p := filepath.Join(root, filepath.FromSlash(it.Path))
			var err error
			switch it.Kind {
			case 'd':
				err = os.Mkdir(p, 0o755)
			case 'l':
				err = os.Symlink(it.Target, p)
			case 'f':
				content := "tracked " + it.Path
				if ignored[it.Path] {
					switch rank[it.Path] % 3 {
					case 0:
						content = fmt.Sprintf("ignored %s on side %d", it.Path, side)
					case 1:
						if side == 1 {
							continue
						}
						content = "ignored, alpha only " + it.Path
					case 2:
						if side == 0 {
							continue
						}
						content = "ignored, beta only " + it.Path
					}
				}
				err = os.WriteFile(p, []byte(content), 0o644)
			}
			if err != nil {
				return err
			}
		}
	}
	return nil
}

// c03Disk describes every file and link below root: inode plus bytes / target.
func c03Disk(root string) map[string]string {
	out := map[string]string{}
	filepath.Walk(root, func(p string, info os.FileInfo, err error) error {
		if err != nil || info.IsDir() {
			return nil
		}
		rel, _ := filepath.Rel(root, p)
		st := info.Sys().(*syscall.Stat_t)
		d := fmt.Sprintf("ino=%d", st.Ino)
		if info.Mode()&os.ModeSymlink != 0 {
			tg, _ := os.Readlink(p)
			d += " -> " + tg
		} else {
			b, _ := os.ReadFile(p)
			d += fmt.Sprintf(" sha1=%x", sha1.Sum(b))
		}
		out[filepath.ToSlash(rel)] = d
		return nil
	})
	return out
}

// c03Provider hands out pre-staged files.
type c03Provider struct{ files map[string]string }

func (p *c03Provider) Provide(path string, digest []byte) (string, error) {
	if f, ok := p.files[path+"\x00"+hex.EncodeToString(digest)]; ok {
		return f, nil
	}
	return "", fmt.Errorf("nothing staged for %s", path)
}

// c03Stage copies, for every dependency of the transitions, the file at the
// same path of the other root into dir (as the controller stages from the
// other endpoint before transitioning).
func c03Stage(dir, from string, transitions []*core.Change) (*c03Provider, error) {
	if err := os.MkdirAll(dir, 0o700); err != nil {
		return nil, err
	}
	pr := &c03Provider{files: map[string]string{}}
	paths, digests := core.TransitionDependencies(transitions)
	for i, p := range paths {
		data, err := os.ReadFile(filepath.Join(from, filepath.FromSlash(p)))
		if err != nil {
			continue // the provider will fail for it, as a failed staging would
		}
		f := filepath.Join(dir, fmt.Sprintf("f%d", i))
		if err := os.WriteFile(f, data, 0o600); err != nil {
			return nil, err
		}
		pr.files[p+"\x00"+hex.EncodeToString(digests[i])] = f
	}
	return pr, nil
}

func c03Scan(root string, ig ignore.Ignorer) (*core.Snapshot, *core.Cache, error) {
	snap, cache, _, err := core.Scan(context.Background(), root, nil, nil, sha1.New(), nil, ig, nil,
		behavior.ProbeMode_ProbeModeAssume, core.SymbolicLinkMode_SymbolicLinkModePortable, core.PermissionsMode_PermissionsModePortable)
	return snap, cache, err
}

// c03World is one materialized pair of roots with their scans.
type c03World struct {
	dir, alpha, beta string
	syntax           string
	ignored          map[string]bool
	aSnap, bSnap     *core.Snapshot
	aCache, bCache   *core.Cache
	before           [2]map[string]string
	touched          bool // a Transition has run on these roots
}

// c03Prepare classifies, materializes and scans. skipped is set when the
// (syntax, list, tree, variant) is outside the leg's scope.
func c03Prepare(dir string, c c03Case) (w *c03World, skipped string, err error) {
	var t *tree
	for _, tr := range c03Trees {
		if tr.Name == c.Tree {
			t = tr
		}
	}
	if t == nil {
		return nil, "", fmt.Errorf("unknown tree %q", c.Tree)
	}
	ignored, diverges, err := c03Ignored(t, c.Syntax, c.Patterns)
	if err != nil {
		return nil, "", err
	}
	if diverges {
		return nil, "list affected by the known C15 divergence", nil
	}
	if len(ignored) == 0 {
		return nil, "nothing ignored", nil
	}
	drop := ""
	if c.Variant == "del" {
		// Alpha does not have the first top-level directory that holds an
		// ignored file.
		for _, it := range t.kids("") {
			if it.Kind != 'd' {
				continue
			}
			for p := range ignored {
				if strings.HasPrefix(p, it.Path+"/") {
					drop = it.Path
				}
			}
			if drop != "" {
				break
			}
		}
		if drop == "" {
			return nil, "no directory holding ignored content", nil
		}
	}
	w = &c03World{dir: dir, alpha: filepath.Join(dir, "alpha"), beta: filepath.Join(dir, "beta"), syntax: c.Syntax, ignored: ignored}
	if err := c03Materialize(t, w.alpha, w.beta, ignored, drop); err != nil {
		return nil, "", err
	}
	var ig ignore.Ignorer
	if c.Syntax == "docker" {
		ig, err = dockerignore.NewIgnorer(c.Patterns)
	} else {
		ig, err = mutagenignore.NewIgnorer(c.Patterns)
	}
	if err != nil {
		return nil, "", err
	}
	w.before = [2]map[string]string{c03Disk(w.alpha), c03Disk(w.beta)}
	if w.aSnap, w.aCache, err = c03Scan(w.alpha, ig); err != nil {
		return nil, "", err
	}
	if w.bSnap, w.bCache, err = c03Scan(w.beta, ig); err != nil {
		return nil, "", err
	}
	return w, "", nil
}

// cycle runs Reify/Reconcile/stage/Transition for one (ancestor, mode) on the
// prepared roots and judges the disk.
func (w *c03World) cycle(ancestorKind string, mode int) (diffs []string, nTransitions, nConflicts int, err error) {
	var ancestor *core.Entry
	if ancestorKind == "sync" {
		// What a previous cycle left as the common ancestor: the synchronizable
		// part of the endpoint that has the whole tree (beta).
		base := w.bSnap.Content
		if w.syntax == "docker" {
			base, _, _, _ = core.ReifyPhantomDirectories(nil, base, base)
		}
		ancestor = synchronizableOnly(base)
	}
	aContent, bContent := w.aSnap.Content, w.bSnap.Content
	if w.syntax == "docker" {
		aContent, bContent, _, _ = core.ReifyPhantomDirectories(ancestor, aContent, bContent)
	}
	_, aTrans, bTrans, conflicts := core.Reconcile(ancestor, aContent, bContent, core.SynchronizationMode(mode))
	nTransitions, nConflicts = len(aTrans)+len(bTrans), len(conflicts)
	if nTransitions > 0 {
		w.touched = true
		aProv, err := c03Stage(filepath.Join(w.dir, "stage-alpha"), w.beta, aTrans)
		if err != nil {
			return nil, 0, 0, err
		}
		bProv, err := c03Stage(filepath.Join(w.dir, "stage-beta"), w.alpha, bTrans)
		if err != nil {
			return nil, 0, 0, err
		}
		fm := filesystem.ModePermissionUserRead | filesystem.ModePermissionUserWrite
		dm := fm | filesystem.ModePermissionUserExecute
		if len(aTrans) > 0 {
			core.Transition(context.Background(), w.alpha, aTrans, w.aCache, core.SymbolicLinkMode_SymbolicLinkModePortable, fm, dm, nil, false, aProv)
		}
		if len(bTrans) > 0 {
			core.Transition(context.Background(), w.beta, bTrans, w.bCache, core.SymbolicLinkMode_SymbolicLinkModePortable, fm, dm, nil, false, bProv)
		}
	}
	// "Synchronization never deletes, replaces or moves aside ... ignored
	// paths ... and their descendants ... the content stays on disk."
	after := [2]map[string]string{c03Disk(w.alpha), c03Disk(w.beta)}
	for side, name := range []string{"alpha", "beta"} {
		for p := range w.ignored {
			was, ok := w.before[side][p]
			if !ok {
				continue
			}
			if now, ok := after[side][p]; !ok {
				diffs = append(diffs, fmt.Sprintf("ignored %s was removed from %s", p, name))
			} else if now != was {
				diffs = append(diffs, fmt.Sprintf("ignored %s on %s was replaced or modified (%s, now %s)", p, name, was, now))
			}
		}
	}
	sort.Strings(diffs)
	return diffs, nTransitions, nConflicts, nil
}

// c03Run executes exactly one case below dir (created and removed here).
func c03Run(dir string, c c03Case) (diffs []string, nIgnored, nTransitions, nConflicts int, skipped string, err error) {
	defer os.RemoveAll(dir)
	w, skipped, err := c03Prepare(dir, c)
	if err != nil || skipped != "" {
		return nil, 0, 0, 0, skipped, err
	}
	diffs, nTransitions, nConflicts, err = w.cycle(c.Ancestor, c.Mode)
	return diffs, len(w.ignored), nTransitions, nConflicts, "", err
}

func TestC03IgnoredOnDisk(t *testing.T) {
	r := vr.New(t, "C03", "exploration")
	defer r.Finish()
	tmp := t.TempDir()

	if raw := vr.ReplayCase(); raw != nil {
		var c c03Case
		if err := json.Unmarshal(raw, &c); err != nil || c.Syntax == "" {
			t.Skipf("replay case does not belong to this leg")
		}
		diffs, nIgn, nTr, nCf, skipped, err := c03Run(filepath.Join(tmp, "replay"), c)
		if err != nil {
			t.Fatalf("INFRA: %v", err)
		}
		t.Logf("replay %s: ignored files %d, transitions %d, conflicts %d, skipped %q, differences %q", vr.J(c), nIgn, nTr, nCf, skipped, diffs)
		r.Case(vr.J(c), true)
		if len(diffs) > 0 {
			r.Violate(vr.J(c), strings.Join(diffs, "; "), c, nil)
		}
		return
	}

	maxLen := 2
	if vr.Thorough() {
		maxLen = 3
	}
	// A group = (syntax, list, tree, variant); its 8 cases (ancestor x mode)
	// share one materialization and one pair of scans for as long as no
	// Transition has touched the roots; after that the roots are rebuilt.
	var groups []c03Case
	for _, syn := range []string{"mutagen", "docker"} {
		alphabet := c03MutagenAlphabet
		if syn == "docker" {
			alphabet = c03DockerAlphabet
		}
		for _, li := range lists(len(alphabet), maxLen) {
			if len(li) == 0 {
				continue
			}
			for _, tr := range c03Trees {
				for _, variant := range []string{"same", "del"} {
					groups = append(groups, c03Case{Syntax: syn, Patterns: pick(alphabet, li), Tree: tr.Name, Variant: variant})
				}
			}
		}
	}
	nCases := len(groups) * 8
	r.Rule(fmt.Sprintf("on-disk leg with real ignorers: both ignore syntaxes x every list of 1..%d patterns over a 12-pattern alphabet per syntax x %d trees (ignored files at depth 1..3, incl. ignored by inheritance next to a re-included sibling) x variant {roots differ in ignored content only, alpha additionally lacks a directory holding ignored content} x ancestor {nil, synchronizable part} x 4 modes = %d cases; each is one real cycle Scan/Reify/Reconcile/stage/Transition on two temp roots; "+
		"non-trivial = at least one file is ignored by the independent reference and the case is in scope; distinct by the whole case", maxLen, len(c03Trees), nCases))
	r.Assume(
		"'ignored' is decided by the independent references of C14 (own matcher) and C15 (frozen moby matcher + walk), not by the scan",
		"Docker-syntax lists on which the known C15 divergence (patterns that matched a parent directory are not applied to its contents) changes the classification are skipped and counted",
		"one cycle per case, no concurrent modification; both roots on the same filesystem; mutagen alphabet: "+strings.Join(c03MutagenAlphabet, " ")+"; docker alphabet: "+strings.Join(c03DockerAlphabet, " "),
	)
	vr.Parallel(len(groups), func(i int) {
		g := groups[i]
		dir := filepath.Join(tmp, fmt.Sprintf("g%06d", i))
		defer os.RemoveAll(dir)
		w, skipped, err := c03Prepare(dir, g)
		if err != nil {
			r.Violate("error|"+vr.J(g), "INFRA-like: "+err.Error(), g, nil)
			return
		}
		for _, anc := range []string{"nil", "sync"} {
			for mode := 1; mode <= 4; mode++ {
				c := g
				c.Ancestor, c.Mode = anc, mode
				if skipped != "" {
					r.Case("", false)
					r.Outcome("ignores-leg skipped: " + skipped)
					continue
				}
				if w.touched {
					os.RemoveAll(dir)
					if w, _, err = c03Prepare(dir, g); err != nil {
						r.Violate("error|"+vr.J(c), "INFRA-like: "+err.Error(), c, nil)
						return
					}
				}
				diffs, nTr, nCf, err := w.cycle(anc, mode)
				if err != nil {
					r.Violate("error|"+vr.J(c), "INFRA-like: "+err.Error(), c, nil)
					return
				}
				r.Case("ignores-disk|"+vr.J(c), true)
				switch {
				case nTr > 0 && nCf > 0:
					r.Outcome("ignores-leg transitions and conflicts")
				case nTr > 0:
					r.Outcome("ignores-leg transitions, no conflict")
				case nCf > 0:
					r.Outcome("ignores-leg conflicts only")
				default:
					r.Outcome("ignores-leg nothing to do")
				}
				if len(diffs) > 0 {
					r.Violate(vr.J(c), strings.Join(diffs, "; "), c, func() bool {
						d, _, _, _, _, err := c03Run(dir+"r", c)
						return err == nil && len(d) > 0
					})
				}
			}
		}
	})
	r.Sample(c03Case{Syntax: "docker", Patterns: []string{"b", "!b/k/i"}, Tree: "t1", Variant: "same", Ancestor: "sync", Mode: 4})
	r.Sample(c03Case{Syntax: "mutagen", Patterns: []string{"b/k/*", "!b/k/i"}, Tree: "t2", Variant: "del", Ancestor: "sync", Mode: 2})
}
