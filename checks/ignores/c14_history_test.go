//go:build verif

package ignores

import (
	"context"
	"crypto/sha1"
	"fmt"
	"os"
	"path/filepath"
	"sort"
	"strings"

	"github.com/mutagen-io/mutagen/pkg/filesystem/behavior"
	"github.com/mutagen-io/mutagen/pkg/synchronization/core"
)

// Two-scan histories of the C14 scan leg. The endpoint hands every scan the
// previous scan's ignore cache (and digest cache, and possibly its snapshot as
// a baseline with re-check paths). Between the two scans one name changes
// type, file <-> directory, where the pattern list has a directory-only rule
// for that name (trailing slash, or the VCS rule). Oracle unchanged: what the
// second scan tracks / ignores is what "the last matching pattern decides"
// says for the CURRENT types.

// c14History is the history part of a c14Case (Leg == "history").
type c14History struct {
	Name      string `json:"name"`      // the name that changes type
	Under     string `json:"under"`     // "" (root) or a directory the name lives in
	Direction string `json:"direction"` // "file->dir" or "dir->file"
	Baseline  string `json:"baseline"`  // "nil" or "snapshot" (scan 1's snapshot with the changed path as re-check path)
}

// c14HistoryCases enumerates the histories.
func c14HistoryCases() []c14Case {
	type pl struct {
		name     string
		patterns []string
		vcs      bool
	}
	var out []c14Case
	for _, p := range []pl{
		{"build", []string{"build/"}, false},           // directory-only ignore
		{"build", []string{"build", "!build/"}, false}, // directory-only un-ignore
		{"b", []string{"*", "!b/", "!keep"}, false},    // everything ignored but directories named b
		{".git", nil, true},                            // VCS rule: directories only
		{".git", []string{"!.git"}, true},              // VCS rule wins over a negation
	} {
		for _, under := range []string{"", "d"} {
			for _, dir := range []string{"file->dir", "dir->file"} {
				for _, bl := range []string{"nil", "snapshot"} {
					out = append(out, c14Case{Leg: "history", Patterns: p.patterns, VCS: p.vcs,
						History: &c14History{Name: p.name, Under: under, Direction: dir, Baseline: bl}})
				}
			}
		}
	}
	return out
}

// c14HistoryTree is the model tree for one state of the history.
func c14HistoryTree(h *c14History, asDir bool) *tree {
	var specs []string
	prefix := ""
	if h.Under != "" {
		specs = append(specs, h.Under+"/")
		prefix = h.Under + "/"
	}
	specs = append(specs, prefix+"keep")
	if asDir {
		specs = append(specs, prefix+h.Name+"/", prefix+h.Name+"/inner", prefix+h.Name+"/sub/", prefix+h.Name+"/sub/deep")
	} else {
		specs = append(specs, prefix+h.Name)
	}
	return mk("history", specs...)
}

// c14PictureDiffs compares a scanned picture with the reference picture (same
// rules as the single-scan leg).
func c14PictureDiffs(exp, got map[string]byte) []string {
	var diffs []string
	for p, k := range exp {
		g, ok := got[p]
		if k == 'u' {
			if ok && g != 'u' {
				diffs = append(diffs, fmt.Sprintf("%s is ignored but the snapshot has kind %c", p, g))
			}
			continue
		}
		if !ok {
			diffs = append(diffs, fmt.Sprintf("%s (%c) is not ignored but missing from the snapshot", p, k))
		} else if g != k {
			diffs = append(diffs, fmt.Sprintf("%s (%c) is not ignored but the snapshot has kind %c", p, k, g))
		}
	}
	for p, g := range got {
		if _, ok := exp[p]; !ok {
			diffs = append(diffs, fmt.Sprintf("%s:%c appears in the snapshot although it lies beneath an ignored directory", p, g))
		}
	}
	sort.Strings(diffs)
	return diffs
}

// c14CheckHistory runs one history below dir (created and removed here).
// flips reports whether the reference's verdict for the name differs between
// the two states (the non-trivial histories).
func c14CheckHistory(dir string, c c14Case) (what string, flips bool, err error) {
	h := c.History
	defer os.RemoveAll(dir)
	root := filepath.Join(dir, "root")
	firstDir := h.Direction == "dir->file"
	t1, t2 := c14HistoryTree(h, firstDir), c14HistoryTree(h, !firstDir)
	if err := t1.materialize(root); err != nil {
		return "", false, err
	}
	ig, err := c14Ignorer(c.Patterns, c.VCS)
	if err != nil {
		return "", false, err
	}
	ref := refParseAll(c.Patterns)
	// Scan 1 (cold), judged like any single scan.
	snap1, cache1, icache1, err := core.Scan(context.Background(), root, nil, nil, sha1.New(), nil, ig, nil,
		behavior.ProbeMode_ProbeModeAssume, core.SymbolicLinkMode_SymbolicLinkModePortable, core.PermissionsMode_PermissionsModePortable)
	if err != nil {
		return "", false, err
	}
	exp1, _ := c14Expected(t1, ref, c.VCS)
	if d := c14PictureDiffs(exp1, flat(snap1.Content)); len(d) > 0 {
		return "scan 1: " + strings.Join(d, "; "), false, nil
	}
	// The type change.
	p := h.Name
	if h.Under != "" {
		p = h.Under + "/" + h.Name
	}
	full := filepath.Join(root, filepath.FromSlash(p))
	if err := os.RemoveAll(full); err != nil {
		return "", false, err
	}
	if firstDir {
		err = os.WriteFile(full, []byte("now a file"), 0o644)
	} else {
		if err = os.MkdirAll(filepath.Join(full, "sub"), 0o755); err == nil {
			if err = os.WriteFile(filepath.Join(full, "inner"), []byte("content of inner"), 0o644); err == nil {
				err = os.WriteFile(filepath.Join(full, "sub", "deep"), []byte("content of deep"), 0o644)
			}
		}
	}
	if err != nil {
		return "", false, err
	}
	// Scan 2 with scan 1's caches, as the endpoint rescans.
	var baseline *core.Snapshot
	var recheck map[string]bool
	if h.Baseline == "snapshot" {
		baseline = snap1
		recheck = map[string]bool{p: true}
	}
	snap2, _, _, err := core.Scan(context.Background(), root, baseline, recheck, sha1.New(), cache1, ig, icache1,
		behavior.ProbeMode_ProbeModeAssume, core.SymbolicLinkMode_SymbolicLinkModePortable, core.PermissionsMode_PermissionsModePortable)
	if err != nil {
		return "", false, err
	}
	exp2, _ := c14Expected(t2, ref, c.VCS)
	flips = (exp1[p] == 'u') != (exp2[p] == 'u')
	if d := c14PictureDiffs(exp2, flat(snap2.Content)); len(d) > 0 {
		return fmt.Sprintf("scan 2 (given scan 1's ignore cache) after %s of %s: %s [scan 2: %s; rule for the current types: %s]",
			h.Direction, p, strings.Join(d, "; "), render(flat(snap2.Content)), render(exp2)), flips, nil
	}
	return "", flips, nil
}
