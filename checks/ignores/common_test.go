//go:build verif

// Package ignores holds the bounded-exhaustive checks for C14 (Mutagen-style
// ignore semantics) and C15 (Docker-style ignore semantics). Both enumerate
// every pattern list up to a fixed length over a small pattern alphabet and
// run it through the real ignorers and the real core.Scan on small on-disk
// trees; the oracles are written independently of the code under test (C14: an
// own glob matcher for the documented grammar; C15: a frozen copy of the moby
// pattern matcher plus moby's directory-walk rule).
package ignores

import (
	"context"
	"crypto/sha1"
	"fmt"
	"os"
	"path/filepath"
	"sort"
	"strings"
	"sync"
	"testing"

	"github.com/mutagen-io/mutagen/pkg/filesystem/behavior"
	"github.com/mutagen-io/mutagen/pkg/synchronization/core"
	"github.com/mutagen-io/mutagen/pkg/synchronization/core/ignore"
	"github.com/mutagen-io/mutagen/pkg/verifhook"

	"verif/internal/vr"
)

// item is one entry of a fixed test tree: a root-relative slash path, a kind
// ('d' directory, 'f' file, 'l' symbolic link) and, for links, the target.
type item struct {
	Path   string
	Kind   byte
	Target string
}

// tree is a fixed tree given as a list of items in which every parent
// directory precedes its children.
type tree struct {
	Name  string
	Items []item
}

// kids returns the items that are direct children of directory dir ("" is the
// root), in name order.
func (t *tree) kids(dir string) []item {
	var out []item
	for _, it := range t.Items {
		parent := ""
		if i := strings.LastIndexByte(it.Path, '/'); i >= 0 {
			parent = it.Path[:i]
		}
		if parent == dir {
			out = append(out, it)
		}
	}
	sort.Slice(out, func(i, j int) bool { return out[i].Path < out[j].Path })
	return out
}

// mk builds a tree from "path" (file), "path/" (directory) and "path->target"
// (link) specifications.
func mk(name string, specs ...string) *tree {
	t := &tree{Name: name}
	seen := map[string]bool{}
	for _, s := range specs {
		var it item
		switch {
		case strings.Contains(s, "->"):
			i := strings.Index(s, "->")
			it = item{Path: s[:i], Kind: 'l', Target: s[i+2:]}
		case strings.HasSuffix(s, "/"):
			it = item{Path: strings.TrimSuffix(s, "/"), Kind: 'd'}
		default:
			it = item{Path: s, Kind: 'f'}
		}
		if seen[it.Path] {
			panic("duplicate path in tree " + name + ": " + it.Path)
		}
		if i := strings.LastIndexByte(it.Path, '/'); i >= 0 && !seen[it.Path[:i]] {
			panic("parent missing in tree " + name + ": " + it.Path)
		}
		seen[it.Path] = true
		t.Items = append(t.Items, it)
	}
	return t
}

// materialize writes the tree below root (which must not exist yet).
func (t *tree) materialize(root string) error {
	if err := os.MkdirAll(root, 0o755); err != nil {
		return err
	}
	for _, it := range t.Items {
		p := filepath.Join(root, filepath.FromSlash(it.Path))
		var err error
		switch it.Kind {
		case 'd':
			err = os.Mkdir(p, 0o755)
		case 'f':
			err = os.WriteFile(p, []byte("content of "+it.Path), 0o644)
		case 'l':
			err = os.Symlink(it.Target, p)
		}
		if err != nil {
			return err
		}
	}
	return nil
}

// scanRoot runs the real core.Scan (cold: no baseline, no caches) on root with
// the given ignorer, exactly as the local endpoint does for a full scan.
func scanRoot(root string, ignorer ignore.Ignorer) (*core.Snapshot, error) {
	snap, _, _, err := core.Scan(
		context.Background(), root,
		nil, nil,
		sha1.New(), nil,
		ignorer, nil,
		behavior.ProbeMode_ProbeModeAssume,
		core.SymbolicLinkMode_SymbolicLinkModePortable,
		core.PermissionsMode_PermissionsModePortable,
	)
	return snap, err
}

// flat flattens a snapshot entry into path -> kind letter: 'd' directory,
// 'f' file, 'l' link, 'u' untracked, 'p' problematic, 'h' phantom directory.
// The root itself is not included. Descent goes through every entry that has
// contents, whatever its kind, so that content wrongly hanging below an
// untracked entry is visible to the oracle.
func flat(e *core.Entry) map[string]byte {
	out := map[string]byte{}
	var rec func(prefix string, e *core.Entry)
	rec = func(prefix string, e *core.Entry) {
		for name, c := range e.GetContents() {
			p := name
			if prefix != "" {
				p = prefix + "/" + name
			}
			out[p] = kindLetter(c)
			rec(p, c)
		}
	}
	if e != nil {
		rec("", e)
	}
	return out
}

func kindLetter(e *core.Entry) byte {
	if e == nil {
		return '-'
	}
	switch e.Kind {
	case core.EntryKind_Directory:
		return 'd'
	case core.EntryKind_File:
		return 'f'
	case core.EntryKind_SymbolicLink:
		return 'l'
	case core.EntryKind_Untracked:
		return 'u'
	case core.EntryKind_Problematic:
		return 'p'
	case core.EntryKind_PhantomDirectory:
		return 'h'
	}
	return '?'
}

// render prints a flat map deterministically.
func render(m map[string]byte) string {
	keys := make([]string, 0, len(m))
	for k := range m {
		keys = append(keys, k)
	}
	sort.Strings(keys)
	var b strings.Builder
	for i, k := range keys {
		if i > 0 {
			b.WriteByte(' ')
		}
		fmt.Fprintf(&b, "%s:%c", k, m[k])
	}
	return b.String()
}

// lists enumerates, in a fixed order, every list of at most maxLen patterns
// over the alphabet (as index vectors), shortest first.
func lists(alphabet int, maxLen int) [][]int {
	out := [][]int{{}}
	prev := [][]int{{}}
	for l := 1; l <= maxLen; l++ {
		var cur [][]int
		for _, p := range prev {
			for a := 0; a < alphabet; a++ {
				v := make([]int, len(p)+1)
				copy(v, p)
				v[len(p)] = a
				cur = append(cur, v)
			}
		}
		out = append(out, cur...)
		prev = cur
	}
	return out
}

func pick(alphabet []string, idx []int) []string {
	out := make([]string, len(idx))
	for i, a := range idx {
		out[i] = alphabet[a]
	}
	return out
}

// ---------------------------------------------------------------------------
// Worker-local scratch roots and the syscall-hook log.

// slot is one worker's private on-disk copy of every fixed tree, plus the log
// of filesystem operations the hook saw below that copy.
type slot struct {
	base  string            // <tmp>/s<k>
	roots map[string]string // tree name -> root directory

	mu  sync.Mutex
	log []string // absolute paths touched ("op path")
	on  bool
}

// slots is a pool of worker slots; the hook handler dispatches on the path
// prefix (the handler is process-global, each TestCnn is run alone by
// bin/check, so only this test's own goroutines produce events).
type slots struct {
	prefix string // <tmp>/s
	all    []*slot
	free   chan *slot
}

func newSlots(t *testing.T, trees []*tree, n int) *slots {
	tmp, err := filepath.EvalSymlinks(t.TempDir())
	if err != nil {
		t.Fatalf("INFRA: %v", err)
	}
	s := &slots{prefix: filepath.Join(tmp, "s"), free: make(chan *slot, n)}
	for k := 0; k < n; k++ {
		sl := &slot{base: fmt.Sprintf("%s%03d", s.prefix, k), roots: map[string]string{}}
		for _, tr := range trees {
			root := filepath.Join(sl.base, tr.Name)
			if err := tr.materialize(root); err != nil {
				t.Fatalf("INFRA: cannot materialize tree %s: %v", tr.Name, err)
			}
			sl.roots[tr.Name] = root
		}
		s.all = append(s.all, sl)
		s.free <- sl
	}
	return s
}

// installHook installs a recording-only hook handler (it never injects a
// fault): every operation is resolved to an absolute path through
// /proc/self/fd/<descriptor> and appended to the log of the slot whose
// directory contains it, if that slot is currently recording.
func (s *slots) installHook() {
	verifhook.Set(func(op string, fd int, name string) error {
		var full string
		if fd >= 0 {
			dir, err := os.Readlink(fmt.Sprintf("/proc/self/fd/%d", fd))
			if err != nil {
				return nil
			}
			full = dir
			if name != "" {
				full = dir + "/" + name
			}
		} else {
			full = name
		}
		if !strings.HasPrefix(full, s.prefix) || len(full) < len(s.prefix)+3 {
			return nil
		}
		k := 0
		for _, c := range full[len(s.prefix) : len(s.prefix)+3] {
			if c < '0' || c > '9' {
				return nil
			}
			k = k*10 + int(c-'0')
		}
		if k >= len(s.all) {
			return nil
		}
		sl := s.all[k]
		sl.mu.Lock()
		if sl.on {
			sl.log = append(sl.log, op+" "+full)
		}
		sl.mu.Unlock()
		return nil
	})
}

func (s *slots) removeHook() { verifhook.Set(nil) }

// record runs fn with recording enabled for the slot and returns, relative to
// root, the (op, path) pairs observed at or below root.
func (sl *slot) record(root string, fn func()) []string {
	sl.mu.Lock()
	sl.log = sl.log[:0]
	sl.on = true
	sl.mu.Unlock()
	fn()
	sl.mu.Lock()
	sl.on = false
	var out []string
	for _, e := range sl.log {
		i := strings.IndexByte(e, ' ')
		op, p := e[:i], e[i+1:]
		if p == root {
			out = append(out, op+" ")
		} else if strings.HasPrefix(p, root+"/") {
			out = append(out, op+" "+p[len(root)+1:])
		}
	}
	sl.mu.Unlock()
	return out
}

// parallelSlots runs fn(i, slot) for i in [0,n) on the worker pool.
func (s *slots) parallel(n int, fn func(i int, sl *slot)) {
	vr.Parallel(n, func(i int) {
		sl := <-s.free
		defer func() { s.free <- sl }()
		fn(i, sl)
	})
}
