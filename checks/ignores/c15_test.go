//go:build verif

package ignores

import (
	"crypto/sha256"
	"encoding/hex"
	"encoding/json"
	"fmt"
	"os"
	"path"
	"path/filepath"
	"sort"
	"strings"
	"sync"
	"testing"

	"github.com/mutagen-io/mutagen/pkg/synchronization/core"
	dockerignore "github.com/mutagen-io/mutagen/pkg/synchronization/core/ignore/docker"

	"verif/internal/vr"
	refpm "verif/refs/patternmatcher"
)

// ---------------------------------------------------------------------------
// Reference: what Docker's .dockerignore processing includes from a tree.
//
// Trusted base: verif/refs/patternmatcher (frozen copy of the moby pattern
// matcher; only its upstream functions New, MatchesUsingParentResults,
// Exclusions, Patterns, Pattern.Exclusion, Pattern.String are used here).
// Written here, independently of mutagen: the .dockerignore line
// preprocessing and moby's directory walk (pkg/archive TarWithOptions).

// refDockerignoreLines performs the preprocessing that Docker applies to the
// lines of a .dockerignore file before they reach the matcher (buildkit
// frontend/dockerfile/dockerignore.ReadAll): trim, drop empty lines and
// comments, clean the path, remove a leading slash, keep the '!' in front.
func refDockerignoreLines(patterns []string) []string {
	var out []string
	for _, p := range patterns {
		p = strings.TrimSpace(p)
		if p == "" || p[0] == '#' {
			continue
		}
		invert := p[0] == '!'
		if invert {
			p = strings.TrimSpace(p[1:])
		}
		if len(p) > 0 {
			p = path.Clean(p)
			if len(p) > 1 && p[0] == '/' {
				p = p[1:]
			}
		}
		if invert {
			p = "!" + p
		}
		out = append(out, p)
	}
	return out
}

// dockerDir is the reference's classification of one directory of the tree.
type dockerDir struct {
	Excluded  bool // the matcher excludes it, or it lies beneath a directory that the walk skips
	Descended bool // the walk enters it
}

// dockerRef is the result of the reference walk.
type dockerRef struct {
	Leaves map[string]byte      // included files ('f') and links ('l')
	Dirs   map[string]dockerDir // every directory of the tree
	// statistics for non-triviality / outcome classes
	ExcludedLeaves, PrunedDirs, DescendedExcludedDirs, ReincludedBelowExcluded int
}

// dockerWalk is moby's walk: visit entries top-down; ask the matcher with the
// parent directory's match results; "an excluded directory is only descended
// into if some '!' pattern has it as a prefix"; included leaves are the files
// and links that are not excluded.
func dockerWalk(t *tree, lines []string) (*dockerRef, error) {
	m, err := refpm.New(lines)
	if err != nil {
		return nil, err
	}
	ref := &dockerRef{Leaves: map[string]byte{}, Dirs: map[string]dockerDir{}}
	var markPruned func(dir string)
	markPruned = func(dir string) {
		for _, it := range t.kids(dir) {
			if it.Kind == 'd' {
				ref.Dirs[it.Path] = dockerDir{Excluded: true}
				markPruned(it.Path)
			} else {
				ref.ExcludedLeaves++
			}
		}
	}
	var walk func(dir string, parent refpm.MatchInfo, belowExcluded bool) error
	walk = func(dir string, parent refpm.MatchInfo, belowExcluded bool) error {
		for _, it := range t.kids(dir) {
			skip, info, err := m.MatchesUsingParentResults(it.Path, parent)
			if err != nil {
				return err
			}
			if it.Kind != 'd' {
				if skip {
					ref.ExcludedLeaves++
				} else {
					ref.Leaves[it.Path] = it.Kind
					if belowExcluded {
						ref.ReincludedBelowExcluded++
					}
				}
				continue
			}
			if !skip {
				ref.Dirs[it.Path] = dockerDir{Descended: true}
				if belowExcluded {
					ref.ReincludedBelowExcluded++
				}
				if err := walk(it.Path, info, false); err != nil {
					return err
				}
				continue
			}
			// Excluded directory: "first check to see if there's an excludes
			// pattern (e.g. !dir/file) that starts with this dir. If so then we
			// can't skip this dir."
			descend := false
			if m.Exclusions() {
				dirSlash := it.Path + "/"
				for _, pat := range m.Patterns() {
					if pat.Exclusion() && strings.HasPrefix(pat.String()+"/", dirSlash) {
						descend = true
						break
					}
				}
			}
			ref.Dirs[it.Path] = dockerDir{Excluded: true, Descended: descend}
			if descend {
				ref.DescendedExcludedDirs++
				if err := walk(it.Path, info, true); err != nil {
					return err
				}
			} else {
				ref.PrunedDirs++
				markPruned(it.Path)
			}
		}
		return nil
	}
	if err := walk("", refpm.MatchInfo{}, false); err != nil {
		return nil, err
	}
	return ref, nil
}

// refDirMayBeTracked decides, from the reference and the ancestor alone,
// whether an excluded directory may be synchronized: "only if it holds
// synchronized content or was synchronized before". Synchronized content is an
// included file or link, an included (non-excluded) directory, or an excluded
// directory that itself satisfies this condition.
func refDirMayBeTracked(t *tree, ref *dockerRef, ancestor map[string]byte, dir string) bool {
	if ancestor[dir] == 'd' {
		return true
	}
	if !ref.Dirs[dir].Descended {
		return false
	}
	for _, it := range t.kids(dir) {
		if it.Kind != 'd' {
			if _, ok := ref.Leaves[it.Path]; ok {
				return true
			}
			continue
		}
		if !ref.Dirs[it.Path].Excluded || refDirMayBeTracked(t, ref, ancestor, it.Path) {
			return true
		}
	}
	return false
}

// ---------------------------------------------------------------------------
// Violation classifier (NOT an oracle: it never makes a case pass).
//
// ownOnlyWalk is the walk of a hypothetical processor that differs from
// Docker's in exactly one respect: a pattern takes part in "last match wins"
// for a path only if it matches that path itself; a pattern that matched a
// parent directory does not. What is inherited from the parent is a single
// bit (excluded or not), used when no pattern matches the path itself. It is
// used only to give every violation that this one difference explains
// completely the same canonical key, so that one root cause is one finding;
// a violation it does not explain completely keeps its own (tree, list) key.
func ownOnlyWalk(t *tree, lines []string) (*dockerRef, error) {
	type single struct {
		m         *refpm.PatternMatcher
		exclusion bool
		text      string
	}
	var pats []single
	for _, l := range lines {
		ex := strings.HasPrefix(l, "!")
		m, err := refpm.New([]string{strings.TrimPrefix(l, "!")})
		if err != nil {
			return nil, err
		}
		pats = append(pats, single{m, ex, m.Patterns()[0].String()})
	}
	ref := &dockerRef{Leaves: map[string]byte{}, Dirs: map[string]dockerDir{}}
	var markPruned func(dir string)
	markPruned = func(dir string) {
		for _, it := range t.kids(dir) {
			if it.Kind == 'd' {
				ref.Dirs[it.Path] = dockerDir{Excluded: true}
				markPruned(it.Path)
			}
		}
	}
	var walk func(dir string, parentExcluded bool) error
	walk = func(dir string, parentExcluded bool) error {
		for _, it := range t.kids(dir) {
			excluded := parentExcluded
			for _, p := range pats {
				own, err := p.m.MatchesUsingParentResult(it.Path, false)
				if err != nil {
					return err
				}
				if own {
					excluded = !p.exclusion
				}
			}
			if it.Kind != 'd' {
				if !excluded {
					ref.Leaves[it.Path] = it.Kind
				}
				continue
			}
			if !excluded {
				ref.Dirs[it.Path] = dockerDir{Descended: true}
				if err := walk(it.Path, false); err != nil {
					return err
				}
				continue
			}
			descend := false
			for _, p := range pats {
				if p.exclusion && strings.HasPrefix(p.text+"/", it.Path+"/") {
					descend = true
				}
			}
			ref.Dirs[it.Path] = dockerDir{Excluded: true, Descended: descend}
			if descend {
				if err := walk(it.Path, true); err != nil {
					return err
				}
			} else {
				markPruned(it.Path)
			}
		}
		return nil
	}
	if err := walk("", false); err != nil {
		return nil, err
	}
	return ref, nil
}

// Canonical keys of the two directions of the root cause described above.
const (
	c15ClassOver  = "docker|pattern-that-matched-a-parent-directory-is-not-applied-to-its-contents|synchronized-but-excluded-by-docker"
	c15ClassUnder = "docker|pattern-that-matched-a-parent-directory-is-not-applied-to-its-contents|included-by-docker-but-not-synchronized"
)

// ---------------------------------------------------------------------------
// Enumeration domains.

// c15Alphabet: the first c15Quick patterns are the quick-tier alphabet.
var c15Alphabet = []string{
	"a", "b", "a/b", "*", "*/b", "**/c", "a/*", "/c/",
	"!a", "!a/b", "!a/b/c", "!a/c", "!**/a", "!b/c/c", "!c/a", "!*/b",
	// thorough additions
	"a/b/c", "**", "a/**", "b/*/c", "!b", "!a/*", "!a/b/c/a", "!**/c",
}

const c15Quick = 16

// c15Core is the sub-alphabet whose length-4 lists the thorough tier adds.
var c15Core = []string{"a", "*", "a/b", "a/*", "**/c", "!a", "!a/b", "!a/b/c", "!**/a", "!c/a"}

// c15SiblingTree has sibling directories whose names are string prefixes of one
// another without being path prefixes (v, v-c), each holding keep / x.txt, so
// that "the text of a '!' pattern starts with the directory's path" and "the
// '!' pattern lies beneath the directory" differ. It is enumerated with its
// own alphabet, c15SiblingAlphabet.
var c15SiblingTree = mk("d5", "k.txt", "v/", "v/keep", "v/x.txt", "v/sub/", "v/sub/y.txt", "v-c/", "v-c/keep/", "v-c/keep/d", "v-c/o", "v-c/x.txt")

var c15SiblingAlphabet = []string{"v", "v-c", "!v-c/keep", "!v/keep", "!**/*.txt", "*", "**/keep", "!v-c", "v*", "!*/x.txt"}

// c15SyntaxTree / c15SyntaxAlphabet: the syntactic variants of one negated and
// one plain pattern that Docker's .dockerignore line preprocessing (trim,
// clean, strip the leading slash, keep the '!' in front) makes equivalent,
// on a tree where the re-included path x/y has content.
var c15SyntaxTree = mk("d6", "w", "x/", "x/y/", "x/y/f", "x/y/l->f", "x/y/s/", "x/y/s/g", "x/z", "x/q/", "x/q/y")

var c15SyntaxAlphabet = []string{"!x/y", "!/x/y", "! x/y", "! /x/y/", "!x/y/", "x", "/x", "x/", " x ", "*"}

var c15Trees = []*tree{
	mk("d1", "a/", "a/a/", "a/b/", "a/b/a", "a/b/c", "a/c", "b", "c/", "c/a->../b"),
	mk("d2", "a", "b/", "b/a", "b/b/", "b/b/c", "b/c/", "b/c/c/", "b/c/c/a", "c/"),
	mk("d3", "a/", "a/a/", "a/a/a", "a/b", "a/c/", "a/c/b", "a/c/c->b", "b/", "b/b", "c"),
	mk("d4", "a/", "a/b/", "a/b/a", "a/b/c/", "a/b/c/a", "a/b/c/b/", "b->a", "c/", "c/b/", "c/b/c", "c/c"),
}

type c15Case struct {
	Patterns []string `json:"patterns"`
	Tree     string   `json:"tree"`
	Ancestor string   `json:"ancestor"` // "nil", "full" (everything was synchronized before), "prev" (what these ignores synchronized)
	Beta     string   `json:"beta"`     // "same" (identical endpoint), "empty" (empty root directory)
}

var c15Ancestors = []string{"nil", "full", "prev"}
var c15Betas = []string{"same", "empty"}

// trackedPicture returns path -> kind letter for everything in a reified
// entry that is reachable from the root through tracked directories only.
func trackedPicture(e *core.Entry) map[string]byte {
	out := map[string]byte{}
	var rec func(prefix string, e *core.Entry)
	rec = func(prefix string, e *core.Entry) {
		for name, c := range e.GetContents() {
			p := name
			if prefix != "" {
				p = prefix + "/" + name
			}
			out[p] = kindLetter(c)
			if c.Kind == core.EntryKind_Directory {
				rec(p, c)
			}
		}
	}
	if e != nil && e.Kind == core.EntryKind_Directory {
		rec("", e)
	}
	return out
}

// synchronizableOnly returns a copy of e with everything but tracked
// directories, files and links removed (the shape of a valid ancestor).
func synchronizableOnly(e *core.Entry) *core.Entry {
	if e == nil {
		return nil
	}
	switch e.Kind {
	case core.EntryKind_File, core.EntryKind_SymbolicLink:
		return e
	case core.EntryKind_Directory:
		out := &core.Entry{Kind: core.EntryKind_Directory}
		for name, c := range e.Contents {
			if s := synchronizableOnly(c); s != nil {
				if out.Contents == nil {
					out.Contents = map[string]*core.Entry{}
				}
				out.Contents[name] = s
			}
		}
		return out
	}
	return nil
}

// c15Scan runs the real Docker-style ignorer through the real Scan.
func c15Scan(root string, patterns []string) (*core.Entry, error) {
	ig, err := dockerignore.NewIgnorer(patterns)
	if err != nil {
		return nil, fmt.Errorf("pattern list rejected: %w", err)
	}
	snap, err := scanRoot(root, ig)
	if err != nil {
		return nil, err
	}
	return snap.Content, nil
}

// c15Result is everything needed to judge one (list, tree).
type c15Result struct {
	ref       *dockerRef
	scan      *core.Entry
	findings  map[string][]string // "ancestor/beta" -> differences (empty = held)
	explained map[string]bool     // "ancestor/beta" -> every difference is what ownOnlyWalk predicts
	classes   map[string][]string // "ancestor/beta" -> outcome classes
}

// c15Evaluate runs one (pattern list, tree) through the real code for every
// ancestor and beta and compares with the reference.
func c15Evaluate(root string, t *tree, full *core.Entry, patterns []string) (*c15Result, error) {
	ref, err := dockerWalk(t, refDockerignoreLines(patterns))
	if err != nil {
		return nil, fmt.Errorf("reference matcher rejected the list: %w", err)
	}
	scan, err := c15Scan(root, patterns)
	if err != nil {
		return nil, err
	}
	res := &c15Result{ref: ref, scan: scan, findings: map[string][]string{}, classes: map[string][]string{}, explained: map[string]bool{}}
	var own *dockerRef // computed lazily, only when something differs
	// The "prev" ancestor: what a first cycle with these ignores synchronizes.
	prevA, _, _, _ := core.ReifyPhantomDirectories(nil, scan, scan)
	prev := synchronizableOnly(prevA)
	for _, an := range c15Ancestors {
		var ancestor *core.Entry
		switch an {
		case "full":
			ancestor = full
		case "prev":
			ancestor = prev
		}
		ancPicture := trackedPicture(ancestor)
		for _, bn := range c15Betas {
			beta := scan
			if bn == "empty" {
				beta = &core.Entry{Kind: core.EntryKind_Directory}
			}
			// Exactly what the controller does before reconciliation.
			ra, rb, _, _ := core.ReifyPhantomDirectories(ancestor, scan, beta)
			key := an + "/" + bn
			sides := []*core.Entry{ra}
			if bn == "same" {
				sides = append(sides, rb)
			}
			for si, side := range sides {
				picture := trackedPicture(side)
				diffs, classes := c15Compare(t, ref, ancPicture, picture)
				if si == 0 {
					res.classes[key] = classes
				}
				if len(diffs) > 0 {
					if own == nil {
						if own, err = ownOnlyWalk(t, refDockerignoreLines(patterns)); err != nil {
							return nil, err
						}
					}
					alt, _ := c15Compare(t, own, ancPicture, picture)
					if _, seen := res.explained[key]; !seen {
						res.explained[key] = true
					}
					if len(alt) > 0 {
						res.explained[key] = false
					}
				}
				for _, d := range diffs {
					if si == 1 {
						d = "beta: " + d
					}
					res.findings[key] = append(res.findings[key], d)
				}
			}
		}
	}
	return res, nil
}

// c15Compare is the oracle on one reified snapshot.
func c15Compare(t *tree, ref *dockerRef, ancestor, got map[string]byte) (diffs, classes []string) {
	// "the set of synchronized files and links is exactly the set Docker's
	// .dockerignore processing would include from the same tree"
	for p, k := range ref.Leaves {
		if g, ok := got[p]; !ok || g != k {
			if !ok {
				g = '-'
			}
			diffs = append(diffs, fmt.Sprintf("%s (%c) is included by Docker but not synchronized (snapshot: %c)", p, k, g))
		}
	}
	for p, g := range got {
		if g != 'f' && g != 'l' {
			continue
		}
		if _, ok := ref.Leaves[p]; !ok {
			diffs = append(diffs, fmt.Sprintf("%s (%c) is synchronized but excluded by Docker", p, g))
		}
	}
	// "An excluded directory is synchronized only if it holds synchronized
	// content or was synchronized before."
	seen := map[string]bool{}
	for _, it := range t.Items {
		if it.Kind != 'd' || !ref.Dirs[it.Path].Excluded {
			continue
		}
		may := refDirMayBeTracked(t, ref, ancestor, it.Path)
		tracked := got[it.Path] == 'd'
		if tracked && !may {
			diffs = append(diffs, fmt.Sprintf("excluded directory %s is synchronized although it holds no synchronized content and was not synchronized before", it.Path))
		}
		var c string
		switch {
		case tracked && ancestor[it.Path] == 'd' && !refDirMayBeTracked(t, ref, nil, it.Path):
			c = "excluded dir synchronized only because it was synchronized before"
		case tracked:
			c = "excluded dir synchronized because it holds synchronized content"
		case may:
			c = "excluded dir not synchronized although permitted (converse, not demanded)"
		default:
			c = "excluded dir not synchronized"
		}
		if !seen[c] {
			seen[c] = true
			classes = append(classes, c)
		}
	}
	sort.Strings(diffs)
	return diffs, classes
}

// vendoredChecksumNote compares the repository's vendored matcher with the
// frozen reference copy.
func vendoredChecksumNote() string {
	repo := os.Getenv("VERIF_REPO")
	if repo == "" {
		repo = "/repo"
	}
	sum := func(p string) string {
		data, err := os.ReadFile(p)
		if err != nil {
			return "unreadable(" + err.Error() + ")"
		}
		h := sha256.Sum256(data)
		return hex.EncodeToString(h[:])
	}
	vend := sum(filepath.Join(repo, "pkg/synchronization/core/ignore/docker/internal/third_party/patternmatcher/patternmatcher.go"))
	frozen := sum(filepath.Join(vr.Root(), "refs/patternmatcher/patternmatcher.go"))
	if vend == frozen {
		return "frozen reference matcher verif/refs/patternmatcher is byte-identical to the repository's vendored patternmatcher.go (sha256 " + frozen[:16] + "…)"
	}
	return "NOTE: the repository's vendored patternmatcher.go (sha256 " + vend[:min(16, len(vend))] + "…) DIFFERS from the frozen reference copy (sha256 " + frozen[:min(16, len(frozen))] + "…); the reference stays the frozen copy"
}

// c15Failure collects the differences of one (tree, pattern list).
type c15Failure struct {
	patterns    []string
	tree        *tree
	diffs       map[string][]string // "ancestor/beta" -> differences
	unexplained bool                // some difference is not what ownOnlyWalk predicts
}

func (f *c15Failure) diffSet() map[string]bool {
	out := map[string]bool{}
	for _, ds := range f.diffs {
		for _, d := range ds {
			out[d] = true
		}
	}
	return out
}

func TestC15(t *testing.T) {
	r := vr.New(t, "C15", "exploration")
	defer r.Finish()

	workers := vr.Workers()
	fixtures := append(append([]*tree{}, c15Trees...), c15SiblingTree, c15SyntaxTree)
	sls := newSlots(t, fixtures, workers)
	treeByName := map[string]*tree{}
	fullByName := map[string]*core.Entry{}
	for _, tr := range fixtures {
		treeByName[tr.Name] = tr
		full, err := c15Scan(sls.all[0].roots[tr.Name], nil)
		if err != nil {
			t.Fatalf("INFRA: cannot scan tree %s without ignores: %v", tr.Name, err)
		}
		// Sanity of the fixture itself: the un-ignored scan is the model tree.
		want := map[string]byte{}
		for _, it := range tr.Items {
			want[it.Path] = it.Kind
		}
		if render(flat(full)) != render(want) {
			t.Fatalf("INFRA: fixture %s scanned without ignores is %s, model is %s", tr.Name, render(flat(full)), render(want))
		}
		fullByName[tr.Name] = full
	}
	r.Assume(vendoredChecksumNote())

	if raw := vr.ReplayCase(); raw != nil {
		var c c15Case
		if err := json.Unmarshal(raw, &c); err != nil {
			t.Fatalf("INFRA: bad replay case: %v", err)
		}
		tr := treeByName[c.Tree]
		res, err := c15Evaluate(sls.all[0].roots[tr.Name], tr, fullByName[tr.Name], c.Patterns)
		if err != nil {
			t.Fatalf("INFRA: %v", err)
		}
		t.Logf("replay %s", vr.J(c))
		t.Logf("docker lines: %q", refDockerignoreLines(c.Patterns))
		t.Logf("reference included leaves: %s", render(res.ref.Leaves))
		t.Logf("reference directories: %s", vr.J(res.ref.Dirs))
		t.Logf("raw scan: %s", render(flat(res.scan)))
		var combos []string
		for k := range res.findings {
			if c.Ancestor == "" || k == c.Ancestor+"/"+c.Beta {
				combos = append(combos, k)
			}
		}
		sort.Strings(combos)
		r.Case(vr.J(c), true)
		allExplained, under := true, false
		for _, k := range combos {
			t.Logf("%s: differences %q (all of them what the parent-match classifier predicts: %v)", k, res.findings[k], res.explained[k])
			if !res.explained[k] {
				allExplained = false
			}
			for _, d := range res.findings[k] {
				if strings.Contains(d, "is included by Docker but not synchronized") {
					under = true
				}
			}
		}
		if len(combos) > 0 {
			// Same canonical key as the exploring run would use.
			key := vr.J(c15Case{Patterns: c.Patterns, Tree: c.Tree})
			if allExplained && under {
				key = c15ClassUnder
			} else if allExplained {
				key = c15ClassOver
			}
			r.Violate(key, strings.Join(res.findings[combos[0]], "; "), c, nil)
		}
		return
	}

	alphabet := c15Alphabet[:c15Quick]
	if vr.Thorough() {
		alphabet = c15Alphabet
	}
	maxLen := 3
	var all [][]string
	for _, li := range lists(len(alphabet), maxLen) {
		all = append(all, pick(alphabet, li))
	}
	if vr.Thorough() {
		// Thorough adds every list of length 4 over the core sub-alphabet.
		for _, li := range lists(len(c15Core), 4) {
			if len(li) == 4 {
				all = append(all, pick(c15Core, li))
			}
		}
	}
	r.Rule(fmt.Sprintf("every list of <= %d patterns over a %d-pattern Docker alphabet (thorough: plus every list of 4 over the 10-pattern core; %d lists in all) x %d fixed on-disk trees, plus every list of <= 3 (thorough: 4) patterns over the 10-pattern sibling-prefix alphabet on tree d5 (directories v and v-c) and over the 10-pattern syntax-variant alphabet on tree d6, each through the real docker.NewIgnorer + core.Scan, then x ancestor {nil, everything synchronized before, previous result} x beta {identical, empty} through the real core.ReifyPhantomDirectories; "+
		"compared with the reference walk (frozen moby matcher MatchesUsingParentResults + moby's prefix rule for descending into excluded directories). "+
		"non-trivial = the reference excludes at least one entry of the tree; distinct by (list, tree, ancestor, beta)",
		maxLen, len(alphabet), len(all), len(c15Trees)))
	r.Assume(
		"pattern alphabet: "+strings.Join(alphabet, " ")+"; core sub-alphabet: "+strings.Join(c15Core, " ")+"; sibling-prefix alphabet (tree d5 only): "+strings.Join(c15SiblingAlphabet, " ")+"; syntax-variant alphabet (tree d6 only): "+strings.Join(c15SyntaxAlphabet, "|"),
		"trusted base: the frozen copy of the vendored moby pattern matcher (upstream functions only) decides what 'Docker would include'; Docker's walk is moby pkg/archive TarWithOptions (descend into an excluded directory only if the text of some '!' pattern has it as a path prefix), not buildkit/fsutil's variant for wildcard exceptions",
		"the .dockerignore preprocessing (trim, clean, strip leading slash) is re-implemented in the check",
		"'synchronized' = present in ReifyPhantomDirectories(ancestor, scan, beta) and reachable from the root through tracked directories; both endpoints hold the same tree or beta is empty (content present only on the other endpoint is not enumerated)",
		"only the stated direction is demanded for excluded directories (synchronized => holds synchronized content or ancestor has a directory there); the converse is recorded as an outcome class",
		"the VCS option is not part of this property's statement and is off",
	)

	type job struct {
		patterns []string
		tree     *tree
	}
	var jobs []job
	for _, li := range all {
		for _, tr := range c15Trees {
			jobs = append(jobs, job{li, tr})
		}
	}
	// Sibling-prefix family: every list of <= 3 (thorough: <= 4) patterns over
	// c15SiblingAlphabet on c15SiblingTree.
	siblingLen := 3
	if vr.Thorough() {
		siblingLen = 4
	}
	siblingLists := lists(len(c15SiblingAlphabet), siblingLen)
	for _, li := range siblingLists {
		jobs = append(jobs, job{pick(c15SiblingAlphabet, li), c15SiblingTree})
	}
	// Syntax family: every list of <= 3 (thorough: <= 4) patterns over
	// c15SyntaxAlphabet on c15SyntaxTree.
	syntaxLists := lists(len(c15SyntaxAlphabet), siblingLen)
	for _, li := range syntaxLists {
		jobs = append(jobs, job{pick(c15SyntaxAlphabet, li), c15SyntaxTree})
	}
	failing := map[string]*c15Failure{}
	var failMu sync.Mutex
	sls.parallel(len(jobs), func(i int, sl *slot) {
		j := jobs[i]
		patterns := j.patterns
		root := sl.roots[j.tree.Name]
		res, err := c15Evaluate(root, j.tree, fullByName[j.tree.Name], patterns)
		if err != nil {
			c := c15Case{Patterns: patterns, Tree: j.tree.Name}
			r.Violate("error|"+vr.J(c), err.Error(), c, nil)
			return
		}
		ref := res.ref
		nontrivial := ref.ExcludedLeaves+ref.PrunedDirs+ref.DescendedExcludedDirs > 0
		switch {
		case ref.ReincludedBelowExcluded > 0:
			r.Outcome("walk: re-inclusion beneath an excluded directory")
		case ref.DescendedExcludedDirs > 0:
			r.Outcome("walk: excluded directory entered, nothing re-included")
		case ref.PrunedDirs > 0:
			r.Outcome("walk: excluded directory skipped")
		case ref.ExcludedLeaves > 0:
			r.Outcome("walk: only files/links excluded")
		default:
			r.Outcome("walk: nothing excluded")
		}
		if strings.Contains(render(flat(res.scan)), ":h") {
			r.Add("scans_with_phantom_directories", 1)
		}
		for _, an := range c15Ancestors {
			for _, bn := range c15Betas {
				key := an + "/" + bn
				r.Case(fmt.Sprintf("%s|%s|%s", strings.Join(patterns, ","), j.tree.Name, key), nontrivial)
				for _, cl := range res.classes[key] {
					r.Outcome("reify: " + cl)
				}
				if d := res.findings[key]; len(d) > 0 {
					failMu.Lock()
					id := j.tree.Name + "|" + strings.Join(patterns, " ")
					if failing[id] == nil {
						failing[id] = &c15Failure{patterns: patterns, tree: j.tree, diffs: map[string][]string{}}
					}
					failing[id].diffs[key] = d
					if !res.explained[key] {
						failing[id].unexplained = true
					}
					failMu.Unlock()
				}
			}
		}
	})

	// Report, smallest lists first (deterministic order).
	//  * A failing (tree, list) all of whose differences are exactly what
	//    ownOnlyWalk predicts has the root cause "a pattern that matched a
	//    parent directory is not applied to the directory's contents"; all of
	//    them share one canonical key per direction, the first (smallest) one is
	//    the recorded example and the rest are counted.
	//  * Any other failing (tree, list) is reported under its own key, unless
	//    it is dominated: deleting one of its patterns gives a list that, on
	//    the same tree, already shows one of the very same differences (then
	//    that sub-list is reported, so the exit status is unaffected).
	ids := make([]string, 0, len(failing))
	for id := range failing {
		ids = append(ids, id)
	}
	sort.Slice(ids, func(i, j int) bool {
		a, b := failing[ids[i]], failing[ids[j]]
		if len(a.patterns) != len(b.patterns) {
			return len(a.patterns) < len(b.patterns)
		}
		return ids[i] < ids[j]
	})
	dominated, classOver, classUnder, unexplained := 0, 0, 0, 0
	for _, id := range ids {
		f := failing[id]
		own := f.diffSet()
		key := ""
		if !f.unexplained {
			key = c15ClassOver
			for d := range own {
				if strings.Contains(d, "is included by Docker but not synchronized") {
					key = c15ClassUnder
				}
			}
			if key == c15ClassOver {
				classOver++
				if classOver > 1 {
					continue
				}
			} else {
				classUnder++
				if classUnder > 1 {
					continue
				}
			}
		} else {
			unexplained++
			dom := false
			for k := range f.patterns {
				sub := append(append([]string{}, f.patterns[:k]...), f.patterns[k+1:]...)
				if g := failing[f.tree.Name+"|"+strings.Join(sub, " ")]; g != nil && g.unexplained {
					for d := range g.diffSet() {
						if own[d] {
							dom = true
						}
					}
				}
			}
			if dom {
				dominated++
				continue
			}
		}
		c := c15Case{Patterns: f.patterns, Tree: f.tree.Name}
		if key == "" {
			key = vr.J(c)
		}
		var combos []string
		for k := range f.diffs {
			combos = append(combos, k)
		}
		sort.Strings(combos)
		what := fmt.Sprintf("%s [under ancestor/beta %s]", strings.Join(f.diffs[combos[0]], "; "), strings.Join(combos, ","))
		root := sls.all[0].roots[f.tree.Name]
		r.Violate(key, what, c, func() bool {
			again, err := c15Evaluate(root, f.tree, fullByName[f.tree.Name], f.patterns)
			if err != nil {
				return false
			}
			for _, k := range combos {
				if len(again.findings[k]) == 0 {
					return false
				}
			}
			return true
		})
	}
	r.Set("violating_pairs_class_synchronized_but_excluded_by_docker", classOver)
	r.Set("violating_pairs_class_included_by_docker_but_not_synchronized", classUnder)
	r.Set("violating_pairs_not_explained_by_the_class", unexplained)
	r.Set("violating_list_tree_pairs", len(failing))
	r.Set("violating_pairs_unexplained_but_dominated_by_a_reported_sublist", dominated)
	r.Set("trusted_base", []string{"verif/refs/patternmatcher (frozen copy of the vendored moby pattern matcher; upstream functions New, MatchesUsingParentResults, Exclusions, Patterns only)"})
	r.Set("pattern_lists", len(all))
	r.Set("sibling_prefix_lists", len(siblingLists))
	r.Set("syntax_variant_lists", len(syntaxLists))
	r.Set("scans", len(jobs))
	for _, c := range []c15Case{
		{Patterns: []string{"a", "!a/b/c"}, Tree: "d1", Ancestor: "nil", Beta: "same"},
		{Patterns: []string{"*", "!a/b", "**/c"}, Tree: "d4", Ancestor: "full", Beta: "empty"},
	} {
		ref, err := dockerWalk(treeByName[c.Tree], refDockerignoreLines(c.Patterns))
		if err == nil {
			r.Sample(map[string]interface{}{"case": c, "reference_included": render(ref.Leaves), "reference_dirs": ref.Dirs})
		}
	}
}
