//go:build verif

package endpoint

import (
	"fmt"
	"os"
	"path/filepath"
	"strings"

	"github.com/mutagen-io/mutagen/pkg/synchronization/core"
)

// ---- C41, stale-plan leg ----
//
// "A session never ... transitions its way past its maximum entry count" when
// the plan it is handed is STALE: the controller's view still contains a
// subtree that has vanished from the root. History: Scan; the subtree big/ is
// removed externally; (optionally) Scan again, so that the endpoint itself knows
// the smaller count; Transition with [removal of big/ as it was, creation of a
// directory tree fresh/]. Creations are directories only, so no staging is
// involved. Oracle: if the Transition made the root grow, an independent walk
// counts at most MaximumEntryCount entries afterwards, and the next Scan does
// not fail on the entry limit.

type c41stale struct {
	Keep        int    `json:"keep"`        // unrelated files k1..kN that stay
	Sub         int    `json:"sub"`         // files inside big/ (the stale Old hierarchy has 1+Sub entries)
	Create      int    `json:"create"`      // entries the plan creates (fresh/ with Create-1 sub-directories)
	Max         uint64 `json:"max"`         // MaximumEntryCount (>= 1)
	Rescan      bool   `json:"rescan"`      // a second Scan after big/ vanished
	CreateFirst bool   `json:"createfirst"` // order of the two changes in the plan
}

// regime names how the endpoint's own last scan relates to the stale removal.
func (c c41stale) regime() string {
	switch {
	case !c.Rescan:
		return "the vanished subtree was still counted by the last scan"
	case uint64(1+c.Sub) > uint64(1+c.Keep):
		return "last scan saw fewer entries in total than the stale plan removes"
	default:
		return "last scan no longer saw the subtree but still counted at least as many entries as the stale plan removes"
	}
}

func c41staleRun(e *env, c c41stale, logf func(string, ...any)) (res c41result) {
	dir, sid := e.caseDir()
	defer e.dropCase(dir, sid)
	root := filepath.Join(dir, "root")
	if err := os.MkdirAll(root, 0o755); err != nil {
		res.infra = err.Error()
		return
	}
	for k := 1; k <= c.Keep; k++ {
		if err := writeFileAt(filepath.Join(root, fmt.Sprintf("k%d", k)), []byte(fmt.Sprintf("keep %d\n", k)), k); err != nil {
			res.infra = err.Error()
			return
		}
	}
	bigOld := map[string]*core.Entry{}
	for s := 1; s <= c.Sub; s++ {
		content := []byte(fmt.Sprintf("big member %d\n", s))
		name := fmt.Sprintf("m%d", s)
		if err := writeFileAt(filepath.Join(root, "big", name), content, 10+s); err != nil {
			res.infra = err.Error()
			return
		}
		bigOld[name] = fileEntry(content)
	}
	fresh := map[string]*core.Entry{}
	for n := 1; n < c.Create; n++ {
		fresh[fmt.Sprintf("s%d", n)] = dirEntry(nil)
	}
	chRemove := &core.Change{Path: "big", Old: dirEntry(bigOld)}
	chCreate := &core.Change{Path: "fresh", New: dirEntry(fresh)}
	plan := []*core.Change{chRemove, chCreate}
	if c.CreateFirst {
		plan = []*core.Change{chCreate, chRemove}
	}

	ep, err := newLocal(root, sid, noWatchConfig(c.Max, 0))
	if err != nil {
		res.infra = "endpoint: " + err.Error()
		return
	}
	defer ep.Shutdown()
	if _, err, _ := ep.Scan(bg, nil, false); err != nil {
		// The initial tree does not fit the limit: not a history of this leg.
		res.outcomes = append(res.outcomes, "stale:initial-scan-over-limit")
		return
	}
	if err := os.RemoveAll(filepath.Join(root, "big")); err != nil {
		res.infra = err.Error()
		return
	}
	if c.Rescan {
		if _, err, _ := ep.Scan(bg, nil, false); err != nil {
			res.infra = "rescan: " + err.Error()
			return
		}
	}
	before := walkRoot(root)
	results, problems, _, terr := ep.Transition(bg, plan)
	after := walkRoot(root)
	logf("stale plan %s: results=%d problems=%v err=%v; disk %s -> %s", c41planString(plan), len(results), c10problems(problems), terr, before, after)
	res.nontrivial = true
	grew := after.count > before.count
	if grew && after.count > c.Max {
		res.viol = fmt.Sprintf("stale plan: the Transition grew the root from %d to %d entries, MaximumEntryCount %d (Transition error: %v, problems %v)", before.count, after.count, c.Max, terr, c10problems(problems))
		return
	}
	if _, serr, _ := ep.Scan(bg, nil, false); serr != nil && grew {
		res.viol = fmt.Sprintf("stale plan: after the Transition grew the root from %d to %d entries the next Scan fails: %v (MaximumEntryCount %d)", before.count, after.count, serr, c.Max)
		return
	}
	switch {
	case terr != nil:
		res.outcomes = append(res.outcomes, "stale:transition-error")
	case grew:
		res.outcomes = append(res.outcomes, "stale:created-within-limit")
	default:
		limit := false
		for _, p := range problems {
			if strings.Contains(p.Error, "entry count") {
				limit = true
			}
		}
		res.outcomes = append(res.outcomes, fmt.Sprintf("stale:nothing-created:limit-refusal=%v", limit))
	}
	return
}

func c41planString(plan []*core.Change) string {
	var parts []string
	for _, ch := range plan {
		parts = append(parts, fmt.Sprintf("%s:%d->%d", ch.Path, ch.Old.Count(), ch.New.Count()))
	}
	return "[" + strings.Join(parts, " ") + "]"
}

// c41staleCases enumerates the leg.
func c41staleCases(thorough bool) []c41stale {
	maxKeep, maxSub, maxCreate := 3, 3, 4
	if thorough {
		maxKeep, maxSub, maxCreate = 4, 5, 6
	}
	var out []c41stale
	for keep := 0; keep <= maxKeep; keep++ {
		for sub := 1; sub <= maxSub; sub++ {
			for create := 1; create <= maxCreate; create++ {
				// Every limit from 1 to one above everything that could ever be on disk.
				for m := 1; m <= 1+keep+1+sub+create+1; m++ {
					for _, rescan := range []bool{false, true} {
						for _, cf := range []bool{false, true} {
							out = append(out, c41stale{keep, sub, create, uint64(m), rescan, cf})
						}
					}
				}
			}
		}
	}
	return out
}
