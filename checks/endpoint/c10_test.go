//go:build verif

package endpoint

import (
	"context"
	"encoding/json"
	"fmt"
	"os"
	"path/filepath"
	"sort"
	"strings"
	"sync"
	"sync/atomic"
	"testing"
	"time"

	"google.golang.org/protobuf/proto"

	"github.com/mutagen-io/mutagen/pkg/synchronization/core"
	"github.com/mutagen-io/mutagen/pkg/synchronization/rsync"

	"verif/internal/vr"
)

// ---- C10: files written into a root always carry the planned content ----
//
// One case: a real local endpoint on a temp root, Scan, Stage(dependencies of
// a fixed plan), then the CORRECT rsync transmission script for the returned
// paths (captured from the real rsync.Transmit) is delivered with one (thorough:
// two) tamper(s) through rsync.DecodeToReceiver, then Transition(plan) - either
// on the same endpoint or, "resume", on a new endpoint instance of the same
// session after a correct re-delivery of whatever Stage asks for again.
// Oracle (independent SHA-1 of what is on disk afterwards): every planned file
// path holds exactly the planned content, or it was not created/replaced AND
// the call said so (missing-files flag set, a problem names the path).

type c10tamper struct {
	Kind string `json:"kind"`
	K    int    `json:"k"`             // message index in the script the tamper is applied to
	Arg  int    `json:"arg,omitempty"` // kind-specific (byte position selector, new start/count ...)
}

type c10case struct {
	Plan    string      `json:"plan"`              // order of the changes: P1 | P2 | P3
	Tampers []c10tamper `json:"tampers"`           // applied left to right
	Cont    string      `json:"cont"`              // same | resume
	MaxFile uint64      `json:"maxfile,omitempty"` // MaximumStagingFileSize (0 = unlimited)
	Copy    string      `json:"copy,omitempty"`    // local-copy leg: what happens to the same-digest file between scan and stage
}

// Planned contents. "b" replaces an existing three-block file (so that the
// script has block operations), "big" needs three data operations, "e" is empty.
var (
	c10base = pattern(1, 20000)
	c10A    = []byte("small new file a, forty bytes or so....\n")
	c10B    = append(append(append([]byte{}, c10base[:8192]...), []byte("<<<<inserted-in-the-middle>>>>")...), c10base[8192:]...)
	c10E    = []byte{}
	c10Big  = pattern(7, 150000)
	c10U    = []byte("unrelated, must stay\n")
)

// Plan-shape leg (PX1/PX2): file->file changes in which the content, the
// executable bit, both, or neither-but-the-path's-source change.
var (
	c10S0 = []byte("#!/bin/sh\necho script s, old\n")
	c10S1 = []byte("#!/bin/sh\necho script s, edited and made executable\n")
	c10T0 = []byte("#!/bin/sh\necho script t, old, executable\n")
	c10T1 = []byte("script t is now plain data\n")
	c10M0 = []byte("m keeps its bytes, gains the bit\n")
	c10N0 = []byte("n keeps its bytes, loses the bit\n")
	c10K0 = []byte("k, to be replaced by the bytes of u\n")
)

var c10targets = map[string][]byte{"d/a": c10A, "b": c10B, "e": c10E, "big": c10Big, "s": c10S1, "t": c10T1, "k": c10U}

func execEntry(content []byte, executable bool) *core.Entry {
	e := fileEntry(content)
	e.Executable = executable
	return e
}

func c10plan(order string) []*core.Change {
	chA := &core.Change{Path: "d", New: dirEntry(map[string]*core.Entry{"a": fileEntry(c10A)})}
	chB := &core.Change{Path: "b", Old: fileEntry(c10base), New: fileEntry(c10B)}
	chE := &core.Change{Path: "e", New: fileEntry(c10E)}
	chBig := &core.Change{Path: "big", New: fileEntry(c10Big)}
	switch order {
	case "P1":
		return []*core.Change{chA, chB, chE, chBig}
	case "P2":
		return []*core.Change{chBig, chE, chB, chA}
	case "P3":
		return []*core.Change{chB, chA, chBig, chE}
	case "PX1", "PX2":
		chS := &core.Change{Path: "s", Old: execEntry(c10S0, false), New: execEntry(c10S1, true)} // content AND bit
		chT := &core.Change{Path: "t", Old: execEntry(c10T0, true), New: execEntry(c10T1, false)} // content AND bit (off)
		chM := &core.Change{Path: "m", Old: execEntry(c10M0, false), New: execEntry(c10M0, true)} // bit only
		chN := &core.Change{Path: "n", Old: execEntry(c10N0, true), New: execEntry(c10N0, false)} // bit only (off)
		chK := &core.Change{Path: "k", Old: execEntry(c10K0, false), New: execEntry(c10U, false)} // content that another root file (u) already has
		if order == "PX1" {
			return []*core.Change{chS, chT, chM, chN, chK, chA}
		}
		return []*core.Change{chA, chK, chN, chM, chT, chS}
	case "PC": // local-copy leg: only d/a, whose content also lives in root file "c"
		return []*core.Change{chA}
	}
	panic("unknown plan " + order)
}

func c10source(e *env) string {
	src := filepath.Join(e.base, "c10src")
	for p, content := range c10targets {
		if err := writeFileAt(filepath.Join(src, filepath.FromSlash(p)), content, 1); err != nil {
			e.t.Fatalf("INFRA: %v", err)
		}
	}
	return src
}

// ---- tampers ----

func isData(m *rsync.Transmission) bool {
	return m != nil && !m.Done && m.Operation != nil && len(m.Operation.Data) > 0
}
func isBlock(m *rsync.Transmission) bool {
	return m != nil && !m.Done && m.Operation != nil && len(m.Operation.Data) == 0
}

// c10cancelMark is a pseudo message: when the decoder reaches it, the staging
// context is cancelled (preemptable receiver) and delivery continues.
var c10cancelMark = &rsync.Transmission{Error: "\x00cancel-mark"}

// c10apply applies one tamper to a script (which it may modify in place; pass a clone).
func c10apply(s []*rsync.Transmission, t c10tamper) ([]*rsync.Transmission, bool) {
	k := t.K
	if k < 0 || k > len(s) {
		return nil, false
	}
	ins := func(at int, m *rsync.Transmission) []*rsync.Transmission {
		out := append([]*rsync.Transmission{}, s[:at]...)
		out = append(out, m)
		return append(out, s[at:]...)
	}
	switch t.Kind {
	case "cut": // connection cut / decode error after k messages
		return s[:k], true
	case "fail": // decode error in place of message k
		if k >= len(s) {
			return nil, false
		}
		return append(append([]*rsync.Transmission{}, s[:k]...), nil), true
	case "invalid": // message k replaced by one that fails validation (operation missing mid-stream)
		if k >= len(s) {
			return nil, false
		}
		s[k] = &rsync.Transmission{}
		return s, true
	case "cancel": // staging cancelled just before message k is forwarded
		return ins(k, c10cancelMark), true
	case "drop":
		if k >= len(s) {
			return nil, false
		}
		return append(append([]*rsync.Transmission{}, s[:k]...), s[k+1:]...), true
	case "dup":
		if k >= len(s) || s[k] == nil {
			return nil, false
		}
		return ins(k, proto.Clone(s[k]).(*rsync.Transmission)), true
	case "swap":
		if k+1 >= len(s) {
			return nil, false
		}
		s[k], s[k+1] = s[k+1], s[k]
		return s, true
	case "early-done": // a Done inserted before message k
		return ins(k, &rsync.Transmission{Done: true}), true
	case "done-error": // the sender reports in-band that it could not read the file: its messages replaced by one Done{Error}
		if k >= len(s) || s[k] == nil || !s[k].Done {
			return nil, false
		}
		start := k
		for start > 0 && s[start-1] != nil && !s[start-1].Done {
			start--
		}
		out := append([]*rsync.Transmission{}, s[:start]...)
		out = append(out, &rsync.Transmission{Done: true, Error: "unable to open file: injected"})
		return append(out, s[k+1:]...), true
	case "flip": // one byte of data op k changed; Arg selects first/middle/last byte
		if k >= len(s) || !isData(s[k]) {
			return nil, false
		}
		d := s[k].Operation.Data
		pos := []int{0, len(d) / 2, len(d) - 1}[t.Arg%3]
		d[pos] ^= 0x01
		return s, true
	case "shorten": // data op k loses its last byte
		if k >= len(s) || !isData(s[k]) || len(s[k].Operation.Data) < 2 {
			return nil, false
		}
		s[k].Operation.Data = s[k].Operation.Data[:len(s[k].Operation.Data)-1]
		return s, true
	case "lengthen": // data op k gains a byte
		if k >= len(s) || !isData(s[k]) {
			return nil, false
		}
		s[k].Operation.Data = append(s[k].Operation.Data, 'Z')
		return s, true
	case "block": // block op k altered: Arg 0 start+1, 1 count+1, 2 count-1, 3 start far outside
		if k >= len(s) || !isBlock(s[k]) {
			return nil, false
		}
		o := s[k].Operation
		switch t.Arg {
		case 0:
			o.Start++
		case 1:
			o.Count++
		case 2:
			if o.Count < 2 {
				return nil, false
			}
			o.Count--
		case 3:
			o.Start = 1000
		default:
			return nil, false
		}
		return s, true
	case "data-to-block": // data op k replaced by a copy-block-0 op
		if k >= len(s) || !isData(s[k]) {
			return nil, false
		}
		s[k].Operation = &rsync.Operation{Start: 0, Count: 1}
		return s, true
	case "none":
		return s, true
	}
	return nil, false
}

// c10tampers lists every single tamper applicable to script s.
func c10tampers(s []*rsync.Transmission) []c10tamper {
	var out []c10tamper
	for k := 0; k <= len(s); k++ {
		if k < len(s) {
			out = append(out, c10tamper{Kind: "cut", K: k}, c10tamper{Kind: "fail", K: k}, c10tamper{Kind: "invalid", K: k},
				c10tamper{Kind: "cancel", K: k}, c10tamper{Kind: "drop", K: k}, c10tamper{Kind: "dup", K: k}, c10tamper{Kind: "early-done", K: k})
			if k+1 < len(s) {
				out = append(out, c10tamper{Kind: "swap", K: k})
			}
			if s[k] != nil && s[k].Done {
				out = append(out, c10tamper{Kind: "done-error", K: k})
			}
			if isData(s[k]) {
				for a := 0; a < 3; a++ {
					out = append(out, c10tamper{Kind: "flip", K: k, Arg: a})
				}
				out = append(out, c10tamper{Kind: "shorten", K: k}, c10tamper{Kind: "lengthen", K: k}, c10tamper{Kind: "data-to-block", K: k})
			}
			if isBlock(s[k]) {
				for a := 0; a < 4; a++ {
					out = append(out, c10tamper{Kind: "block", K: k, Arg: a})
				}
			}
		}
	}
	// Keep only the applicable ones.
	var ok []c10tamper
	for _, t := range out {
		if _, applies := c10apply(cloneScript(s), t); applies {
			ok = append(ok, t)
		}
	}
	return ok
}

// c10decoder plays a tampered script; it knows the cancel mark.
type c10decoder struct {
	script []*rsync.Transmission
	pos    int
	cancel context.CancelFunc
	hitEnd bool
}

func (d *c10decoder) Decode(into *rsync.Transmission) error {
	for d.pos < len(d.script) && d.script[d.pos] == c10cancelMark {
		d.cancel()
		d.pos++
	}
	if d.pos >= len(d.script) {
		d.hitEnd = true
		return errScriptEnd
	}
	m := d.script[d.pos]
	d.pos++
	if m == nil {
		return errScriptFault
	}
	proto.Reset(into)
	proto.Merge(into, m)
	return nil
}
func (d *c10decoder) Finalize() error { return nil }

// ---- one execution ----

// c10setup creates the files the plan expects to find in the root and returns,
// per planned file path, the planned content and (for replacements) the old one.
func c10setup(root string, plan []*core.Change) (planned, old map[string][]byte, err error) {
	planned, old = map[string][]byte{}, map[string][]byte{}
	put := func(name string, content []byte, mode os.FileMode, tick int) {
		if err != nil {
			return
		}
		if err = writeFileAt(filepath.Join(root, name), content, tick); err == nil {
			err = os.Chmod(filepath.Join(root, name), mode)
		}
	}
	for _, ch := range plan {
		switch ch.Path {
		case "d":
			planned["d/a"] = c10A
		case "b":
			planned["b"], old["b"] = c10B, c10base
			put("b", c10base, 0o644, 2)
		case "e":
			planned["e"] = c10E
		case "big":
			planned["big"] = c10Big
		case "s":
			planned["s"], old["s"] = c10S1, c10S0
			put("s", c10S0, 0o644, 2)
		case "t":
			planned["t"], old["t"] = c10T1, c10T0
			put("t", c10T0, 0o755, 2)
		case "m":
			planned["m"] = c10M0
			put("m", c10M0, 0o644, 2)
		case "n":
			planned["n"] = c10N0
			put("n", c10N0, 0o755, 2)
		case "k":
			planned["k"], old["k"] = c10U, c10K0
			put("k", c10K0, 0o644, 2)
		}
	}
	return
}

type c10result struct {
	viol       string
	infra      string
	nontrivial bool
	outcome    string
}

func c10run(e *env, src string, c c10case, logfn func(string, ...any)) (res c10result) {
	logf := func(f string, a ...any) {
		if logfn != nil {
			logfn(f, a...)
		}
	}
	dir, sid := e.caseDir()
	defer e.dropCase(dir, sid)
	root := filepath.Join(dir, "root")
	if err := writeFileAt(filepath.Join(root, "u"), c10U, 1); err != nil {
		res.infra = err.Error()
		return
	}
	plan := c10plan(c.Plan)
	planned, old, err := c10setup(root, plan)
	if err != nil {
		res.infra = err.Error()
		return
	}
	if c.Copy != "" {
		// A file with the digest wanted for d/a exists in the root at scan time.
		if err := writeFileAt(filepath.Join(root, "c"), c10A, 3); err != nil {
			res.infra = err.Error()
			return
		}
	}
	cfg := noWatchConfig(0, c.MaxFile)
	ep, err := newLocal(root, sid, cfg)
	if err != nil {
		res.infra = "endpoint: " + err.Error()
		return
	}
	shut := false
	defer func() {
		if !shut {
			ep.Shutdown()
		}
	}()
	if _, err, _ := ep.Scan(bg, nil, false); err != nil {
		res.infra = "scan: " + err.Error()
		return
	}
	// "...supplied from locally renamed/copied files": the copy changes after the scan.
	cpath := filepath.Join(root, "c")
	switch c.Copy {
	case "", "intact":
	case "changed-same-size-same-mtime": // bytes differ, size and mtime as scanned
		mod := append([]byte{}, c10A...)
		mod[5] ^= 0x20
		err = writeFileAt(cpath, mod, 3)
	case "changed":
		mod := append([]byte{}, c10A...)
		mod[5] ^= 0x20
		err = writeFileAt(cpath, mod, 4)
	case "truncated":
		err = writeFileAt(cpath, c10A[:10], 4)
	case "extended":
		err = writeFileAt(cpath, append(append([]byte{}, c10A...), "tail"...), 4)
	case "deleted":
		err = os.Remove(cpath)
	case "now-directory":
		if err = os.Remove(cpath); err == nil {
			err = os.Mkdir(cpath, 0o755)
		}
	default:
		err = fmt.Errorf("unknown copy mode %q", c.Copy)
	}
	if err != nil {
		res.infra = "copy edit: " + err.Error()
		return
	}

	deps, digs := core.TransitionDependencies(plan)
	depsCopy := append([]string(nil), deps...)
	R, sigs, recv, err := ep.Stage(depsCopy, digs)
	if err != nil {
		res.infra = "stage: " + err.Error()
		return
	}
	R = append([]string(nil), R...)
	logf("stage asked for %v (requested %v)", R, deps)

	var feedErr error
	fired := true
	if recv != nil {
		script, err := captureScript(src, R, sigs)
		if err != nil {
			res.infra = "capture: " + err.Error()
			return
		}
		orig := cloneScript(script)
		for _, t := range c.Tampers {
			var ok bool
			script, ok = c10apply(script, t)
			if !ok {
				res.infra = fmt.Sprintf("tamper %+v does not apply", t)
				return
			}
		}
		ctx, cancel := context.WithCancel(bg)
		dec := &c10decoder{script: script, cancel: cancel}
		// The controller wraps the endpoint's receiver in a preemptable receiver.
		feedErr = rsync.DecodeToReceiver(dec, uint64(len(R)), rsync.NewPreemptableReceiver(ctx, recv))
		cancel()
		// Did delivery get as far as the first difference from the correct script?
		first := 0
		for first < len(orig) && first < len(script) && script[first] != nil && script[first] != c10cancelMark && proto.Equal(orig[first], script[first]) {
			first++
		}
		fired = dec.pos > first || dec.hitEnd
		if len(c.Tampers) == 0 || (len(c.Tampers) == 1 && c.Tampers[0].Kind == "none") {
			fired = true
		}
		if logfn != nil {
			for i, m := range script {
				logf("  script[%d] %s", i, c10msg(m))
			}
		}
		logf("delivery: consumed %d of %d messages, error=%v, first difference at %d", dec.pos, len(script), feedErr, first)
	} else if len(c.Tampers) > 0 && c.Tampers[0].Kind != "none" {
		fired = false
	}

	if c.Cont == "resume" {
		// The session is torn down and resumed: new endpoint instance, same session.
		ep.Shutdown()
		shut = true
		ep2, err := newLocal(root, sid, cfg)
		if err != nil {
			res.infra = "resume endpoint: " + err.Error()
			return
		}
		defer ep2.Shutdown()
		ep = ep2
		if _, err, _ := ep.Scan(bg, nil, false); err != nil {
			res.infra = "resume scan: " + err.Error()
			return
		}
		deps2, digs2 := core.TransitionDependencies(plan)
		R2, sigs2, recv2, err := ep.Stage(append([]string(nil), deps2...), digs2)
		if err != nil {
			res.infra = "resume stage: " + err.Error()
			return
		}
		R2 = append([]string(nil), R2...)
		logf("resume: stage asked for %v", R2)
		if recv2 != nil {
			script, err := captureScript(src, R2, sigs2)
			if err == nil {
				err = feed(recv2, len(R2), script)
			}
			if err != nil {
				res.infra = "resume feed: " + err.Error()
				return
			}
		}
	}

	results, problems, missing, err := ep.Transition(bg, plan)
	if err != nil {
		res.infra = "transition: " + err.Error()
		return
	}
	after := walkRoot(root)
	logf("transition: results=%d missing=%v problems=%v", len(results), missing, c10problems(problems))
	logf("disk: %s", after)

	// ---- oracle ----
	var status []string
	var paths []string
	for p := range planned {
		paths = append(paths, p)
	}
	sort.Strings(paths)
	allOK := true
	for _, p := range paths {
		want := sha1hex(planned[p])
		got, exists := after.files[p]
		switch {
		case exists && got == want:
			// "content whose digest equals the digest named in the plan"
			status = append(status, p+":ok")
			continue
		case exists && old[p] != nil && got == sha1hex(old[p]):
			// Not replaced: the previous file is still there untouched.
			status = append(status, p+":old")
		case exists:
			res.viol = fmt.Sprintf("file %q in the root has digest %s, planned %s (feed error: %v)", p, got[:12], want[:12], feedErr)
			return
		default:
			if after.dirs[p] || after.other[p] != "" {
				res.viol = fmt.Sprintf("planned file path %q holds a non-file after the transition", p)
				return
			}
			status = append(status, p+":absent")
		}
		allOK = false
		// "...never reach the root; they are reported as missing files instead."
		if !missing {
			res.viol = fmt.Sprintf("planned file %q was not written but the missing-files indication is false (problems %v)", p, c10problems(problems))
			return
		}
		named := false
		for _, pr := range problems {
			if pr.Path == p || strings.HasPrefix(p, pr.Path+"/") {
				named = true
			}
		}
		if !named {
			res.viol = fmt.Sprintf("planned file %q was not written but no problem names it (problems %v)", p, c10problems(problems))
			return
		}
	}
	if got := after.files["u"]; got != sha1hex(c10U) {
		res.viol = "unrelated file u changed: " + got
		return
	}
	_ = allOK
	res.nontrivial = fired
	fe := "feed-ok"
	if feedErr != nil {
		fe = "feed-error"
	}
	if recv == nil {
		fe = "nothing-requested"
	}
	res.outcome = fmt.Sprintf("%s missing=%v %s", fe, missing, strings.Join(status, ","))
	return
}

func c10problems(ps []*core.Problem) []string {
	var out []string
	for _, p := range ps {
		out = append(out, p.Path+": "+vr.Short(p.Error, 90))
	}
	return out
}

func c10msg(m *rsync.Transmission) string {
	switch {
	case m == nil:
		return "<decode error>"
	case m == c10cancelMark:
		return "<cancel>"
	case m.Done:
		return fmt.Sprintf("Done error=%q", m.Error)
	case m.Operation == nil:
		return "<no operation>"
	case len(m.Operation.Data) > 0:
		return fmt.Sprintf("data %d bytes sha1=%s", len(m.Operation.Data), sha1hex(m.Operation.Data)[:8])
	default:
		return fmt.Sprintf("block start=%d count=%d", m.Operation.Start, m.Operation.Count)
	}
}

var c10nolog func(string, ...any)

// c10script returns the correct script for a plan (used to enumerate tampers).
func c10script(e *env, src, planName string, copyMode string) ([]*rsync.Transmission, error) {
	dir, sid := e.caseDir()
	defer e.dropCase(dir, sid)
	root := filepath.Join(dir, "root")
	if err := writeFileAt(filepath.Join(root, "u"), c10U, 1); err != nil {
		return nil, err
	}
	if _, _, err := c10setup(root, c10plan(planName)); err != nil {
		return nil, err
	}
	ep, err := newLocal(root, sid, noWatchConfig(0, 0))
	if err != nil {
		return nil, err
	}
	defer ep.Shutdown()
	if _, err, _ := ep.Scan(bg, nil, false); err != nil {
		return nil, err
	}
	deps, digs := core.TransitionDependencies(c10plan(planName))
	R, sigs, recv, err := ep.Stage(deps, digs)
	if err != nil || recv == nil {
		return nil, fmt.Errorf("stage: %v (receiver nil=%v)", err, recv == nil)
	}
	script, err := captureScript(src, R, sigs)
	if err != nil {
		return nil, err
	}
	// Finalize the receiver we are not going to use.
	feed(recv, len(R), nil)
	return script, nil
}

func TestC10(t *testing.T) {
	r := vr.New(t, "C10", "fault_enumeration")
	defer r.Finish()
	e := newEnv(t)
	src := c10source(e)

	if raw := vr.ReplayCase(); raw != nil {
		var c c10case
		if err := json.Unmarshal(raw, &c); err != nil {
			t.Fatalf("INFRA: replay case: %v", err)
		}
		res := c10run(e, src, c, t.Logf)
		t.Logf("replay %s: outcome %q verdict %q infra %q", vr.J(c), res.outcome, res.viol, res.infra)
		r.Case(vr.J(c), res.nontrivial)
		if res.infra != "" {
			t.Fatalf("INFRA: %s", res.infra)
		}
		if res.viol != "" {
			r.Violate(vr.J(c), res.viol, c, nil)
		}
		return
	}

	plans := []string{"P1", "P2", "P3", "PX1", "PX2"}
	pairPlans := []string{}
	if vr.Thorough() {
		pairPlans = []string{"P1", "P2"}
	}
	r.Rule("plan-shape leg PX1/PX2 (two orders): file->file changes {content AND executable bit on, content AND bit off, bit only on, bit only off, content that another root file already carries} plus a created directory with a file, same single tampers and continuations, portable permissions; main leg: plan of 4 changes (new directory with a small file, replacement of a 3-block file by an edited version, new empty file, new 150 kB file) in 3 orders; the correct rsync script for what Stage asks for (11 messages: data ops, block ops, Done) with EVERY single tamper {cut after k, decode error at k, invalid message at k, cancel at k, drop k, duplicate k, swap k/k+1, Done inserted before k, sender-side error for file ending at k, flip first/middle/last byte of data op k, shorten/lengthen data op k, data op -> block op, block op start+1/count+1/count-1/start out of range} (thorough: every ordered pair of tampers for two orders) x continuation {Transition on the same endpoint, resume on a new endpoint of the same session with a correct re-delivery}; plus MaximumStagingFileSize around the big file's size; plus the local-copy leg (a root file with the wanted digest is changed / truncated / extended / deleted / replaced by a directory between Scan and Stage) x {complete delivery, nothing delivered}; non-trivial = delivery reached the first tampered message; distinct by the whole case")
	r.Assume("digests are SHA-1 (session default); collisions are not modelled",
		"the staging area itself is not edited behind the endpoint's back",
		"a planned path that is not written must have the missing-files flag set and a problem naming it; a path left with its previous content counts as not written")

	var cases []c10case
	for _, p := range plans {
		script, err := c10script(e, src, p, "")
		if err != nil {
			t.Fatalf("INFRA: script for %s: %v", p, err)
		}
		r.Set("script_messages_"+p, len(script))
		singles := c10tampers(script)
		r.Set("single_tampers_"+p, len(singles))
		for _, cont := range []string{"same", "resume"} {
			cases = append(cases, c10case{Plan: p, Tampers: []c10tamper{{Kind: "none"}}, Cont: cont})
			for _, t1 := range singles {
				cases = append(cases, c10case{Plan: p, Tampers: []c10tamper{t1}, Cont: cont})
			}
			for _, mf := range []uint64{1, 100000, uint64(len(c10Big)) - 1, uint64(len(c10Big)), uint64(len(c10Big)) + 1} {
				cases = append(cases, c10case{Plan: p, Tampers: []c10tamper{{Kind: "none"}}, Cont: cont, MaxFile: mf})
			}
		}
		if contains(pairPlans, p) {
			npairs := 0
			for _, t1 := range singles {
				s1, _ := c10apply(cloneScript(script), t1)
				// The second tamper is enumerated over the once-tampered script (cancel
				// marks and decode errors are positions like any other).
				for _, t2 := range c10tampers(s1) {
					for _, cont := range []string{"same", "resume"} {
						cases = append(cases, c10case{Plan: p, Tampers: []c10tamper{t1, t2}, Cont: cont})
					}
					npairs++
				}
			}
			r.Set("tamper_pairs_"+p, npairs)
		}
	}
	for _, cm := range []string{"intact", "changed-same-size-same-mtime", "changed", "truncated", "extended", "deleted", "now-directory"} {
		for _, cont := range []string{"same", "resume"} {
			cases = append(cases, c10case{Plan: "PC", Tampers: []c10tamper{{Kind: "none"}}, Cont: cont, Copy: cm})
			cases = append(cases, c10case{Plan: "PC", Tampers: []c10tamper{{Kind: "cut", K: 0}}, Cont: cont, Copy: cm})
			cases = append(cases, c10case{Plan: "PC", Tampers: []c10tamper{{Kind: "flip", K: 0, Arg: 1}}, Cont: cont, Copy: cm})
		}
	}
	r.Set("cases", len(cases))

	var mu sync.Mutex
	var infra []string
	deadline := vr.Deadline(15*time.Minute, 50*time.Minute)
	var skipped atomic.Int64
	vr.Parallel(len(cases), func(i int) {
		if time.Now().After(deadline) {
			skipped.Add(1)
			return
		}
		c := cases[i]
		res := c10run(e, src, c, c10nolog)
		if res.infra != "" {
			// A tamper that needs a requested path which Stage did not ask for (copy leg) is not a case.
			if c.Plan == "PC" && strings.Contains(res.infra, "does not apply") {
				return
			}
			mu.Lock()
			if len(infra) < 5 {
				infra = append(infra, vr.J(c)+": "+res.infra)
			}
			mu.Unlock()
			return
		}
		key := vr.J(c)
		r.Case(key, res.nontrivial)
		if res.viol != "" {
			r.Outcome("violation")
			r.Violate(key, res.viol, c, func() bool { return c10run(e, src, c, c10nolog).viol != "" })
			return
		}
		r.Outcome(res.outcome)
	})
	if n := skipped.Load(); n > 0 {
		r.NotExhaustive(fmt.Sprintf("time budget reached: %d of %d cases not run", n, len(cases)))
	}
	if len(infra) > 0 {
		t.Fatalf("INFRA: %s", strings.Join(infra, "\n"))
	}
	r.Sample(c10case{Plan: "P1", Tampers: []c10tamper{{Kind: "flip", K: 0, Arg: 1}}, Cont: "same"})
	r.Sample(c10case{Plan: "P2", Tampers: []c10tamper{{Kind: "early-done", K: 2}}, Cont: "resume"})
	r.Sample(c10case{Plan: "PC", Tampers: []c10tamper{{Kind: "none"}}, Cont: "same", Copy: "changed-same-size-same-mtime"})
	_ = os.Remove
}
