//go:build verif

package endpoint

import (
	"encoding/json"
	"fmt"
	"os"
	"path/filepath"
	"strings"
	"sync"
	"sync/atomic"
	"syscall"
	"testing"
	"testing/synctest"
	"time"

	"github.com/mutagen-io/mutagen/pkg/synchronization"
	"github.com/mutagen-io/mutagen/pkg/synchronization/core"

	"verif/internal/vr"
)

// ---- C08, polling-endpoint leg ----
//
// The ondisk C08 check applies modifications between core.Scan and
// core.Transition. Here the real LOCAL ENDPOINT runs in force-poll mode (1 s)
// inside a testing/synctest bubble, so its background poller re-scans the root
// behind the controller's back. Events: Scan, one external modification of a
// planned path, advance 1.1 s / 3.1 s of virtual time (one / three poll ticks),
// Stage+receive, Transition of the plan derived from the LAST snapshot that
// Scan returned. Oracle: whatever was modified after that Scan returned must
// survive the Transition untouched (own lstat / bytes / readlink) and be
// reported as a problem.

type c08case struct {
	ScanMode string   `json:"scanmode"`           // accelerated | full
	Mod      string   `json:"mod"`                // the one external modification (event "mod")
	Events   []string `json:"events"`             // scan | mod | tick1 | tick3 | stage | transition
	ExecOnly bool     `json:"execonly,omitempty"` // C18 leg: only the executable bit of the modified file is judged
}

var (
	c08F0 = []byte("file f, scanned content\n")
	c08F1 = []byte("file f, the peer's new content!\n")
	c08G0 = []byte("file g, to be removed by the plan\n")
	c08X0 = []byte("#!/bin/sh\necho x old\n")
	c08X1 = []byte("#!/bin/sh\necho x, edited by the peer\n")
	c08C0 = []byte("child c of directory d\n")
)

// c08mods: the C08 kinds, each aimed at one planned path.
var c08mods = []string{
	"chmod-f",      // permission bits only (0644 -> 0600)
	"plusx-f",      // executable bit gained
	"minusx-x",     // executable bit lost
	"rewrite-f",    // same size, other bytes, new mtime
	"rewrite-g",    // same on the file the plan removes
	"resize-f",     // appended to
	"resize-g",     //
	"newinode-g",   // replaced by a new file with the same bytes, mode and mtime
	"newinode-x",   //
	"retarget-l",   // symbolic link points elsewhere
	"addchild-d",   // directory the plan removes gains a child
	"typechange-g", // file becomes a directory
	"typechange-d", // directory becomes a file
	"touch-f",      // modification time only
}

func c08initRoot(root string) error {
	steps := []func() error{
		func() error { return writeFileAt(filepath.Join(root, "f"), c08F0, 1) },
		func() error { return writeFileAt(filepath.Join(root, "g"), c08G0, 2) },
		func() error { return writeFileAt(filepath.Join(root, "x"), c08X0, 3) },
		func() error { return os.Chmod(filepath.Join(root, "x"), 0o755) },
		func() error { return writeFileAt(filepath.Join(root, "d", "c"), c08C0, 4) },
		func() error { return os.Symlink("f", filepath.Join(root, "l")) },
	}
	for _, s := range steps {
		if err := s(); err != nil {
			return err
		}
	}
	return nil
}

// c08apply performs the modification and returns the paths whose survival the
// oracle then watches ("dir:" prefix = only "is still a directory" is watched,
// because the plan may legitimately remove known children from it).
func c08apply(root, mod string) (watch []string, err error) {
	p := func(n string) string { return filepath.Join(root, filepath.FromSlash(n)) }
	replaceByNewInode := func(name string) error {
		info, err := os.Lstat(p(name))
		if err != nil {
			return err
		}
		data, err := os.ReadFile(p(name))
		if err != nil {
			return err
		}
		tmp := p(name + ".new")
		if err := os.WriteFile(tmp, data, info.Mode().Perm()); err != nil {
			return err
		}
		if err := os.Chmod(tmp, info.Mode().Perm()); err != nil {
			return err
		}
		if err := os.Chtimes(tmp, info.ModTime(), info.ModTime()); err != nil {
			return err
		}
		return os.Rename(tmp, p(name))
	}
	flip := func(b []byte) []byte { m := append([]byte{}, b...); m[0] ^= 0x20; return m }
	switch mod {
	case "chmod-f":
		return []string{"f"}, os.Chmod(p("f"), 0o600)
	case "plusx-f":
		return []string{"f"}, os.Chmod(p("f"), 0o755)
	case "minusx-x":
		return []string{"x"}, os.Chmod(p("x"), 0o644)
	case "rewrite-f":
		return []string{"f"}, writeFileAt(p("f"), flip(c08F0), 50)
	case "rewrite-g":
		return []string{"g"}, writeFileAt(p("g"), flip(c08G0), 50)
	case "resize-f":
		return []string{"f"}, writeFileAt(p("f"), append(append([]byte{}, c08F0...), "more\n"...), 50)
	case "resize-g":
		return []string{"g"}, writeFileAt(p("g"), append(append([]byte{}, c08G0...), "more\n"...), 50)
	case "newinode-g":
		return []string{"g"}, replaceByNewInode("g")
	case "newinode-x":
		return []string{"x"}, replaceByNewInode("x")
	case "retarget-l":
		if err := os.Remove(p("l")); err != nil {
			return nil, err
		}
		return []string{"l"}, os.Symlink("g", p("l"))
	case "addchild-d":
		return []string{"d/new", "dir:d"}, writeFileAt(p("d/new"), []byte("a child the plan does not know\n"), 50)
	case "typechange-g":
		if err := os.Remove(p("g")); err != nil {
			return nil, err
		}
		return []string{"dir:g"}, os.Mkdir(p("g"), 0o755)
	case "typechange-d":
		if err := os.RemoveAll(p("d")); err != nil {
			return nil, err
		}
		return []string{"d"}, writeFileAt(p("d"), []byte("d is a file now\n"), 50)
	case "touch-f":
		mt := mtimeBase.Add(50 * time.Second)
		return []string{"f"}, os.Chtimes(p("f"), mt, mt)
	}
	return nil, fmt.Errorf("unknown modification %q", mod)
}

// c08fingerprint is the independent record of one path: type, permission bits,
// size, mtime, inode, bytes / link target (directories: type and permissions).
func c08fingerprint(root, watch string) string {
	dirOnly := strings.HasPrefix(watch, "dir:")
	name := strings.TrimPrefix(watch, "dir:")
	full := filepath.Join(root, filepath.FromSlash(name))
	info, err := os.Lstat(full)
	if err != nil {
		return "absent"
	}
	if dirOnly || info.IsDir() {
		if !info.IsDir() {
			return "not-a-directory:" + info.Mode().String()
		}
		return "dir:" + info.Mode().String()
	}
	ino := uint64(0)
	if st, ok := info.Sys().(*syscall.Stat_t); ok {
		ino = st.Ino
	}
	if info.Mode()&os.ModeSymlink != 0 {
		t, _ := os.Readlink(full)
		return fmt.Sprintf("link:%s ino=%d", t, ino)
	}
	data, _ := os.ReadFile(full)
	return fmt.Sprintf("file:%s size=%d mtime=%d ino=%d sha1=%s", info.Mode().String(), info.Size(), info.ModTime().UnixNano(), ino, sha1hex(data))
}

// c08planFrom derives the plan from the snapshot the controller holds: f and x
// get the peer's new content (executability as scanned), g, l and d go away.
func c08planFrom(s *core.Snapshot) []*core.Change {
	var plan []*core.Change
	at := func(p string) *core.Entry { return entryAt(s.GetContent(), p) }
	for _, it := range []struct {
		path    string
		content []byte
	}{{"f", c08F1}, {"x", c08X1}} {
		old := at(it.path)
		ne := fileEntry(it.content)
		if old != nil && old.Kind == core.EntryKind_File {
			ne.Executable = old.Executable
		}
		if old != nil && old.Kind != core.EntryKind_File && old.Kind != core.EntryKind_Directory && old.Kind != core.EntryKind_SymbolicLink {
			continue
		}
		plan = append(plan, &core.Change{Path: it.path, Old: old, New: ne})
	}
	for _, p := range []string{"g", "l", "d"} {
		if old := at(p); old != nil {
			plan = append(plan, &core.Change{Path: p, Old: old})
		}
	}
	return plan
}

type c08result struct {
	viol       string
	infra      string
	invalid    bool
	nontrivial bool
	outcomes   []string
	events     int // events executed on the real endpoint
}

// c08execBit is the C18 view of a path: is it a regular file, and is any
// executable bit set.
func c08execBit(root, name string) string {
	info, err := os.Lstat(filepath.Join(root, filepath.FromSlash(name)))
	if err != nil {
		return "absent"
	}
	if !info.Mode().IsRegular() {
		return "not-a-file"
	}
	return fmt.Sprintf("file executable=%v", info.Mode().Perm()&0o111 != 0)
}

func c08run(t *testing.T, e *env, src string, c c08case, logfn func(string, ...any)) (res c08result) {
	logf := func(f string, a ...any) {
		if logfn != nil {
			logfn(f, a...)
		}
	}
	cfg := &synchronization.Configuration{
		WatchMode:            synchronization.WatchMode_WatchModeForcePoll,
		WatchPollingInterval: 1,
	}
	switch c.ScanMode {
	case "accelerated":
		cfg.ScanMode = synchronization.ScanMode_ScanModeAccelerated
	case "full":
		cfg.ScanMode = synchronization.ScanMode_ScanModeFull
	default:
		res.infra = "unknown scan mode " + c.ScanMode
		return
	}
	synctest.Test(t, func(t *testing.T) {
		dir, sid := e.caseDir()
		defer e.dropCase(dir, sid)
		root := filepath.Join(dir, "root")
		if err := c08initRoot(root); err != nil {
			res.infra = err.Error()
			return
		}
		ep, err := newLocal(root, sid, cfg)
		if err != nil {
			res.infra = "endpoint: " + err.Error()
			return
		}
		defer ep.Shutdown()
		synctest.Wait()         // the poller's baseline scan is done
		var last *core.Snapshot // the last snapshot Scan returned to the "controller"
		var watch []string      // paths modified after that Scan returned
		modded := false
		for i, ev := range c.Events {
			res.events++
			switch ev {
			case "scan":
				s, err, _ := ep.Scan(bg, nil, false)
				if err != nil {
					res.infra = fmt.Sprintf("event %d scan: %v", i, err)
					return
				}
				last = s
				watch = nil // whatever happened before is the scan's business (it may or may not have recorded it)
				logf("event %d scan: %s", i, c21entry(s.Content))
			case "mod":
				if modded {
					res.invalid = true
					return
				}
				modded = true
				// The modification is of something that exists; a history in which an
				// earlier transition already removed its target is not a history of this kind.
				target := c.Mod[strings.LastIndex(c.Mod, "-")+1:]
				if _, err := os.Lstat(filepath.Join(root, target)); err != nil {
					res.invalid = true
					return
				}
				preMod := c08fingerprint(root, target)
				w, err := c08apply(root, c.Mod)
				if err != nil {
					res.infra = fmt.Sprintf("event %d %s: %v", i, c.Mod, err)
					return
				}
				if c.Mod != "addchild-d" && c08fingerprint(root, target) == preMod {
					res.invalid = true // e.g. chmod to the mode an earlier transition already gave the file
					return
				}
				if last != nil {
					watch = w
				}
				logf("event %d mod %s: disk %s", i, c.Mod, walkRoot(root))
			case "tick1":
				time.Sleep(1100 * time.Millisecond)
			case "tick3":
				time.Sleep(3100 * time.Millisecond)
			case "stage":
				if last == nil {
					res.invalid = true
					return
				}
				deps, digs := core.TransitionDependencies(c08planFrom(last))
				sortDeps(deps, digs)
				R, sigs, recv, err := ep.Stage(append([]string(nil), deps...), digs)
				logf("event %d stage: asked %v required %v err=%v", i, deps, R, err)
				if err != nil {
					res.outcomes = append(res.outcomes, "stage:error")
					return // endpoint contract: no further calls
				}
				if recv != nil {
					script, err := captureScript(src, R, sigs)
					if err == nil {
						err = feed(recv, len(R), script)
					}
					if err != nil {
						res.infra = "feed: " + err.Error()
						return
					}
				}
			case "transition":
				if last == nil {
					res.invalid = true
					return
				}
				plan := c08planFrom(last)
				before := map[string]string{}
				fp := c08fingerprint
				if c.ExecOnly {
					fp = c08execBit
				}
				for _, w := range watch {
					before[w] = fp(root, w)
				}
				results, problems, missing, err := ep.Transition(bg, plan)
				logf("event %d transition: results=%s problems=%v missing=%v err=%v; disk %s", i, c21entries(results), c10problems(problems), missing, err, walkRoot(root))
				if err != nil {
					res.outcomes = append(res.outcomes, "transition:error")
					return
				}
				// "A transition never deletes or replaces a file whose type, permissions,
				// size, modification time or file identity differs from what the preceding
				// scan recorded, or a symbolic link whose target differs. It never deletes a
				// directory that contains entries the plan did not know about"
				for _, w := range watch {
					if after := fp(root, w); after != before[w] {
						if c.ExecOnly {
							// C18: "a file's executable bit on that endpoint is never changed by
							// synchronization ... even when the file's content is edited on the
							// other endpoint" - the bit the user set after the scan must stand.
							res.viol = fmt.Sprintf("event %d: the user set %q to [%s] (%s) after the last Scan returned; after the Transition that applies the peer's content edit it is [%s]", i, w, before[w], c.Mod, after)
							return
						}
						res.viol = fmt.Sprintf("event %d: %q was modified (%s) after the last Scan returned, and the Transition changed it: %s -> %s", i, strings.TrimPrefix(w, "dir:"), c.Mod, before[w], after)
						return
					}
				}
				// "such paths are reported as problems and left as they are"
				if len(watch) > 0 {
					top := strings.SplitN(strings.TrimPrefix(watch[0], "dir:"), "/", 2)[0]
					named := false
					planned := false
					for _, ch := range plan {
						if ch.Path == top {
							planned = true
						}
					}
					if !planned {
						named = true // the plan does not touch the path: nothing to report
					}
					for _, pr := range problems {
						if pr.Path == top || strings.HasPrefix(pr.Path, top+"/") {
							named = true
						}
					}
					if !named && c.ExecOnly {
						res.outcomes = append(res.outcomes, "transition:bit-kept-but-not-reported")
						named = true
					}
					if !named {
						res.viol = fmt.Sprintf("event %d: %q was modified (%s) after the last Scan returned, survived, but no problem reports it (problems %v)", i, top, c.Mod, c10problems(problems))
						return
					}
					res.nontrivial = true
					res.outcomes = append(res.outcomes, "transition:modified-path-kept-and-reported")
				} else {
					res.outcomes = append(res.outcomes, fmt.Sprintf("transition:nothing-to-protect:problems=%v", len(problems) > 0))
				}
				watch = nil
			default:
				res.infra = "unknown event " + ev
				return
			}
			synctest.Wait()
		}
	})
	return
}

func c08source(e *env) string {
	src := filepath.Join(e.base, "c08src")
	for p, content := range map[string][]byte{"f": c08F1, "x": c08X1} {
		if err := writeFileAt(filepath.Join(src, p), content, 1); err != nil {
			e.t.Fatalf("INFRA: %v", err)
		}
	}
	return src
}

func TestC08EndpointPoll(t *testing.T) {
	r := vr.New(t, "C08", "fault_enumeration")
	defer r.Finish()
	c08explore(t, r, c08mods, false)
}

// TestC18EndpointPoll is the same bubble exploration restricted to the
// executable-bit modifications (and a chmod of other bits as control), judged
// by C18's clause only: the plan replaces the CONTENT of f and x (the peer's
// edit, executability as scanned), and the bit the user set after the last
// returned Scan must be the bit on disk afterwards.
func TestC18EndpointPoll(t *testing.T) {
	r := vr.New(t, "C18", "model_checking")
	defer r.Finish()
	c08explore(t, r, []string{"plusx-f", "minusx-x", "chmod-f"}, true)
}

func c08explore(t *testing.T, r *vr.Report, mods []string, execOnly bool) {
	e := newEnv(t)
	src := c08source(e)
	if raw := vr.ReplayCase(); raw != nil {
		var c c08case
		if err := json.Unmarshal(raw, &c); err != nil {
			t.Fatalf("INFRA: replay case: %v", err)
		}
		res := c08run(t, e, src, c, t.Logf)
		t.Logf("replay %s: outcomes %v verdict %q infra %q", vr.J(c), res.outcomes, res.viol, res.infra)
		r.Case(vr.J(c), res.nontrivial)
		r.Set("states", 1)
		r.Set("transitions", res.events)
		r.Set("traces_validated_against_impl", 1)
		if res.infra != "" {
			t.Fatalf("INFRA: %s", res.infra)
		}
		if res.viol != "" {
			r.Violate(vr.J(c), res.viol, c, nil)
		}
		return
	}
	depth := 6
	if vr.Thorough() {
		depth = 7
	}
	base := []string{"scan", "tick1", "tick3", "stage", "transition"}
	// Histories: exactly one "mod" event somewhere, the rest from base, ending in
	// transition, with a scan before the first stage/transition (others are
	// invalid for a controller and skipped).
	var seqs [][]string
	{
		seq := make([]string, depth)
		var rec func(pos int, used bool)
		rec = func(pos int, used bool) {
			if pos == depth {
				if used && seq[depth-1] == "transition" {
					seqs = append(seqs, append([]string(nil), seq...))
				}
				return
			}
			for _, o := range base {
				seq[pos] = o
				rec(pos+1, used)
			}
			if !used {
				seq[pos] = "mod"
				rec(pos+1, true)
			}
		}
		rec(0, false)
	}
	// Drop histories whose first stage/transition precedes any scan, and those where
	// the modification is not followed by a transition without a scan in between
	// (nothing for this oracle to judge).
	var kept [][]string
	for _, s := range seqs {
		scanned, ok, judged := false, true, false
		afterMod := false
		for _, ev := range s {
			switch ev {
			case "scan":
				scanned = true
				afterMod = false
			case "stage", "transition":
				if !scanned {
					ok = false
				}
				if ev == "transition" && afterMod {
					judged = true
				}
			case "mod":
				afterMod = scanned
			}
		}
		if ok && judged {
			kept = append(kept, s)
		}
	}
	seqs = kept
	r.Rule(fmt.Sprintf("polling-endpoint leg: real local endpoint, force-poll 1 s, scan mode {accelerated, full}, one testing/synctest bubble per history; tree {f, g, x (executable), l -> f, d/c}; plan derived from the last snapshot Scan returned (f, x: new content; g, l, d: removed); one modification from %v (execonly=%v: only the executable bit of the modified file is judged); every history of exactly %d events from {scan, mod, advance 1.1 s, advance 3.1 s, stage+receive, transition} with exactly one mod, ending in transition, in which a scan precedes the first stage/transition and some transition follows the mod with no scan in between; non-trivial = a modified path was protected and reported; distinct by the whole case", mods, execOnly, depth))
	r.Assume("judged only: modifications made after the last Scan returned to the caller (what an accelerated Scan recorded about earlier modifications depends on the poller and is not modelled)",
		"a history ends at the first endpoint call that returns an error", "harness events happen at quiescence (synctest.Wait); virtual time moves only through the advance events")
	r.Set("histories_per_modification_and_mode", len(seqs))

	type job struct {
		mode, mod string
		lo, hi    int
	}
	var jobs []job
	const chunk = 40
	for _, mode := range []string{"accelerated", "full"} {
		for _, mod := range mods {
			for lo := 0; lo < len(seqs); lo += chunk {
				jobs = append(jobs, job{mode, mod, lo, min(lo+chunk, len(seqs))})
			}
		}
	}
	queue := make(chan job, len(jobs))
	for _, j := range jobs {
		queue <- j
	}
	close(queue)
	var mu sync.Mutex
	var infra []string
	deadline := vr.Deadline(12*time.Minute, 40*time.Minute)
	var skipped, histories, events atomic.Int64
	t.Run("bubbles", func(t *testing.T) {
		for wk := 0; wk < vr.Workers(); wk++ {
			t.Run(fmt.Sprintf("w%d", wk), func(t *testing.T) {
				t.Parallel()
				l := r.Local()
				defer l.Flush()
				for j := range queue {
					if time.Now().After(deadline) {
						skipped.Add(1)
						continue
					}
					for _, seq := range seqs[j.lo:j.hi] {
						c := c08case{ScanMode: j.mode, Mod: j.mod, Events: seq, ExecOnly: execOnly}
						res := c08run(t, e, src, c, nil)
						if res.invalid {
							continue
						}
						histories.Add(1)
						events.Add(int64(res.events))
						if res.infra != "" {
							mu.Lock()
							if len(infra) < 5 {
								infra = append(infra, vr.J(c)+": "+res.infra)
							}
							mu.Unlock()
							continue
						}
						l.Case(vr.J(c), res.nontrivial)
						for _, o := range res.outcomes {
							l.Outcome(o)
						}
						if res.viol != "" {
							l.Outcome("violation")
							r.Violate(vr.J(c), res.viol, c, func() bool { return c08run(t, e, src, c, nil).viol != "" })
						}
					}
				}
			})
		}
	})
	// model_checking evidence keys (used by the C18 registration): distinct
	// histories explored, events executed, histories run on the real endpoint.
	r.Set("states", histories.Load())
	r.Set("transitions", events.Load())
	r.Set("traces_validated_against_impl", histories.Load())
	if n := skipped.Load(); n > 0 {
		r.NotExhaustive(fmt.Sprintf("time budget reached: %d of %d work units not run", n, len(jobs)))
	}
	if len(infra) > 0 {
		t.Fatalf("INFRA: %s", strings.Join(infra, "\n"))
	}
	r.Sample(c08case{ScanMode: "accelerated", Mod: "plusx-f", Events: []string{"scan", "mod", "tick1", "stage", "transition"}, ExecOnly: execOnly})
	r.Sample(c08case{ScanMode: "full", Mod: mods[1], Events: []string{"scan", "tick1", "mod", "tick3", "transition"}, ExecOnly: execOnly})
}
